(** Expressions that labrea itself derives from the primitive classes, mirrored as macros:
    Dataset._composed, Overloaded.switch, the collection helpers, pipeline steps. *)
From Coq Require Import List NArith ZArith Bool.
Import ListNotations.
From LV Require Import Model.Base Model.Template Model.Eval.

(** [Dataset]: overloads (dispatch, lookup table, default), callback pipeline, effects, cache,
    pre-set and default options, effects-disabled toggle. *)
Record dsrec := {
  ds_dispatch : expr;                    (* Value(MISSING) when there is no dispatch *)
  ds_table : list (value * expr);        (* Overloaded.lookup, most recent registration first *)
  ds_default : option expr;              (* None: abstract dataset *)
  ds_callback : expr;                    (* Pipeline() + callback *)
  ds_effects : list expr;                (* CallbackEffect callbacks *)
  ds_effects_disabled : bool;
  ds_cache : cache_ref;
  ds_options : dict;
  ds_default_options : dict
}.

(** [Dataset._composed] (dataset.py): WithDefaultOptions(WithOptions(cached(Logged(base)), options),
    default_options) with base = Computation(overloads.apply(callback), ChainedEffect(effects)) *)
Definition dataset_expr (d : dsrec) : expr :=
  let calc := EApply (ESwitch d.(ds_dispatch) d.(ds_table) d.(ds_default)) d.(ds_callback) in
  let base := if d.(ds_effects_disabled) then calc else EComp calc d.(ds_effects) in
  EWith false d.(ds_default_options)
    (EWith true d.(ds_options)
       (ECached d.(ds_cache) (ELogged base))).

Definition no_dispatch : expr := EValue VMissing.
Definition empty_callback : expr := EPipe [].

(** [FunctionApplication.lift(f)]: the body applied to its (keyword) defaults *)
Definition body (f : N) (kwargs : list expr) : expr := ECall false (EValue (VF f [] [])) [] kwargs.

(** [@pipeline_step def f(x, p1=…, p2=…)] *)
Definition pstep (f : N) (params : list expr) : expr := ECall true (EValue (VF f [] [])) [] params.

(** collections.py *)
Definition elist (es : list expr) : expr := EApply (EIter es) (EValue (VF B_LIST [] [])).
Definition etuple (es : list expr) : expr := EApply (EIter es) (EValue (VF B_TUPLE [] [])).
Definition edict (kvs : list (value * expr)) : expr :=
  EApply (EIter (map (fun kv => EIter [EValue (fst kv); snd kv]) kvs)) (EValue (VF B_DICT [] [])).

(** [with_options] / [with_default_options] (after fix 3f28b1e the callback is kept) *)
Definition ds_with_options (d : dsrec) (p : dict) : dsrec :=
  {| ds_dispatch := d.(ds_dispatch); ds_table := d.(ds_table); ds_default := d.(ds_default);
     ds_callback := d.(ds_callback); ds_effects := d.(ds_effects); ds_effects_disabled := false;
     ds_cache := d.(ds_cache); ds_options := mix d.(ds_options) p;
     ds_default_options := d.(ds_default_options) |}.

Definition ds_with_default_options (d : dsrec) (p : dict) : dsrec :=
  {| ds_dispatch := d.(ds_dispatch); ds_table := d.(ds_table); ds_default := d.(ds_default);
     ds_callback := d.(ds_callback); ds_effects := d.(ds_effects); ds_effects_disabled := false;
     ds_cache := d.(ds_cache); ds_options := d.(ds_options);
     ds_default_options := mix d.(ds_default_options) p |}.
