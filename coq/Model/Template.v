(** Model of confectioner.templating.resolve / find_template_keys over token strings, and of
    Python's [str()] on the scalar JSON values that can be substituted into a template.
    Executable definitions only. *)
From Coq Require Import List NArith ZArith Bool DecimalString Decimal.
Import ListNotations.
From LV Require Import Model.Base.

(** [find_template_keys]: the {KEY} references of a string, left to right (a set in Python). *)
Definition refs (s : str) : list key :=
  flat_map (fun t => match t with TRef k => [k] | _ => [] end) s.

Definition pars (s : str) : list N :=
  flat_map (fun t => match t with TPar p => [p] | _ => [] end) s.

Definition is_templ (t : tok) : bool :=
  match t with TRef _ | TPar _ => true | _ => false end.
Definition has_templ (s : str) : bool := existsb is_templ s.

(** The dictionary key under which Template.evaluate stores parameter [p] (":p:"): an atom range
    disjoint from the option names the harness generates. *)
Definition par_base : N := 1000000%N.
Definition par_key (p : N) : key := [SName (par_base + p)].

(** [o.replace("\\{","{").replace("\\}","}")] *)
Definition unescape (s : str) : str :=
  map (fun t => match t with TEscL => TLit 123 | TEscR => TLit 125 | _ => t end) s.

(** ** [str(v)] for the values the model substitutes: None/bool/int/str. *)
Definition lit (s : list N) : str := map TLit s.

Fixpoint digits_of_uint (d : Decimal.uint) : list N :=
  match d with
  | Decimal.Nil => []
  | Decimal.D0 d' => 48%N :: digits_of_uint d'
  | Decimal.D1 d' => 49%N :: digits_of_uint d'
  | Decimal.D2 d' => 50%N :: digits_of_uint d'
  | Decimal.D3 d' => 51%N :: digits_of_uint d'
  | Decimal.D4 d' => 52%N :: digits_of_uint d'
  | Decimal.D5 d' => 53%N :: digits_of_uint d'
  | Decimal.D6 d' => 54%N :: digits_of_uint d'
  | Decimal.D7 d' => 55%N :: digits_of_uint d'
  | Decimal.D8 d' => 56%N :: digits_of_uint d'
  | Decimal.D9 d' => 57%N :: digits_of_uint d'
  end.

Definition digits_N (n : N) : list N :=
  match n with N0 => [48%N] | _ => digits_of_uint (N.to_uint n) end.

Definition str_of_Z (z : Z) : str :=
  match z with
  | Z0 => lit [48%N]
  | Zpos p => lit (digits_N (Npos p))
  | Zneg p => lit (45%N :: digits_N (Npos p))
  end.

(** [None]: a value whose [str()] the model does not cover (floats, dictionaries, lists holding
    strings or containers). *)
Definition scalar_str (v : json) : option str :=
  match v with
  | JNull => Some (lit [78; 111; 110; 101]%N)                 (* "None" *)
  | JBool true => Some (lit [84; 114; 117; 101]%N)            (* "True" *)
  | JBool false => Some (lit [70; 97; 108; 115; 101]%N)       (* "False" *)
  | JInt z => Some (str_of_Z z)
  | _ => None
  end.

Fixpoint list_str (l : list json) : option str :=
  match l with
  | [] => Some []
  | [v] => scalar_str v
  | v :: l' =>
      match scalar_str v, list_str l' with
      | Some a, Some b => Some (a ++ lit [44; 32]%N ++ b)       (* ", " *)
      | _, _ => None
      end
  end.

Definition to_str (v : json) : option str :=
  match v with
  | JStr s => Some s
  | JList l => match list_str l with Some r => Some (lit [91%N] ++ r ++ lit [93%N]) | None => None end
  | _ => scalar_str v
  end.

(** ** resolve *)
Inductive rres :=
| ROk (v : json)
| RMissing (k : key)      (* KeyError: the referenced key is absent *)
| RTypeErr                (* TypeError from a scalar parent *)
| RFuel                   (* RecursionError: cyclic / too deep reference chain *)
| RUnmodelled.            (* substitution of a value whose str() is outside the model *)

(** one substitution pass over a string with several references: every {KEY} (and {:p:}) is
    replaced by [str(get_dotted_key(KEY, options))] *)
Fixpoint subst (o : dict) (s : str) : rres :=
  match s with
  | [] => ROk (JStr [])
  | t :: s' =>
      let one (k : key) :=
        match lookup k (JObj o) with
        | Found v =>
            match to_str v with
            | Some sv =>
                match subst o s' with
                | ROk (JStr r) => ROk (JStr (sv ++ r))
                | e => e
                end
            | None => RUnmodelled
            end
        | Absent => RMissing k
        | TypeErr => RTypeErr
        end in
      match t with
      | TRef k => one k
      | TPar p => one (par_key p)
      | _ => match subst o s' with ROk (JStr r) => ROk (JStr (t :: r)) | e => e end
      end
  end.

Definition resolve_list (rec : json -> rres) : list json -> rres :=
  fix go (l : list json) : rres :=
    match l with
    | [] => ROk (JList [])
    | v :: l' =>
        match rec v with
        | ROk v' => match go l' with ROk (JList r) => ROk (JList (v' :: r)) | e => e end
        | e => e
        end
    end.

Definition resolve_obj (rec : json -> rres) : dict -> rres :=
  fix go (m : dict) : rres :=
    match m with
    | [] => ROk (JObj [])
    | (k, v) :: m' =>
        match rec v with
        | ROk v' => match go m' with ROk (JObj r) => ROk (JObj ((k, v') :: r)) | e => e end
        | e => e
        end
    end.

(** [resolve(v, options)]; structural on the value for containers, fuelled for reference chains
    (each reference hop consumes one unit). *)
Fixpoint resolve (fuel : nat) (o : dict) (v : json) {struct fuel} : rres :=
  match fuel with
  | O => RFuel
  | S fuel' =>
      (fix inner (v : json) {struct v} : rres :=
         match v with
         | JObj m => resolve_obj (fun x => inner x) m
         | JList l => resolve_list (fun x => inner x) l
         | JStr s =>
             match s with
             | [TRef k] =>
                 match lookup k (JObj o) with
                 | Found v' => resolve fuel' o v'
                 | Absent => RMissing k
                 | TypeErr => RTypeErr
                 end
             | [TPar p] =>
                 match lookup (par_key p) (JObj o) with
                 | Found v' => resolve fuel' o v'
                 | Absent => RMissing (par_key p)
                 | TypeErr => RTypeErr
                 end
             | _ =>
                 if has_templ s then
                   match subst o s with
                   | ROk v' => resolve fuel' o v'
                   | e => e
                   end
                 else ROk (JStr (unescape s))
             end
         | _ => ROk v
         end) v
  end.
