(** Concrete instance of the request layer (Model/Requests.v) for the correspondence check of
    C18: the real memo store and table-driven user functions of Model/EvalRun.v, handler
    tables described by data, histories of operations, printers. *)
From Coq Require Import List NArith ZArith Bool String.
Import ListNotations.
From LV Require Import Model.Show Model.Base Model.Template Model.Eval Model.Derived Model.EvalRun Model.Requests.
Open Scope string_scope.

Definition show_path (p : path) : string := String.concat "." (map showNat p).

Definition kind_tag (k : rkind) : string :=
  match k with
  | KEval => "E" | KValidate => "V" | KKeys => "K" | KExplain => "X"
  | KCacheExists => "ce" | KCacheGet => "cg" | KCacheSet => "cs" | KLog => "L" | KType => "T"
  end.

(** a request as the harness sees it: kind and position of the node (cache requests also name
    the cache object) *)
Definition show_rq (r : rq) : string :=
  kind_tag r.(rq_kind) ++ ":" ++ show_path r.(rq_path) ++
  match r.(rq_kind), r.(rq_node) with
  | (KCacheExists | KCacheGet | KCacheSet), ECached (CMem c) _ => "#" ++ showN c
  | (KCacheExists | KCacheGet | KCacheSet), ECached CNone _ => "#-"
  | _, _ => ""
  end.

(** the table in which every modelled class is wrapped (what reflection finds on the unchanged
    implementation, restricted to the modelled classes) *)
Definition full_row (i : N) (c : ctor) : rrow :=
  {| rr_class := i; rr_ctor := Some c; rr_eval := true; rr_validate := true; rr_keys := true;
     rr_explain := true; rr_side := true |}.
Definition full_table : rtable :=
  (fix go (i : N) (l : list ctor) : rtable :=
     match l with [] => [] | c :: l' => full_row i c :: go (N.succ i) l' end) 1%N all_ctors.

(** ** Handler tables as data *)
Definition kind_mem (k : rkind) (l : list rkind) : bool := existsb (rkind_eqb k) l.

(** recording pass-through handlers for the kinds in [hs_pass]; when [hs_val] is [Some v] the
    EvaluateRequest handler answers [v] for the positions [hs_sel] *)
Record hspec := { hs_pass : list rkind; hs_sel : list path; hs_val : option value }.

Definition no_hspec : hspec := {| hs_pass := []; hs_sel := []; hs_val := None |}.

Definition htable_of (h : hspec) : htable :=
  fun k =>
    match k, h.(hs_val) with
    | KEval, Some v =>
        Some (fun r => if path_mem r.(rq_path) h.(hs_sel) then AAnswer v
                       else ADefault (kind_mem KEval h.(hs_pass)))
    | _, _ => if kind_mem k h.(hs_pass) then Some (fun _ => ADefault true) else None
    end.

(** ** Histories *)
(** [vis]: the positions of the user-visible nodes (live objects built by the harness); requests
    on other positions (wrapper layers inside datasets, collection helpers, …) are not printed.
    Cache requests are identified by their cache object and always printed. *)
Definition printed (vis : option (list path)) (r : rq) : bool :=
  match vis with
  | None => true
  | Some ps =>
      match r.(rq_kind) with
      | KCacheExists | KCacheGet | KCacheSet => true
      | _ => path_mem r.(rq_path) ps
      end
  end.

(** core events | number of requests issued | requests seen by the installed handlers *)
Definition show_hist (vis : option (list path)) (l : list hev) : string :=
  String.concat " " (flat_map show_event (core_events l)) ++ "|" ++
  showNat (List.length (issued l)) ++ "|" ++
  String.concat " " (map show_rq (filter (printed vis) (seen l))).

Definition run_op_rq (t : ftable) (rt : rtable) (vis : option (list path)) (es : list expr) (p : op) (h : hspec) (s : store) : string * store :=
  let e := nth p.(op_expr) es (EValue VMissing) in
  let u := ucall_of t in
  let pth : path := [p.(op_expr)] in
  let H := htable_of h in
  let fin {A} (sh : A -> string) (x : res A * store * list hev) :=
    let '(r, s', l) := x in (show_res sh r ++ "|" ++ show_hist vis l, s') in
  let forced (x : res value * store * list hev) :=
    let '(r, s', l) := x in
    match r with
    | Ok v => match deep_err v with Some c => (Err c true, s', l) | None => (r, s', l) end
    | _ => (r, s', l)
    end in
  let site := clean_at u default_fuel in
  match p.(op_meth) with
  | MEval => fin show_value (forced (run store H (deval store mem_find mem_store p.(op_cfg) u default_fuel site rt pth e p.(op_opts)) s))
  | MValidate => fin (fun _ => "()") (run store H (dvalidate store mem_find mem_store p.(op_cfg) u default_fuel site rt pth e p.(op_opts)) s)
  | MKeys => fin show_keys (run store H (dkeys store mem_find mem_store p.(op_cfg) u default_fuel site rt pth e p.(op_opts)) s)
  | MExplain => fin show_keys (run store H (dexplain store mem_find mem_store p.(op_cfg) u default_fuel site rt pth e p.(op_opts)) s)
  end.

Fixpoint run_ops_rq (t : ftable) (rt : rtable) (vis : option (list path)) (es : list expr) (ops : list (op * hspec)) (s : store) : list string :=
  match ops with
  | [] => []
  | (p, h) :: ops' => let '(line, s') := run_op_rq t rt vis es p h s in line :: run_ops_rq t rt vis es ops' s'
  end.

(** one scenario -> one line: observations joined by " ## ";
    each observation is  result|core events|#requests issued|requests seen by the handlers *)
Definition run_scenario_rq (t : ftable) (rt : rtable) (vis : option (list path)) (es : list expr) (ops : list (op * hspec)) : string :=
  String.concat " ## " (run_ops_rq t rt vis es ops []).
