(** The expression language of labrea and its four interpreters (evaluate / validate / keys /
    explain), transcribed clause by clause from the classes in labrea/*.py as they are in /repo
    now.  One generic interpreter, parameterised by the memo-store type [S] and its two
    operations; instantiated with the real store (an association list per MemoryCache object)
    and with [unit] (the cache-free reference: what [labrea.cache.disabled()] does).
    Executable definitions only; no proofs in this file. *)
From Coq Require Import List NArith ZArith Bool.
Import ListNotations.
From LV Require Import Model.Base Model.Template.

(** ** Failure causes *)
Inductive cause :=
| CKey (k : key)      (* KeyNotFoundError(key) *)
| CSwitch             (* SwitchError *)
| CCase               (* CaseWhenError *)
| CDomain             (* ValueError from Option._enforce_domain *)
| CUser (n : N)       (* exception raised by user code *)
| CType               (* TypeError (scalar parent, not callable, not iterable) *)
| CInsuff             (* InsufficientInformationError *)
| CFuel               (* RecursionError *)
| CUnmodelled.        (* behaviour outside the modelled universe *)


(** ** Values *)
Inductive value :=
| VJ (j : json)                              (* a JSON value (from options or a constant) *)
| VT (tag : N) (args : list value)           (* tagged tuple: results of user functions; reserved
                                                tags for iterables / list / tuple / dict / pair *)
| VF (f : N) (pre post : list value)         (* callable: function atom with captured positional
                                                ([pre]) and keyword ([post]) arguments *)
| VMissing                                   (* labrea._missing.MISSING *)
| VErr (c : cause).                          (* inside a lazily evaluated iterable (Iter / Map return
                                                generators): the element whose evaluation fails when
                                                the iterable is consumed; never a result by itself *)

Definition T_ITER : N := 1.  Definition T_LIST : N := 2.  Definition T_TUPLE : N := 3.
Definition T_DICT : N := 4.  Definition T_PAIR : N := 5.
Definition B_LIST : N := 1.  Definition B_TUPLE : N := 2.  Definition B_DICT : N := 3.
Definition B_COMPOSE : N := 4.

Definition values_eq (rec : value -> value -> bool) : list value -> list value -> bool :=
  fix go (x y : list value) : bool :=
    match x, y with
    | [], [] => true
    | a :: x', b :: y' => rec a b && go x' y'
    | _, _ => false
    end.

(** Python [==] on values (dispatch lookup, case predicates, domain membership). *)
Fixpoint value_eq (a b : value) {struct a} : bool :=
  match a, b with
  | VJ x, VJ y => json_eq x y
  | VT t x, VT u y => N.eqb t u && values_eq (fun p q => value_eq p q) x y
  | VF f p q, VF g p' q' =>
      N.eqb f g && values_eq (fun p q => value_eq p q) p p' && values_eq (fun p q => value_eq p q) q q'
  | VMissing, VMissing => true
  | _, _ => false
  end.

(** hashable values (dict keys, switch dispatch values): lists and dicts are not *)
Fixpoint hashable (v : value) : bool :=
  match v with
  | VJ (JList _) | VJ (JObj _) => false
  | VT t args =>
      negb (N.eqb t T_ITER || N.eqb t T_LIST || N.eqb t T_DICT) &&
      (fix go (l : list value) : bool := match l with [] => true | x :: l' => hashable x && go l' end) args
  | _ => true
  end.

(** Python truthiness *)
Definition truthy (v : value) : bool :=
  match v with
  | VJ JNull => false
  | VJ (JBool b) => b
  | VJ (JInt z) => negb (Z.eqb z 0)
  | VJ (JStr []) => false
  | VJ (JList []) => false
  | VJ (JObj []) => false
  | VT t [] => negb (N.eqb t T_LIST || N.eqb t T_TUPLE || N.eqb t T_DICT)   (* empty list, tuple, dict are falsy; a generator object and a tagged user tuple (Tag,) are truthy *)
  | VMissing => true
  | _ => true
  end.

(** ** Results *)
(** [ee]: is the exception an instance of EvaluationError (decides which handlers catch it) *)
Inductive res (A : Type) :=
| Ok (a : A)
| Err (c : cause) (ee : bool).
Arguments Ok {A} a.
Arguments Err {A} c ee.

Inductive cres := COk (v : value) | CRaise (n : N).

(** ** Events: the monotone history every interpreter appends to. *)
Inductive event :=
| EvRead (k : key) (present : bool)     (* an option key was looked up in the current dictionary *)
| EvReadAll                             (* AllOptions: the whole dictionary was read *)
| EvCall (f : N) (args : list value)    (* user code ran (dataset body, step, predicate, effect…) *)
| EvLogReq                              (* a LogRequest was issued (Logged.evaluate) *)
| EvLogEmit                             (* … and emitted by the logging handler *)
| EvCacheExists (c : N) (hit : bool)
| EvCacheGet (c : N) (hit : bool)
| EvCacheSet (c : N)
| EvLazyStored (c : N)                  (* GHOST: a value holding a generator (Iter/Map result) was
                                           stored: the cache keeps the generator OBJECT, which the
                                           first consumer exhausts (finding D21) *)
| EvDirty (c : N).                      (* GHOST: a cache site was used under a dictionary for which
                                           the cached expression's reads are not all reported by
                                           keys() (the side condition of C01; see [site_ok]) *)

(** ** Expressions: one constructor per class that has its own four methods. *)
Inductive cache_ref := CMem (c : N) | CNone.     (* MemoryCache object id | NoCache *)

Definition fp := list (key * json).              (* fingerprint: sorted keys with their values *)

Inductive expr :=
| EValue (v : value)                                             (* types.Value *)
| EOption (k : key) (dflt : option expr) (dom : option expr)     (* option.Option *)
| EApply (src : expr) (fn : expr)                                (* types.Apply  (>>) *)
| EBind (src : expr) (tbl : list (value * expr)) (dflt : option expr)
                                  (* types.Bind with func given as a finite table + otherwise *)
| ESwitch (disp : expr) (tbl : list (value * expr)) (dflt : option expr)
                                  (* conditional.Switch; overload.Overloaded.switch *)
| ECase (disp : expr) (cases : list (expr * expr)) (dflt : option expr)   (* conditional.CaseWhen *)
| ECoalesce (ms : list expr)                                     (* coalesce.Coalesce *)
| EIter (es : list expr)                                         (* iterable.Iter (forced) *)
| EMap (e : expr) (its : list (key * expr))                      (* iterable.Map *)
| EWith (force : bool) (p : dict) (e : expr)                     (* option.WithOptions *)
| ECached (c : cache_ref) (e : expr)                             (* cache.Cached *)
| ECall (partial : bool) (f : expr) (args : list expr) (kwargs : list expr)
                                  (* application.FunctionApplication / PartialApplication *)
| ETemplate (s : str) (ps : list (N * expr))                     (* template.Template *)
| EComp (e : expr) (effects : list expr)                         (* computation.Computation with
                                                                    ChainedEffect of CallbackEffects *)
| ELogged (e : expr)                                             (* logging.Logged (log first) *)
| EPipe (rsteps : list expr)                                     (* pipeline.Pipeline; steps TAIL FIRST
                                                                    (reverse iteration order), as evaluated *)
| EAllOptions.                                                   (* option.AllOptions *)

Record config := { cache_ctx_off : bool;      (* inside labrea.cache.disabled() *)
                   log_ctx_off : bool }.      (* inside labrea.logging.disabled() *)

(** reserved option-name atoms for the documented switches *)
Definition A_LABREA : N := 1.  Definition A_CACHE : N := 2.  Definition A_DISABLED : N := 3.
Definition A_DISABLE : N := 4. Definition A_EFFECTS : N := 5. Definition A_LOGGING : N := 6.
Definition k_cache_disabled : key := [SName A_LABREA; SName A_CACHE; SName A_DISABLED].
Definition k_cache_disable : key := [SName A_LABREA; SName A_CACHE; SName A_DISABLE].
Definition k_effects_disabled : key := [SName A_LABREA; SName A_EFFECTS; SName A_DISABLED].
Definition k_logging_disabled : key := [SName A_LABREA; SName A_LOGGING; SName A_DISABLED].

(** [Option(k, False)(options)] used as an [if] condition by the switch handlers. *)
Definition flag_at (k : key) (o : dict) : option bool :=
  match lookup k (JObj o) with Found v => Some (truthy (VJ v)) | _ => None end.
Definition cache_opt_off (o : dict) : bool :=
  match flag_at k_cache_disabled o with
  | Some b => b
  | None => match flag_at k_cache_disable o with Some b => b | None => false end
  end.
Definition effects_opt_off (o : dict) : bool :=
  match flag_at k_effects_disabled o with Some b => b | None => false end.
Definition logging_opt_off (o : dict) : bool :=
  match flag_at k_logging_disabled o with Some b => b | None => false end.

Definition fp_eqb (a b : fp) : bool :=
  (fix go (a b : fp) : bool :=
     match a, b with
     | [], [] => true
     | (k, v) :: a', (k', v') :: b' => key_eqb k k' && json_eqb v v' && go a' b'
     | _, _ => false
     end) a b.

Section Interp.
  Variable S : Type.
  Variable mem_find : N -> fp -> S -> option value.
  Variable mem_store : N -> fp -> value -> S -> S.
  Variable cfg : config.
  Variable ucall : N -> list value -> cres.       (* user code: deterministic, may raise *)
  Variable rfuel : nat.                           (* depth budget of template resolution *)
  Variable site_ok : expr -> dict -> bool.        (* GHOST oracle consulted at cache sites; it only
                                                     decides whether an [EvDirty] event is logged *)

  (** state + writer (events in order of occurrence) + exceptions *)
  Definition M (A : Type) : Type := S -> (res A * S * list event).
  Definition ret {A} (a : A) : M A := fun s => (Ok a, s, []).
  Definition fail {A} (c : cause) (ee : bool) : M A := fun s => (Err c ee, s, []).
  Definition bind {A B} (m : M A) (f : A -> M B) : M B :=
    fun s => match m s with
             | (Ok a, s', l) => match f a s' with (r, s'', l') => (r, s'', l ++ l') end
             | (Err c ee, s', l) => (Err c ee, s', l)
             end.
  Definition emit (e : event) : M unit := fun s => (Ok tt, s, [e]).
  (** try/except: [handler] gets the error; state and log written so far are kept. *)
  Definition catch {A} (m : M A) (h : cause -> bool -> M A) : M A :=
    fun s => match m s with
             | (Ok a, s', l) => (Ok a, s', l)
             | (Err CUnmodelled ee, s', l) => (Err CUnmodelled ee, s', l)   (* never handled: the whole
                                                    observation is outside the modelled universe *)
             | (Err c ee, s', l) => match h c ee s' with (r, s'', l') => (r, s'', l ++ l') end
             end.
  (** what the [EvaluateRequest] default handler does to an exception leaving a node's
      evaluate: it becomes (or stays) an EvaluationError. *)
  Definition wrap_eval {A} (m : M A) : M A :=
    fun s => match m s with
             | (Ok a, s', l) => (Ok a, s', l)
             | (Err c _, s', l) => (Err c true, s', l)
             end.
  Notation "x <- m ;; f" := (bind m (fun x => f)) (at level 61, m at next level, right associativity).
  Notation "m ;;; f" := (bind m (fun _ => f)) (at level 61, right associativity).

  Definition mapM {A B} (f : A -> M B) : list A -> M (list B) :=
    fix go (l : list A) : M (list B) :=
      match l with
      | [] => ret []
      | a :: l' => b <- f a ;; bs <- go l' ;; ret (b :: bs)
      end.
  Definition iterM {A} (f : A -> M unit) : list A -> M unit :=
    fix go (l : list A) : M unit :=
      match l with
      | [] => ret tt
      | a :: l' => f a ;;; go l'
      end.
  Definition unionM {A} (f : A -> M (list key)) : list A -> M (list key) :=
    fix go (l : list A) : M (list key) :=
      match l with
      | [] => ret []
      | a :: l' => ks <- f a ;; ks' <- go l' ;; ret (ks ++ ks')
      end.

  (** ** Calling values *)
  Definition elements_of (v : value) : option (list value) :=
    match v with
    | VT t els => if N.eqb t T_ITER || N.eqb t T_LIST || N.eqb t T_TUPLE then Some els else None
    | VJ (JList l) => Some (map VJ l)
    | _ => None
    end.

  Definition is_some {A} (x : option A) : bool := match x with Some _ => true | None => false end.

  (** consuming an iterable: a deferred element failure is raised (it went through the
      element's own evaluate request, so it is an EvaluationError) *)
  Fixpoint first_err (l : list value) : option cause :=
    match l with
    | [] => None
    | VErr c :: _ => Some c
    | _ :: l' => first_err l'
    end.
  Definition force_elems (v : value) : M (list value) :=
    match elements_of v with
    | Some els => match first_err els with Some c => fail c true | None => ret els end
    | None => fail CType false
    end.

  (** what the harness bodies do with their arguments / the harness with a result: force every
      generator, depth first *)
  Fixpoint deep_err (v : value) : option cause :=
    match v with
    | VErr c => Some c
    | VT _ args =>
        (fix go (l : list value) : option cause :=
           match l with
           | [] => None
           | x :: l' => match deep_err x with Some c => Some c | None => go l' end
           end) args
    | _ => None
    end.
  Definition deep_err_list (l : list value) : option cause :=
    (fix go (l : list value) : option cause :=
       match l with
       | [] => None
       | x :: l' => match deep_err x with Some c => Some c | None => go l' end
       end) l.

  (** what a harness body sees: its arguments with every generator forced into a list *)
  Fixpoint listify (v : value) : value :=
    match v with
    | VT t args =>
        VT (if N.eqb t T_ITER then T_LIST else t)
           ((fix go (l : list value) : list value :=
               match l with [] => [] | x :: l' => listify x :: go l' end) args)
    | _ => v
    end.

  (** what a stored generator looks like to every later reader: exhausted *)
  Fixpoint exhaust (v : value) : value :=
    match v with
    | VT t args =>
        if N.eqb t T_ITER then VT T_ITER []
        else VT t ((fix go (l : list value) : list value :=
                      match l with [] => [] | x :: l' => exhaust x :: go l' end) args)
    | _ => v
    end.
  Fixpoint has_lazy (v : value) : bool :=
    match v with
    | VT t args =>
        N.eqb t T_ITER ||
        (fix go (l : list value) : bool := match l with [] => false | x :: l' => has_lazy x || go l' end) args
    | _ => false
    end.

  (** dict(iterable of pairs): later duplicates override, first position kept *)
  Fixpoint dict_put (k v : value) (d : list value) : list value :=
    match d with
    | [] => [VT T_PAIR [k; v]]
    | VT t [k'; v'] :: d' =>
        if value_eq k k' then VT t [k; v] :: d' else VT t [k'; v'] :: dict_put k v d'
    | x :: d' => x :: dict_put k v d'
    end.
  Fixpoint dict_of_pairs (ps : list value) (acc : list value) : option (list value) :=
    match ps with
    | [] => Some acc
    | p :: ps' =>
        match elements_of p with
        | Some [k; v] => if hashable k then dict_of_pairs ps' (dict_put k v acc) else None
        | _ => None
        end
    end.

  Definition call_fun (f : N) (args : list value) : M value :=
    if N.eqb f B_LIST then
      match args with [x] => els <- force_elems x ;; ret (VT T_LIST els) | _ => fail CType false end
    else if N.eqb f B_TUPLE then
      match args with [x] => els <- force_elems x ;; ret (VT T_TUPLE els) | _ => fail CType false end
    else if N.eqb f B_DICT then
      match args with
      | [x] => ps <- force_elems x ;;
               (* each pair is itself consumed *)
               match first_err (flat_map (fun p => match elements_of p with Some l => l | None => [] end) ps) with
               | Some c => fail c true
               | None => match dict_of_pairs ps [] with Some d => ret (VT T_DICT d) | None => fail CType false end
               end
      | _ => fail CType false end
    else
      match deep_err_list args with
      | Some c => fail c true          (* the body forces its arguments before doing anything *)
      | None =>
          let args' := map listify args in
          match ucall f args' with
          | COk v => emit (EvCall f args') ;;; ret v
          | CRaise n => emit (EvCall f args') ;;; fail (CUser n) false
          end
      end.

  (** [f(x)] for an evaluated callable [f]; compositions (evaluated pipelines) apply their
      members in order. *)
  Fixpoint call_value (f : value) (x : value) {struct f} : M value :=
    match f with
    | VF fid pre post =>
        if N.eqb fid B_COMPOSE then
          (fix go (fs : list value) (acc : value) {struct fs} : M value :=
             match fs with
             | [] => ret acc
             | g :: fs' => y <- call_value g acc ;; go fs' y
             end) pre x
        else call_fun fid (pre ++ [x] ++ post)
    | _ => fail CType false
    end.

  Definition call_value_n (f : value) (args : list value) : M value :=
    match f with
    | VF fid pre post => if N.eqb fid B_COMPOSE then fail CType false else call_fun fid (pre ++ args ++ post)
    | _ => fail CType false
    end.

  (** ** Option lookups *)
  Definition rd (k : key) (o : dict) : M lres :=
    let r := lookup k (JObj o) in
    emit (EvRead k (match r with Found _ => true | _ => false end)) ;;; ret r.

  Definition of_rres (r : rres) : M json :=
    match r with
    | ROk v => ret v
    | RMissing k => fail (CKey k) true
    | RTypeErr => fail CType false
    | RFuel => fail CFuel false
    | RUnmodelled => fail CUnmodelled false
    end.

  (** keys that [resolve] consults while resolving [v]: recorded as reads (transitively) *)
  Fixpoint resolve_reads (fuel : nat) (o : dict) (v : json) {struct fuel} : list key :=
    match fuel with
    | O => []
    | Datatypes.S fuel' =>
        (fix inner (v : json) {struct v} : list key :=
           match v with
           | JObj m => (fix go (m : dict) := match m with [] => [] | (_, x) :: m' => inner x ++ go m' end) m
           | JList l => (fix go (l : list json) := match l with [] => [] | x :: l' => inner x ++ go l' end) l
           | JStr s =>
               (* exactly the keys [resolve] looks up, in the same case analysis *)
               match s with
               | [TRef k] =>
                   k :: match lookup k (JObj o) with Found v' => resolve_reads fuel' o v' | _ => [] end
               | [TPar p] =>
                   par_key p :: match lookup (par_key p) (JObj o) with
                                | Found v' => resolve_reads fuel' o v' | _ => [] end
               | _ =>
                   if has_templ s then
                     (refs s ++ map par_key (pars s)) ++
                     match subst o s with ROk v' => resolve_reads fuel' o v' | _ => [] end
                   else []
               end
           | _ => []
           end) v
    end.

  Definition emit_reads (ks : list key) (o : dict) : M unit :=
    iterM (fun k => emit (EvRead k (match lookup k (JObj o) with Found _ => true | _ => false end))) ks.

  (** [Option(key).keys(o)] / [.explain(o)] for a key referenced from a templated string:
      the key itself plus, when its value is a string, the keys that string references
      (Template(value).keys) — recursion on data, hence fuelled. [strict]: keys() (an absent
      reference raises KeyNotFoundError) vs explain() (it is listed). *)
  Fixpoint ref_keys (fuel : nat) (strict : bool) (o : dict) (k : key) {struct fuel} : M (list key) :=
    match fuel with
    | O => fail CFuel false
    | Datatypes.S fuel' =>
        r <- rd k o ;;
        match r with
        | Found (JStr s) =>
            if existsb (fun t => match t with TPar _ => true | _ => false end) s
            then fail CUnmodelled false       (* Template(value) would demand parameters *)
            else ks <- unionM (fun k' => ref_keys fuel' strict o k') (refs s) ;; ret (k :: ks)
        | Found _ => ret [k]
        | Absent => if strict then fail (CKey k) true else ret [k]
        | TypeErr => fail CType false
        end
    end.

  (** [Option._enforce_domain] on an already evaluated domain value *)
  Definition in_domain (d : value) (v : value) : M unit :=
    match d with
    | VF _ _ _ => b <- call_value d v ;; if truthy b then ret tt else fail CDomain false
    | _ =>
        match elements_of d with
        | Some els => if existsb (fun x => value_eq v x) els then ret tt else fail CDomain false
        | None => ret tt      (* "not a valid domain": a warning, value accepted *)
        end
    end.

  Definition assoc_v {A} (v : value) (tbl : list (value * A)) : option A :=
    (fix go (t : list (value * A)) : option A :=
       match t with
       | [] => None
       | (v', a) :: t' => if value_eq v v' then Some a else go t'
       end) tbl.

  (** [Map._create_option_set] *)
  Fixpoint option_set (kvs : list (key * json)) (acc : dict) : option dict :=
    match kvs with
    | [] => Some acc
    | (k, v) :: kvs' => match set_dotted k v acc with Some acc' => option_set kvs' acc' | None => None end
    end.

  (** itertools.product, last iterable varying fastest *)
  Fixpoint product {A} (ls : list (list A)) : list (list A) :=
    match ls with
    | [] => [[]]
    | l :: ls' => flat_map (fun a => map (fun r => a :: r) (product ls')) l
    end.

  Definition json_of_value (v : value) : option json :=
    match v with VJ j => Some j | _ => None end.

  (** [WithOptions._options] *)
  Definition with_opts (force : bool) (p o : dict) : dict := if force then mix o p else mix p o.

  (** [WithOptions._preset(key, options, mixed)] (after fixes f469561 and 6884003): the key's value is
      fully determined by the pre-set options (and is still there in the mixed options).  [None]: a lookup hit a scalar parent (TypeError). *)
  Definition preset_drops (force : bool) (p o mixed : dict) (k : key) : option bool :=
    match k with [] => Some false | _ :: _ =>       (* a dotted key has at least one segment *)
    match lookup k (JObj p) with
    | TypeErr => None
    | Absent => Some false
    | Found pv =>
        match lookup k (JObj mixed) with
        | TypeErr => None
        | Absent => Some false       (* overlaid away: the caller put a non-section where the pre-set has one *)
        | Found mv =>
            match lookup k (JObj o) with
            | TypeErr => None
            | Absent => Some true
            | Found _ => if force then Some (json_eq mv pv) else Some false
            end
        end
    end
    end.

  Fixpoint filter_preset (force : bool) (p o mixed : dict) (ks : list key) : M (list key) :=
    match ks with
    | [] => ret []
    | k :: ks' =>
        match preset_drops force p o mixed k with
        | None => fail CType false
        | Some b => r <- filter_preset force p o mixed ks' ;; ret (if b then r else k :: r)
        end
    end.

  Definition fingerprint_of (ks : list key) (o : dict) : M fp :=
    mapM (fun k => match lookup k (JObj o) with
                   | Found v => ret (k, v)
                   | Absent => fail (CKey k) false        (* raw KeyError from get_dotted_key *)
                   | TypeErr => fail CType false
                   end) (key_sort ks).

  (** table lookup by Python [==]; the hit continuation receives a sub-expression *)
  Definition pick {A} (k : value) (onhit : expr -> A) (onmiss : A) : list (value * expr) -> A :=
    fix go (t : list (value * expr)) : A :=
      match t with
      | [] => onmiss
      | (v', b) :: t' => if value_eq k v' then onhit b else go t'
      end.

  Definition get_store : M S := fun s => (Ok s, s, []).
  Definition put_store (f : S -> S) : M unit := fun s => (Ok tt, f s, []).

  (** [Option.evaluate] given the evaluator for its sub-expressions *)
  Definition option_eval (ev : expr -> M value) (k : key) (dflt dom : option expr) (o : dict) : M value :=
    r <- rd k o ;;
    v <- match r with
         | TypeErr => fail CType false
         | Absent =>
             match dflt with
             | None => fail (CKey k) true
             | Some d => ev d
             end
         | Found raw =>
             emit_reads (resolve_reads rfuel o raw) o ;;;
             j <- of_rres (resolve rfuel o raw) ;; ret (VJ j)
         end ;;
    match dom with
    | None => ret v
    | Some de => d <- ev de ;; in_domain d v ;;; ret v
    end.

  Definition all_options_eval (o : dict) : M value :=
    emit EvReadAll ;;; j <- of_rres (resolve rfuel o (JObj o)) ;; ret (VJ j).

  (** [Switch._lookup]'s first half: the dispatch value, or [None] when the dispatch cannot be
      evaluated and there is a default to fall back to (which is then used UNWRAPPED). *)
  Definition dispatch_value (ev : M value) (has_default : bool) : M (option value) :=
    catch (k <- ev ;; ret (Some k))
          (fun c ee => if ee && has_default then ret None else fail c ee).


  (** Map: the evaluated iterables and the option set of one combination *)
  Definition map_rows (ev : expr -> M value) (its : list (key * expr)) : M (list (list (key * value))) :=
    vals <- mapM (fun kv => v <- ev (snd kv) ;; force_elems v) its ;;
    ret (map (fun combo => combine (map fst its) combo) (product vals)).

  Definition row_options (row : list (key * value)) : M dict :=
    match option_set (flat_map (fun kv => match json_of_value (snd kv) with
                                          | Some j => [(fst kv, j)] | None => [] end) row) [] with
    | Some os => if Nat.eqb (length os) 0 && negb (Nat.eqb (length row) 0) then fail CUnmodelled false else ret os
    | None => fail CType false
    end.

  Definition row_dict (row : list (key * value)) : value :=
    VT T_DICT (map (fun kv => VT T_PAIR [VJ (JStr [TRef (fst kv)]); snd kv]) row).

  Definition template_options (ev : expr -> M value) (ps : list (N * expr)) (o : dict) : M dict :=
    pvs <- mapM (fun pe => v <- ev (snd pe) ;; ret (fst pe, v)) ps ;;
    match option_set (flat_map (fun pv => match json_of_value (snd pv) with
                                          | Some j => [(par_key (fst pv), j)] | None => [] end) pvs) [] with
    | None => fail CUnmodelled false
    | Some pd => if negb (Nat.eqb (length pd) (length ps)) then fail CUnmodelled false else ret (mix o pd)
    end.

  Definition is_par_key (k : key) : bool :=
    match k with [SName n] => N.leb par_base n | _ => false end.

  (** ** The four interpreters.  [eval] is [__labrea_evaluate__] behind the EvaluateRequest
      wrapper (every exception leaving a node's evaluate is/becomes an EvaluationError);
      [validate]/[keys]/[explain] re-raise whatever their clause raises. *)
  Fixpoint eval (e : expr) (o : dict) {struct e} : M value :=
    wrap_eval
    match e with
    | EValue v => ret v
    | EOption k dflt dom => option_eval (fun x => eval x o) k dflt dom o
    | EApply src fn =>
        x <- eval src o ;; f <- eval fn o ;; call_value f x
    | EBind src tbl dflt =>
        x <- eval src o ;;
        pick x (fun b => eval b o)
             (match dflt with Some d => eval d o | None => fail (CUser 0) false end) tbl
    | ESwitch disp tbl dflt =>
        dv <- dispatch_value (eval disp o) (is_some dflt) ;;
        match dv with
        | None => match dflt with Some d => eval d o | None => fail CUnmodelled false end
        | Some k =>
            if negb (hashable k) then fail CType false else
            pick k (fun b => eval b o)
                 (match dflt with Some d => eval d o | None => fail CSwitch true end) tbl
        end
    | ECase disp cases dflt =>
        x <- eval disp o ;;
        (fix go (cs : list (expr * expr)) : M value :=
           match cs with
           | [] => match dflt with Some d => eval d o | None => fail CCase true end
           | (c, r) :: cs' =>
               p <- eval c o ;; b <- call_value p x ;;
               if truthy b then eval r o else go cs'
           end) cases
    | ECoalesce ms =>
        (fix go (ms : list expr) (last : option (cause * bool)) : M value :=
           match ms with
           | [] => match last with Some (c, ee) => fail c ee | None => fail CUnmodelled false end
           | m :: ms' =>
               catch (validate m o ;;; eval m o)
                     (fun c ee => if ee then go ms' (Some (c, ee)) else fail c ee)
           end) ms None
    | EIter es =>
        (* a generator: an element's failure is deferred to the consumer and ends the iteration *)
        vs <- (fix go (es : list expr) : M (list value) :=
                 match es with
                 | [] => ret []
                 | x :: es' => catch (v <- eval x o ;;
                                      (* an element that is itself lazy and will fail when consumed:
                                         the consumer raises there, later elements never run *)
                                      if is_some (deep_err v) then ret [v]
                                      else vs <- go es' ;; ret (v :: vs))
                                     (fun c _ => ret [VErr c])
                 end) es ;;
        ret (VT T_ITER vs)
    | EMap e its =>
        rows <- map_rows (fun x => eval x o) its ;;
        rowsos <- mapM (fun row => os <- row_options row ;; ret (row, os)) rows ;;
        rs <- (fix go (rows : list (list (key * value) * dict)) : M (list value) :=
                 match rows with
                 | [] => ret []
                 | (row, os) :: rows' =>
                     catch (r <- eval e (with_opts true os o) ;;
                            if is_some (deep_err r) then ret [VT T_TUPLE [row_dict row; r]]
                            else rs <- go rows' ;; ret (VT T_TUPLE [row_dict row; r] :: rs))
                           (fun c _ => ret [VErr c])
                 end) rowsos ;;
        ret (VT T_ITER rs)
    | EWith force p e => eval e (with_opts force p o)
    | ECached c e =>
        match c with
        | CNone => eval e o
        | CMem cid =>
            if cfg.(cache_ctx_off) || cache_opt_off o then eval e o
            else
              (if site_ok e o then ret tt else emit (EvDirty cid)) ;;;
              let fingerprint := (ks <- keys e o ;; fingerprint_of ks o) in
              let store_and_read_back (v : value) : M value :=
                f <- fingerprint ;;
                (* the cache keeps the very object: a generator in it is exhausted by its first
                   consumer, which is the current caller (the read-back returns the same object) *)
                put_store (mem_store cid f (exhaust v)) ;;; emit (EvCacheSet cid) ;;;
                (if has_lazy v then emit (EvLazyStored cid) else ret tt) ;;;
                f' <- fingerprint ;; s <- get_store ;;
                match mem_find cid f' s with
                | Some _ => emit (EvCacheGet cid true) ;;; ret v
                | None => emit (EvCacheGet cid false) ;;; ret v
                end in
              f <- fingerprint ;; s <- get_store ;;
              match mem_find cid f s with
              | Some _ =>
                  emit (EvCacheExists cid true) ;;;
                  f2 <- fingerprint ;; s2 <- get_store ;;
                  match mem_find cid f2 s2 with
                  | Some v => emit (EvCacheGet cid true) ;;; ret v
                  | None => emit (EvCacheGet cid false) ;;; v <- eval e o ;; store_and_read_back v
                  end
              | None => emit (EvCacheExists cid false) ;;; v <- eval e o ;; store_and_read_back v
              end
        end
    | ECall partial f args kwargs =>
        fv <- eval f o ;;
        av <- mapM (fun x => eval x o) args ;;
        kv <- mapM (fun x => eval x o) kwargs ;;
        if partial then
          match fv with
          | VF fid pre post => ret (VF fid (pre ++ av) (post ++ kv))
          | _ => fail CUnmodelled false
          end
        else call_value_n fv (av ++ kv)
    | ETemplate s ps =>
        o' <- template_options (fun x => eval x o) ps o ;;
        emit_reads (filter (fun k => negb (is_par_key k)) (resolve_reads rfuel o' (JStr s))) o ;;;
        j <- of_rres (resolve rfuel o' (JStr s)) ;;
        match to_str j with
        | Some r => ret (VJ (JStr r))
        | None => fail CUnmodelled false
        end
    | EComp e effects =>
        v <- eval e o ;;
        (if effects_opt_off o then ret tt
         else iterM (fun eff => f <- eval eff o ;; call_value f v ;;; ret tt) effects) ;;;
        ret v
    | ELogged e =>
        emit EvLogReq ;;;
        (if cfg.(log_ctx_off) || logging_opt_off o then ret tt else emit EvLogEmit) ;;;
        eval e o
    | EPipe steps =>
        fs <- mapM (fun x => eval x o) steps ;;
        ret (VF B_COMPOSE (rev fs) [])
    | EAllOptions => all_options_eval o
    end

  with validate (e : expr) (o : dict) {struct e} : M unit :=
    match e with
    | EValue _ => ret tt
    | EOption k dflt dom =>
        r <- rd k o ;;
        match r with
        | TypeErr => fail CType false
        | Found _ => wrap_eval (option_eval (fun x => eval x o) k dflt dom o) ;;; ret tt
        | Absent => match dflt with Some d => validate d o | None => fail (CKey k) true end
        end
    | EApply src fn => validate src o ;;; validate fn o
    | EBind src tbl dflt =>
        validate src o ;;;
        x <- eval src o ;;
        pick x (fun b => validate b o)
             (match dflt with Some d => validate d o | None => fail (CUser 0) false end) tbl
    | ESwitch disp tbl dflt =>
        dv <- dispatch_value (eval disp o) (is_some dflt) ;;
        match dv with
        | None => match dflt with Some d => validate d o | None => fail CUnmodelled false end
        | Some k =>
            if negb (hashable k) then fail CType false else
            pick k (fun b => validate b o)
                 (match dflt with Some d => validate d o | None => fail CSwitch true end) tbl
        end
    | ECase disp cases dflt =>
        validate disp o ;;;
        x <- eval disp o ;;
        (fix go (cs : list (expr * expr)) : M unit :=
           match cs with
           | [] => match dflt with Some d => validate d o | None => fail CCase true end
           | (c, r) :: cs' =>
               p <- eval c o ;; b <- call_value p x ;;
               if truthy b then validate r o else go cs'
           end) cases
    | ECoalesce ms =>
        (fix go (ms : list expr) (last : option (cause * bool)) : M unit :=
           match ms with
           | [] => match last with Some (c, ee) => fail c ee | None => fail CUnmodelled false end
           | m :: ms' =>
               catch (validate m o ;;; validate m o)
                     (fun c ee => if ee then go ms' (Some (c, ee)) else fail c ee)
           end) ms None
    | EIter es => iterM (fun x => validate x o) es
    | EMap e its =>
        rows <- map_rows (fun x => eval x o) its ;;
        iterM (fun row => os <- row_options row ;; validate e (with_opts true os o)) rows
    | EWith force p e => validate e (with_opts force p o)
    | ECached c e =>
        match c with
        | CNone => validate e o
        | CMem cid =>
            if cfg.(cache_ctx_off) || cache_opt_off o then validate e o
            else
              ks <- keys e o ;; f <- fingerprint_of ks o ;; s <- get_store ;;
              match mem_find cid f s with
              | Some _ => emit (EvCacheExists cid true) ;;; ret tt
              | None => emit (EvCacheExists cid false) ;;; validate e o
              end
        end
    | ECall _ f args kwargs =>
        validate f o ;;; iterM (fun x => validate x o) args ;;; iterM (fun x => validate x o) kwargs
    | ETemplate s ps =>
        iterM (fun pe => validate (snd pe) o) ps ;;;
        iterM (fun k => (* Option(key).validate(o), KeyNotFoundError re-raised *)
                 r <- rd k o ;;
                 match r with
                 | TypeErr => fail CType false
                 | Absent => fail (CKey k) true
                 | Found raw =>
                     emit_reads (resolve_reads rfuel o raw) o ;;;
                     wrap_eval (of_rres (resolve rfuel o raw)) ;;; ret tt
                 end) (refs s)
    | EComp e effects =>
        validate e o ;;;
        if effects_opt_off o then ret tt else iterM (fun x => validate x o) effects
    | ELogged e => validate e o
    | EPipe steps => iterM (fun x => validate x o) steps
    | EAllOptions => wrap_eval (all_options_eval o) ;;; ret tt
    end

  with keys (e : expr) (o : dict) {struct e} : M (list key) :=
    match e with
    | EValue _ => ret []
    | EOption k dflt dom =>
        r <- rd k o ;;
        match r with
        | TypeErr => fail CType false
        | Found (JStr s) =>
            if existsb (fun t => match t with TPar _ => true | _ => false end) s then fail CUnmodelled false
            else ks <- unionM (fun k' => ref_keys rfuel true o k') (refs s) ;; ret (k :: ks)
        | Found _ => ret [k]
        | Absent => match dflt with Some d => keys d o | None => fail (CKey k) true end
        end
    | EApply src fn => a <- keys src o ;; b <- keys fn o ;; ret (a ++ b)
    | EBind src tbl dflt =>
        a <- keys src o ;;
        x <- eval src o ;;
        b <- pick x (fun b => keys b o)
               (match dflt with Some d => keys d o | None => fail (CUser 0) false end) tbl ;;
        ret (a ++ b)
    | ESwitch disp tbl dflt =>
        dv <- dispatch_value (eval disp o) (is_some dflt) ;;
        match dv with
        | None => match dflt with Some d => keys d o | None => fail CUnmodelled false end
        | Some k =>
            if negb (hashable k) then fail CType false else
            a <- pick k (fun b => keys b o)
                   (match dflt with Some d => keys d o | None => fail CSwitch true end) tbl ;;
            b <- keys disp o ;; ret (a ++ b)
        end
    | ECase disp cases dflt =>
        a <- keys disp o ;;
        x <- eval disp o ;;
        b <- (fix go (cs : list (expr * expr)) : M (list key) :=
                match cs with
                | [] => match dflt with Some d => keys d o | None => fail CCase true end
                | (c, r) :: cs' =>
                    p <- eval c o ;; b <- call_value p x ;;
                    if truthy b then keys r o else go cs'
                end) cases ;;
        ret (a ++ b)
    | ECoalesce ms =>
        (fix go (ms : list expr) (last : option (cause * bool)) : M (list key) :=
           match ms with
           | [] => match last with Some (c, ee) => fail c ee | None => fail CUnmodelled false end
           | m :: ms' =>
               catch (validate m o ;;; keys m o)
                     (fun c ee => if ee then go ms' (Some (c, ee)) else fail c ee)
           end) ms None
    | EIter es => unionM (fun x => keys x o) es
    | EMap e its =>
        rows <- map_rows (fun x => eval x o) its ;;
        a <- unionM (fun row => os <- row_options row ;;
                                let mixed := with_opts true os o in
                                ks <- keys e mixed ;; filter_preset true os o mixed ks) rows ;;
        b <- unionM (fun kv => keys (snd kv) o) its ;;
        ret (a ++ b)
    | EWith force p e =>
        let mixed := with_opts force p o in
        ks <- keys e mixed ;; filter_preset force p o mixed ks
    | ECached _ e => keys e o
    | ECall _ f args kwargs =>
        a <- keys f o ;; b <- unionM (fun x => keys x o) args ;; c <- unionM (fun x => keys x o) kwargs ;;
        ret (a ++ b ++ c)
    | ETemplate s ps =>
        a <- unionM (fun pe => keys (snd pe) o) ps ;;
        b <- unionM (fun k => ref_keys rfuel true o k) (refs s) ;;
        ret (a ++ b)
    | EComp e _ => keys e o
    | ELogged e => keys e o
    | EPipe steps => unionM (fun x => keys x o) steps
    | EAllOptions => emit EvReadAll ;;; ret (map (fun kv => [fst kv]) o)
    end

  with explain (e : expr) (o : dict) {struct e} : M (list key) :=
    match e with
    | EValue _ => ret []
    | EOption k dflt dom =>
        r <- rd k o ;;
        match r with
        | TypeErr => fail CType false
        | Found (JStr s) =>
            if existsb (fun t => match t with TPar _ => true | _ => false end) s then fail CUnmodelled false
            else ks <- unionM (fun k' => ref_keys rfuel false o k') (refs s) ;; ret (k :: ks)
        | Found _ => ret [k]
        | Absent => match dflt with Some d => explain d o | None => ret [k] end
        end
    | EApply src fn => a <- explain src o ;; b <- explain fn o ;; ret (a ++ b)
    | EBind src tbl dflt =>
        catch (a <- explain src o ;;
               x <- eval src o ;;
               b <- pick x (fun b => explain b o)
                      (match dflt with Some d => explain d o | None => fail (CUser 0) false end) tbl ;;
               ret (a ++ b))
              (fun c ee => if ee then fail CInsuff true else fail c ee)
    | ESwitch disp tbl dflt =>
        (* try: chosen = _lookup(o) except EvaluationError -> InsufficientInformationError *)
        dv <- catch (dispatch_value (eval disp o) (is_some dflt))
                    (fun c ee => if ee then fail CInsuff true else fail c ee) ;;
        match dv with
        | None => match dflt with Some d => explain d o | None => fail CUnmodelled false end
        | Some k =>
            if negb (hashable k) then fail CType false else
            a <- pick k (fun b => explain b o)
                   (match dflt with Some d => explain d o | None => fail CInsuff true end) tbl ;;
            b <- explain disp o ;; ret (a ++ b)
        end
    | ECase disp cases dflt =>
        catch (a <- explain disp o ;;
               x <- eval disp o ;;
               b <- (fix go (cs : list (expr * expr)) : M (list key) :=
                       match cs with
                       | [] => match dflt with Some d => explain d o | None => fail CCase true end
                       | (c, r) :: cs' =>
                           p <- eval c o ;; b <- call_value p x ;;
                           if truthy b then explain r o else go cs'
                       end) cases ;;
               ret (a ++ b))
              (fun c ee => if ee then fail CInsuff true else fail c ee)
    | ECoalesce ms =>
        catch ((fix go (ms : list expr) (last : option (cause * bool)) : M (list key) :=
                  match ms with
                  | [] => match last with Some (c, ee) => fail c ee | None => fail CUnmodelled false end
                  | m :: ms' =>
                      catch (validate m o ;;; explain m o)
                            (fun c ee => if ee then go ms' (Some (c, ee)) else fail c ee)
                  end) ms None)
              (fun c ee =>
                 if ee then
                   (fix last (ms : list expr) : M (list key) :=
                      match ms with
                      | [] => fail CUnmodelled false
                      | [m] => explain m o
                      | _ :: ms' => last ms'
                      end) ms
                 else fail c ee)
    | EIter es => unionM (fun x => explain x o) es
    | EMap e its =>
        catch (rows <- map_rows (fun x => eval x o) its ;;
               a <- unionM (fun row => os <- row_options row ;;
                                       let mixed := with_opts true os o in
                                       ks <- explain e mixed ;; filter_preset true os o mixed ks) rows ;;
               b <- unionM (fun kv => explain (snd kv) o) its ;;
               ret (a ++ b))
              (fun c ee =>
                 if ee then
                   a <- explain e o ;;
                   b <- unionM (fun kv => explain (snd kv) o) its ;;
                   ret (filter (fun k => negb (key_mem k (map fst its))) a ++ b)
                 else fail c ee)
    | EWith force p e =>
        let mixed := with_opts force p o in
        ks <- explain e mixed ;; filter_preset force p o mixed ks
    | ECached _ e => explain e o
    | ECall _ f args kwargs =>
        a <- explain f o ;; b <- unionM (fun x => explain x o) args ;; c <- unionM (fun x => explain x o) kwargs ;;
        ret (a ++ b ++ c)
    | ETemplate s ps =>
        a <- unionM (fun pe => explain (snd pe) o) ps ;;
        b <- unionM (fun k => ref_keys rfuel false o k) (refs s) ;;
        ret (a ++ b)
    | EComp e effects =>
        a <- explain e o ;;
        if effects_opt_off o then ret a
        else b <- unionM (fun x => explain x o) effects ;; ret (a ++ b)
    | ELogged e => explain e o
    | EPipe steps => unionM (fun x => explain x o) steps
    | EAllOptions => emit EvReadAll ;;; ret (map (fun kv => [fst kv]) o)
    end.
End Interp.
