(** Concrete instance of Model/Threads.v used by the correspondence check (C15).
    Options atom o = 10*x + y where x is the value of the option the cached dataset reads and y the
    value of an option it does not read: fingerprint = x, value = x. *)
From Coq Require Import List NArith Bool String.
Import ListNotations.
From LV Require Import Model.Show Model.Threads.

Definition c_fp (o : opts) : fpr := N.div o 10.
Definition c_val (o : opts) : value := N.div o 10.

Definition all_atomic : flags :=
  {| enter_atomic := true; exit_atomic := true; current_atomic := true; inherit_atomic := true;
     register_default_atomic := true; register_rmw_atomic := true |}.

Fixpoint insert_kv (k v : N) (l : list (N * N)) : list (N * N) :=
  match l with
  | [] => [(k, v)]
  | (k', v') :: l' => if N.ltb k k' then (k, v) :: l else (k', v') :: insert_kv k v l'
  end.
Definition sort_kv (l : list (N * N)) : list (N * N) :=
  fold_right (fun '(k, v) acc => insert_kv k v acc) [] l.

Definition showKV (l : list (N * N)) : string :=
  brack (map (fun '(k, v) => showN k ++ ":" ++ showN v) l).

(** one thread: tags ; evals ; the runtime a final current_runtime() returns (0 = not one of the
    shared runtime objects, i.e. a fresh default one) *)
Definition show_thread (s : gstate) (t : thread) : string :=
  "T" ++ showN t ++ ":" ++ brack (map (showOpt showN) (tags (tl s t))) ++ ";" ++
  showKV (evals (tl s t)) ++ ";" ++ showN (slot_or_fresh (runtimes s t)).

Definition show_state (ths : list thread) (s : gstate) : string :=
  String.concat "|" (map (show_thread s) ths) ++ "|tab=" ++ showKV (sort_kv (table s)) ++
  "|done=" ++ showB (all_done ths s).

(** action-level schedule *)
Definition observe (fl : flags) (hp : list (rt * htable)) (dflt : htable)
    (progs : list (thread * list op)) (sched : list thread) : string :=
  show_state (map fst progs) (run c_fp c_val fl sched (init_state hp dflt progs)).

(** operation-level schedule (each entry runs one whole operation of that thread) *)
Definition observe_ops (fl : flags) (hp : list (rt * htable)) (dflt : htable)
    (progs : list (thread * list op)) (sched : list thread) : string :=
  show_state (map fst progs) (run_ops c_fp c_val fl sched (init_state hp dflt progs)).

(** A schedule that loses a registration when the read-modify-write of the table is not atomic:
    both threads read the table, then both write. *)
Definition lost_progs : list (thread * list op) :=
  [(1%N, [Register 1%N 10%N]); (2%N, [Register 2%N 20%N])].
Definition lost_sched : list thread := [1%N; 2%N; 1%N; 2%N].

(** The cache invariant the theorems rely on, as a computable check on a state. *)
Definition cache_ok (s : gstate) : bool :=
  forallb (fun '(f, v) => N.eqb v f) (cache s).
