(** Model of labrea/datasetclass.py (property C19), as the code is after fix 61df49c
    ([get_dotted_key(key, options)] in the constructor).

    A dataset class is the list of its members in the order [dir(cls)] yields them.  Member
    expressions are ABSTRACT: a member expression [e : X] is given by the four functions of the
    options dictionary every labrea [Evaluatable] has ([evaluate], [validate], [keys], [explain]);
    they are Section variables, so every definition (and every theorem in
    Proofs/DatasetClassProofs.v) holds for every kind of member (options, datasets, switches,
    other dataset classes, ...).

    Transcribed clause by clause from labrea/datasetclass.py:
      [_DatasetClassMeta.validate/keys/explain]  lines 43-69   -> [class_validate], [class_keys],
                                                                  [class_explain]
      [_DatasetClassMeta.evaluate]               lines 40-41   -> [class_evaluate] (= instantiate)
      [_DatasetClassMixin.__init__]              lines 87-100  -> [eval_members], [repr_options],
                                                                  [instantiate]
      [_DatasetClassMixin.__repr__]              lines 102-103 -> [inst_repr]
      [_DatasetClassMixin.__eq__]                lines 105-109 -> [inst_eq]
    Executable definitions only; proofs are in Proofs/DatasetClassProofs.v. *)
From Coq Require Import List NArith Bool.
Import ListNotations.
From LV Require Import Model.Base.

(** Outcome of one of the four methods of a member: a value or the exception it raises. *)
Inductive result (E A : Type) : Type :=
| Ok (a : A)
| Err (e : E).
Arguments Ok {E A} a.
Arguments Err {E A} e.

(** A class attribute that [dir(cls)] lists: an [Evaluatable] (the metaclass's [__init__],
    lines 16-38, has already wrapped every *annotated* non-Evaluatable attribute into [Value],
    which is an [MExpr] whose evaluation is constant) or a plain attribute (unannotated
    constant), which the constructor leaves alone (line 94: [isinstance(val, Evaluatable)]). *)
Inductive member (X V : Type) : Type :=
| MExpr (e : X)
| MConst (v : V).
Arguments MExpr {X V} e.
Arguments MConst {X V} v.

(** One name of [dir(cls)].  Names are atoms whose order ([N.ltb]) is the order of the Python
    strings; [e_hidden] is [name.startswith("__")] (lines 46, 55, 66, 94: such names are skipped
    by all four class operations and by the constructor). *)
Record entry (X V : Type) : Type := mk_entry {
  e_name : N;
  e_hidden : bool;
  e_member : member X V
}.
Arguments mk_entry {X V} e_name e_hidden e_member.
Arguments e_name {X V} e.
Arguments e_hidden {X V} e.
Arguments e_member {X V} e.

(** [dir(cls)]: the names defined by the class or any base, sorted, each bound to its most
    derived definition ([getattr(cls, name)] follows the MRO).  [mro] lists the class bodies
    (each in declaration order, a later assignment of the same name winning), most derived
    first. *)
Fixpoint dir_insert {X V} (en : entry X V) (l : list (entry X V)) : list (entry X V) :=
  match l with
  | [] => [en]
  | x :: l' =>
      if N.ltb (e_name en) (e_name x) then en :: l
      else if N.eqb (e_name en) (e_name x) then en :: l'
      else x :: dir_insert en l'
  end.

Definition dir_entries {X V} (mro : list (list (entry X V))) : list (entry X V) :=
  fold_left (fun acc en => dir_insert en acc) (concat (rev mro)) [].

(** The class: an identity (class objects are compared by identity in [__eq__]) and its
    [dir()] entries. *)
Record klass (X V : Type) : Type := mk_klass {
  k_id : N;
  k_entries : list (entry X V)
}.
Arguments mk_klass {X V} k_id k_entries.
Arguments k_id {X V} k.
Arguments k_entries {X V} k.

(** The names the four operations look at. *)
Definition visible {X V} (ms : list (entry X V)) : list (entry X V) :=
  filter (fun en => negb (e_hidden en)) ms.

(** The evaluatable members among them, in [dir()] order. *)
Fixpoint member_exprs {X V} (ms : list (entry X V)) : list X :=
  match ms with
  | [] => []
  | en :: ms' =>
      if e_hidden en then member_exprs ms'
      else match e_member en with
           | MExpr e => e :: member_exprs ms'
           | MConst _ => member_exprs ms'
           end
  end.

(** ** [_repr_options] (datasetclass.py lines 97-100)

      self._repr_options = {}
      for key in sorted(self.__class__.keys(options)):
          value = get_dotted_key(key, options)
          set_dotted_key(key, value, self._repr_options)

    [get_dotted_key] raises KeyError ([Absent]) or TypeError ([TypeErr]); [set_dotted_key]
    raises TypeError when a parent on the path is not a dict (Base.[set_dotted] = None): that is
    what happens when both 'L' and 'L.0' are reported and options['L'] is a list. *)
Inductive rres : Type :=
| RBuilt (r : dict)
| RLookupFails (k : key) (why : lres)
| RSetFails (k : key).

Fixpoint build_repr (ks : list key) (o : dict) (acc : dict) : rres :=
  match ks with
  | [] => RBuilt acc
  | k :: ks' =>
      match lookup_top k o with
      | Found v =>
          match set_dotted k v acc with
          | Some acc' => build_repr ks' o acc'
          | None => RSetFails k
          end
      | why => RLookupFails k why
      end
  end.

Definition repr_options (reported : list key) (o : dict) : rres :=
  build_repr (key_sort reported) o [].

(** ** What the constructor writes into objects owned by the CALLER.

    The model above is pure, Python is not: [set_dotted_key(key, value, self._repr_options)]
    first stores, for a reported key [p], the caller's own object [options[p]] (no copy); when a
    longer key [p.q] is reported too it is processed later ([sorted]: a prefix sorts before its
    extensions), [setdefault] returns that very object and the assignment lands in it.  So the
    writes that reach the caller's dictionary are exactly the reported keys that have a proper
    prefix among the reported keys processed before them, each writing the value just read from
    the caller's dictionary under the same key.  [caller_after] applies those writes to the
    caller's dictionary (the boolean is false when a write raises: the exception leaves the
    constructor and the dictionary stays as the earlier writes left it). *)
Fixpoint proper_prefix (p k : key) : bool :=
  match p, k with
  | [], _ :: _ => true
  | a :: p', b :: k' => seg_eqb a b && proper_prefix p' k'
  | _, _ => false
  end.

Fixpoint caller_writes (done ks : list key) (o : dict) : list (key * json) :=
  match ks with
  | [] => []
  | k :: ks' =>
      (if existsb (fun p => proper_prefix p k) done
       then match lookup_top k o with Found v => [(k, v)] | _ => [] end
       else [])
      ++ caller_writes (k :: done) ks' o
  end.

Fixpoint apply_writes (ws : list (key * json)) (o : dict) : dict * bool :=
  match ws with
  | [] => (o, true)
  | (k, v) :: ws' =>
      match set_dotted k v o with
      | Some o' => apply_writes ws' o'
      | None => (o, false)
      end
  end.

Definition caller_after (reported : list key) (o : dict) : dict * bool :=
  apply_writes (caller_writes [] (key_sort reported) o) o.

(** ** Instances. *)
Record instance (V : Type) : Type := mk_instance {
  i_cls : N;                     (* self.__class__ *)
  i_members : list (N * V);      (* the visible attributes, in dir() order, as read on the instance *)
  i_repr : dict                  (* self._repr_options *)
}.
Arguments mk_instance {V} i_cls i_members i_repr.
Arguments i_cls {V} i.
Arguments i_members {V} i.
Arguments i_repr {V} i.

(** Outcome of [cls(options)]. *)
Inductive outcome (E A : Type) : Type :=
| Built (a : A)
| MemberFails (name : N) (e : E)        (* line 95: val.evaluate(options) raised *)
| KeysFails (e : E)                     (* line 98: cls.keys(options) raised *)
| LookupFails (k : key) (why : lres)    (* line 99: get_dotted_key raised *)
| SetFails (k : key).                   (* line 100: set_dotted_key raised TypeError *)
Arguments Built {E A} a.
Arguments MemberFails {E A} name e.
Arguments KeysFails {E A} e.
Arguments LookupFails {E A} k why.
Arguments SetFails {E A} k.

(** [__eq__]: [isinstance(other, self.__class__) and self._repr_options == other._repr_options].
    As observed through [==]: for instances of two different dataset classes the result is False
    also when one class derives from the other (CPython asks the subclass instance first, whose
    [isinstance] test fails and which answers False, not NotImplemented); so the class test is
    identity of the class.  The dictionaries are compared with Python's [==]: Base.[json_eq]. *)
Definition inst_eq {V} (a b : instance V) : bool :=
  N.eqb (i_cls a) (i_cls b) && json_eq (JObj (i_repr a)) (JObj (i_repr b)).

(** [__repr__]: f"{cls.__name__}({self._repr_options!r})" — the class and the dictionary shown. *)
Definition inst_repr {V} (a : instance V) : N * dict := (i_cls a, i_repr a).

Section DatasetClass.
  (** Member expressions, member values, exceptions: abstract. *)
  Variables X V E : Type.
  Variable ev : X -> dict -> result E V.            (* e.evaluate(options) *)
  Variable vl : X -> dict -> option E.              (* e.validate(options): None = passes *)
  Variable ks : X -> dict -> result E (list key).   (* e.keys(options) *)
  Variable ex : X -> dict -> result E (list key).   (* e.explain(options) *)

  (** Lines 92-95: for key in dir(cls): val = getattr(self, key); if it is an Evaluatable and
      the name does not start with "__": setattr(self, key, val.evaluate(options)).  The first
      exception propagates.  Plain attributes stay readable through the class. *)
  Fixpoint eval_members (ms : list (entry X V)) (o : dict) : result (N * E) (list (N * V)) :=
    match ms with
    | [] => Ok []
    | en :: ms' =>
        if e_hidden en then eval_members ms' o
        else
          match e_member en with
          | MConst v =>
              match eval_members ms' o with
              | Ok l => Ok ((e_name en, v) :: l)
              | Err x => Err x
              end
          | MExpr e =>
              match ev e o with
              | Err x => Err (e_name en, x)
              | Ok v =>
                  match eval_members ms' o with
                  | Ok l => Ok ((e_name en, v) :: l)
                  | Err x => Err x
                  end
              end
          end
    end.

  (** Lines 49-69: the set comprehension visits the names in dir() order, calls the member's
      [keys]/[explain] and adds every key; the first exception propagates. *)
  Fixpoint collect (f : X -> dict -> result E (list key)) (ms : list (entry X V)) (o : dict)
    : result E (list key) :=
    match ms with
    | [] => Ok []
    | en :: ms' =>
        if e_hidden en then collect f ms' o
        else
          match e_member en with
          | MConst _ => collect f ms' o
          | MExpr e =>
              match f e o with
              | Err x => Err x
              | Ok a =>
                  match collect f ms' o with
                  | Ok b => Ok (a ++ b)
                  | Err x => Err x
                  end
              end
          end
    end.

  Definition class_keys (c : klass X V) (o : dict) : result E (list key) :=
    collect ks (k_entries c) o.

  Definition class_explain (c : klass X V) (o : dict) : result E (list key) :=
    collect ex (k_entries c) o.

  (** Lines 43-47: validate each member in dir() order; the first exception propagates. *)
  Fixpoint validate_members (ms : list (entry X V)) (o : dict) : option E :=
    match ms with
    | [] => None
    | en :: ms' =>
        if e_hidden en then validate_members ms' o
        else
          match e_member en with
          | MConst _ => validate_members ms' o
          | MExpr e =>
              match vl e o with
              | Some x => Some x
              | None => validate_members ms' o
              end
          end
    end.

  Definition class_validate (c : klass X V) (o : dict) : option E :=
    validate_members (k_entries c) o.

  (** [_DatasetClassMixin.__init__]. *)
  Definition instantiate (c : klass X V) (o : dict) : outcome E (instance V) :=
    match eval_members (k_entries c) o with
    | Err (n, x) => MemberFails n x
    | Ok vals =>
        match class_keys c o with
        | Err x => KeysFails x
        | Ok reported =>
            match repr_options reported o with
            | RBuilt r => Built (mk_instance (k_id c) vals r)
            | RLookupFails k why => LookupFails k why
            | RSetFails k => SetFails k
            end
        end
    end.

  (** [_DatasetClassMeta.evaluate(cls, options)] = [cls(options)]. *)
  Definition class_evaluate (c : klass X V) (o : dict) : outcome E (instance V) := instantiate c o.
End DatasetClass.

(** Side condition of the [_partial] theorems: a reported key is a non-empty path of names (no
    list index).  (Python never produces the empty path: ''.split('.') is ['']). *)
Definition is_name (s : seg) : bool := match s with SName _ => true | SIdx _ => false end.

Definition name_key (k : key) : bool :=
  match k with [] => false | _ => forallb is_name k end.

Definition name_keys (reported : list key) : bool := forallb name_key reported.

Definition is_found (r : lres) : bool := match r with Found _ => true | _ => false end.

(** ... and every reported key is present in the dictionary (what C03 demands of [keys]). *)
Definition keys_present (reported : list key) (o : dict) : bool :=
  forallb (fun k => is_found (lookup_top k o)) reported.
