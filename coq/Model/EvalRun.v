(** Concrete instance of the interpreters for the correspondence check: the real memo store,
    table-driven user functions, histories of operations, and printers. *)
From Coq Require Import List NArith ZArith Bool String.
Import ListNotations.
From LV Require Import Model.Show Model.Base Model.Template Model.Eval Model.Derived.
Open Scope string_scope.

(** ** The memo store: one association list per MemoryCache object *)
Definition store := list (N * list (fp * value)).

Fixpoint fp_find (f : fp) (l : list (fp * value)) : option value :=
  match l with [] => None | (f', v) :: l' => if fp_eqb f f' then Some v else fp_find f l' end.

Fixpoint fp_put (f : fp) (v : value) (l : list (fp * value)) : list (fp * value) :=
  match l with
  | [] => [(f, v)]
  | (f', v') :: l' => if fp_eqb f f' then (f, v) :: l' else (f', v') :: fp_put f v l'
  end.

Fixpoint st_get (c : N) (s : store) : list (fp * value) :=
  match s with [] => [] | (c', l) :: s' => if N.eqb c c' then l else st_get c s' end.

Fixpoint st_put (c : N) (l : list (fp * value)) (s : store) : store :=
  match s with
  | [] => [(c, l)]
  | (c', l') :: s' => if N.eqb c c' then (c, l) :: s' else (c', l') :: st_put c l s'
  end.

Definition mem_find (c : N) (f : fp) (s : store) : option value := fp_find f (st_get c s).
Definition mem_store (c : N) (f : fp) (v : value) (s : store) : store := st_put c (fp_put f v (st_get c s)) s.

(** ** User functions, table driven *)
Inductive fdesc :=
| FTag                                    (* returns the tagged tuple (f, *args) *)
| FTagRaiseOn (bad : value) (n : N)       (* … but raises exception n when some argument == bad *)
| FRaise (n : N)
| FConst (v : value)
| FFirst                                  (* returns its first argument *)
| FEq (v : value)                         (* predicate: first argument == v *)
| FIn (vs : list value)                   (* predicate: first argument in vs *)
| FTruthy                                 (* predicate: bool(first argument) *)
| FEq2.                                   (* predicate: first argument == second argument *)

Definition ftable := list (N * fdesc).

Fixpoint fassoc (f : N) (t : ftable) : option fdesc :=
  match t with [] => None | (g, d) :: t' => if N.eqb f g then Some d else fassoc f t' end.

Definition ucall_of (t : ftable) (f : N) (args : list value) : cres :=
  match fassoc f t with
  | None | Some FTag => COk (VT f args)
  | Some (FTagRaiseOn bad n) => if existsb (fun a => value_eq a bad) args then CRaise n else COk (VT f args)
  | Some (FRaise n) => CRaise n
  | Some (FConst v) => COk v
  | Some FFirst => match args with a :: _ => COk a | [] => CRaise 0 end
  | Some (FEq v) => match args with a :: _ => COk (VJ (JBool (value_eq a v))) | [] => CRaise 0 end
  | Some (FIn vs) => match args with a :: _ => COk (VJ (JBool (existsb (fun x => value_eq a x) vs))) | [] => CRaise 0 end
  | Some FTruthy => match args with a :: _ => COk (VJ (JBool (truthy a))) | [] => CRaise 0 end
  | Some FEq2 => match args with a :: b :: _ => COk (VJ (JBool (value_eq a b))) | _ => CRaise 0 end
  end.

(** ** Printers.  Option names: atoms 1..6 are the reserved switch names, atom n is "K<n>". *)
Definition show_name (n : N) : string :=
  if N.eqb n 1 then "LABREA" else if N.eqb n 2 then "CACHE" else if N.eqb n 3 then "DISABLED"
  else if N.eqb n 4 then "DISABLE" else if N.eqb n 5 then "EFFECTS" else if N.eqb n 6 then "LOGGING"
  else "K" ++ showN n.
Definition show_seg (s : seg) : string := match s with SName n => show_name n | SIdx i => showN i end.
Definition show_key (k : key) : string := String.concat "." (map show_seg k).

Definition show_tok (t : tok) : string :=
  match t with
  | TLit c => String (Ascii.ascii_of_N c) EmptyString
  | TRef k => "{" ++ show_key k ++ "}"
  | TPar p => "{:p" ++ showN p ++ ":}"
  | TEscL => "\{"
  | TEscR => "\}"
  end.
Definition show_str (s : str) : string := "'" ++ String.concat "" (map show_tok s) ++ "'".

Fixpoint show_json (j : json) : string :=
  match j with
  | JNull => "N"
  | JBool b => showB b
  | JInt z => showZ z
  | JFlt i => "f" ++ showN i
  | JStr s => show_str s
  | JList l => brack ((fix go (l : list json) := match l with [] => [] | x :: l' => show_json x :: go l' end) l)
  | JObj m => "{" ++ commas ((fix go (m : dict) := match m with [] => []
                                | (k, x) :: m' => ("'" ++ show_seg k ++ "':" ++ show_json x) :: go m' end) m) ++ "}"
  end.

Fixpoint show_value (v : value) : string :=
  let many := fix go (l : list value) : list string :=
                match l with [] => [] | x :: l' => show_value x :: go l' end in
  match v with
  | VJ j => show_json j
  | VT t args =>
      if N.eqb t T_ITER || N.eqb t T_LIST then brack (many args)
      else if N.eqb t T_TUPLE then "(" ++ commas (many args) ++ ")"
      else if N.eqb t T_DICT then "{" ++ commas (many args) ++ "}"
      else if N.eqb t T_PAIR then
        match args with
        | [VJ (JStr [TRef k]); x] => "'" ++ show_key k ++ "':" ++ show_value x
        | [k; x] => show_value k ++ ":" ++ show_value x
        | _ => "?"
        end
      else "t" ++ showN t ++ "(" ++ commas (many args) ++ ")"
  | VF _ _ _ => "<fn>"
  | VMissing => "MISSING"
  | VErr _ => "<deferred error>"
  end.

Definition show_cause (c : cause) : string :=
  match c with
  | CKey k => "key(" ++ show_key k ++ ")"
  | CSwitch => "switch" | CCase => "case" | CDomain => "domain"
  | CUser n => "user(" ++ showN n ++ ")"
  | CType => "type" | CInsuff => "insuff" | CFuel => "fuel" | CUnmodelled => "unmod"
  end.

Definition show_res {A} (f : A -> string) (r : res A) : string :=
  match r with
  | Ok a => "ok:" ++ f a
  | Err c ee => "err:" ++ show_cause c ++ ":" ++ showB ee
  end.

Definition show_keys (ks : list key) : string := brack (map show_key (key_sort ks)).

Definition show_event (e : event) : list string :=
  match e with
  | EvCall f args => ["c" ++ showN f ++ "(" ++ commas (map show_value args) ++ ")"]
  | EvLogReq => ["log"]
  | EvLogEmit => ["emit"]
  | EvCacheSet c => ["set" ++ showN c]
  | EvCacheGet c h => ["get" ++ showN c ++ showB h]
  | EvCacheExists c h => ["ex" ++ showN c ++ showB h]
  | EvDirty c => ["dirty" ++ showN c]
  | EvLazyStored c => ["dirtylazy" ++ showN c]
  | _ => []
  end.

(** The cache-free reference run ([unit] store): what labrea.cache.disabled() computes. *)
Definition nc_find (c : N) (f : fp) (s : unit) : option value := None.
Definition nc_store (c : N) (f : fp) (v : value) (s : unit) : unit := tt.
Definition cfg_nc : config := {| cache_ctx_off := true; log_ctx_off := false |}.

Definition eval_nc (u : N -> list value -> cres) (fuel : nat) (e : expr) (o : dict) : res value * list event :=
  let '(r, _, l) := eval unit nc_find nc_store cfg_nc u fuel (fun _ _ => true) e o tt in
  (match r with
   | Ok v => match deep_err v with Some c => Err c true | None => r end
   | _ => r
   end, l).
Definition keys_nc (u : N -> list value -> cres) (fuel : nat) (e : expr) (o : dict) : res (list key) * list event :=
  let '(r, _, l) := keys unit nc_find nc_store cfg_nc u fuel (fun _ _ => true) e o tt in (r, l).
Definition validate_nc (u : N -> list value -> cres) (fuel : nat) (e : expr) (o : dict) : res unit * list event :=
  let '(r, _, l) := validate unit nc_find nc_store cfg_nc u fuel (fun _ _ => true) e o tt in (r, l).
Definition explain_nc (u : N -> list value -> cres) (fuel : nat) (e : expr) (o : dict) : res (list key) * list event :=
  let '(r, _, l) := explain unit nc_find nc_store cfg_nc u fuel (fun _ _ => true) e o tt in (r, l).

(** ** The side condition of C01/C03, computed on the reference run: every option key that the
    cache-free evaluation of [e] under [o] found PRESENT is reported by keys(), keys() succeeds
    whenever the evaluation does, no lookup hit a scalar parent, the reported keys are name-only
    paths, and a whole-dictionary read (AllOptions) is covered by the reported top-level keys. *)
Definition names_only (k : key) : bool :=
  match k with [] => false | _ => forallb (fun s => match s with SName _ => true | SIdx _ => false end) k end.

Definition reads_reported (ks : list key) (o : dict) (l : list event) : bool :=
  forallb (fun ev => match ev with
                     | EvRead k p =>
                         (* by the flag recorded at the lookup (relative to the dictionary the
                            reading node saw) and by the caller's dictionary itself *)
                         (if p then key_mem k ks else true) &&
                         match lookup k (JObj o) with
                         | Found _ => key_mem k ks
                         | Absent => true
                         | TypeErr => false
                         end
                     | EvReadAll => forallb (fun kv => key_mem [fst kv] ks) o
                     | _ => true
                     end) l.

Definition clean_at (u : N -> list value -> cres) (fuel : nat) (e : expr) (o : dict) : bool :=
  let '(rv, lv) := eval_nc u fuel e o in
  let '(rk, lk) := keys_nc u fuel e o in
  match rk with
  | Ok ks => forallb names_only ks && reads_reported ks o lv && reads_reported ks o lk
  | Err _ _ => match rv with Ok _ => false | Err _ _ => true end
  end.

(** ** Histories *)
Inductive meth := MEval | MValidate | MKeys | MExplain.

Record op := { op_meth : meth; op_expr : nat; op_cfg : config; op_opts : dict }.

Definition cfg0 : config := {| cache_ctx_off := false; log_ctx_off := false |}.

Definition default_fuel : nat := 40.

Definition run_op (t : ftable) (es : list expr) (p : op) (s : store) : string * store :=
  let e := nth p.(op_expr) es (EValue VMissing) in
  let u := ucall_of t in
  let fin {A} (sh : A -> string) (x : res A * store * list event) :=
    let '(r, s', l) := x in
    (show_res sh r ++ "|" ++ String.concat " " (flat_map show_event l), s') in
  let forced (x : res value * store * list event) :=
    let '(r, s', l) := x in
    match r with
    | Ok v => match deep_err v with Some c => (Err c true, s', l) | None => (r, s', l) end
    | _ => (r, s', l)
    end in
  match p.(op_meth) with
  | MEval => fin show_value (forced (eval store mem_find mem_store p.(op_cfg) u default_fuel (clean_at u default_fuel) e p.(op_opts) s))
  | MValidate => fin (fun _ => "()") (validate store mem_find mem_store p.(op_cfg) u default_fuel (clean_at u default_fuel) e p.(op_opts) s)
  | MKeys => fin show_keys (keys store mem_find mem_store p.(op_cfg) u default_fuel (clean_at u default_fuel) e p.(op_opts) s)
  | MExplain => fin show_keys (explain store mem_find mem_store p.(op_cfg) u default_fuel (clean_at u default_fuel) e p.(op_opts) s)
  end.

Fixpoint run_ops (t : ftable) (es : list expr) (ops : list op) (s : store) : list string :=
  match ops with
  | [] => []
  | p :: ops' => let '(line, s') := run_op t es p s in line :: run_ops t es ops' s'
  end.

(** one scenario -> one line: observations joined by " ## " *)
Definition run_scenario (t : ftable) (es : list expr) (ops : list op) : string :=
  String.concat " ## " (run_ops t es ops []).

