(** Concrete instance of the C20 model used by the correspondence check: user functions given
    by a table of kinds (free-algebra bodies, "first argument" bodies, raising ones) and [show]
    functions producing the canonical observation strings the harness compares. *)
From Coq Require Import List NArith ZArith Bool String.
Import ListNotations.
From LV Require Import Model.Show Model.Base Model.Pickle.
Open Scope string_scope.

Inductive fkind :=
| KTag                      (* returns the tuple (name, *args) *)
| KFirst                    (* returns its first argument (used for dispatch datasets) *)
| KRaiseIf (bad : json)     (* raises when an argument equals [bad], else like KTag *)
| KRaise.                   (* always raises *)
Definition ftable := list (N * fkind).

Definition value_is (j : json) (v : value) : bool :=
  match v with VJ j' => json_eqb j j' | _ => false end.

Definition r_body (tb : ftable) (f : N) (args : list (N * value)) : option value :=
  match assoc f tb with
  | Some KFirst => match args with (_, v) :: _ => Some v | [] => Some (VJ JNull) end
  | Some (KRaiseIf bad) =>
      if existsb (fun '(_, v) => value_is bad v) args then None else Some (VTag f (map snd args))
  | Some KRaise => None
  | _ => Some (VTag f (map snd args))
  end.

Definition r_cbf (tb : ftable) (c : N) (v : value) : option value :=
  match assoc c tb with Some KRaise => None | _ => Some (VTag c [v]) end.

Definition r_eff (tb : ftable) (e : N) (v : value) : bool :=
  match assoc e tb with Some KRaise => false | _ => true end.

(** ** Printing *)
Definition show_seg (s : seg) : string :=
  match s with SName n => "n" ++ showN n | SIdx i => "x" ++ showN i end.
Definition show_key (k : key) : string := String.concat "." (map show_seg k).
Definition show_tok (t : tok) : string :=
  match t with TLit c => showN c | TRef k => "R" ++ show_key k | TPar p => "P" ++ showN p
          | TEscL => "EL" | TEscR => "ER" end.
Definition show_str (s : str) : string := "s(" ++ String.concat "." (map show_tok s) ++ ")".

Fixpoint show_json (j : json) : string :=
  match j with
  | JNull => "n"
  | JBool b => "b" ++ showB b
  | JInt z => "i" ++ showZ z
  | JFlt id => "f" ++ showN id
  | JStr s => show_str s
  | JList l => "l" ++ brack (map show_json l)
  | JObj m => "o{" ++ commas (map (fun '(k, v) => show_seg k ++ ":" ++ show_json v) m) ++ "}"
  end.

Fixpoint show_value (v : value) : string :=
  match v with
  | VJ j => show_json j
  | VTag f args => "t" ++ showN f ++ "(" ++ commas (map show_value args) ++ ")"
  | VMissing => "M"
  end.

Definition show_fail (e : fail) : string :=
  match e with
  | FMissing => "missing" | FSwitch => "switch" | FUser => "user" | FType => "type" | FFuel => "fuel"
  end.

Definition show_res {A} (f : A -> string) (r : res A) : string :=
  match r with Ok a => "ok:" ++ f a | Fail e => "fail:" ++ show_fail e end.

Definition show_keys (ks : list key) : string := brack (map show_key (key_sort ks)).

Definition show_hkey (k : hkey) : string :=
  match k with HStr s => show_str s | HInt z => "i" ++ showZ z | HNone => "n" end.

Definition show_lock (l : lockf) : string := match l with Live _ _ => "L" | Pickled _ => "P" end.

Definition show_fp (f : fprint) : string :=
  brack (map (fun '(k, v) => show_key k ++ "=" ++ show_json v) (fp_norm f)).

Definition show_cache (c : cache) : string :=
  match c with
  | CNoCache => "nocache"
  | CMemory es => "mem" ++ brack (map (fun '(f, v) => show_fp f ++ "->" ++ show_value v) es)
  end.

Fixpoint show_node (t : node) : string :=
  match t with
  | NValue j => "V(" ++ show_json j ++ ")"
  | NMissingV => "MV"
  | NOption k d =>
      "O(" ++ show_key k ++ "," ++ match d with Some n => "some(" ++ show_node n ++ ")" | None => "none" end ++ ")"
  | NApply f a =>
      "A(" ++ showN f ++ brack (map (fun '(n, x) => showN n ++ "=" ++ show_node x) a) ++ ")"
  | NOverloaded d lk df l =>
      "OV(" ++ show_node d ++ ","
        ++ brack (map (fun '(k, x) => show_hkey k ++ "=>" ++ show_node x) lk) ++ ","
        ++ match df with Some n => "some(" ++ show_node n ++ ")" | None => "none" end ++ ","
        ++ show_lock l ++ ")"
  | NDataset ov effs c po dpo cb dis (Meta nm w) =>
      "D(" ++ show_node ov ++ ",e" ++ brack (map showN effs) ++ "," ++ show_cache c ++ ","
        ++ show_json (JObj po) ++ "," ++ show_json (JObj dpo) ++ ",c" ++ brack (map showN cb) ++ ","
        ++ showB dis ++ "," ++ showOpt showN nm ++ "," ++ showOpt showN w ++ ")"
  end.

(** the lock objects of the graph in pre-order: ["o<name>"] when the lock is one the process
    already had in [_LOCKS] before unpickling, ["new"] otherwise *)
Fixpoint lock_names (t : node) : list (option N) :=
  match t with
  | NValue _ | NMissingV => []
  | NOption _ d => match d with Some n => lock_names n | None => [] end
  | NApply _ a => flat_map (fun '(_, x) => lock_names x) a
  | NOverloaded d lk df l =>
      (match l with Live _ n => Some n | Pickled _ => None end)
        :: lock_names d ++ flat_map (fun '(_, x) => lock_names x) lk
        ++ match df with Some n => lock_names n | None => [] end
  | NDataset ov _ _ _ _ _ _ _ => lock_names ov
  end.

Definition show_locks (P : proc) (t : node) : string :=
  let known := map snd P.(locks) in
  brack (map (fun o => match o with
                       | Some n => if memN n known then "o" ++ showN n else "new"
                       | None => "int"
                       end) (lock_names (roundtrip P t))).

(** One observation line: evaluate | keys | validate *)
Definition observe (tb : ftable) (t : node) (o : dict) : string :=
  let fuel := fuel_for t in
  show_res show_value (eval (r_body tb) (r_cbf tb) (r_eff tb) fuel t o) ++ "|" ++
  show_res show_keys (keys (r_body tb) (r_cbf tb) (r_eff tb) fuel t o) ++ "|" ++
  show_res (fun _ => "") (valid (r_body tb) (r_cbf tb) (r_eff tb) fuel t o).

(** long outputs are compared through a rolling hash (tail recursive; the harness computes the
    same number on its own rendering) *)
Definition digest_mod : N := 2305843009213693951.   (* 2^61 - 1 *)
Fixpoint digest_from (s : string) (h : N) : N :=
  match s with
  | EmptyString => h
  | String c s' => digest_from s' ((h * 1000003 + Ascii.N_of_ascii c) mod digest_mod)%N
  end.
Definition digest (s : string) : string := showN (digest_from s 7).

(** the state after a round trip in process [P], and whether pickle accepts the graph *)
Definition show_roundtrip (P : proc) (t : node) : string := show_node (roundtrip P t).
Definition show_picklable (imp : list N) (t : node) : string := showB (picklable imp t).

(** after the round trip: register a further overload and observe *)
Definition observe_registered (tb : ftable) (P : proc) (t : node) (k : hkey) (v : node) (o : dict) : string :=
  match register k v (roundtrip P t) with
  | Some t' => observe tb t' o
  | None => "register-failed"
  end.
