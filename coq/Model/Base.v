(** Base data of the labrea model: dotted keys, template strings, JSON option values, and
    Gallina re-implementations of the confectioner functions labrea calls
    ([get_dotted_key], [dotted_key_exists], [set_dotted_key], [mix]).
    Executable definitions only.  Everything here is *modelled*, not verified, code of a
    third-party package; it is validated by the correspondence check (harness/props/c04.py,
    c08.py, c09.py), exhaustively over a small JSON universe. *)
From Coq Require Import List NArith ZArith Bool.
Import ListNotations.

(** ** Dotted keys.  ['S.X.0'] is [[SName S; SName X; SIdx 0]]: [get_dotted_key] splits on
    ['.'] and turns an integer-looking segment into an int.  A dictionary key is a [seg] too
    (an integer-looking *string* key is [SIdx i]: it can be created by [set_dotted_key] but never
    read back by [get_dotted_key], which is finding D10). *)
Inductive seg := SName (n : N) | SIdx (i : N).
Definition key := list seg.

Definition seg_eqb (a b : seg) : bool :=
  match a, b with
  | SName x, SName y => N.eqb x y
  | SIdx x, SIdx y => N.eqb x y
  | _, _ => false
  end.

Fixpoint key_eqb (a b : key) : bool :=
  match a, b with
  | [], [] => true
  | x :: a', y :: b' => seg_eqb x y && key_eqb a' b'
  | _, _ => false
  end.

(** total order on segments / keys (only used to sort key sets canonically) *)
Definition seg_ltb (a b : seg) : bool :=
  match a, b with
  | SIdx x, SIdx y => N.ltb x y
  | SIdx _, SName _ => true
  | SName _, SIdx _ => false
  | SName x, SName y => N.ltb x y
  end.

Fixpoint key_ltb (a b : key) : bool :=
  match a, b with
  | [], [] => false
  | [], _ :: _ => true
  | _ :: _, [] => false
  | x :: a', y :: b' => if seg_ltb x y then true else if seg_eqb x y then key_ltb a' b' else false
  end.

Fixpoint key_insert (k : key) (l : list key) : list key :=
  match l with
  | [] => [k]
  | k' :: l' => if key_ltb k k' then k :: l else if key_eqb k k' then l else k' :: key_insert k l'
  end.

(** [sorted(set(...))] *)
Definition key_sort (l : list key) : list key := fold_right key_insert [] l.

Fixpoint key_mem (k : key) (l : list key) : bool :=
  match l with [] => false | k' :: l' => key_eqb k k' || key_mem k l' end.

(** ** Template strings as token lists.  Literal characters are ASCII codes outside
    [{ } \ :] so that confectioner's regex scan coincides with the token view. *)
Inductive tok :=
| TLit (c : N)          (* one literal character (ASCII code) *)
| TRef (k : key)        (* {DOTTED.KEY} *)
| TPar (p : N)          (* {:name:} — a Template parameter *)
| TEscL                 (* \{ *)
| TEscR.                (* \} *)
Definition str := list tok.

Definition tok_eqb (a b : tok) : bool :=
  match a, b with
  | TLit x, TLit y => N.eqb x y
  | TRef x, TRef y => key_eqb x y
  | TPar x, TPar y => N.eqb x y
  | TEscL, TEscL => true
  | TEscR, TEscR => true
  | _, _ => false
  end.

Fixpoint str_eqb (a b : str) : bool :=
  match a, b with
  | [], [] => true
  | x :: a', y :: b' => tok_eqb x y && str_eqb a' b'
  | _, _ => false
  end.

(** ** JSON option values.  Objects are association lists in insertion order. *)
Inductive json :=
| JNull
| JBool (b : bool)
| JInt (z : Z)
| JFlt (id : N)                      (* opaque float *)
| JStr (s : str)
| JList (l : list json)
| JObj (m : list (seg * json)).

Definition dict := list (seg * json).

Fixpoint json_eqb (a b : json) {struct a} : bool :=
  match a, b with
  | JNull, JNull => true
  | JBool x, JBool y => Bool.eqb x y
  | JInt x, JInt y => Z.eqb x y
  | JFlt x, JFlt y => N.eqb x y
  | JStr x, JStr y => str_eqb x y
  | JList x, JList y =>
      (fix go (x y : list json) : bool :=
         match x, y with
         | [], [] => true
         | a :: x', b :: y' => json_eqb a b && go x' y'
         | _, _ => false
         end) x y
  | JObj x, JObj y =>
      (fix go (x y : list (seg * json)) : bool :=
         match x, y with
         | [], [] => true
         | (ka, a) :: x', (kb, b) :: y' => seg_eqb ka kb && json_eqb a b && go x' y'
         | _, _ => false
         end) x y
  | _, _ => false
  end.

(** Python [==] on JSON values: dictionaries compare regardless of insertion order (keys are
    unique).  Used for values, dispatch keys, domain membership. *)
Fixpoint dget (k : seg) (m : dict) : option json :=
  match m with
  | [] => None
  | (k', v) :: m' => if seg_eqb k k' then Some v else dget k m'
  end.

Definition bool_z (b : bool) : Z := if b then 1%Z else 0%Z.

Fixpoint json_eq (a b : json) {struct a} : bool :=
  match a, b with
  | JNull, JNull => true
  | JBool x, JBool y => Bool.eqb x y
  | JBool x, JInt y => Z.eqb (bool_z x) y      (* True == 1, False == 0 *)
  | JInt x, JBool y => Z.eqb x (bool_z y)
  | JInt x, JInt y => Z.eqb x y
  | JFlt x, JFlt y => N.eqb x y
  | JStr x, JStr y => str_eqb x y
  | JList x, JList y =>
      (fix go (x y : list json) : bool :=
         match x, y with
         | [], [] => true
         | a :: x', b :: y' => json_eq a b && go x' y'
         | _, _ => false
         end) x y
  | JObj x, JObj y =>
      Nat.eqb (length x) (length y) &&
      (fix go (x : list (seg * json)) : bool :=
         match x with
         | [] => true
         | (ka, a) :: x' =>
             match dget ka y with Some b => json_eq a b | None => false end && go x'
         end) x
  | _, _ => false
  end.

(** ** [get_dotted_key] / [dotted_key_exists].
    [Found v]: the value; [Absent]: KeyError / IndexError ("the key is not there");
    [TypeErr]: Python TypeError from indexing a scalar parent (finding D6). *)
Inductive lres := Found (v : json) | Absent | TypeErr.

Fixpoint lookup (k : key) (j : json) : lres :=
  match k with
  | [] => Found j
  | s :: k' =>
      match j with
      | JObj m =>
          match s with
          | SIdx _ => Absent                        (* int key on a Mapping: KeyError *)
          | SName _ => match dget s m with Some v => lookup k' v | None => Absent end
          end
      | JList l =>
          match s with
          | SName _ => Absent                       (* str key on a list: KeyError *)
          | SIdx i => match nth_error l (N.to_nat i) with Some v => lookup k' v | None => Absent end
          end
      | _ => TypeErr                                (* scalar parent *)
      end
  end.

Definition lookup_top (k : key) (o : dict) : lres := lookup k (JObj o).

(** ** dict update [d[k] = v]: an existing key keeps its position, a new one is appended. *)
Fixpoint dset (k : seg) (v : json) (m : dict) : dict :=
  match m with
  | [] => [(k, v)]
  | (k', v') :: m' => if seg_eqb k k' then (k, v) :: m' else (k', v') :: dset k v m'
  end.

(** ** [set_dotted_key(dotted, val, options)] — segments are used as *strings* (no int
    conversion).  [None]: TypeError (the parent on the path is a list or a scalar). *)
Fixpoint set_dotted (k : key) (v : json) (m : dict) : option dict :=
  match k with
  | [] => Some m
  | [s] => Some (dset s v m)
  | s :: k' =>
      match dget s m with
      | None => match set_dotted k' v [] with Some sub => Some (dset s (JObj sub) m) | None => None end
      | Some (JObj sub0) =>
          match set_dotted k' v sub0 with Some sub => Some (dset s (JObj sub) m) | None => None end
      | Some _ => None
      end
  end.

(** ** [confectioner.mix(dish, ingredient)] with the default modes (dicts merge, lists
    overwrite):  for each (key, val) of the ingredient, in order:
      val is a dict  -> dish[key] = mix(dish.get(key, {}), val)
                        (mix of a non-dict dish with a dict ingredient returns the ingredient,
                         which equals mixing it into {} — that is how it is written here)
      otherwise      -> dish[key] = val *)
Definition as_dict (j : json) : dict := match j with JObj m => m | _ => [] end.

Definition mix_loop (rec : json -> json -> json) : dict -> dict -> dict :=
  fix go (ing : dict) (acc : dict) {struct ing} : dict :=
  match ing with
  | [] => acc
  | (k, v) :: ing' =>
      let v' :=
        match v with
        | JObj _ => rec (match dget k acc with Some d => d | None => JObj [] end) v
        | _ => v
        end in
      go ing' (dset k v' acc)
  end.

Fixpoint mixj (dish ing : json) {struct ing} : json :=
  match ing with
  | JObj im => JObj (mix_loop (fun d v => mixj d v) im (as_dict dish))
  | _ => ing
  end.

(** [mix(dish, ingredient)] on option dictionaries: the ingredient wins. *)
Definition mix (dish ing : dict) : dict := mix_loop (fun d v => mixj d v) ing dish.

(** ** Restriction of a dictionary to a set of dotted keys (the oracle of C03/C19): keep
    exactly the paths leading to a key of [ks]; a key that names a whole value keeps it whole;
    lists on a path are kept whole (list indices stay addressable). *)
Definition tails (s : seg) (ks : list key) : list key :=
  flat_map (fun k => match k with s' :: k' => if seg_eqb s s' then [k'] else [] | [] => [] end) ks.

Definition has_nil (ks : list key) : bool := existsb (fun k => match k with [] => true | _ => false end) ks.

Definition restrict_loop (rec : json -> list key -> json) (ks : list key) : dict -> dict :=
  fix go (m : dict) {struct m} : dict :=
  match m with
  | [] => []
  | (s, v) :: m' =>
      let ts := tails s ks in
      match ts with
      | [] => go m'
      | _ => (s, if has_nil ts then v else rec v ts) :: go m'
      end
  end.

Fixpoint restrictj (j : json) (ks : list key) {struct j} : json :=
  match j with
  | JObj m => JObj (restrict_loop (fun v ts => restrictj v ts) ks m)
  | _ => j
  end.

Definition restrict (o : dict) (ks : list key) : dict := restrict_loop (fun v ts => restrictj v ts) ks o.

(** Well-formedness of option values: dictionary keys are unique (Python dicts), hereditarily. *)
Fixpoint nodup_keys (m : dict) : bool :=
  match m with
  | [] => true
  | (k, _) :: m' => negb (existsb (fun kv => seg_eqb k (fst kv)) m') && nodup_keys m'
  end.

Fixpoint wf_json (j : json) : bool :=
  match j with
  | JObj m =>
      nodup_keys m &&
      (fix go (m : dict) : bool := match m with [] => true | (_, v) :: m' => wf_json v && go m' end) m
  | JList l =>
      (fix go (l : list json) : bool := match l with [] => true | v :: l' => wf_json v && go l' end) l
  | _ => true
  end.

Definition wf_dict (o : dict) : bool := wf_json (JObj o).
