(** C05 — the REFERENCE SEMANTICS of labrea expressions: what the equivalent eager Python
    computation over the same options yields.  A result-only definition in the plain error monad:
    no memo store, no event log, no ghost state, no request objects.  [Proofs/SpecProofs.v] proves
    that the code-structured interpreter [Eval.eval] (state + writer + exceptions, one clause per
    labrea class) computes exactly this on the cache-free reference instance.
    Executable definitions only; no proofs in this file. *)
From Coq Require Import List NArith ZArith Bool.
Import ListNotations.
From LV Require Import Model.Base Model.Template Model.Eval.

(** ** The plain error monad over [res] (a value, or a failure with its cause and whether it is
    an EvaluationError). *)
Definition rbind {A B} (r : res A) (f : A -> res B) : res B :=
  match r with Ok a => f a | Err c ee => Err c ee end.

(** [try: r  except <exception> as (c, ee): h c ee]; a run that left the modelled universe is
    never handled (as in [Eval.catch]). *)
Definition rcatch {A} (r : res A) (h : cause -> bool -> res A) : res A :=
  match r with
  | Ok a => Ok a
  | Err CUnmodelled ee => Err CUnmodelled ee
  | Err c ee => h c ee
  end.

(** whatever exception leaves an [evaluate] is (or is re-raised as) an EvaluationError *)
Definition as_ee {A} (r : res A) : res A :=
  match r with Ok a => Ok a | Err c _ => Err c true end.

Declare Scope spec_scope.
Delimit Scope spec_scope with spec.
Notation "x <~ m ;; f" := (rbind m (fun x => f))
  (at level 61, m at next level, right associativity) : spec_scope.
Notation "m ;;> f" := (rbind m (fun _ => f)) (at level 61, right associativity) : spec_scope.
Local Open Scope spec_scope.

Definition rmapM {A B} (f : A -> res B) : list A -> res (list B) :=
  fix go (l : list A) : res (list B) :=
    match l with
    | [] => Ok []
    | a :: l' => b <~ f a ;; bs <~ go l' ;; Ok (b :: bs)
    end.

Definition riterM {A} (f : A -> res unit) : list A -> res unit :=
  fix go (l : list A) : res unit :=
    match l with
    | [] => Ok tt
    | a :: l' => f a ;;> go l'
    end.

Section Spec.
  Variable ucall : N -> list value -> cres.       (* user code: deterministic, may raise *)
  Variable rfuel : nat.                           (* depth budget of template resolution *)

  (** ** Python function application on evaluated values *)

  (** consuming an iterable ([list(x)], [tuple(x)], a [for] loop): its elements, unless one of
      them is a deferred failure, which is raised there *)
  Definition sforce (v : value) : res (list value) :=
    match elements_of v with
    | Some els => match first_err els with Some c => Err c true | None => Ok els end
    | None => Err CType false
    end.

  (** [f(args…)] for a function atom: the builtins list / tuple / dict, else user code (which
      sees its arguments with every lazily evaluated iterable forced) *)
  Definition scall_fun (f : N) (args : list value) : res value :=
    if N.eqb f B_LIST then
      match args with [x] => els <~ sforce x ;; Ok (VT T_LIST els) | _ => Err CType false end
    else if N.eqb f B_TUPLE then
      match args with [x] => els <~ sforce x ;; Ok (VT T_TUPLE els) | _ => Err CType false end
    else if N.eqb f B_DICT then
      match args with
      | [x] => ps <~ sforce x ;;
               match first_err (flat_map (fun p => match elements_of p with Some l => l | None => [] end) ps) with
               | Some c => Err c true
               | None => match dict_of_pairs ps [] with Some d => Ok (VT T_DICT d) | None => Err CType false end
               end
      | _ => Err CType false
      end
    else
      match deep_err_list args with
      | Some c => Err c true
      | None =>
          match ucall f (map listify args) with
          | COk v => Ok v
          | CRaise n => Err (CUser n) false
          end
      end.

  (** [f(x)] for an evaluated callable: a function with captured arguments, or a composition
      (an evaluated pipeline) applying its members in order *)
  Fixpoint scall_value (f : value) (x : value) {struct f} : res value :=
    match f with
    | VF fid pre post =>
        if N.eqb fid B_COMPOSE then
          (fix go (fs : list value) (acc : value) {struct fs} : res value :=
             match fs with
             | [] => Ok acc
             | g :: fs' => y <~ scall_value g acc ;; go fs' y
             end) pre x
        else scall_fun fid (pre ++ [x] ++ post)
    | _ => Err CType false
    end.

  Definition scall_value_n (f : value) (args : list value) : res value :=
    match f with
    | VF fid pre post => if N.eqb fid B_COMPOSE then Err CType false else scall_fun fid (pre ++ args ++ post)
    | _ => Err CType false
    end.

  (** templated option values: the outcome of confectioner's [resolve] as a result *)
  Definition sres_of (r : rres) : res json :=
    match r with
    | ROk v => Ok v
    | RMissing k => Err (CKey k) true
    | RTypeErr => Err CType false
    | RFuel => Err CFuel false
    | RUnmodelled => Err CUnmodelled false
    end.

  (** an Option's declared domain: a predicate, or a container *)
  Definition sin_domain (d : value) (v : value) : res unit :=
    match d with
    | VF _ _ _ => b <~ scall_value d v ;; if truthy b then Ok tt else Err CDomain false
    | _ =>
        match elements_of d with
        | Some els => if existsb (fun x => value_eq v x) els then Ok tt else Err CDomain false
        | None => Ok tt
        end
    end.

  (** ** Leaves and helpers that take the evaluator of sub-expressions as a parameter *)

  (** Option (C04): the value stored under the key, templates resolved; only when the key is
      absent the default; else a missing-key failure.  Then the declared domain. *)
  Definition soption (ev : expr -> res value) (k : key) (dflt dom : option expr) (o : dict) : res value :=
    v <~ match lookup k (JObj o) with
         | TypeErr => Err CType false
         | Absent => match dflt with None => Err (CKey k) true | Some d => ev d end
         | Found raw => j <~ sres_of (resolve rfuel o raw) ;; Ok (VJ j)
         end ;;
    match dom with
    | None => Ok v
    | Some de => d <~ ev de ;; sin_domain d v ;;> Ok v
    end.

  Definition sall_options (o : dict) : res value :=
    j <~ sres_of (resolve rfuel o (JObj o)) ;; Ok (VJ j).

  Definition is_unmodelled (c : cause) : bool := match c with CUnmodelled => true | _ => false end.

  (** Map: the assignments, one per element of the cartesian product of the evaluated
      iterables (last iterable varying fastest), each a list of (key, value) in declaration order *)
  Definition smap_rows (ev : expr -> res value) (its : list (key * expr)) : res (list (list (key * value))) :=
    vals <~ rmapM (fun kv => v <~ ev (snd kv) ;; sforce v) its ;;
    Ok (map (fun combo => combine (map fst its) combo) (product vals)).

  (** … and the options dictionary an assignment denotes (dotted keys set one after the other) *)
  Definition srow_options (row : list (key * value)) : res dict :=
    match option_set (flat_map (fun kv => match json_of_value (snd kv) with
                                          | Some j => [(fst kv, j)] | None => [] end) row) [] with
    | Some os => if Nat.eqb (length os) 0 && negb (Nat.eqb (length row) 0) then Err CUnmodelled false else Ok os
    | None => Err CType false
    end.

  (** Template parameters (C09's subject; here as the model computes them) *)
  Definition stemplate_options (ev : expr -> res value) (ps : list (N * expr)) (o : dict) : res dict :=
    pvs <~ rmapM (fun pe => v <~ ev (snd pe) ;; Ok (fst pe, v)) ps ;;
    match option_set (flat_map (fun pv => match json_of_value (snd pv) with
                                          | Some j => [(par_key (fst pv), j)] | None => [] end) pvs) [] with
    | None => Err CUnmodelled false
    | Some pd => if negb (Nat.eqb (length pd) (length ps)) then Err CUnmodelled false else Ok (mix o pd)
    end.

  (** ** What an expression yields under the options [o] ([sem]) and whether it can be evaluated
      as far as [validate] tells ([sem_valid], needed by coalesce). *)
  Fixpoint sem (e : expr) (o : dict) {struct e} : res value :=
    as_ee
    match e with
    | EValue v => Ok v
    | EOption k dflt dom => soption (fun x => sem x o) k dflt dom o
    (* apply / >> : function application *)
    | EApply src fn => x <~ sem src o ;; f <~ sem fn o ;; scall_value f x
    (* bind: the expression the function returns for the source's value *)
    | EBind src tbl dflt =>
        x <~ sem src o ;;
        pick x (fun b => sem b o)
             (match dflt with Some d => sem d o | None => Err (CUser 0) false end) tbl
    (* switch: the branch registered under the dispatch value, otherwise — or when the dispatch
       cannot be evaluated — the default, otherwise a failure *)
    | ESwitch disp tbl dflt =>
        match sem disp o with
        | Ok k =>
            if hashable k then
              pick k (fun b => sem b o)
                   (match dflt with Some d => sem d o | None => Err CSwitch true end) tbl
            else Err CType false
        | Err c ee =>
            match dflt with
            | Some d => if is_unmodelled c then Err c ee else sem d o
            | None => Err c ee
            end
        end
    (* case-when: the first case whose condition holds of the dispatch value *)
    | ECase disp cases dflt =>
        x <~ sem disp o ;;
        (fix go (cs : list (expr * expr)) : res value :=
           match cs with
           | [] => match dflt with Some d => sem d o | None => Err CCase true end
           | (c, r) :: cs' =>
               p <~ sem c o ;; b <~ scall_value p x ;;
               if truthy b then sem r o else go cs'
           end) cases
    (* coalesce: the first member that validates and evaluates; the last failure otherwise *)
    | ECoalesce ms =>
        (fix go (ms : list expr) (last : option (cause * bool)) : res value :=
           match ms with
           | [] => match last with Some (c, ee) => Err c ee | None => Err CUnmodelled false end
           | m :: ms' =>
               rcatch (sem_valid m o ;;> sem m o)
                      (fun c ee => if ee then go ms' (Some (c, ee)) else Err c ee)
           end) ms None
    (* Iter: the elements in order; an element that fails ends the sequence with a deferred
       failure, raised when the iterable is consumed *)
    | EIter es =>
        vs <~ (fix go (es : list expr) : res (list value) :=
                 match es with
                 | [] => Ok []
                 | x :: es' => rcatch (v <~ sem x o ;;
                                       if is_some (deep_err v) then Ok [v]
                                       else vs <~ go es' ;; Ok (v :: vs))
                                      (fun c _ => Ok [VErr c])
                 end) es ;;
        Ok (VT T_ITER vs)
    (* Map: one (assignment, result) pair per element of the cartesian product, in order, each
       evaluated with that assignment overriding the caller's options *)
    | EMap e its =>
        rows <~ smap_rows (fun x => sem x o) its ;;
        rowsos <~ rmapM (fun row => os <~ srow_options row ;; Ok (row, os)) rows ;;
        rs <~ (fix go (rows : list (list (key * value) * dict)) : res (list value) :=
                 match rows with
                 | [] => Ok []
                 | (row, os) :: rows' =>
                     rcatch (r <~ sem e (mix o os) ;;
                             if is_some (deep_err r) then Ok [VT T_TUPLE [row_dict row; r]]
                             else rs <~ go rows' ;; Ok (VT T_TUPLE [row_dict row; r] :: rs))
                            (fun c _ => Ok [VErr c])
                 end) rowsos ;;
        Ok (VT T_ITER rs)
    (* WithOptions: evaluation under the mixed dictionary (pre-set options win when forced,
       the caller's otherwise) *)
    | EWith force p e => sem e (if force then mix o p else mix p o)
    (* a cache is transparent *)
    | ECached _ e => sem e o
    (* function application: func(args, kwargs) over the evaluated arguments *)
    | ECall partial f args kwargs =>
        fv <~ sem f o ;;
        av <~ rmapM (fun x => sem x o) args ;;
        kv <~ rmapM (fun x => sem x o) kwargs ;;
        if partial then
          match fv with
          | VF fid pre post => Ok (VF fid (pre ++ av) (post ++ kv))
          | _ => Err CUnmodelled false
          end
        else scall_value_n fv (av ++ kv)
    | ETemplate s ps =>
        o' <~ stemplate_options (fun x => sem x o) ps o ;;
        j <~ sres_of (resolve rfuel o' (JStr s)) ;;
        match to_str j with
        | Some r => Ok (VJ (JStr r))
        | None => Err CUnmodelled false
        end
    (* a computation yields its value; its effects run on it (unless switched off) and can
       only fail *)
    | EComp e effects =>
        v <~ sem e o ;;
        (if effects_opt_off o then Ok tt
         else riterM (fun eff => f <~ sem eff o ;; scall_value f v ;;> Ok tt) effects) ;;>
        Ok v
    | ELogged e => sem e o
    | EPipe steps =>
        fs <~ rmapM (fun x => sem x o) steps ;;
        Ok (VF B_COMPOSE (rev fs) [])
    | EAllOptions => sall_options o
    end

  with sem_valid (e : expr) (o : dict) {struct e} : res unit :=
    match e with
    | EValue _ => Ok tt
    | EOption k dflt dom =>
        match lookup k (JObj o) with
        | TypeErr => Err CType false
        | Found _ => as_ee (soption (fun x => sem x o) k dflt dom o) ;;> Ok tt
        | Absent => match dflt with Some d => sem_valid d o | None => Err (CKey k) true end
        end
    | EApply src fn => sem_valid src o ;;> sem_valid fn o
    | EBind src tbl dflt =>
        sem_valid src o ;;>
        x <~ sem src o ;;
        pick x (fun b => sem_valid b o)
             (match dflt with Some d => sem_valid d o | None => Err (CUser 0) false end) tbl
    | ESwitch disp tbl dflt =>
        match sem disp o with
        | Ok k =>
            if hashable k then
              pick k (fun b => sem_valid b o)
                   (match dflt with Some d => sem_valid d o | None => Err CSwitch true end) tbl
            else Err CType false
        | Err c ee =>
            match dflt with
            | Some d => if is_unmodelled c then Err c ee else sem_valid d o
            | None => Err c ee
            end
        end
    | ECase disp cases dflt =>
        sem_valid disp o ;;>
        x <~ sem disp o ;;
        (fix go (cs : list (expr * expr)) : res unit :=
           match cs with
           | [] => match dflt with Some d => sem_valid d o | None => Err CCase true end
           | (c, r) :: cs' =>
               p <~ sem c o ;; b <~ scall_value p x ;;
               if truthy b then sem_valid r o else go cs'
           end) cases
    | ECoalesce ms =>
        (fix go (ms : list expr) (last : option (cause * bool)) : res unit :=
           match ms with
           | [] => match last with Some (c, ee) => Err c ee | None => Err CUnmodelled false end
           | m :: ms' =>
               rcatch (sem_valid m o ;;> sem_valid m o)
                      (fun c ee => if ee then go ms' (Some (c, ee)) else Err c ee)
           end) ms None
    | EIter es => riterM (fun x => sem_valid x o) es
    | EMap e its =>
        rows <~ smap_rows (fun x => sem x o) its ;;
        riterM (fun row => os <~ srow_options row ;; sem_valid e (mix o os)) rows
    | EWith force p e => sem_valid e (if force then mix o p else mix p o)
    | ECached _ e => sem_valid e o
    | ECall _ f args kwargs =>
        sem_valid f o ;;> riterM (fun x => sem_valid x o) args ;;> riterM (fun x => sem_valid x o) kwargs
    | ETemplate s ps =>
        riterM (fun pe => sem_valid (snd pe) o) ps ;;>
        riterM (fun k => match lookup k (JObj o) with
                         | TypeErr => Err CType false
                         | Absent => Err (CKey k) true
                         | Found raw => as_ee (sres_of (resolve rfuel o raw)) ;;> Ok tt
                         end) (refs s)
    | EComp e effects =>
        sem_valid e o ;;>
        if effects_opt_off o then Ok tt else riterM (fun x => sem_valid x o) effects
    | ELogged e => sem_valid e o
    | EPipe steps => riterM (fun x => sem_valid x o) steps
    | EAllOptions => as_ee (sall_options o) ;;> Ok tt
    end.
End Spec.

(** What an observer who consumes the result sees: a value holding a deferred element failure
    (a lazily evaluated Iter / Map whose element fails) raises it at consumption.  This is what
    the harness compares with labrea's forced result. *)
Definition consumed (r : res value) : res value :=
  match r with
  | Ok v => match deep_err v with Some c => Err c true | None => Ok v end
  | Err c ee => Err c ee
  end.
