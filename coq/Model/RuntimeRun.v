(** Concrete runner for the correspondence check of C14: programs whose runtime objects are
    named by VARIABLES (as the Python harness names them), translated op by op to the rid-based
    operations of Model/Runtime.v, executed in lockstep on the concrete model ([step]) and on
    the abstract stack specification ([astep]), and printed as one string per scenario:
        "<concrete observations>|<specification observations>"
    Definitions only. *)
From Coq Require Import List NArith Bool String.
Import ListNotations.
From LV Require Import Model.Show Model.Runtime.
Open Scope string_scope.

Definition var := N.

Inductive pop :=
| PNew (x : var) (ov : table)            (* x = Runtime(ov)                       *)
| PHandle (x : var) (ov : table)         (* x = labrea.runtime.handle(ov)         *)
| PHandleOn (x y : var) (ov : table)     (* x = y.handle(ov)                      *)
| PBadHandle                             (* labrea.runtime.handle(T, None)        *)
| PBadHandleOn (y : var)                 (* y.handle(T, None)                     *)
| PCur (x : var)                         (* x = current_runtime()                 *)
| PEnter (y : var)                       (* with y as z: ...                      *)
| PExit                                  (* ... block ends normally               *)
| PExitExc                               (* ... block ends by raising             *)
| PDefault (t : ty) (h : tag)            (* T.handle(h)                           *)
| PRun (t : ty).                         (* T().run()                             *)

Definition env := list (var * rid).
Definition all_vars : list var := [0; 1; 2; 3; 4; 5; 6; 7]%N.

Definition aliases (e : env) (r : rid) : list var :=
  filter (fun x => match lookup x e with Some r' => N.eqb r r' | None => false end) all_vars.

(** translation: None = a variable is unbound (the harness never generates this) *)
Definition translate (e : env) (p : pop) : option (op * option var) :=
  match p with
  | PNew x ov => Some (New ov, Some x)
  | PHandle x ov => Some (Derive SCur ov, Some x)
  | PHandleOn x y ov =>
      match lookup y e with Some r => Some (Derive (SObj r) ov, Some x) | None => None end
  | PBadHandle => Some (DeriveBad SCur, None)
  | PBadHandleOn y =>
      match lookup y e with Some r => Some (DeriveBad (SObj r), None) | None => None end
  | PCur x => Some (GetCur, Some x)
  | PEnter y => match lookup y e with Some r => Some (Enter r, None) | None => None end
  | PExit => Some (Exit, None)
  | PExitExc => Some (ExitExc, None)
  | PDefault t h => Some (RegisterDefault t h, None)
  | PRun t => Some (Run t, None)
  end.

Definition show_obs (e : env) (o : obs) : string :=
  match o with
  | OServed h => "h" ++ showN h
  | OTypeError => "TypeError"
  | ORet r => "ret" ++ brack (map showN (aliases e r))
  | ODone => "done"
  | ORaised => "raised"
  | OUnmatchedExit => "unmatched"
  end.

Definition bind (e : env) (x : option var) (o : obs) : env :=
  match x, o with
  | Some v, ORet r => (v, r) :: e
  | _, _ => e
  end.

(** Lockstep execution.  The environment follows the CONCRETE model's returned identities;
    the specification allocates the same identities (refines_stack), and its observation is
    printed under the same environment. *)
Fixpoint exec (prog : list pop) (e : env) (s : state) (a : astate) : list string * list string :=
  match prog with
  | [] => ([], [])
  | p :: rest =>
      match translate e p with
      | None => let (c, sp) := exec rest e s a in ("unbound" :: c, "unbound" :: sp)
      | Some (c, x) =>
          let (s1, o) := step c s in
          let (a1, oa) := astep c a in
          let (cs, sps) := exec rest (bind e x o) s1 a1 in
          (show_obs e o :: cs, show_obs e oa :: sps)
      end
  end.

(** Initial state of a scenario: the defaults [pre] registered before the thread starts; the
    thread either never asked for a runtime, or ([existing]) already called current_runtime()
    (object 0, which snapshotted [pre]). *)
Definition init_objs (existing : bool) (pre : table) : objs :=
  if existing then mkObjs [(0%N, pre)] 1%N pre else mkObjs [] 0%N pre.
Definition init_state (existing : bool) (pre : table) : state :=
  if existing then thread_with 0%N (init_objs true pre) else fresh_thread (init_objs false pre).

(** "<concrete>|<specification>", the second part abbreviated to "=" when equal to the first. *)
Definition observe (existing : bool) (pre : table) (prog : list pop) : string :=
  let s := init_state existing pre in
  let (c, sp) := exec prog [] s (abs s) in
  let cs := commas c in
  let ss := commas sp in
  cs ++ "|" ++ (if String.eqb cs ss then "=" else ss).

(** Same programs on the OLD (pre-93f0f4c) enter/exit; used only for documentation and for
    cross-checking the reverse patch by hand. *)
Definition show_oobs (e : env) (o : oobs) : string :=
  match o with OO o' => show_obs e o' | OAttributeError => "AttributeError" end.

Definition bind_old (e : env) (x : option var) (o : oobs) : env :=
  match o with OO o' => bind e x o' | OAttributeError => e end.

Fixpoint exec_old (prog : list pop) (e : env) (s : ostate) : list string :=
  match prog with
  | [] => []
  | p :: rest =>
      match translate e p with
      | None => "unbound" :: exec_old rest e s
      | Some (c, x) =>
          let (s1, o) := step_old c s in
          show_oobs e o :: exec_old rest (bind_old e x o) s1
      end
  end.

Definition observe_old (existing : bool) (pre : table) (prog : list pop) : string :=
  let s := if existing then old_thread_with 0%N (init_objs true pre)
           else old_fresh_thread (init_objs false pre) in
  commas (exec_old prog [] s).
