(** The request layer of labrea (C18), on top of the expression language of Model/Eval.v.

    labrea/types.py:68-79,124-135,173-184,394-405: the [__init_subclass__] hooks of
    Validatable / Cacheable / Explainable / Evaluatable replace a class's [validate] / [keys] /
    [explain] / [evaluate] by a wrapper that builds a ValidateRequest / KeysRequest /
    ExplainRequest / EvaluateRequest and calls [.run()] on it, and save the class's own method as
    [__labrea_<method>__].  labrea/runtime.py:39-47,162-186: [Request.run] hands the request to
    the CURRENT runtime, which looks the request's type up in its handler table and falls back
    to the default handler; labrea/types.py:608-634: the default handlers call the saved
    [__labrea_<method>__] (the EvaluateRequest one also turns every exception into an
    EvaluationError).  labrea/cache.py:328-343 ([Cached] issues CacheExists/Get/SetRequest),
    labrea/logging.py:164-175 ([Logged] issues a LogRequest), labrea/option.py:165 ([Option]
    issues a TypeValidationRequest).

    The model: a program tree [prog] in which every node visit of every one of the four
    methods, every cache exists/get/set, every log emission and every option type check is a
    [PReq]/[PReqE] node carrying the request (kind, position of the node in the graph, the node,
    the options) and its DEFAULT action (the class's own clause); [run H] interprets a tree
    under a handler table [H] (what [Runtime.run] does: the handler installed for the request's
    type receives the request, else the default).  Requests issued inside a default action are
    interpreted under the same table (dynamic scope of the current runtime).  The four
    interpreters [deval]/[dvalidate]/[dkeys]/[dexplain] are the clauses of Model/Eval.v,
    re-transcribed with the request layer made explicit; whether a class's method is wrapped at
    all is read from a reflection table [rtable] produced from the running implementation (an
    unwrapped method is a direct call: no request, not interceptable).

    Executable definitions only; no proofs in this file. *)
From Coq Require Import List NArith ZArith Bool.
Import ListNotations.
From LV Require Import Model.Base Model.Template Model.Eval.

(** ** Request kinds: the nine request types *)
Inductive rkind :=
| KEval | KValidate | KKeys | KExplain          (* types.py: Evaluate/Validate/Keys/ExplainRequest *)
| KCacheExists | KCacheGet | KCacheSet          (* cache.py *)
| KLog                                          (* logging.py: LogRequest *)
| KType.                                        (* type_validation.py: TypeValidationRequest *)

Definition rkind_eqb (a b : rkind) : bool :=
  match a, b with
  | KEval, KEval | KValidate, KValidate | KKeys, KKeys | KExplain, KExplain
  | KCacheExists, KCacheExists | KCacheGet, KCacheGet | KCacheSet, KCacheSet
  | KLog, KLog | KType, KType => true
  | _, _ => false
  end.

Definition all_kinds : list rkind :=
  [KEval; KValidate; KKeys; KExplain; KCacheExists; KCacheGet; KCacheSet; KLog; KType].

(** position of a node in an expression graph: child indices from the root.  Children are
    numbered per constructor (see the interpreters below): the same numbering is used by the
    harness to map live labrea objects to positions. *)
Definition path := list nat.
Definition sub (p : path) (i : nat) : path := p ++ [i].
Notation "p +: i" := (sub p i) (at level 40, left associativity).

(** ** Classes and the reflection table *)
Inductive ctor :=
| CtValue | CtOption | CtApply | CtBind | CtSwitch | CtCase | CtCoalesce | CtIter | CtMap | CtWith
| CtCached | CtCall | CtPartial | CtTemplate | CtComp | CtLogged | CtPipe | CtAllOptions.

Definition all_ctors : list ctor :=
  [CtValue; CtOption; CtApply; CtBind; CtSwitch; CtCase; CtCoalesce; CtIter; CtMap; CtWith;
   CtCached; CtCall; CtPartial; CtTemplate; CtComp; CtLogged; CtPipe; CtAllOptions].

Definition ctor_eqb (a b : ctor) : bool :=
  match a, b with
  | CtValue, CtValue | CtOption, CtOption | CtApply, CtApply | CtBind, CtBind | CtSwitch, CtSwitch
  | CtCase, CtCase | CtCoalesce, CtCoalesce | CtIter, CtIter | CtMap, CtMap | CtWith, CtWith
  | CtCached, CtCached | CtCall, CtCall | CtPartial, CtPartial | CtTemplate, CtTemplate
  | CtComp, CtComp | CtLogged, CtLogged | CtPipe, CtPipe | CtAllOptions, CtAllOptions => true
  | _, _ => false
  end.

(** the labrea class a node is an instance of *)
Definition ctor_of (e : expr) : ctor :=
  match e with
  | EValue _ => CtValue | EOption _ _ _ => CtOption | EApply _ _ => CtApply | EBind _ _ _ => CtBind
  | ESwitch _ _ _ => CtSwitch | ECase _ _ _ => CtCase | ECoalesce _ => CtCoalesce | EIter _ => CtIter
  | EMap _ _ => CtMap | EWith _ _ _ => CtWith | ECached _ _ => CtCached
  | ECall partial _ _ _ => if partial then CtPartial else CtCall
  | ETemplate _ _ => CtTemplate | EComp _ _ => CtComp | ELogged _ => CtLogged | EPipe _ => CtPipe
  | EAllOptions => CtAllOptions
  end.

(** one row per concrete class found by reflection over the running package: are its four
    methods request-issuing wrappers whose default is the class's own implementation, and are
    its side operations (cache lookups/stores, log emission, type check) issued as requests.
    [rr_ctor]: the constructor of the model the class is (None: a class outside the modelled
    expression language, e.g. Dataset, whose row must be wrapped all the same). *)
Record rrow := { rr_class : N; rr_ctor : option ctor;
                 rr_eval : bool; rr_validate : bool; rr_keys : bool; rr_explain : bool;
                 rr_side : bool }.
Definition rtable := list rrow.

Definition row_flag (k : rkind) (r : rrow) : bool :=
  match k with
  | KEval => r.(rr_eval) | KValidate => r.(rr_validate) | KKeys => r.(rr_keys) | KExplain => r.(rr_explain)
  | _ => r.(rr_side)
  end.
Definition row_is (c : ctor) (r : rrow) : bool :=
  match r.(rr_ctor) with Some c' => ctor_eqb c c' | None => false end.

(** is method/side operation [k] of class [c] request-routed according to the table: some row
    describes the class and every row that does says so (fail closed) *)
Definition wrapped (t : rtable) (c : ctor) (k : rkind) : bool :=
  existsb (row_is c) t && forallb (fun r => if row_is c r then row_flag k r else true) t.

Definition all_wrapped (r : rrow) : bool :=
  r.(rr_eval) && r.(rr_validate) && r.(rr_keys) && r.(rr_explain) && r.(rr_side).

(** the per-run obligation: every class found is wrapped and every modelled class was found *)
Definition table_ok (t : rtable) : bool :=
  forallb all_wrapped t && forallb (fun c => existsb (row_is c) t) all_ctors.

(** ** Requests, handler tables, histories *)
Record rq := { rq_kind : rkind; rq_path : path; rq_node : expr; rq_opts : dict }.

Inductive hev :=
| RCore (e : event)        (* an event of the core history (Model/Eval.v) *)
| RIssued (r : rq)         (* GHOST: the request was handed to the current runtime *)
| RSeen (r : rq).          (* an installed recording handler received the request *)

(** what an installed handler does with a request it receives *)
Inductive hact :=
| ADefault (record : bool)     (* (record it and) call the default handler: pass-through *)
| AAnswer (v : value).         (* answer the request itself, the default is not called *)

(** the handler table of the current runtime: request type -> installed handler (None: the
    default handler serves, runtime.py:175-184) *)
Definition htable := rkind -> option (rq -> hact).

Definition no_handlers : htable := fun _ => None.

(** recording pass-through handlers installed for the request types in [K] *)
Definition passthrough (K : rkind -> bool) : htable :=
  fun k => if K k then Some (fun _ => ADefault true) else None.

Definition path_eqb (a b : path) : bool :=
  (fix go (a b : path) : bool :=
     match a, b with
     | [], [] => true
     | x :: a', y :: b' => Nat.eqb x y && go a' b'
     | _, _ => false
     end) a b.
Definition path_mem (p : path) (l : list path) : bool := existsb (path_eqb p) l.

(** a handler for EvaluateRequest answering [v] for the nodes at the selected positions (one
    object may sit at several positions of a graph) and passing every other request to the
    default *)
Definition substituting (sels : list path) (v : value) : htable :=
  fun k => match k with
           | KEval => Some (fun r => if path_mem r.(rq_path) sels then AAnswer v else ADefault false)
           | _ => None
           end.

Section Layer.
  Variable S : Type.

  (** the monad of Model/Eval.v with the richer history *)
  Definition MR (A : Type) : Type := S -> (res A * S * list hev).
  Definition retR {A} (a : A) : MR A := fun s => (Ok a, s, []).
  Definition failR {A} (c : cause) (ee : bool) : MR A := fun s => (Err c ee, s, []).
  Definition bindR {A B} (m : MR A) (f : A -> MR B) : MR B :=
    fun s => match m s with
             | (Ok a, s', l) => match f a s' with (r, s'', l') => (r, s'', l ++ l') end
             | (Err c ee, s', l) => (Err c ee, s', l)
             end.
  Definition emitR (e : hev) : MR unit := fun s => (Ok tt, s, [e]).
  Definition catchR {A} (m : MR A) (h : cause -> bool -> MR A) : MR A :=
    fun s => match m s with
             | (Ok a, s', l) => (Ok a, s', l)
             | (Err CUnmodelled ee, s', l) => (Err CUnmodelled ee, s', l)
             | (Err c ee, s', l) => match h c ee s' with (r, s'', l') => (r, s'', l ++ l') end
             end.
  Definition wrapR {A} (m : MR A) : MR A :=
    fun s => match m s with
             | (Ok a, s', l) => (Ok a, s', l)
             | (Err c _, s', l) => (Err c true, s', l)
             end.
  Definition liftR {A} (m : M S A) : MR A :=
    fun s => match m s with (r, s', l) => (r, s', map RCore l) end.

  (** ** Program trees *)
  Inductive prog : Type -> Type :=
  | PRet : forall {A : Type}, A -> prog A
  | PLift : forall {A : Type}, M S A -> prog A          (* a request-free step of the core monad *)
  | PBind : forall {A B : Type}, prog A -> (A -> prog B) -> prog B
  | PCatch : forall {A : Type}, prog A -> (cause -> bool -> prog A) -> prog A     (* try/except *)
  | PWrap : forall {A : Type}, prog A -> prog A         (* _evaluate_request's except clauses *)
  | PReqE : path -> expr -> dict -> prog value -> prog value
                              (* EvaluateRequest(node, options).run(), with its default action *)
  | PReq : forall {A : Type}, rkind -> path -> expr -> dict -> prog A -> prog A.
                              (* a request of one of the other eight types *)

  (** [Runtime.run]: the installed handler receives the request, else the default serves.
      A handler answering a request other than EvaluateRequest is outside the modelled handler
      kinds. *)
  Fixpoint run (H : htable) {A : Type} (p : prog A) {struct p} : MR A :=
    match p in prog A return MR A with
    | PRet a => retR a
    | PLift m => liftR m
    | PBind q f => bindR (run H q) (fun a => run H (f a))
    | PCatch q h => catchR (run H q) (fun c ee => run H (h c ee))
    | PWrap q => wrapR (run H q)
    | PReqE pth n o d =>
        let r := {| rq_kind := KEval; rq_path := pth; rq_node := n; rq_opts := o |} in
        bindR (emitR (RIssued r)) (fun _ =>
          match H KEval with
          | None => run H d
          | Some h =>
              match h r with
              | ADefault rec => bindR (if rec then emitR (RSeen r) else retR tt) (fun _ => run H d)
              | AAnswer v => retR v
              end
          end)
    | PReq k pth n o d =>
        let r := {| rq_kind := k; rq_path := pth; rq_node := n; rq_opts := o |} in
        bindR (emitR (RIssued r)) (fun _ =>
          match H k with
          | None => run H d
          | Some h =>
              match h r with
              | ADefault rec => bindR (if rec then emitR (RSeen r) else retR tt) (fun _ => run H d)
              | AAnswer _ => failR CUnmodelled false
              end
          end)
    end.

  (** projections of a history *)
  Definition issued (l : list hev) : list rq :=
    flat_map (fun e => match e with RIssued r => [r] | _ => [] end) l.
  Definition seen (l : list hev) : list rq :=
    flat_map (fun e => match e with RSeen r => [r] | _ => [] end) l.
  Definition core_events (l : list hev) : list event :=
    flat_map (fun e => match e with RCore c => [c] | _ => [] end) l.
  Definition ghost_free (l : list hev) : list hev :=
    filter (fun e => match e with RIssued _ => false | _ => true end) l.

  (** ** The four interpreters with the request layer explicit *)
  Variable mem_find : N -> fp -> S -> option value.
  Variable mem_store : N -> fp -> value -> S -> S.
  Variable cfg : config.
  Variable ucall : N -> list value -> cres.
  Variable rfuel : nat.
  Variable site_ok : expr -> dict -> bool.
  Variable rt : rtable.

  Notation "x <- m ;; f" := (PBind m (fun x => f)) (at level 61, m at next level, right associativity).
  Notation "m ;;; f" := (PBind m (fun _ => f)) (at level 61, right associativity).
  Notation L := PLift.
  Notation failP c ee := (PLift (fail S c ee)).

  (** a call of method [k] on node [e]: through the wrapper when the class has one *)
  Definition call_meth {A} (k : rkind) (p : path) (e : expr) (o : dict) (clause : prog A) : prog A :=
    if wrapped rt (ctor_of e) k then PReq k p e o clause else clause.
  (** … and for evaluate, whose default handler also wraps every exception *)
  Definition call_eval (p : path) (e : expr) (o : dict) (clause : prog value) : prog value :=
    if wrapped rt (ctor_of e) KEval then PReqE p e o (PWrap clause) else clause.

  Definition mapMi {A B} (f : nat -> A -> prog B) : nat -> list A -> prog (list B) :=
    fix go (i : nat) (l : list A) : prog (list B) :=
      match l with
      | [] => PRet []
      | a :: l' => b <- f i a ;; bs <- go (Datatypes.S i) l' ;; PRet (b :: bs)
      end.
  Definition iterMi {A} (f : nat -> A -> prog unit) : nat -> list A -> prog unit :=
    fix go (i : nat) (l : list A) : prog unit :=
      match l with
      | [] => PRet tt
      | a :: l' => f i a ;;; go (Datatypes.S i) l'
      end.
  Definition unionMi {A} (f : nat -> A -> prog (list key)) : nat -> list A -> prog (list key) :=
    fix go (i : nat) (l : list A) : prog (list key) :=
      match l with
      | [] => PRet []
      | a :: l' => ks <- f i a ;; ks' <- go (Datatypes.S i) l' ;; PRet (ks ++ ks')
      end.
  (** [pick] with the position of the chosen branch *)
  Definition picki {A} (k : value) (onhit : nat -> expr -> A) (onmiss : A) : nat -> list (value * expr) -> A :=
    fix go (i : nat) (t : list (value * expr)) : A :=
      match t with
      | [] => onmiss
      | (v', b) :: t' => if value_eq k v' then onhit i b else go (Datatypes.S i) t'
      end.

  (** [Option.evaluate] (option.py:150-168).  Children: default 0, domain 1. *)
  Definition option_clause (ev : nat -> expr -> prog value) (p : path) (self : expr)
             (k : key) (dflt dom : option expr) (o : dict) : prog value :=
    r <- L (rd S k o) ;;
    v <- match r with
         | TypeErr => failP CType false
         | Absent =>
             match dflt with
             | None => failP (CKey k) true
             | Some d => ev 0 d
             end
         | Found raw =>
             L (bind S (emit_reads S (resolve_reads rfuel o raw) o)
                  (fun _ => bind S (of_rres S (resolve rfuel o raw)) (fun j => ret S (VJ j))))
         end ;;
    (* option.py:165  TypeValidationRequest(value, self.type, options).run() *)
    call_meth KType p self o (PRet tt) ;;;
    match dom with
    | None => PRet v
    | Some de => d <- ev 1 de ;; L (in_domain S ucall d v) ;;; PRet v
    end.

  Definition dispatch_prog (ev : prog value) (has_default : bool) : prog (option value) :=
    PCatch (k <- ev ;; PRet (Some k))
           (fun c ee => if ee && has_default then PRet None else failP c ee).

  (** [CaseWhen._evaluate]: conditions 2+2i, results 3+2i *)
  Definition case_loop {A} (ev : nat -> expr -> prog value) (fin : nat -> expr -> prog A)
             (dflt : prog A) (x : value) : nat -> list (expr * expr) -> prog A :=
    fix go (i : nat) (cs : list (expr * expr)) : prog A :=
      match cs with
      | [] => dflt
      | (c, r) :: cs' =>
          pv <- ev (2 + 2 * i) c ;; b <- L (call_value S ucall pv x) ;;
          if truthy b then fin (3 + 2 * i) r else go (Datatypes.S i) cs'
      end.

  (** [Coalesce._delegate] (coalesce.py): member i at position i *)
  Definition coalesce_loop {A} (vl : nat -> expr -> prog unit) (fin : nat -> expr -> prog A)
    : nat -> list expr -> option (cause * bool) -> prog A :=
    fix go (i : nat) (ms : list expr) (last : option (cause * bool)) : prog A :=
      match ms with
      | [] => match last with Some (c, ee) => failP c ee | None => failP CUnmodelled false end
      | m :: ms' =>
          PCatch (vl i m ;;; fin i m)
                 (fun c ee => if ee then go (Datatypes.S i) ms' (Some (c, ee)) else failP c ee)
      end.

  Definition last_member {A} (f : nat -> expr -> prog A) : nat -> list expr -> prog A :=
    fix last (i : nat) (ms : list expr) : prog A :=
      match ms with
      | [] => failP CUnmodelled false
      | [m] => f i m
      | _ :: ms' => last (Datatypes.S i) ms'
      end.

  (** [Iter.evaluate]: a generator; an element's failure is deferred to the consumer *)
  Definition iter_loop (ev : nat -> expr -> prog value) : nat -> list expr -> prog (list value) :=
    fix go (i : nat) (es : list expr) : prog (list value) :=
      match es with
      | [] => PRet []
      | x :: es' =>
          PCatch (v <- ev i x ;;
                  if is_some (deep_err v) then PRet [v]
                  else vs <- go (Datatypes.S i) es' ;; PRet (v :: vs))
                 (fun c _ => PRet [VErr c])
      end.

  (** [Map._iterate_over_options]: the mapped expression 0, iterables 1+i *)
  Definition map_rows_prog (ev : nat -> expr -> prog value) (its : list (key * expr))
    : prog (list (list (key * value))) :=
    vals <- mapMi (fun i kv => v <- ev i (snd kv) ;; L (force_elems S v)) 1 its ;;
    PRet (map (fun combo => combine (map fst its) combo) (product vals)).

  Definition map_loop (evrow : dict -> prog value) : list (list (key * value) * dict) -> prog (list value) :=
    fix go (rows : list (list (key * value) * dict)) : prog (list value) :=
      match rows with
      | [] => PRet []
      | (row, os) :: rows' =>
          PCatch (r <- evrow os ;;
                  if is_some (deep_err r) then PRet [VT T_TUPLE [row_dict row; r]]
                  else rs <- go rows' ;; PRet (VT T_TUPLE [row_dict row; r] :: rs))
                 (fun c _ => PRet [VErr c])
      end.

  (** one pass over the rows of a Map: the option set of each row, then the mapped expression
      under it (Map.validate / keys / explain through Iter and WithOptions) *)
  Definition rows_iter (f : dict -> prog unit) : list (list (key * value)) -> prog unit :=
    fix go (rows : list (list (key * value))) : prog unit :=
      match rows with
      | [] => PRet tt
      | row :: rows' => (os <- L (row_options S row) ;; f os) ;;; go rows'
      end.
  Definition rows_union (f : dict -> prog (list key)) : list (list (key * value)) -> prog (list key) :=
    fix go (rows : list (list (key * value))) : prog (list key) :=
      match rows with
      | [] => PRet []
      | row :: rows' =>
          ks <- (os <- L (row_options S row) ;; f os) ;; ks' <- go rows' ;; PRet (ks ++ ks')
      end.

  Definition template_options_prog (ev : nat -> expr -> prog value) (ps : list (N * expr)) (o : dict) : prog dict :=
    pvs <- mapMi (fun i pe => v <- ev i (snd pe) ;; PRet (fst pe, v)) 0 ps ;;
    match option_set (flat_map (fun pv => match json_of_value (snd pv) with
                                          | Some j => [(par_key (fst pv), j)] | None => [] end) pvs) [] with
    | None => failP CUnmodelled false
    | Some pd => if negb (Nat.eqb (length pd) (length ps)) then failP CUnmodelled false else PRet (mix o pd)
    end.

  (** the default handlers of the three cache requests (cache.py:258-282) on the cache object
      of a [Cached] node, given the fingerprint computation of the cached expression
      ([MemoryCache] calls [evaluatable.fingerprint(options)] = its [keys], a KeysRequest) *)
  Definition cache_off (o : dict) : bool := cfg.(cache_ctx_off) || cache_opt_off o.

  Definition default_exists (ghost : bool) (c : cache_ref) (e : expr) (o : dict) (fingerprint : prog fp) : prog bool :=
    match c with
    | CNone => PRet false           (* NoCache: Cache.exists -> get raises CacheGetFailure -> False *)
    | CMem cid =>
        if cache_off o then PRet false
        else
          (if ghost then L (if site_ok e o then ret S tt else emit S (EvDirty cid)) else PRet tt) ;;;
          f <- fingerprint ;; s <- L (get_store S) ;;
          match mem_find cid f s with
          | Some _ => L (emit S (EvCacheExists cid true)) ;;; PRet true
          | None => L (emit S (EvCacheExists cid false)) ;;; PRet false
          end
    end.

  (** [None]: CacheGetFailure *)
  Definition default_get (c : cache_ref) (o : dict) (fingerprint : prog fp) : prog (option value) :=
    match c with
    | CNone => PRet None
    | CMem cid =>
        if cache_off o then PRet None
        else
          f <- fingerprint ;; s <- L (get_store S) ;;
          match mem_find cid f s with
          | Some v => L (emit S (EvCacheGet cid true)) ;;; PRet (Some v)
          | None => L (emit S (EvCacheGet cid false)) ;;; PRet None
          end
    end.

  (** cache.set, then read back (cache.py:258-267) *)
  Definition default_set (c : cache_ref) (o : dict) (fingerprint : prog fp) (v : value) : prog value :=
    match c with
    | CNone => PRet v
    | CMem cid =>
        if cache_off o then PRet v
        else
          f <- fingerprint ;;
          L (put_store S (mem_store cid f (exhaust v))) ;;; L (emit S (EvCacheSet cid)) ;;;
          (if has_lazy v then L (emit S (EvLazyStored cid)) else PRet tt) ;;;
          f' <- fingerprint ;; s <- L (get_store S) ;;
          match mem_find cid f' s with
          | Some _ => L (emit S (EvCacheGet cid true)) ;;; PRet v
          | None => L (emit S (EvCacheGet cid false)) ;;; PRet v
          end
    end.

  (** the default LogRequest handler (logging.py:68-73) *)
  Definition default_log (o : dict) : prog unit :=
    if cfg.(log_ctx_off) || logging_opt_off o then PRet tt else L (emit S EvLogEmit).

  Definition template_refs_validate (s : str) (o : dict) : M S unit :=
    iterM S (fun k =>
               bind S (rd S k o) (fun r =>
               match r with
               | TypeErr => fail S CType false
               | Absent => fail S (CKey k) true
               | Found raw =>
                   bind S (emit_reads S (resolve_reads rfuel o raw) o) (fun _ =>
                   bind S (wrap_eval S (of_rres S (resolve rfuel o raw))) (fun _ => ret S tt))
               end)) (refs s).

  Definition option_str_keys (strict : bool) (k : key) (s : str) (o : dict) : M S (list key) :=
    if existsb (fun t => match t with TPar _ => true | _ => false end) s then fail S CUnmodelled false
    else bind S (unionM S (fun k' => ref_keys S rfuel strict o k') (refs s)) (fun ks => ret S (k :: ks)).

  Fixpoint deval (p : path) (e : expr) (o : dict) {struct e} : prog value :=
    call_eval p e o
    match e with
    | EValue v => PRet v
    | EOption k dflt dom => option_clause (fun i x => deval (p +: i) x o) p e k dflt dom o
    | EApply src fn =>
        x <- deval (p +: 0) src o ;; f <- deval (p +: 1) fn o ;; L (call_value S ucall f x)
    | EBind src tbl dflt =>
        (* children: source 0, otherwise 1, table entries 2+i *)
        x <- deval (p +: 0) src o ;;
        picki x (fun i b => deval (p +: i) b o)
              (match dflt with Some d => deval (p +: 1) d o | None => failP (CUser 0) false end) 2 tbl
    | ESwitch disp tbl dflt =>
        (* children: dispatch 0, default 1, lookup entries 2+i *)
        dv <- dispatch_prog (deval (p +: 0) disp o) (is_some dflt) ;;
        match dv with
        | None => match dflt with Some d => deval (p +: 1) d o | None => failP CUnmodelled false end
        | Some k =>
            if negb (hashable k) then failP CType false else
            picki k (fun i b => deval (p +: i) b o)
                  (match dflt with Some d => deval (p +: 1) d o | None => failP CSwitch true end) 2 tbl
        end
    | ECase disp cases dflt =>
        (* children: dispatch 0, default 1, condition i at 2+2i, result i at 3+2i *)
        x <- deval (p +: 0) disp o ;;
        case_loop (fun i c => deval (p +: i) c o) (fun i r => deval (p +: i) r o)
                  (match dflt with Some d => deval (p +: 1) d o | None => failP CCase true end) x 0 cases
    | ECoalesce ms =>
        coalesce_loop (fun i m => dvalidate (p +: i) m o) (fun i m => deval (p +: i) m o) 0 ms None
    | EIter es =>
        vs <- iter_loop (fun i x => deval (p +: i) x o) 0 es ;; PRet (VT T_ITER vs)
    | EMap e' its =>
        rows <- map_rows_prog (fun i x => deval (p +: i) x o) its ;;
        rowsos <- L (mapM S (fun row => bind S (row_options S row) (fun os => ret S (row, os))) rows) ;;
        rs <- map_loop (fun os => deval (p +: 0) e' (with_opts true os o)) rowsos ;;
        PRet (VT T_ITER rs)
    | EWith force ps e' => deval (p +: 0) e' (with_opts force ps o)
    | ECached c e' =>
        (* cache.py:328-343 *)
        ex <- call_meth KCacheExists p e o
                (default_exists true c e' o (ks <- dkeys (p +: 0) e' o ;; L (fingerprint_of S ks o))) ;;
        hit <- (if ex then call_meth KCacheGet p e o
                             (default_get c o (ks <- dkeys (p +: 0) e' o ;; L (fingerprint_of S ks o)))
                else PRet None) ;;
        match hit with
        | Some v => PRet v
        | None =>
            v <- deval (p +: 0) e' o ;;
            call_meth KCacheSet p e o
              (default_set c o (ks <- dkeys (p +: 0) e' o ;; L (fingerprint_of S ks o)) v)
        end
    | ECall partial f args kwargs =>
        (* children: function 0, positional 1+i, keyword 1+|args|+j *)
        fv <- deval (p +: 0) f o ;;
        av <- mapMi (fun i x => deval (p +: i) x o) 1 args ;;
        kv <- mapMi (fun i x => deval (p +: i) x o) (1 + length args) kwargs ;;
        if partial then
          match fv with
          | VF fid pre post => PRet (VF fid (pre ++ av) (post ++ kv))
          | _ => failP CUnmodelled false
          end
        else L (call_value_n S ucall fv (av ++ kv))
    | ETemplate s ps =>
        o' <- template_options_prog (fun i x => deval (p +: i) x o) ps o ;;
        L (bind S (emit_reads S (filter (fun k => negb (is_par_key k)) (resolve_reads rfuel o' (JStr s))) o)
             (fun _ => bind S (of_rres S (resolve rfuel o' (JStr s)))
                (fun j => match to_str j with
                          | Some r => ret S (VJ (JStr r))
                          | None => fail S CUnmodelled false
                          end)))
    | EComp e' effects =>
        (* children: the computation 0, effect callbacks 1+i *)
        v <- deval (p +: 0) e' o ;;
        (if effects_opt_off o then PRet tt
         else iterMi (fun i eff => f <- deval (p +: i) eff o ;; L (call_value S ucall f v) ;;; PRet tt) 1 effects) ;;;
        PRet v
    | ELogged e' =>
        (* logging.py:164-168, log_first *)
        call_meth KLog p e o (default_log o) ;;;
        deval (p +: 0) e' o
    | EPipe steps =>
        fs <- mapMi (fun i x => deval (p +: i) x o) 0 steps ;;
        PRet (VF B_COMPOSE (rev fs) [])
    | EAllOptions => L (all_options_eval S rfuel o)
    end

  with dvalidate (p : path) (e : expr) (o : dict) {struct e} : prog unit :=
    call_meth KValidate p e o
    match e with
    | EValue _ => PRet tt
    | EOption k dflt dom =>
        r <- L (rd S k o) ;;
        match r with
        | TypeErr => failP CType false
        | Found _ =>
            (* option.py:177  _ = self.evaluate(options): an EvaluateRequest on this very node *)
            call_eval p e o (option_clause (fun i x => deval (p +: i) x o) p e k dflt dom o) ;;; PRet tt
        | Absent => match dflt with Some d => dvalidate (p +: 0) d o | None => failP (CKey k) true end
        end
    | EApply src fn => dvalidate (p +: 0) src o ;;; dvalidate (p +: 1) fn o
    | EBind src tbl dflt =>
        dvalidate (p +: 0) src o ;;;
        x <- deval (p +: 0) src o ;;
        picki x (fun i b => dvalidate (p +: i) b o)
              (match dflt with Some d => dvalidate (p +: 1) d o | None => failP (CUser 0) false end) 2 tbl
    | ESwitch disp tbl dflt =>
        dv <- dispatch_prog (deval (p +: 0) disp o) (is_some dflt) ;;
        match dv with
        | None => match dflt with Some d => dvalidate (p +: 1) d o | None => failP CUnmodelled false end
        | Some k =>
            if negb (hashable k) then failP CType false else
            picki k (fun i b => dvalidate (p +: i) b o)
                  (match dflt with Some d => dvalidate (p +: 1) d o | None => failP CSwitch true end) 2 tbl
        end
    | ECase disp cases dflt =>
        dvalidate (p +: 0) disp o ;;;
        x <- deval (p +: 0) disp o ;;
        case_loop (fun i c => deval (p +: i) c o) (fun i r => dvalidate (p +: i) r o)
                  (match dflt with Some d => dvalidate (p +: 1) d o | None => failP CCase true end) x 0 cases
    | ECoalesce ms =>
        coalesce_loop (fun i m => dvalidate (p +: i) m o) (fun i m => dvalidate (p +: i) m o) 0 ms None
    | EIter es => iterMi (fun i x => dvalidate (p +: i) x o) 0 es
    | EMap e' its =>
        rows <- map_rows_prog (fun i x => deval (p +: i) x o) its ;;
        rows_iter (fun os => dvalidate (p +: 0) e' (with_opts true os o)) rows
    | EWith force ps e' => dvalidate (p +: 0) e' (with_opts force ps o)
    | ECached c e' =>
        (* cache.py:345-348 *)
        ex <- call_meth KCacheExists p e o
                (default_exists false c e' o (ks <- dkeys (p +: 0) e' o ;; L (fingerprint_of S ks o))) ;;
        if ex then PRet tt else dvalidate (p +: 0) e' o
    | ECall _ f args kwargs =>
        dvalidate (p +: 0) f o ;;;
        iterMi (fun i x => dvalidate (p +: i) x o) 1 args ;;;
        iterMi (fun i x => dvalidate (p +: i) x o) (1 + length args) kwargs
    | ETemplate s ps =>
        iterMi (fun i pe => dvalidate (p +: i) (snd pe) o) 0 ps ;;;
        L (template_refs_validate s o)
    | EComp e' effects =>
        dvalidate (p +: 0) e' o ;;;
        if effects_opt_off o then PRet tt else iterMi (fun i x => dvalidate (p +: i) x o) 1 effects
    | ELogged e' => dvalidate (p +: 0) e' o
    | EPipe steps => iterMi (fun i x => dvalidate (p +: i) x o) 0 steps
    | EAllOptions =>
        (* option.py: _ = self.evaluate(options) *)
        call_eval p e o (L (all_options_eval S rfuel o)) ;;; PRet tt
    end

  with dkeys (p : path) (e : expr) (o : dict) {struct e} : prog (list key) :=
    call_meth KKeys p e o
    match e with
    | EValue _ => PRet []
    | EOption k dflt dom =>
        r <- L (rd S k o) ;;
        match r with
        | TypeErr => failP CType false
        | Found (JStr s) => L (option_str_keys true k s o)
        | Found _ => PRet [k]
        | Absent => match dflt with Some d => dkeys (p +: 0) d o | None => failP (CKey k) true end
        end
    | EApply src fn => a <- dkeys (p +: 0) src o ;; b <- dkeys (p +: 1) fn o ;; PRet (a ++ b)
    | EBind src tbl dflt =>
        a <- dkeys (p +: 0) src o ;;
        x <- deval (p +: 0) src o ;;
        b <- picki x (fun i b => dkeys (p +: i) b o)
                   (match dflt with Some d => dkeys (p +: 1) d o | None => failP (CUser 0) false end) 2 tbl ;;
        PRet (a ++ b)
    | ESwitch disp tbl dflt =>
        dv <- dispatch_prog (deval (p +: 0) disp o) (is_some dflt) ;;
        match dv with
        | None => match dflt with Some d => dkeys (p +: 1) d o | None => failP CUnmodelled false end
        | Some k =>
            if negb (hashable k) then failP CType false else
            a <- picki k (fun i b => dkeys (p +: i) b o)
                       (match dflt with Some d => dkeys (p +: 1) d o | None => failP CSwitch true end) 2 tbl ;;
            b <- dkeys (p +: 0) disp o ;; PRet (a ++ b)
        end
    | ECase disp cases dflt =>
        a <- dkeys (p +: 0) disp o ;;
        x <- deval (p +: 0) disp o ;;
        b <- case_loop (fun i c => deval (p +: i) c o) (fun i r => dkeys (p +: i) r o)
                       (match dflt with Some d => dkeys (p +: 1) d o | None => failP CCase true end) x 0 cases ;;
        PRet (a ++ b)
    | ECoalesce ms =>
        coalesce_loop (fun i m => dvalidate (p +: i) m o) (fun i m => dkeys (p +: i) m o) 0 ms None
    | EIter es => unionMi (fun i x => dkeys (p +: i) x o) 0 es
    | EMap e' its =>
        rows <- map_rows_prog (fun i x => deval (p +: i) x o) its ;;
        a <- rows_union (fun os => ks <- dkeys (p +: 0) e' (with_opts true os o) ;;
                                   L (filter_preset S true os o (with_opts true os o) ks)) rows ;;
        b <- unionMi (fun i kv => dkeys (p +: i) (snd kv) o) 1 its ;;
        PRet (a ++ b)
    | EWith force ps e' =>
        ks <- dkeys (p +: 0) e' (with_opts force ps o) ;;
        L (filter_preset S force ps o (with_opts force ps o) ks)
    | ECached _ e' => dkeys (p +: 0) e' o
    | ECall _ f args kwargs =>
        a <- dkeys (p +: 0) f o ;;
        b <- unionMi (fun i x => dkeys (p +: i) x o) 1 args ;;
        c <- unionMi (fun i x => dkeys (p +: i) x o) (1 + length args) kwargs ;;
        PRet (a ++ b ++ c)
    | ETemplate s ps =>
        a <- unionMi (fun i pe => dkeys (p +: i) (snd pe) o) 0 ps ;;
        b <- L (unionM S (fun k => ref_keys S rfuel true o k) (refs s)) ;;
        PRet (a ++ b)
    | EComp e' _ => dkeys (p +: 0) e' o
    | ELogged e' => dkeys (p +: 0) e' o
    | EPipe steps => unionMi (fun i x => dkeys (p +: i) x o) 0 steps
    | EAllOptions => L (bind S (emit S EvReadAll) (fun _ => ret S (map (fun kv => [fst kv]) o)))
    end

  with dexplain (p : path) (e : expr) (o : dict) {struct e} : prog (list key) :=
    call_meth KExplain p e o
    match e with
    | EValue _ => PRet []
    | EOption k dflt dom =>
        r <- L (rd S k o) ;;
        match r with
        | TypeErr => failP CType false
        | Found (JStr s) => L (option_str_keys false k s o)
        | Found _ => PRet [k]
        | Absent => match dflt with Some d => dexplain (p +: 0) d o | None => PRet [k] end
        end
    | EApply src fn => a <- dexplain (p +: 0) src o ;; b <- dexplain (p +: 1) fn o ;; PRet (a ++ b)
    | EBind src tbl dflt =>
        PCatch (a <- dexplain (p +: 0) src o ;;
                x <- deval (p +: 0) src o ;;
                b <- picki x (fun i b => dexplain (p +: i) b o)
                           (match dflt with Some d => dexplain (p +: 1) d o | None => failP (CUser 0) false end) 2 tbl ;;
                PRet (a ++ b))
               (fun c ee => if ee then failP CInsuff true else failP c ee)
    | ESwitch disp tbl dflt =>
        dv <- PCatch (dispatch_prog (deval (p +: 0) disp o) (is_some dflt))
                     (fun c ee => if ee then failP CInsuff true else failP c ee) ;;
        match dv with
        | None => match dflt with Some d => dexplain (p +: 1) d o | None => failP CUnmodelled false end
        | Some k =>
            if negb (hashable k) then failP CType false else
            a <- picki k (fun i b => dexplain (p +: i) b o)
                       (match dflt with Some d => dexplain (p +: 1) d o | None => failP CInsuff true end) 2 tbl ;;
            b <- dexplain (p +: 0) disp o ;; PRet (a ++ b)
        end
    | ECase disp cases dflt =>
        PCatch (a <- dexplain (p +: 0) disp o ;;
                x <- deval (p +: 0) disp o ;;
                b <- case_loop (fun i c => deval (p +: i) c o) (fun i r => dexplain (p +: i) r o)
                               (match dflt with Some d => dexplain (p +: 1) d o | None => failP CCase true end) x 0 cases ;;
                PRet (a ++ b))
               (fun c ee => if ee then failP CInsuff true else failP c ee)
    | ECoalesce ms =>
        PCatch (coalesce_loop (fun i m => dvalidate (p +: i) m o) (fun i m => dexplain (p +: i) m o) 0 ms None)
               (fun c ee => if ee then last_member (fun i m => dexplain (p +: i) m o) 0 ms else failP c ee)
    | EIter es => unionMi (fun i x => dexplain (p +: i) x o) 0 es
    | EMap e' its =>
        PCatch (rows <- map_rows_prog (fun i x => deval (p +: i) x o) its ;;
                a <- rows_union (fun os => ks <- dexplain (p +: 0) e' (with_opts true os o) ;;
                                           L (filter_preset S true os o (with_opts true os o) ks)) rows ;;
                b <- unionMi (fun i kv => dexplain (p +: i) (snd kv) o) 1 its ;;
                PRet (a ++ b))
               (fun c ee =>
                  if ee then
                    a <- dexplain (p +: 0) e' o ;;
                    b <- unionMi (fun i kv => dexplain (p +: i) (snd kv) o) 1 its ;;
                    PRet (filter (fun k => negb (key_mem k (map fst its))) a ++ b)
                  else failP c ee)
    | EWith force ps e' =>
        ks <- dexplain (p +: 0) e' (with_opts force ps o) ;;
        L (filter_preset S force ps o (with_opts force ps o) ks)
    | ECached _ e' => dexplain (p +: 0) e' o
    | ECall _ f args kwargs =>
        a <- dexplain (p +: 0) f o ;;
        b <- unionMi (fun i x => dexplain (p +: i) x o) 1 args ;;
        c <- unionMi (fun i x => dexplain (p +: i) x o) (1 + length args) kwargs ;;
        PRet (a ++ b ++ c)
    | ETemplate s ps =>
        a <- unionMi (fun i pe => dexplain (p +: i) (snd pe) o) 0 ps ;;
        b <- L (unionM S (fun k => ref_keys S rfuel false o k) (refs s)) ;;
        PRet (a ++ b)
    | EComp e' effects =>
        a <- dexplain (p +: 0) e' o ;;
        if effects_opt_off o then PRet a
        else b <- unionMi (fun i x => dexplain (p +: i) x o) 1 effects ;; PRet (a ++ b)
    | ELogged e' => dexplain (p +: 0) e' o
    | EPipe steps => unionMi (fun i x => dexplain (p +: i) x o) 0 steps
    | EAllOptions => L (bind S (emit S EvReadAll) (fun _ => ret S (map (fun kv => [fst kv]) o)))
    end.
End Layer.

(** ** Independent structural definitions used by the statements of C18 *)

(** what a recorded request is compared by: its kind and the position of its node *)
Definition rq_key (r : rq) : rkind * path := (r.(rq_kind), r.(rq_path)).

Fixpoint prefixb (p q : path) : bool :=
  match p, q with
  | [], _ => true
  | x :: p', y :: q' => Nat.eqb x y && prefixb p' q'
  | _ :: _, [] => false
  end.

(** no selected position at or below [p] *)
Definition untouched (sels : list path) (p : path) : bool :=
  forallb (fun q => negb (prefixb p q)) sels.

Definition cat_i {A B} (f : nat -> A -> list B) : nat -> list A -> list B :=
  fix go (i : nat) (l : list A) : list B :=
    match l with [] => [] | a :: l' => f i a ++ go (Datatypes.S i) l' end.

(** [visits m p e]: the requests that every SUCCESSFUL run of method [m] on the node [e] at
    position [p] issues, whatever the options, the store, the user code and the handlers'
    recording: the node's own request, the side requests of its class, and recursively those
    of the sub-nodes that the method visits unconditionally.  (Which of the conditionally
    visited sub-nodes - switch branches, defaults, later coalesce members - are visited depends
    on the options; their requests are compared with the implementation run by run.)
    Defined by structural recursion on the expression only. *)
Fixpoint visits_eval (p : path) (e : expr) : list (rkind * path) :=
  (KEval, p) ::
  match e with
  | EValue _ => []
  | EOption _ _ dom =>
      (KType, p) :: match dom with Some de => visits_eval (p +: 1) de | None => [] end
  | EApply src fn => visits_eval (p +: 0) src ++ visits_eval (p +: 1) fn
  | EBind src _ _ => visits_eval (p +: 0) src
  | ESwitch disp _ dflt =>
      match dflt with None => visits_eval (p +: 0) disp | Some _ => [(KEval, p +: 0)] end
  | ECase disp _ _ => visits_eval (p +: 0) disp
  | ECoalesce ms => match ms with [] => [] | _ :: _ => [(KValidate, p +: 0)] end
  | EIter es => match es with [] => [] | _ :: _ => [(KEval, p +: 0)] end
  | EMap _ its => cat_i (fun i kv => visits_eval (p +: i) (snd kv)) 1 its
  | EWith _ _ e' => visits_eval (p +: 0) e'
  | ECached _ _ => [(KCacheExists, p)]
  | ECall _ f args kwargs =>
      visits_eval (p +: 0) f ++ cat_i (fun i x => visits_eval (p +: i) x) 1 args ++
      cat_i (fun i x => visits_eval (p +: i) x) (1 + length args) kwargs
  | ETemplate _ ps => cat_i (fun i pe => visits_eval (p +: i) (snd pe)) 0 ps
  | EComp e' _ => visits_eval (p +: 0) e'
  | ELogged e' => (KLog, p) :: visits_eval (p +: 0) e'
  | EPipe steps => cat_i (fun i x => visits_eval (p +: i) x) 0 steps
  | EAllOptions => []
  end.

Fixpoint visits_validate (p : path) (e : expr) : list (rkind * path) :=
  (KValidate, p) ::
  match e with
  | EValue _ => []
  | EOption _ _ _ => []
  | EApply src fn => visits_validate (p +: 0) src ++ visits_validate (p +: 1) fn
  | EBind src _ _ => visits_validate (p +: 0) src ++ visits_eval (p +: 0) src
  | ESwitch disp _ dflt =>
      match dflt with None => visits_eval (p +: 0) disp | Some _ => [(KEval, p +: 0)] end
  | ECase disp _ _ => visits_validate (p +: 0) disp ++ visits_eval (p +: 0) disp
  | ECoalesce ms => match ms with [] => [] | _ :: _ => [(KValidate, p +: 0)] end
  | EIter es => cat_i (fun i x => visits_validate (p +: i) x) 0 es
  | EMap _ its => cat_i (fun i kv => visits_eval (p +: i) (snd kv)) 1 its
  | EWith _ _ e' => visits_validate (p +: 0) e'
  | ECached _ _ => [(KCacheExists, p)]
  | ECall _ f args kwargs =>
      visits_validate (p +: 0) f ++ cat_i (fun i x => visits_validate (p +: i) x) 1 args ++
      cat_i (fun i x => visits_validate (p +: i) x) (1 + length args) kwargs
  | ETemplate _ ps => cat_i (fun i pe => visits_validate (p +: i) (snd pe)) 0 ps
  | EComp e' _ => visits_validate (p +: 0) e'
  | ELogged e' => visits_validate (p +: 0) e'
  | EPipe steps => cat_i (fun i x => visits_validate (p +: i) x) 0 steps
  | EAllOptions => [(KEval, p)]
  end.

Fixpoint visits_keys (p : path) (e : expr) : list (rkind * path) :=
  (KKeys, p) ::
  match e with
  | EValue _ => []
  | EOption _ _ _ => []
  | EApply src fn => visits_keys (p +: 0) src ++ visits_keys (p +: 1) fn
  | EBind src _ _ => visits_keys (p +: 0) src ++ visits_eval (p +: 0) src
  | ESwitch disp _ dflt =>
      match dflt with
      | None => visits_eval (p +: 0) disp ++ visits_keys (p +: 0) disp
      | Some _ => [(KEval, p +: 0)]
      end
  | ECase disp _ _ => visits_keys (p +: 0) disp ++ visits_eval (p +: 0) disp
  | ECoalesce ms => match ms with [] => [] | _ :: _ => [(KValidate, p +: 0)] end
  | EIter es => cat_i (fun i x => visits_keys (p +: i) x) 0 es
  | EMap _ its =>
      cat_i (fun i kv => visits_eval (p +: i) (snd kv)) 1 its ++
      cat_i (fun i kv => visits_keys (p +: i) (snd kv)) 1 its
  | EWith _ _ e' => visits_keys (p +: 0) e'
  | ECached _ e' => visits_keys (p +: 0) e'
  | ECall _ f args kwargs =>
      visits_keys (p +: 0) f ++ cat_i (fun i x => visits_keys (p +: i) x) 1 args ++
      cat_i (fun i x => visits_keys (p +: i) x) (1 + length args) kwargs
  | ETemplate _ ps => cat_i (fun i pe => visits_keys (p +: i) (snd pe)) 0 ps
  | EComp e' _ => visits_keys (p +: 0) e'
  | ELogged e' => visits_keys (p +: 0) e'
  | EPipe steps => cat_i (fun i x => visits_keys (p +: i) x) 0 steps
  | EAllOptions => []
  end.

Fixpoint visits_explain (p : path) (e : expr) : list (rkind * path) :=
  (KExplain, p) ::
  match e with
  | EValue _ => []
  | EOption _ _ _ => []
  | EApply src fn => visits_explain (p +: 0) src ++ visits_explain (p +: 1) fn
  | EBind src _ _ => visits_explain (p +: 0) src ++ visits_eval (p +: 0) src
  | ESwitch disp _ _ => [(KEval, p +: 0)]
  | ECase disp _ _ => visits_explain (p +: 0) disp ++ visits_eval (p +: 0) disp
  | ECoalesce ms => match ms with [] => [] | _ :: _ => [(KValidate, p +: 0)] end
  | EIter es => cat_i (fun i x => visits_explain (p +: i) x) 0 es
  | EMap _ its => cat_i (fun i kv => visits_explain (p +: i) (snd kv)) 1 its
  | EWith _ _ e' => visits_explain (p +: 0) e'
  | ECached _ e' => visits_explain (p +: 0) e'
  | ECall _ f args kwargs =>
      visits_explain (p +: 0) f ++ cat_i (fun i x => visits_explain (p +: i) x) 1 args ++
      cat_i (fun i x => visits_explain (p +: i) x) (1 + length args) kwargs
  | ETemplate _ ps => cat_i (fun i pe => visits_explain (p +: i) (snd pe)) 0 ps
  | EComp e' _ => visits_explain (p +: 0) e'
  | ELogged e' => visits_explain (p +: 0) e'
  | EPipe steps => cat_i (fun i x => visits_explain (p +: i) x) 0 steps
  | EAllOptions => []
  end.

(** ** Substitution: the expression in which the nodes at the selected positions are replaced
    by the constant [v] *)
Section Replace.
  Variable sels : list path.
  Variable v : value.

  Definition rlist (f : nat -> expr -> expr) : nat -> list expr -> list expr :=
    fix go (i : nat) (l : list expr) : list expr :=
      match l with [] => [] | x :: l' => f i x :: go (Datatypes.S i) l' end.
  Definition rtbl {K : Type} (f : nat -> expr -> expr) : nat -> list (K * expr) -> list (K * expr) :=
    fix go (i : nat) (l : list (K * expr)) : list (K * expr) :=
      match l with [] => [] | (k, x) :: l' => (k, f i x) :: go (Datatypes.S i) l' end.
  Definition rcases (f : nat -> expr -> expr) : nat -> list (expr * expr) -> list (expr * expr) :=
    fix go (i : nat) (l : list (expr * expr)) : list (expr * expr) :=
      match l with
      | [] => []
      | (c, r) :: l' => (f (2 + 2 * i) c, f (3 + 2 * i) r) :: go (Datatypes.S i) l'
      end.
  Definition ropt (f : expr -> expr) (o : option expr) : option expr :=
    match o with Some x => Some (f x) | None => None end.

  Fixpoint replace_at (p : path) (e : expr) {struct e} : expr :=
    if path_mem p sels then EValue v else
    match e with
    | EValue _ => e
    | EOption k dflt dom =>
        EOption k (ropt (fun x => replace_at (p +: 0) x) dflt) (ropt (fun x => replace_at (p +: 1) x) dom)
    | EApply src fn => EApply (replace_at (p +: 0) src) (replace_at (p +: 1) fn)
    | EBind src tbl dflt =>
        EBind (replace_at (p +: 0) src) (rtbl (fun i x => replace_at (p +: i) x) 2 tbl)
              (ropt (fun x => replace_at (p +: 1) x) dflt)
    | ESwitch disp tbl dflt =>
        ESwitch (replace_at (p +: 0) disp) (rtbl (fun i x => replace_at (p +: i) x) 2 tbl)
                (ropt (fun x => replace_at (p +: 1) x) dflt)
    | ECase disp cases dflt =>
        ECase (replace_at (p +: 0) disp) (rcases (fun i x => replace_at (p +: i) x) 0 cases)
              (ropt (fun x => replace_at (p +: 1) x) dflt)
    | ECoalesce ms => ECoalesce (rlist (fun i x => replace_at (p +: i) x) 0 ms)
    | EIter es => EIter (rlist (fun i x => replace_at (p +: i) x) 0 es)
    | EMap e' its => EMap (replace_at (p +: 0) e') (rtbl (fun i x => replace_at (p +: i) x) 1 its)
    | EWith force ps e' => EWith force ps (replace_at (p +: 0) e')
    | ECached c e' => ECached c (replace_at (p +: 0) e')
    | ECall partial f args kwargs =>
        ECall partial (replace_at (p +: 0) f) (rlist (fun i x => replace_at (p +: i) x) 1 args)
              (rlist (fun i x => replace_at (p +: i) x) (1 + length args) kwargs)
    | ETemplate s ps => ETemplate s (rtbl (fun i x => replace_at (p +: i) x) 0 ps)
    | EComp e' effects => EComp (replace_at (p +: 0) e') (rlist (fun i x => replace_at (p +: i) x) 1 effects)
    | ELogged e' => ELogged (replace_at (p +: 0) e')
    | EPipe steps => EPipe (rlist (fun i x => replace_at (p +: i) x) 0 steps)
    | EAllOptions => e
    end.

  (** the fragment on which substitution is an equality of runs: a selected node is evaluated
      only through EvaluateRequests, i.e. it sits neither below a Coalesce (which validates its
      members) nor below a Cached with a memory cache in use (whose fingerprint asks for the
      keys of everything below it). [cache_on]: caching is not disabled by context. *)
  Variable cache_on : bool.

  Definition flist (f : nat -> expr -> bool) : nat -> list expr -> bool :=
    fix go (i : nat) (l : list expr) : bool :=
      match l with [] => true | x :: l' => f i x && go (Datatypes.S i) l' end.
  Definition ftbl {K : Type} (f : nat -> expr -> bool) : nat -> list (K * expr) -> bool :=
    fix go (i : nat) (l : list (K * expr)) : bool :=
      match l with [] => true | (_, x) :: l' => f i x && go (Datatypes.S i) l' end.
  Definition fcases (f : nat -> expr -> bool) : nat -> list (expr * expr) -> bool :=
    fix go (i : nat) (l : list (expr * expr)) : bool :=
      match l with
      | [] => true
      | (c, r) :: l' => f (2 + 2 * i) c && f (3 + 2 * i) r && go (Datatypes.S i) l'
      end.
  Definition fopt (f : expr -> bool) (o : option expr) : bool :=
    match o with Some x => f x | None => true end.

  Fixpoint frag (p : path) (e : expr) {struct e} : bool :=
    if path_mem p sels then true else
    match e with
    | EValue _ => true
    | EOption _ dflt dom => fopt (fun x => frag (p +: 0) x) dflt && fopt (fun x => frag (p +: 1) x) dom
    | EApply src fn => frag (p +: 0) src && frag (p +: 1) fn
    | EBind src tbl dflt =>
        frag (p +: 0) src && ftbl (fun i x => frag (p +: i) x) 2 tbl && fopt (fun x => frag (p +: 1) x) dflt
    | ESwitch disp tbl dflt =>
        frag (p +: 0) disp && ftbl (fun i x => frag (p +: i) x) 2 tbl && fopt (fun x => frag (p +: 1) x) dflt
    | ECase disp cases dflt =>
        frag (p +: 0) disp && fcases (fun i x => frag (p +: i) x) 0 cases && fopt (fun x => frag (p +: 1) x) dflt
    | ECoalesce _ => untouched sels p
    | EIter es => flist (fun i x => frag (p +: i) x) 0 es
    | EMap e' its => frag (p +: 0) e' && ftbl (fun i x => frag (p +: i) x) 1 its
    | EWith _ _ e' => frag (p +: 0) e'
    | ECached c e' =>
        match c with
        | CNone => frag (p +: 0) e'
        | CMem _ => if cache_on then untouched sels p else frag (p +: 0) e'
        end
    | ECall _ f args kwargs =>
        frag (p +: 0) f && flist (fun i x => frag (p +: i) x) 1 args &&
        flist (fun i x => frag (p +: i) x) (1 + length args) kwargs
    | ETemplate _ ps => ftbl (fun i x => frag (p +: i) x) 0 ps
    | EComp e' effects => frag (p +: 0) e' && flist (fun i x => frag (p +: i) x) 1 effects
    | ELogged e' => frag (p +: 0) e'
    | EPipe steps => flist (fun i x => frag (p +: i) x) 0 steps
    | EAllOptions => true
    end.
End Replace.
