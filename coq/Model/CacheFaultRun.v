(** Concrete instance of Model/CacheFault.v used by the correspondence check and by the
    non-vacuity examples: free-algebra values (any wrong argument or stale value is visible in the
    result), bodies that raise on a declared bad option value, the concrete fingerprint
    [fp_keys], and a fault oracle read from a finite script (then [Behave] forever). *)
From Coq Require Import List NArith Bool String.
Import ListNotations.
From LV Require Import Model.Show Model.CacheFault.

Inductive cv := CNum (n : N) | CTag (d : N) (args : list cv).

Definition bad_val : N := 13%N.
Definition is_bad (v : cv) : bool := match v with CNum n => N.eqb n bad_val | CTag _ _ => false end.

(** Body of dataset d: the tagged tuple (d, args...), raising when a direct argument is the bad
    option value. *)
Definition cbody (d : N) (args : list cv) : option cv :=
  if existsb is_bad args then None else Some (CTag d args).

(** Graph from its shape, newest dataset first (the head of a list of length n+1 has id n). *)
Fixpoint mk_graph (shapes : list (list arg)) : graph cv :=
  match shapes with
  | [] => []
  | a :: l' => {| ds_args := a; ds_body := cbody (N.of_nat (List.length l')) |} :: mk_graph l'
  end.

Fixpoint assoc0 (k : N) (l : list (N * N)) : N :=
  match l with [] => 0%N | (k', v) :: l' => if N.eqb k k' then v else assoc0 k l' end.
Definition mk_opts (l : list (N * N)) : options := fun k => assoc0 k l.

Definition script_oracle (s : list behaviour) : nat -> behaviour := fun n => nth n s Behave.

Definition c_eval (shapes : list (list arg)) (s : list behaviour) :=
  eval cv CNum (fp_keys cv (mk_graph shapes)) (script_oracle s) (mk_graph shapes).
Definition c_refv (shapes : list (list arg)) := refv cv CNum (mk_graph shapes).
Definition c_ref_runs (shapes : list (list arg)) :=
  ref_runs cv CNum (fp_keys cv (mk_graph shapes)) (mk_graph shapes).
Definition c_run_hist (shapes : list (list arg)) (s : list behaviour) (h : list (bool * N * list (N * N))) :=
  run_hist cv CNum (fp_keys cv (mk_graph shapes)) (script_oracle s) (mk_graph shapes)
           (map (fun '(dis, d, ol) => (dis, d, mk_opts ol)) h) (init_state cv).

(* ------------------------------------------------------------------ printing *)
Open Scope string_scope.

Fixpoint show_cv (v : cv) : string :=
  match v with
  | CNum n => showN n
  | CTag d args => "t" ++ showN d ++ "(" ++ commas (map show_cv args) ++ ")"
  end.

Definition show_res (r : res cv) : string :=
  match r with
  | Ok v => "ok:" ++ show_cv v
  | Fail (EBody d) => "raise:" ++ showN d
  | Fail (EDangling d) => "dangling:" ++ showN d
  end.

Definition show_call (c : call) : string :=
  match c with
  | CExists d b => "E" ++ showN d ++ showB b
  | CGet d b => "G" ++ showN d ++ showB b
  | CSet d => "S" ++ showN d
  end.

Definition show_fp (f : fingerprint) : string :=
  String.concat "&" (map (fun '(k, v) => showN k ++ "=" ++ showN v) f).

Definition show_run (r : run cv) : string :=
  showN (r_ds r) ++ (if r_ok r then "+" else "-") ++ "{" ++ show_fp (r_fp r) ++ "}".

(** One evaluation: result ; backend calls it made ; bodies it ran. *)
Definition show_eval (r : res cv) (calls : list call) (runs : list (run cv)) : string :=
  show_res r ++ ";" ++ commas (map show_call calls) ++ ";" ++ commas (map show_run runs).

Fixpoint obs_hist (shapes : list (list arg)) (s : list behaviour)
         (h : list (bool * N * list (N * N))) (st : state cv) : list string :=
  match h with
  | [] => []
  | (dis, d, ol) :: h' =>
      let '(r, st1) := c_eval shapes s dis d (mk_opts ol) st in
      show_eval r (skipn (List.length (st_calls st)) (st_calls st1))
                  (skipn (List.length (st_runs st)) (st_runs st1))
      :: obs_hist shapes s h' st1
  end.

(** The observation line of a scenario (graph shape, fault script, history). *)
Definition observe (shapes : list (list arg)) (s : list behaviour)
           (h : list (bool * N * list (N * N))) : string :=
  String.concat "/" (obs_hist shapes s h (init_state cv)).

(** Comparison inside Coq (keeps the printed result small): "=" when the model's line is the
    implementation's, else the model's line. *)
Definition agree (model impl : string) : string := if String.eqb model impl then "=" else model.

(** … evaluation by evaluation: "=" or "<index of the first differing evaluation>#<the model's line for it>". *)
Fixpoint first_diff (k : nat) (model impl : list string) : string :=
  match model, impl with
  | [], [] => "="
  | m :: model', i :: impl' =>
      if String.eqb m i then first_diff (S k) model' impl' else showNat k ++ "#" ++ m
  | m :: _, [] => showNat k ++ "#" ++ m
  | [], _ :: _ => showNat k ++ "#"
  end.
Definition agree_hist (shapes : list (list arg)) (s : list behaviour)
           (h : list (bool * N * list (N * N))) (impl : list string) : string :=
  first_diff 0 (obs_hist shapes s h (init_state cv)) impl.

(** The cache-free yardstick of one evaluation, same format (no backend calls). *)
Definition observe_ref (shapes : list (list arg)) (d : N) (ol : list (N * N)) : string :=
  show_eval (c_refv shapes d (mk_opts ol)) [] (c_ref_runs shapes d (mk_opts ol)).

(* ------------------------------------------------------------------ sample graphs *)
(** diamond: 0 = s(K1); 1 = b(s, K2); 2 = c(s); 3 = a(b, c) *)
Definition diamond : list (list arg) :=
  [ [ADs 1; ADs 2]; [ADs 0]; [ADs 0; AOpt 2]; [AOpt 1] ]%N.
(** chain: 0 = x(K1); 1 = y(x, K2); 2 = z(y) *)
Definition chain : list (list arg) :=
  [ [ADs 1]; [ADs 0; AOpt 2]; [AOpt 1] ]%N.
