(** Model of labrea/runtime.py (as of fix: commits 93f0f4c, fd53836 and 8a7cb3b), one thread.
    Executable definitions only; proofs are in Proofs/RuntimeProofs.v, statements in
    Properties/C14.v.

    Three layers:
      1. the object store  (Runtime objects, the global _DEFAULT_HANDLERS table)   -- shared
      2. the CONCRETE thread state of the code: _RUNTIMES[thread], _PREVIOUS[thread]
      3. the ABSTRACT specification of the property text: a stack of entered runtimes
         over an optional base runtime
    plus, at the end and clearly separated, two OLD variants kept only to document what the
    fixes bought: the pre-93f0f4c enter/exit with the [previous] pointer stored on the runtime
    object (C14_old_code_refuted) and the pre-8a7cb3b [or] fallback of Runtime.run
    (C14_old_or_fallback_refuted). *)
From Coq Require Import List NArith Bool.
Import ListNotations.

(** * Data *)
Definition ty := N.     (* a Request subclass (compared by identity only)  *)
Definition tag := N.    (* a handler (compared by identity only)           *)
Definition rid := N.    (* identity of a Runtime object                    *)

(** Python dicts [Dict[Type[Request], Handler]].  runtime.py applies only [.get], [[]] and
    [{**a, **b}] to them, so an association list read first-match-wins is observationally a
    dict: [{**a, **b}] is [b ++ a] (b's entries shadow a's) and [d[k] = v] is [(k, v) :: d]. *)
Definition table := list (ty * tag).

Fixpoint lookup {A} (k : N) (l : list (N * A)) : option A :=
  match l with
  | [] => None
  | (k', v) :: l' => if N.eqb k k' then Some v else lookup k l'
  end.

(** * 1. Object store *)
Record objs := mkObjs {
  heap : list (rid * table);   (* Runtime objects: id -> self.handlers (never mutated)     *)
  next : rid;                  (* allocation counter (object identity)                     *)
  defaults : table             (* module global _DEFAULT_HANDLERS (runtime.py:89)          *)
}.
(* The attribute [self.previous] (runtime.py:110,116) is still initialised to None but is
   neither read nor written anywhere else since 93f0f4c; it is not modelled. *)

(** Identifiers not in the heap cannot arise from Python (references do not dangle); the
    model totalises their handler table as empty. *)
Definition handlers_of (o : objs) (r : rid) : table :=
  match lookup r (heap o) with Some t => t | None => [] end.

(** [Runtime.__init__(handlers)]  (runtime.py:112-116):
      self.handlers = {**_DEFAULT_HANDLERS, **(handlers or {})}
    the defaults are snapshotted at creation time. *)
Definition new_runtime (ov : table) (o : objs) : rid * objs :=
  (next o, mkObjs ((next o, ov ++ defaults o) :: heap o) (N.succ (next o)) (defaults o)).

(** [Runtime.handle(self, request, handler)] (runtime.py:148-151), both accepted argument
    forms ([request] a Mapping, or a type plus a callable handler = a one-entry mapping):
      return Runtime({**self.handlers, **request})                                       *)
Definition derive (r : rid) (ov : table) (o : objs) : rid * objs :=
  new_runtime (ov ++ handlers_of o r) o.

(** [handle_by_default(request, handler)] (runtime.py:242-253) / [Request.handle]:
      _DEFAULT_HANDLERS[request] = handler                                               *)
Definition register_default (t : ty) (h : tag) (o : objs) : objs :=
  mkObjs (heap o) (next o) ((t, h) :: defaults o).

(** Observation of one operation. *)
Inductive obs :=
| OServed (h : tag)     (* Request.run() was answered by handler h                       *)
| OTypeError            (* TypeError (no handler / bad arguments to handle())            *)
| ORet (r : rid)        (* the operation returned the Runtime object r                   *)
| ODone                 (* returned None                                                 *)
| ORaised               (* block left by exception; __exit__ returned None: propagates   *)
| OUnmatchedExit.       (* __exit__ without matching __enter__ (KeyError / IndexError)    *)

(** [Runtime.run(self, request)] (runtime.py:175-186):
      try:                handler = self.handlers[type(request)]
      except KeyError:
          try:            handler = _DEFAULT_HANDLERS[type(request)]
          except KeyError: raise TypeError
      return handler(request)
    A held handler always serves, whatever its truth value. *)
Definition serve (o : objs) (r : rid) (t : ty) : obs :=
  match lookup t (handlers_of o r) with
  | Some h => OServed h
  | None => match lookup t (defaults o) with
            | Some d => OServed d
            | None => OTypeError
            end
  end.

(** * Operations (one thread) *)
Inductive src :=
| SCur                  (* labrea.runtime.handle(...) = current_runtime().handle(...)    *)
| SObj (r : rid).       (* r.handle(...)                                                 *)

Inductive op :=
| New (ov : table)                   (* Runtime(ov)                                      *)
| Derive (s : src) (ov : table)      (* handle(ov) / r.handle(ov) / handle(T, h)         *)
| DeriveBad (s : src)                (* handle(T, None) and the like: raises TypeError   *)
| GetCur                             (* current_runtime()                                *)
| Enter (r : rid)                    (* r.__enter__()   (start of [with r:])             *)
| Exit                               (* __exit__(None, None, None)                       *)
| ExitExc                            (* __exit__(exc_type, exc, tb): block raised        *)
| RegisterDefault (t : ty) (h : tag) (* handle_by_default / @T.handle                    *)
| Run (t : ty).                      (* T(...).run()                                     *)

(** * 2. Concrete thread state *)
Record state := mkState {
  ob : objs;
  cur : option rid;                    (* _RUNTIMES.get(thread)       (runtime.py:203)    *)
  prev : option (list (option rid))    (* _PREVIOUS.get(thread)       (runtime.py:204)
                                          None = key absent; the Python list's END is the
                                          HEAD here (append = cons, pop = uncons)        *)
}.

Definition saved (s : state) : list (option rid) :=
  match prev s with Some l => l | None => [] end.

(** [current_runtime()] (runtime.py:207-210):
      with lock: return _RUNTIMES.setdefault(threading.current_thread(), Runtime())
    When the slot is occupied Python still constructs the argument [Runtime()] and drops it
    at once; that object is unreachable and its construction writes no shared state, so it
    gets no heap cell here. *)
Definition current_runtime (s : state) : rid * state :=
  match cur s with
  | Some r => (r, s)
  | None => let (r, o') := new_runtime [] (ob s) in (r, mkState o' (Some r) (prev s))
  end.

(** [Runtime.__enter__] (runtime.py:186-191):
      _PREVIOUS.setdefault(thread, []).append(_RUNTIMES.get(thread))
      _RUNTIMES[thread] = self ; return self                                             *)
Definition enter (r : rid) (s : state) : state :=
  mkState (ob s) (Some r) (Some (cur s :: saved s)).

(** [Runtime.__exit__] (runtime.py:193-200); its three arguments are ignored, it returns None:
      previous = _PREVIOUS[thread].pop()
      if previous is None: _RUNTIMES.pop(thread, None)
      else:                _RUNTIMES[thread] = previous                                   *)
Definition exit_ (s : state) : option state :=
  match prev s with
  | None => None                         (* KeyError, nothing changed   *)
  | Some [] => None                      (* IndexError, nothing changed *)
  | Some (p :: rest) =>
      match p with
      | None => Some (mkState (ob s) None (Some rest))
      | Some r => Some (mkState (ob s) (Some r) (Some rest))
      end
  end.

Definition with_ob (s : state) (o : objs) : state := mkState o (cur s) (prev s).

Definition step (c : op) (s : state) : state * obs :=
  match c with
  | New ov => let (r, o') := new_runtime ov (ob s) in (with_ob s o', ORet r)
  | Derive SCur ov =>
      let (r, s1) := current_runtime s in
      let (n, o') := derive r ov (ob s1) in (with_ob s1 o', ORet n)
  | Derive (SObj r) ov => let (n, o') := derive r ov (ob s) in (with_ob s o', ORet n)
  | DeriveBad SCur => (snd (current_runtime s), OTypeError)
  | DeriveBad (SObj _) => (s, OTypeError)
  | GetCur => let (r, s1) := current_runtime s in (s1, ORet r)
  | Enter r => (enter r s, ORet r)
  | Exit => match exit_ s with Some s' => (s', ODone) | None => (s, OUnmatchedExit) end
  | ExitExc => match exit_ s with Some s' => (s', ORaised) | None => (s, OUnmatchedExit) end
  | RegisterDefault t h => (with_ob s (register_default t h (ob s)), ODone)
  | Run t => let (r, s1) := current_runtime s in (s1, serve (ob s1) r t)
  end.

Fixpoint run (ops : list op) (s : state) : state * list obs :=
  match ops with
  | [] => (s, [])
  | c :: rest =>
      let (s1, o) := step c s in
      let (s2, os) := run rest s1 in (s2, o :: os)
  end.

(** Initial states: a thread that never asked for a runtime / a thread whose runtime is r. *)
Definition fresh_thread (o : objs) : state := mkState o None None.
Definition thread_with (r : rid) (o : objs) : state := mkState o (Some r) None.

(** * 3. Abstract specification (the property text)
    Per thread: the runtimes entered and not yet exited (most recent first) over the thread's
    own base runtime, if it has one.  A request is served by the top: the handler it holds
    for the type, else the current default for the type, else TypeError.  When there is no
    runtime at all, a fresh one (holding the defaults of that moment) becomes the base. *)
Record astate := mkA {
  aob : objs;
  entered : list rid;
  base : option rid
}.

Definition aserve (o : objs) (r : rid) (t : ty) : obs :=
  match lookup t (handlers_of o r) with
  | Some h => OServed h
  | None => match lookup t (defaults o) with
            | Some d => OServed d
            | None => OTypeError
            end
  end.

Definition atop (a : astate) : option rid :=
  match entered a with r :: _ => Some r | [] => base a end.

Definition acurrent (a : astate) : rid * astate :=
  match atop a with
  | Some r => (r, a)
  | None => let (r, o') := new_runtime [] (aob a) in (r, mkA o' (entered a) (Some r))
  end.

Definition awith_ob (a : astate) (o : objs) : astate := mkA o (entered a) (base a).

Definition apop (a : astate) : option astate :=
  match entered a with
  | [] => None
  | _ :: e => Some (mkA (aob a) e (base a))
  end.

Definition astep (c : op) (a : astate) : astate * obs :=
  match c with
  | New ov => let (r, o') := new_runtime ov (aob a) in (awith_ob a o', ORet r)
  | Derive SCur ov =>
      let (r, a1) := acurrent a in
      let (n, o') := derive r ov (aob a1) in (awith_ob a1 o', ORet n)
  | Derive (SObj r) ov => let (n, o') := derive r ov (aob a) in (awith_ob a o', ORet n)
  | DeriveBad SCur => (snd (acurrent a), OTypeError)
  | DeriveBad (SObj _) => (a, OTypeError)
  | GetCur => let (r, a1) := acurrent a in (a1, ORet r)
  | Enter r => (mkA (aob a) (r :: entered a) (base a), ORet r)
  | Exit => match apop a with Some a' => (a', ODone) | None => (a, OUnmatchedExit) end
  | ExitExc => match apop a with Some a' => (a', ORaised) | None => (a, OUnmatchedExit) end
  | RegisterDefault t h => (awith_ob a (register_default t h (aob a)), ODone)
  | Run t => let (r, a1) := acurrent a in (a1, aserve (aob a1) r t)
  end.

Fixpoint arun (ops : list op) (a : astate) : astate * list obs :=
  match ops with
  | [] => (a, [])
  | c :: rest =>
      let (a1, o) := astep c a in
      let (a2, os) := arun rest a1 in (a2, o :: os)
  end.

(** Abstraction function: the chain [cur :: saved] of the code is the stack of entered
    runtimes followed by the base slot. *)
Fixpoint abs_ctl (c : option rid) (sv : list (option rid)) : list rid * option rid :=
  match sv with
  | [] => ([], c)
  | p :: rest =>
      let (e, b) := abs_ctl p rest in
      (match c with Some r => r :: e | None => e end, b)
  end.

Definition abs (s : state) : astate :=
  let (e, b) := abs_ctl (cur s) (saved s) in mkA (ob s) e b.

(** Invariant of the code's thread state: every slot of the chain above its last one holds a
    runtime (only the bottom -- "what the thread had before its first block" -- may be None). *)
Fixpoint ctl_ok (c : option rid) (sv : list (option rid)) : bool :=
  match sv with
  | [] => true
  | p :: rest => (match c with Some _ => true | None => false end) && ctl_ok p rest
  end.
Definition state_ok (s : state) : bool := ctl_ok (cur s) (saved s).

(** Object identities are fresh: every allocated id is below the counter. *)
Definition heap_fresh (o : objs) : bool :=
  forallb (fun c => N.ltb (fst c) (next o)) (heap o).

(** Well-nestedness of an operation sequence started at block depth d:
    [nest d ops = Some d'] iff no exit is unmatched and the final depth is d'. *)
Definition is_exit (c : op) : bool :=
  match c with Exit | ExitExc => true | _ => false end.

Fixpoint nest (d : nat) (ops : list op) : option nat :=
  match ops with
  | [] => Some d
  | Enter _ :: l => nest (S d) l
  | Exit :: l | ExitExc :: l => match d with O => None | S d' => nest d' l end
  | _ :: l => nest d l
  end.

Definition balanced (ops : list op) : bool :=
  match nest 0 ops with Some O => true | _ => false end.

Fixpoint registers (t : ty) (ops : list op) : bool :=
  match ops with
  | [] => false
  | RegisterDefault t' _ :: l => N.eqb t t' || registers t l
  | _ :: l => registers t l
  end.

(** * OLD CODE (before fix: 93f0f4c) -- documentation only, NOT the current /repo.
    [__enter__]:  self.previous = _RUNTIMES.get(thread); _RUNTIMES[thread] = self
    [__exit__]:   _RUNTIMES[thread] = self.previous; self.previous = None
    The restore pointer lives on the (shareable, re-enterable) runtime object and the slot
    can end up holding None. *)
Inductive oslot := OAbsent | ONone | ORt (r : rid).   (* key absent / holds None / holds r *)

Record ostate := mkO {
  oob : objs;
  oprevious : list (rid * option rid);   (* r.previous for each object (absent = None)    *)
  ocur : oslot;
  owith : list rid                       (* interpreter: context managers of open [with]s *)
}.

Inductive oobs := OO (o : obs) | OAttributeError.   (* None.run / None.handle *)

Definition oget (s : ostate) : option rid := match ocur s with ORt r => Some r | _ => None end.
Definition oprev_of (s : ostate) (r : rid) : option rid :=
  match lookup r (oprevious s) with Some p => p | None => None end.

Definition enter_old (r : rid) (s : ostate) : ostate :=
  mkO (oob s) ((r, oget s) :: oprevious s) (ORt r) (r :: owith s).

Definition exit_old (s : ostate) : option ostate :=
  match owith s with
  | [] => None
  | r :: w =>
      Some (mkO (oob s) ((r, None) :: oprevious s)
                (match oprev_of s r with Some p => ORt p | None => ONone end) w)
  end.

(** [_RUNTIMES.setdefault(thread, Runtime())]: a slot holding None is returned as None. *)
Definition current_old (s : ostate) : option rid * ostate :=
  match ocur s with
  | ORt r => (Some r, s)
  | ONone => (None, s)
  | OAbsent => let (r, o') := new_runtime [] (oob s) in
               (Some r, mkO o' (oprevious s) (ORt r) (owith s))
  end.

Definition owith_ob (s : ostate) (o : objs) : ostate := mkO o (oprevious s) (ocur s) (owith s).

Definition step_old (c : op) (s : ostate) : ostate * oobs :=
  match c with
  | New ov => let (r, o') := new_runtime ov (oob s) in (owith_ob s o', OO (ORet r))
  | Derive SCur ov =>
      match current_old s with
      | (Some r, s1) => let (n, o') := derive r ov (oob s1) in (owith_ob s1 o', OO (ORet n))
      | (None, s1) => (s1, OAttributeError)
      end
  | Derive (SObj r) ov => let (n, o') := derive r ov (oob s) in (owith_ob s o', OO (ORet n))
  | DeriveBad SCur =>
      match current_old s with
      | (Some _, s1) => (s1, OO OTypeError)
      | (None, s1) => (s1, OAttributeError)
      end
  | DeriveBad (SObj _) => (s, OO OTypeError)
  | GetCur =>
      match current_old s with
      | (Some r, s1) => (s1, OO (ORet r))
      | (None, s1) => (s1, OO ODone)          (* returns None *)
      end
  | Enter r => (enter_old r s, OO (ORet r))
  | Exit => match exit_old s with Some s' => (s', OO ODone) | None => (s, OO OUnmatchedExit) end
  | ExitExc => match exit_old s with Some s' => (s', OO ORaised) | None => (s, OO OUnmatchedExit) end
  | RegisterDefault t h => (owith_ob s (register_default t h (oob s)), OO ODone)
  | Run t =>
      match current_old s with
      | (Some r, s1) => (s1, OO (serve (oob s1) r t))
      | (None, s1) => (s1, OAttributeError)
      end
  end.

Fixpoint run_old (ops : list op) (s : ostate) : ostate * list oobs :=
  match ops with
  | [] => (s, [])
  | c :: rest =>
      let (s1, o) := step_old c s in
      let (s2, os) := run_old rest s1 in (s2, o :: os)
  end.

Definition old_fresh_thread (o : objs) : ostate := mkO o [] OAbsent [].
Definition old_thread_with (r : rid) (o : objs) : ostate := mkO o [] (ORt r) [].

(** * OLD CODE (fd53836 .. before fix: 8a7cb3b) -- documentation only, NOT the current /repo.
    [Runtime.run] was
      handler = self.handlers.get(type(request)) or _DEFAULT_HANDLERS[type(request)]
    so a held handler whose truth value is False was skipped in favour of the default.
    Functions, lambdas, bound methods and classes are always true; [falsy_tag] stands for a
    callable object whose [__bool__]/[__len__] makes it false. *)
Definition falsy_tag : tag := 0%N.
Definition truthy (h : tag) : bool := negb (N.eqb h falsy_tag).

Definition serve_or_old (o : objs) (r : rid) (t : ty) : obs :=
  let dflt := match lookup t (defaults o) with
              | Some d => OServed d
              | None => OTypeError
              end in
  match lookup t (handlers_of o r) with
  | Some h => if truthy h then OServed h else dflt
  | None => dflt
  end.

Definition step_or_old (c : op) (s : state) : state * obs :=
  match c with
  | Run t => let (r, s1) := current_runtime s in (s1, serve_or_old (ob s1) r t)
  | _ => step c s
  end.

Fixpoint run_or_old (ops : list op) (s : state) : state * list obs :=
  match ops with
  | [] => (s, [])
  | c :: rest =>
      let (s1, o) := step_or_old c s in
      let (s2, os) := run_or_old rest s1 in (s2, o :: os)
  end.
