(** Concrete instance of the pipeline semantics used by the correspondence check:
    steps described by a table, options as an association list of atoms, values as the
    free algebra of unary steps (a stack of (step, parameter) applications). *)
From Coq Require Import List NArith Bool String.
Import ListNotations.
From LV Require Import Model.Show Model.Pipeline.

Inductive sdesc :=
| SPlain                                   (* plain callable / step without parameters *)
| SParam (key : N) (default : option N)    (* @pipeline_step f(x, y=Option(key[, default])) *)
| SRaise.                                  (* callable that raises when applied *)

Definition opts := list (N * N).
Definition tbl := list (N * sdesc).

Fixpoint assoc {A} (k : N) (l : list (N * A)) : option A :=
  match l with [] => None | (k', v) :: l' => if N.eqb k k' then Some v else assoc k l' end.

Definition desc (t : tbl) (s : step) : sdesc :=
  if is_identity s then SPlain else match assoc s t with Some d => d | None => SPlain end.

Definition F := (N * option N * bool)%type.   (* step id, parameter value, raises? *)
Definition V := list (N * option N).

Definition bad_param : N := 999%N.   (* a parameter value on which parameterised bodies raise *)

Definition c_sev (t : tbl) (s : step) (o : opts) : option F :=
  match desc t s with
  | SPlain => Some (s, None, false)
  | SRaise => Some (s, None, true)
  | SParam k d =>
      match assoc k o with
      | Some v => Some (s, Some v, N.eqb v bad_param)
      | None => match d with Some v => Some (s, Some v, N.eqb v bad_param) | None => None end
      end
  end.

Definition c_ap (f : F) (x : V) : option V :=
  let '(s, pv, r) := f in
  if r then None else if is_identity s then Some x else Some ((s, pv) :: x).

Definition c_skeys (t : tbl) (s : step) (o : opts) : option (list N) :=
  match desc t s with
  | SPlain | SRaise => Some []
  | SParam k d =>
      match assoc k o with
      | Some _ => Some [k]
      | None => match d with Some _ => Some [] | None => None end
      end
  end.

(* explain never fails: lists the key when present or required *)
Definition c_sexplain (t : tbl) (s : step) (o : opts) : option (list N) :=
  match desc t s with
  | SPlain | SRaise => Some []
  | SParam k d =>
      match assoc k o with
      | Some _ => Some [k]
      | None => match d with Some _ => Some [] | None => Some [k] end
      end
  end.

Definition c_svalid (t : tbl) (s : step) (o : opts) : bool :=
  match c_skeys t s o with Some _ => true | None => false end.

Definition showV (x : V) : string :=
  brack (map (fun '(s, pv) => showN s ++ ":" ++ showOpt showN pv) x).

Fixpoint insert_sorted (n : N) (l : list N) : list N :=
  match l with
  | [] => [n]
  | m :: l' => if N.ltb n m then n :: l else if N.eqb n m then l else m :: insert_sorted n l'
  end.
Definition sort_dedup (l : list N) : list N := fold_right insert_sorted [] l.

Definition showKeys (k : option (list N)) : string :=
  showOpt (fun l => brack (map showN (sort_dedup l))) k.

(** One observation line: iter | transform | keys | explain | validate *)
Definition observe (t : tbl) (c : cexpr) (o : opts) : string :=
  let p := as_pipe (cval c) in
  brack (map showN (iter p)) ++ "|" ++
  showOpt showV (transform opts V F (c_sev t) c_ap p [] o) ++ "|" ++
  showKeys (pkeys opts N (c_skeys t) p o) ++ "|" ++
  showKeys (pkeys opts N (c_sexplain t) p o) ++ "|" ++
  showB (pvalid opts (c_svalid t) p o).
