(** Model of labrea's overload and interface dispatch (property C07).
    Executable definitions only; proofs are in Proofs/DispatchProofs.v.

    Transcribed, clause by clause, from /repo as it is NOW (after the fix: commits b8adbdb
    "a rejected interface implementation registers nothing" and 3f28b1e "with_options keeps the
    callback"):
      labrea/conditional.py  Switch._lookup (l.130-146), _DependsOn.keys (l.66-67)
      labrea/overload.py     Overloaded.register (l.90-101), .switch (l.103-106)
      labrea/dataset.py      Dataset._composed (l.99-123), overload (l.208-223), register (l.246),
                             set_dispatch (l.262-266), with_options (l.345-352),
                             DatasetFactory.wrap (l.497-530)
      labrea/interface.py    Interface.__init__ (l.162-201), Implementation.__init__ (l.259-285),
                             _get_members (l.294-302), _build_overloads (l.305-330)
      labrea/cache.py        Cached.evaluate (l.330-341), MemoryCache (l.151-167)
      labrea/types.py        Cacheable.fingerprint (l.115-119)
      labrea/option.py       Option.evaluate/keys (l.150-200), WithOptions (l.372-404)

    Universe.  Options dictionaries are flat: option-key atom -> value atom (the dispatch value IS
    an option value, so aliases and values share one atom space).  Implementations are either
    opaque deterministic functions of the options ([IFun g]: a lifted function, an Option, a
    Value; semantics = Section variables, every theorem holds for all of them) or another
    dataset of the environment ([IDs d]: what [@d.overload(...)] registers; nested/stacked
    overloads).  The old code paths repaired by the two fix: commits are kept as
    [implement_old] / [c_keep_callback = false] and are only used by the refutation theorems
    labelled OLD CODE. *)
From Coq Require Import List NArith Bool.
Import ListNotations.
Local Open Scope N_scope.

(** * Association lists, option dictionaries, fingerprints *)

Definition opts := list (N * N).

Fixpoint assoc {A : Type} (k : N) (l : list (N * A)) : option A :=
  match l with
  | [] => None
  | (k', v) :: l' => if N.eqb k k' then Some v else assoc k l'
  end.

Definition has_key {A : Type} (k : N) (l : list (N * A)) : bool :=
  match assoc k l with Some _ => true | None => false end.

Definition memN (x : N) (l : list N) : bool := existsb (N.eqb x) l.

(** Python [{**l, k: v}]: replaced in place when present, appended otherwise. *)
Fixpoint upd {A : Type} (k : N) (v : A) (l : list (N * A)) : list (N * A) :=
  match l with
  | [] => [(k, v)]
  | (k', v') :: l' => if N.eqb k k' then (k, v) :: l' else (k', v') :: upd k v l'
  end.

(** [mix(options, preset)] on flat dictionaries: the pre-set entries win ([WithOptions], force). *)
Definition overlay (preset o : opts) : opts := preset ++ o.

Fixpoint insertN (n : N) (l : list N) : list N :=
  match l with
  | [] => [n]
  | m :: l' => if N.ltb n m then n :: l else if N.eqb n m then l else m :: insertN n l'
  end.
Definition sort_dedup (l : list N) : list N := fold_right insertN [] l.

(** [fingerprint]: json.dumps([{key: get_dotted_key(key, options)} for key in sorted(keys)]).
    [None] = a reported key is absent ([get_dotted_key] raises). *)
Definition fp := list (N * N).
Fixpoint pairs_of (o : opts) (ks : list N) : option fp :=
  match ks with
  | [] => Some []
  | k :: ks' =>
      match assoc k o, pairs_of o ks' with
      | Some v, Some r => Some ((k, v) :: r)
      | _, _ => None
      end
  end.
Definition mk_fp (o : opts) (ks : list N) : option fp := pairs_of o (sort_dedup ks).

Fixpoint fp_eqb (a b : fp) : bool :=
  match a, b with
  | [], [] => true
  | (k, v) :: a', (k', v') :: b' => N.eqb k k' && N.eqb v v' && fp_eqb a' b'
  | _, _ => false
  end.

(** * Failure classes (root cause of the EvaluationError chain) *)
Inductive err :=
| ESwitch            (* SwitchError: dispatch value unregistered and no default *)
| EKey (k : N)       (* KeyNotFoundError(k) *)
| EOther.            (* anything else: domain violation, a body that raises, ... *)

Definition err_eqb (a b : err) : bool :=
  match a, b with
  | ESwitch, ESwitch => true
  | EKey x, EKey y => N.eqb x y
  | EOther, EOther => true
  | _, _ => false
  end.

(** * Dispatch expressions *)
Inductive dexpr :=
| DKey (k : N)                                     (* dispatch='K' / Option('K') *)
| DKeyDefault (k v : N)                            (* Option('K', v) *)
| DKeyDom (k : N) (dflt : option N) (dom : list N) (* Option('K'[, v], domain=dom) *)
| DDataset (k : N) (dflt : option N) (bad : list N)(* a dataset returning Option('K'[, v]), raising on [bad] values *)
| DMissing.                                        (* no dispatch: Value(MISSING) *)

Inductive dres := DVal (a : N) | DFail (e : err).

(** The value [Value(MISSING)] evaluates to; never a registered alias in generated histories. *)
Definition missing_alias : N := 0.

Definition or_default (x d : option N) : option N :=
  match x with Some v => Some v | None => d end.

(** [Switch._dispatch] = dispatch.evaluate(options)  (Option.evaluate: value, else default, else
    KeyNotFoundError; then the domain check, also on the default) *)
Definition deval (e : dexpr) (o : opts) : dres :=
  match e with
  | DKey k => match assoc k o with Some v => DVal v | None => DFail (EKey k) end
  | DKeyDefault k v => match assoc k o with Some v' => DVal v' | None => DVal v end
  | DKeyDom k dflt dom =>
      match or_default (assoc k o) dflt with
      | None => DFail (EKey k)
      | Some v => if memN v dom then DVal v else DFail EOther
      end
  | DDataset k dflt bad =>
      match or_default (assoc k o) dflt with
      | None => DFail (EKey k)
      | Some v => if memN v bad then DFail EOther else DVal v
      end
  | DMissing => DVal missing_alias
  end.

Definition dkey (e : dexpr) : option N :=
  match e with
  | DKey k | DKeyDefault k _ | DKeyDom k _ _ | DDataset k _ _ => Some k
  | DMissing => None
  end.

(** dispatch.keys(options) when the dispatch could be evaluated: [Option.keys] reports the key
    only when it is present (an absent key with a default reports the default's keys: none). *)
Definition dkeys (e : dexpr) (o : opts) : list N :=
  match dkey e with
  | Some k => if has_key k o then [k] else []
  | None => []
  end.

Definition dexpr_eqb (a b : dexpr) : bool :=
  let oeq (x y : option N) := match x, y with Some p, Some q => N.eqb p q | None, None => true | _, _ => false end in
  let leq := fix leq (x y : list N) := match x, y with [] , [] => true | p :: x', q :: y' => N.eqb p q && leq x' y' | _, _ => false end in
  match a, b with
  | DKey k, DKey k' => N.eqb k k'
  | DKeyDefault k v, DKeyDefault k' v' => N.eqb k k' && N.eqb v v'
  | DKeyDom k d m, DKeyDom k' d' m' => N.eqb k k' && oeq d d' && leq m m'
  | DDataset k d m, DDataset k' d' m' => N.eqb k k' && oeq d d' && leq m m'
  | DMissing, DMissing => true
  | _, _ => false
  end.

(** The zone of finding D19 (as it shows through C07): the dispatch has a fallback for an
    ABSENT key and can FAIL on a PRESENT value.  Outside it [dispatch_safe = true]. *)
Definition dispatch_safe (e : dexpr) : bool :=
  match e with
  | DKey _ | DKeyDefault _ _ | DMissing => true
  | DKeyDom _ None _ => true
  | DKeyDom _ (Some v) dom => negb (memN v dom)       (* the fallback itself is rejected: absent always fails *)
  | DDataset _ None _ => true
  | DDataset _ (Some v) bad => memN v bad || match bad with [] => true | _ => false end
  end.

(** * Implementations, overload tables, datasets, interfaces *)
Inductive impl := IFun (g : N) | IDs (d : N).

Definition impl_eqb (a b : impl) : bool :=
  match a, b with
  | IFun x, IFun y => N.eqb x y
  | IDs x, IDs y => N.eqb x y
  | _, _ => false
  end.

(** An [Overloaded] object. *)
Record ovl := { o_disp : dexpr; o_table : list (N * impl); o_default : option impl }.

(** A [Dataset] object: which Overloaded / cache object it points to (shared with its
    with_options derivatives), its callback, its pre-set options. *)
Record dsrec := { d_ovl : N; d_cache : N; d_cb : option N; d_preset : opts }.

Record iface := { if_disp : dexpr; if_members : list (N * N) (* member name -> dataset *) }.

(** What the property text says is selected: the implementation registered under the current
    dispatch value; the default when that value is unregistered or cannot be determined; nothing
    (failure) in that case when the dataset is abstract. *)
Definition pick (ov : ovl) (o : opts) : option impl :=
  match deval (o_disp ov) o with
  | DVal a => match assoc a (o_table ov) with Some i => Some i | None => o_default ov end
  | DFail _ => o_default ov
  end.

(** [Switch._lookup] as written: the chosen evaluatable and whether it is wrapped in
    [_DependsOn(_, dispatch)] (whose keys() adds the dispatch's keys). *)
Inductive sel := SelErr (e : err) | Sel (i : impl) (wrapped : bool).

Definition lookup_sel (ov : ovl) (o : opts) : sel :=
  match deval (o_disp ov) o with
  | DFail e =>                                   (* except EvaluationError as e: *)
      match o_default ov with
      | None => SelErr e                         (*   raise e *)
      | Some i => Sel i false                    (*   return self.default            (unwrapped) *)
      end
  | DVal a =>
      match assoc a (o_table ov) with
      | None =>                                  (* key not in self.lookup *)
          match o_default ov with
          | None => SelErr ESwitch               (*   raise SwitchError *)
          | Some i => Sel i true                 (*   _DependsOn(self.default, self.dispatch) *)
          end
      | Some i => Sel i true                     (* _DependsOn(self.lookup[key], self.dispatch) *)
      end
  end.

Section Semantics.
  (** Values, opaque implementations and callbacks: every theorem holds for all of them. *)
  Variable V : Type.
  Inductive res := RVal (v : V) | RErr (e : err).
  Inductive kres := KOk (ks : list N) | KErr (e : err).
  Variable ieval : N -> opts -> res.      (* evaluate() of an opaque implementation *)
  Variable ikeys : N -> opts -> kres.     (* its keys() *)
  Variable cbapp : N -> V -> V.           (* a callback *)

  Definition apply_cb (cb : option N) (v : V) : V :=
    match cb with Some c => cbapp c v | None => v end.   (* Pipeline() is the identity *)

  (** One record per evaluation that reached the cache (append-only history; it never influences
      a computation). *)
  Record event := {
    e_ds : N; e_cache : N; e_opts : opts; e_keys : list N; e_fp : fp;
    e_disp : dexpr; e_dres : dres; e_hit : bool; e_raw : option V; e_val : V }.

  Record state := {
    st_ds : list (N * dsrec);
    st_ovl : list (N * ovl);
    st_cache : list (N * list (fp * V));
    st_if : list (N * iface);
    st_next : N;                       (* next fresh Overloaded / cache object id *)
    st_trace : list event }.           (* newest first *)

  Definition empty_state : state :=
    {| st_ds := []; st_ovl := []; st_cache := []; st_if := []; st_next := 1; st_trace := [] |}.

  Definition get_ds (s : state) (d : N) : option dsrec := assoc d (st_ds s).
  Definition get_ovl (s : state) (n : N) : option ovl := assoc n (st_ovl s).
  Definition ovl_of (s : state) (d : N) : option ovl :=
    match get_ds s d with Some r => get_ovl s (d_ovl r) | None => None end.

  (** the table entry the property is about *)
  Definition binding (s : state) (d a : N) : option impl :=
    match ovl_of s d with Some ov => assoc a (o_table ov) | None => None end.

  Fixpoint fp_assoc (f : fp) (c : list (fp * V)) : option V :=
    match c with
    | [] => None
    | (f', v) :: c' => if fp_eqb f f' then Some v else fp_assoc f c'
    end.
  Fixpoint fp_upd (f : fp) (v : V) (c : list (fp * V)) : list (fp * V) :=
    match c with
    | [] => [(f, v)]
    | (f', v') :: c' => if fp_eqb f f' then (f, v) :: c' else (f', v') :: fp_upd f v c'
    end.

  Definition cache_of (s : state) (c : N) : list (fp * V) :=
    match assoc c (st_cache s) with Some l => l | None => [] end.
  Definition cache_get (s : state) (c : N) (f : fp) : option V := fp_assoc f (cache_of s c).

  Definition with_cache (s : state) (c : N) (l : list (fp * V)) : state :=
    {| st_ds := st_ds s; st_ovl := st_ovl s; st_cache := upd c l (st_cache s);
       st_if := st_if s; st_next := st_next s; st_trace := st_trace s |}.
  Definition cache_set (s : state) (c : N) (f : fp) (v : V) : state :=
    with_cache s c (fp_upd f v (cache_of s c)).
  Definition log (s : state) (e : event) : state :=
    {| st_ds := st_ds s; st_ovl := st_ovl s; st_cache := st_cache s;
       st_if := st_if s; st_next := st_next s; st_trace := e :: st_trace s |}.

  (** ** keys() *)

  (** [Switch.keys] = self._lookup(options).keys(options); [nested] is [Dataset.keys] of a nested
      dataset implementation. *)
  Definition sw_keys (nested : N -> opts -> option kres) (ov : ovl) (o : opts) : option kres :=
    match lookup_sel ov o with
    | SelErr e => Some (KErr e)
    | Sel i wrapped =>
        match (match i with IFun g => Some (ikeys g o) | IDs d' => nested d' o end) with
        | None => None
        | Some (KErr e) => Some (KErr e)
        | Some (KOk ks) =>
            (* _DependsOn.keys: evaluatable.keys(options) | depends.keys(options) *)
            Some (KOk (ks ++ (if wrapped then dkeys (o_disp ov) o else [])))
        end
    end.

  (** [Dataset.keys] = _composed.keys: WithOptions.keys drops the keys the pre-set options
      determine (flat dictionaries, force=True: exactly the pre-set keys); Cached / Logged /
      Computation / Apply(callback) pass the keys through.  [None] = out of fuel. *)
  Fixpoint ds_keys (fuel : nat) (s : state) (d : N) (o : opts) : option kres :=
    match fuel with
    | O => None
    | S f =>
        match get_ds s d with
        | None => Some (KErr EOther)
        | Some r =>
            match get_ovl s (d_ovl r) with
            | None => Some (KErr EOther)
            | Some ov =>
                match sw_keys (fun d' o' => ds_keys f s d' o') ov (overlay (d_preset r) o) with
                | None => None
                | Some (KErr e) => Some (KErr e)
                | Some (KOk ks) => Some (KOk (filter (fun k => negb (has_key k (d_preset r))) ks))
                end
            end
        end
    end.

  (** ** evaluate() *)

  (** [Dataset.evaluate] = _composed.evaluate:
        WithOptions: options' = mix(options, preset)
        Cached.evaluate: fingerprint (keys first; a keys() failure is the evaluation's failure),
          stored -> return it; else value = overloads.apply(callback).evaluate(options'),
          cache.set(fingerprint) and return.  (The code computes the fingerprint a second time
          for [set]; keys() does not depend on cache contents, so it is the same value.)
      [None] = out of fuel (a dataset registered as its own implementation recurses forever). *)
  Fixpoint eval (fuel : nat) (d : N) (o : opts) (s : state) : option (res * state) :=
    match fuel with
    | O => None
    | S f =>
        match get_ds s d with
        | None => Some (RErr EOther, s)
        | Some r =>
            match get_ovl s (d_ovl r) with
            | None => Some (RErr EOther, s)
            | Some ov =>
                let o' := overlay (d_preset r) o in
                match sw_keys (fun d' o'' => ds_keys f s d' o'') ov o' with
                | None => None
                | Some (KErr e) => Some (RErr e, s)
                | Some (KOk ks) =>
                    match mk_fp o' ks with
                    | None => Some (RErr EOther, s)
                    | Some fpr =>
                        let ev hit raw v :=
                          {| e_ds := d; e_cache := d_cache r; e_opts := o'; e_keys := ks; e_fp := fpr;
                             e_disp := o_disp ov; e_dres := deval (o_disp ov) o';
                             e_hit := hit; e_raw := raw; e_val := v |} in
                        match cache_get s (d_cache r) fpr with
                        | Some v => Some (RVal v, log s (ev true None v))
                        | None =>
                            match lookup_sel ov o' with
                            | SelErr e => Some (RErr e, s)
                            | Sel i _ =>
                                match (match i with
                                       | IFun g => Some (ieval g o', s)
                                       | IDs d' => eval f d' o' s
                                       end) with
                                | None => None
                                | Some (RErr e, s1) => Some (RErr e, s1)
                                | Some (RVal w, s1) =>
                                    let v := apply_cb (d_cb r) w in
                                    Some (RVal v, log (cache_set s1 (d_cache r) fpr v) (ev false (Some w) v))
                                end
                            end
                        end
                    end
                end
            end
        end
    end.

  (** ** State-changing operations *)

  Definition with_ds (s : state) (l : list (N * dsrec)) : state :=
    {| st_ds := l; st_ovl := st_ovl s; st_cache := st_cache s; st_if := st_if s;
       st_next := st_next s; st_trace := st_trace s |}.
  Definition with_ovl (s : state) (l : list (N * ovl)) : state :=
    {| st_ds := st_ds s; st_ovl := l; st_cache := st_cache s; st_if := st_if s;
       st_next := st_next s; st_trace := st_trace s |}.
  Definition with_if (s : state) (l : list (N * iface)) : state :=
    {| st_ds := st_ds s; st_ovl := st_ovl s; st_cache := st_cache s; st_if := l;
       st_next := st_next s; st_trace := st_trace s |}.
  Definition bump (s : state) : state :=
    {| st_ds := st_ds s; st_ovl := st_ovl s; st_cache := st_cache s; st_if := st_if s;
       st_next := N.succ (st_next s); st_trace := st_trace s |}.

  (** [DatasetFactory.wrap]: a fresh Overloaded(dispatch, {}, default?) and a fresh MemoryCache. *)
  Definition new_ds (s : state) (d : N) (e : dexpr) (dflt : option impl) (cb : option N) : state :=
    let n := st_next s in
    bump (with_ds (with_ovl s (upd n {| o_disp := e; o_table := []; o_default := dflt |} (st_ovl s)))
                  (upd d {| d_ovl := n; d_cache := n; d_cb := cb; d_preset := [] |} (st_ds s))).

  (** [Dataset.register] -> [Overloaded.register]: self.lookup = {**self.lookup, key: value} *)
  Definition register (s : state) (d a : N) (i : impl) : state :=
    match get_ds s d with
    | None => s
    | Some r =>
        match get_ovl s (d_ovl r) with
        | None => s
        | Some ov =>
            with_ovl s (upd (d_ovl r)
                            {| o_disp := o_disp ov; o_table := upd a i (o_table ov); o_default := o_default ov |}
                            (st_ovl s))
        end
    end.

  Definition register_all (s : state) (d : N) (als : list N) (i : impl) : state :=
    fold_left (fun s a => register s d a i) als s.     (* for key in alias: self.register(key, overload_) *)

  (** [Dataset.set_dispatch]: self.overloads = Overloaded(dispatch, lookup.copy(), default) — a
      NEW Overloaded object for this dataset only; the cache object stays. *)
  Definition set_dispatch (s : state) (d : N) (e : dexpr) : state :=
    match get_ds s d with
    | None => s
    | Some r =>
        match get_ovl s (d_ovl r) with
        | None => s
        | Some ov =>
            let n := st_next s in
            bump (with_ds (with_ovl s (upd n {| o_disp := e; o_table := o_table ov; o_default := o_default ov |} (st_ovl s)))
                          (upd d {| d_ovl := n; d_cache := d_cache r; d_cb := d_cb r; d_preset := d_preset r |} (st_ds s)))
        end
    end.

  Definition is_abstract (s : state) (d : N) : bool :=
    match ovl_of s d with Some ov => match o_default ov with None => true | Some _ => false end | None => false end.

  Definition has_dispatch (s : state) (d : N) : bool :=
    match ovl_of s d with Some ov => negb (dexpr_eqb (o_disp ov) DMissing) | None => false end.

  (** ** Interfaces *)
  Inductive mkind :=
  | MAbstract (d : N)            (* annotated member  a: T   -> abstractdataset(dispatch=dispatch) *)
  | MDefault (d : N) (g : N)     (* function / plain value   -> dataset(val, dispatch=dispatch)   *)
  | MExisting (d : N).           (* an existing Dataset      -> val.set_dispatch(dispatch)        *)

  Definition mk_id (m : mkind) : N :=
    match m with MAbstract d | MDefault d _ | MExisting d => d end.

  Definition add_member (s : state) (e : dexpr) (m : mkind) : state :=
    match m with
    | MAbstract d => new_ds s d e None None
    | MDefault d g => new_ds s d e (Some (IFun g)) None
    | MExisting d => set_dispatch s d e
    end.

  Fixpoint nodupN (l : list N) : bool :=
    match l with [] => true | x :: l' => negb (memN x l') && nodupN l' end.

  Definition member_ok (s : state) (m : mkind) : bool :=
    match m with
    | MAbstract d | MDefault d _ => negb (has_key d (st_ds s))
    | MExisting d => has_key d (st_ds s)
    end.

  (** [_get_members]: members.setdefault(name, []).append(member), interfaces in order *)
  Definition push_member (m : list (N * list N)) (nd : N * N) : list (N * list N) :=
    let '(n, d) := nd in
    upd n (match assoc n m with Some l => l ++ [d] | None => [d] end) m.

  Definition members_of (s : state) (ifs : list N) : list (N * list N) :=
    fold_left (fun m i => match assoc i (st_if s) with
                          | Some f => fold_left push_member (if_members f) m
                          | None => m
                          end) ifs [].

  (** The registrations an accepted implementation performs, in loop order:
        for key, member_list in members.items(): overload = overloads.get(key)
          if overload is not None: for member in member_list: for alias in aliases: register *)
  Definition regs_of (ms : list (N * list N)) (als : list N) (prov : list (N * impl)) : list (N * N * impl) :=
    flat_map (fun '(n, dl) =>
      match assoc n prov with
      | None => []
      | Some i => flat_map (fun d => map (fun a => (d, a, i)) als) dl
      end) ms.

  Definition apply_regs (s : state) (l : list (N * N * impl)) : state :=
    fold_left (fun s '(d, a, i) => register s d a i) l s.

  (** [Implementation.__init__] as it is NOW: [None] = TypeError, nothing registered.
        _build_overloads: a provided name that no interface has -> TypeError
        first loop: an abstract member without a provided overload -> TypeError
        second loop: registrations. *)
  Definition implement (s : state) (ifs als : list N) (prov : list (N * impl)) : option state :=
    let ms := members_of s ifs in
    if negb (forallb (fun p => has_key (fst p) ms) prov) then None
    else if existsb (fun m => existsb (is_abstract s) (snd m) && negb (has_key (fst m) prov)) ms then None
    else Some (apply_regs s (regs_of ms als prov)).

  (** OLD CODE (before fix: b8adbdb): one loop, the check and the registrations interleaved per
      member name; [false] = TypeError raised midway, with the registrations made so far kept. *)
  Fixpoint implement_old_loop (s : state) (ms : list (N * list N)) (als : list N) (prov : list (N * impl))
    : bool * state :=
    match ms with
    | [] => (true, s)
    | (n, dl) :: ms' =>
        match assoc n prov with
        | None => if existsb (is_abstract s) dl then (false, s) else implement_old_loop s ms' als prov
        | Some i =>
            implement_old_loop (apply_regs s (flat_map (fun d => map (fun a => (d, a, i)) als) dl)) ms' als prov
        end
    end.

  Definition implement_old (s : state) (ifs als : list N) (prov : list (N * impl)) : bool * state :=
    let ms := members_of s ifs in
    if negb (forallb (fun p => has_key (fst p) ms) prov) then (false, s)
    else implement_old_loop s ms als prov.

  (** ** Histories *)
  Inductive op :=
  | ONew (d : N) (e : dexpr) (dflt : option impl) (cb : option N) (* @dataset / @abstractdataset (dispatch=, callback=) *)
  | ORegister (d a : N) (i : impl)                 (* d.register(a, i) *)
  | OOverload (d : N) (als : list N) (d' g : N)    (* @d.overload(als) def g  -> d' = dataset(g) *)
  | OOverloadDs (d : N) (als : list N) (d' : N)    (* @d.overload(als) on an existing Dataset d' (stacked decorators) *)
  | OSetDispatch (d : N) (e : dexpr)
  | OWithOptions (d' d : N) (p : opts)             (* d' = d.with_options(p) *)
  | OEval (d : N) (o : opts)
  | OInterface (i : N) (e : dexpr) (ms : list (N * mkind))
  | OImplement (ifs als : list N) (prov : list (N * impl)).

  Inductive obs :=
  | ObVal (v : V) (hit : bool)
  | ObErr (e : err)
  | ObOk
  | ObRej        (* TypeError / ValueError at definition time; nothing changes *)
  | ObBad.       (* an operation outside the modelled universe (unknown / re-used identifier) *)

  Record cfg := { c_validate_first : bool; c_keep_callback : bool }.
  Definition cfg_now : cfg := {| c_validate_first := true; c_keep_callback := true |}.

  Definition step (c : cfg) (fuel : nat) (x : op) (s : state) : option (obs * state) :=
    match x with
    | ONew d e dflt cb =>
        if has_key d (st_ds s) then Some (ObBad, s) else Some (ObOk, new_ds s d e dflt cb)
    | ORegister d a i =>
        if has_key d (st_ds s) then Some (ObOk, register s d a i) else Some (ObBad, s)
    | OOverload d als d' g =>
        if negb (has_key d (st_ds s)) || has_key d' (st_ds s) then Some (ObBad, s)
        else if negb (has_dispatch s d) then Some (ObRej, s)      (* ValueError: no dispatch *)
        else Some (ObOk, register_all (new_ds s d' DMissing (Some (IFun g)) None) d als (IDs d'))
    | OOverloadDs d als d' =>
        if negb (has_key d (st_ds s)) || negb (has_key d' (st_ds s)) then Some (ObBad, s)
        else if negb (has_dispatch s d) then Some (ObRej, s)
        else Some (ObOk, register_all s d als (IDs d'))
    | OSetDispatch d e =>
        if has_key d (st_ds s) then Some (ObOk, set_dispatch s d e) else Some (ObBad, s)
    | OWithOptions d' d p =>
        match get_ds s d with
        | None => Some (ObBad, s)
        | Some r =>
            if has_key d' (st_ds s) then Some (ObBad, s)
            else Some (ObOk, with_ds s (upd d' {| d_ovl := d_ovl r; d_cache := d_cache r;
                                                   d_cb := if c_keep_callback c then d_cb r else None;
                                                   d_preset := overlay p (d_preset r) |} (st_ds s)))
        end
    | OEval d o =>
        match eval fuel d o s with
        | None => None
        | Some (RVal v, s1) =>
            (* the evaluation's own record is the newest one (nested evaluations log before it) *)
            Some (ObVal v (match st_trace s1 with e :: _ => e_hit e | [] => false end), s1)
        | Some (RErr e, s1) => Some (ObErr e, s1)
        end
    | OInterface i e ms =>
        if has_key i (st_if s) || negb (nodupN (map (fun m => mk_id (snd m)) ms))
           || negb (nodupN (map fst ms)) || negb (forallb (fun m => member_ok s (snd m)) ms)
        then Some (ObBad, s)
        else
          let s1 := fold_left (fun s m => add_member s e (snd m)) ms s in
          Some (ObOk, with_if s1 (upd i {| if_disp := e; if_members := map (fun m => (fst m, mk_id (snd m))) ms |} (st_if s1)))
    | OImplement ifs als prov =>
        if negb (forallb (fun i => has_key i (st_if s)) ifs) then Some (ObBad, s)
        else if c_validate_first c then
          match implement s ifs als prov with
          | None => Some (ObRej, s)
          | Some s1 => Some (ObOk, s1)
          end
        else
          let '(ok, s1) := implement_old s ifs als prov in
          Some (if ok then ObOk else ObRej, s1)
    end.

  (** A history: observations in order and the final state; [None] = out of fuel. *)
  Fixpoint run (c : cfg) (fuel : nat) (h : list op) (s : state) : option (list obs * state) :=
    match h with
    | [] => Some ([], s)
    | x :: h' =>
        match step c fuel x s with
        | None => None
        | Some (ob, s1) =>
            match run c fuel h' s1 with
            | None => None
            | Some (obs', s2) => Some (ob :: obs', s2)
            end
        end
    end.
End Semantics.

Arguments apply_cb {V}.
Arguments e_ds {V}.
Arguments e_cache {V}.
Arguments e_opts {V}.
Arguments e_keys {V}.
Arguments e_fp {V}.
Arguments e_disp {V}.
Arguments e_dres {V}.
Arguments e_hit {V}.
Arguments e_raw {V}.
Arguments e_val {V}.
Arguments Build_event {V}.
Arguments st_ds {V}.
Arguments st_ovl {V}.
Arguments st_cache {V}.
Arguments st_if {V}.
Arguments st_next {V}.
Arguments st_trace {V}.
Arguments Build_state {V}.
Arguments empty_state {V}.
Arguments get_ds {V}.
Arguments get_ovl {V}.
Arguments ovl_of {V}.
Arguments binding {V}.
Arguments fp_assoc {V}.
Arguments fp_upd {V}.
Arguments cache_of {V}.
Arguments cache_get {V}.
Arguments with_cache {V}.
Arguments cache_set {V}.
Arguments log {V}.
Arguments ds_keys {V}.
Arguments eval {V}.
Arguments with_ds {V}.
Arguments with_ovl {V}.
Arguments with_if {V}.
Arguments bump {V}.
Arguments new_ds {V}.
Arguments register {V}.
Arguments register_all {V}.
Arguments set_dispatch {V}.
Arguments is_abstract {V}.
Arguments has_dispatch {V}.
Arguments add_member {V}.
Arguments member_ok {V}.
Arguments members_of {V}.
Arguments apply_regs {V}.
Arguments implement {V}.
Arguments implement_old_loop {V}.
Arguments implement_old {V}.
Arguments step {V}.
Arguments run {V}.
Arguments RVal {V}.
Arguments RErr {V}.
Arguments ObVal {V}.
Arguments ObErr {V}.
Arguments ObOk {V}.
Arguments ObRej {V}.
Arguments ObBad {V}.
