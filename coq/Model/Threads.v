(** Model of the thread-related logic of labrea (C15): executable definitions only.

    Sources (as of /repo HEAD 8a7cb3b, i.e. after fix 93f0f4c "per-thread stack of saved
    runtimes", fd53836 "run falls back to the defaults table" and 8a7cb3b "explicit lookup"):
      labrea/runtime.py   lock (l.29), Runtime.__init__ (112-116), Runtime.run (158-185),
                          Runtime.__enter__ (187-192), Runtime.__exit__ (194-201),
                          _RUNTIMES/_PREVIOUS (204-205), current_runtime (208-211),
                          inherit (257-266)
      labrea/overload.py  _get_lock (22-24), Overloaded.register (90-101)
      labrea/cache.py     MemoryCache (151-169), the three default cache handlers (255-280),
                          Cached.evaluate (328-338)
      labrea/types.py     Cacheable.fingerprint

    Global state = [_RUNTIMES : thread -> option rt], [_PREVIOUS : thread -> list (option rt)],
    the runtime heap (rt -> handler table, never written after creation), [_DEFAULT_HANDLERS],
    ONE overload lookup table, ONE memory cache, and one local state per thread.
    A schedule is a list of thread ids; [step t] runs the next ATOMIC ACTION of thread [t].
    Which accesses form one action is a parameter ([flags]): when a flag is true the body of the
    [with lock:] / [with self._lock:] block is one action, when false every shared read and every
    shared write is its own action (read into a thread-local register, then write). *)
From Coq Require Import List NArith Bool.
Import ListNotations.

Definition thread := N.
Definition rt := N.        (* runtime object; 0 = "a fresh Runtime()" (handlers = the defaults) *)
Definition ty := N.        (* request type *)
Definition tag := N.       (* handler identity *)
Definition alias := N.
Definition impl := N.
Definition opts := N.      (* an options dictionary, as an atom *)
Definition fpr := N.       (* fingerprint *)
Definition value := N.

Definition htable := list (ty * tag).
Definition fresh_rt : rt := 0%N.

Record flags := {
  enter_atomic : bool;             (* Runtime.__enter__ body inside [with lock:] *)
  exit_atomic : bool;              (* Runtime.__exit__ body inside [with lock:] *)
  current_atomic : bool;           (* current_runtime: setdefault inside [with lock:] *)
  inherit_atomic : bool;           (* inherit: read parent slot + write own slot inside [with lock:] *)
  register_default_atomic : bool;  (* handle_by_default: a single write; no effect on [step] *)
  register_rmw_atomic : bool       (* Overloaded.register: read + write of self.lookup inside [with self._lock:] *)
}.

Inductive op :=
| Enter (r : rt)                   (* r.__enter__() *)
| Exit                             (* the matching __exit__ *)
| Run (q : ty)                     (* Request.run(): current_runtime().run(request) *)
| Inherit (parent : thread)        (* labrea.runtime.inherit(parent) *)
| Register (a : alias) (i : impl)  (* overloaded.register(a, i) *)
| EvalCached (o : opts).           (* Cached.evaluate(o) on the shared MemoryCache *)

(** Thread-local state: remaining program, position inside the current operation, registers
    (values read from shared state and not yet used), observation logs. *)
Record tstate := {
  prog : list op;
  pc : nat;
  rreg : option rt;                (* runtime read from _RUNTIMES / popped from _PREVIOUS *)
  treg : list (alias * impl);      (* self.lookup as read by register *)
  vreg : option value;             (* value obtained by Cached.evaluate so far *)
  hit : bool;                      (* result of the exists request *)
  tags : list (option tag);        (* handler tag observed by each Run (None = "No handler") *)
  evals : list (opts * value)      (* (options, returned value) of each EvalCached *)
}.

Record gstate := {
  runtimes : thread -> option rt;              (* _RUNTIMES *)
  previous : thread -> list (option rt);       (* _PREVIOUS; head = top of the stack *)
  heap : list (rt * htable);                   (* Runtime.handlers of the shared runtime objects *)
  defaults : htable;                           (* _DEFAULT_HANDLERS *)
  table : list (alias * impl);                 (* Overloaded.lookup *)
  cache : list (fpr * value);                  (* MemoryCache._cache *)
  reglog : list (alias * impl);                (* ghost: register writes, oldest first *)
  tl : thread -> tstate
}.

Definition upd {A} (f : thread -> A) (t : thread) (v : A) : thread -> A :=
  fun u => if N.eqb u t then v else f u.

Fixpoint assoc {A} (k : N) (l : list (N * A)) : option A :=
  match l with [] => None | (k', v) :: l' => if N.eqb k k' then Some v else assoc k l' end.

(** [{**d, k: v}] / [d[k] = v]: replace in place, else append. *)
Fixpoint aset {A} (k : N) (v : A) (l : list (N * A)) : list (N * A) :=
  match l with
  | [] => [(k, v)]
  | (k', v') :: l' => if N.eqb k k' then (k, v) :: l' else (k', v') :: aset k v l'
  end.

(** Runtime.run (runtime.py 175-185): [self.handlers[type]], on KeyError [_DEFAULT_HANDLERS[type]],
    on KeyError again TypeError "No handler" (= None here);
    Runtime(h).handlers = {**_DEFAULT_HANDLERS, **h}; a fresh Runtime() has no entry in the heap. *)
Definition handlers_of (hp : list (rt * htable)) (r : rt) : htable :=
  match assoc r hp with Some h => h | None => [] end.
Definition serve (hp : list (rt * htable)) (dflt : htable) (r : rt) (q : ty) : option tag :=
  match assoc q (handlers_of hp r) with Some g => Some g | None => assoc q dflt end.

(** local-state setters *)
Definition set_pc (ts : tstate) (n : nat) : tstate :=
  {| prog := prog ts; pc := n; rreg := rreg ts; treg := treg ts; vreg := vreg ts; hit := hit ts;
     tags := tags ts; evals := evals ts |}.
Definition nxt (ts : tstate) : tstate := set_pc ts (S (pc ts)).
Definition adv (ts : tstate) : tstate :=
  {| prog := tail (prog ts); pc := 0; rreg := rreg ts; treg := treg ts; vreg := vreg ts;
     hit := hit ts; tags := tags ts; evals := evals ts |}.
Definition set_rreg (ts : tstate) (x : option rt) : tstate :=
  {| prog := prog ts; pc := pc ts; rreg := x; treg := treg ts; vreg := vreg ts; hit := hit ts;
     tags := tags ts; evals := evals ts |}.
Definition set_treg (ts : tstate) (x : list (alias * impl)) : tstate :=
  {| prog := prog ts; pc := pc ts; rreg := rreg ts; treg := x; vreg := vreg ts; hit := hit ts;
     tags := tags ts; evals := evals ts |}.
Definition set_vreg (ts : tstate) (x : option value) : tstate :=
  {| prog := prog ts; pc := pc ts; rreg := rreg ts; treg := treg ts; vreg := x; hit := hit ts;
     tags := tags ts; evals := evals ts |}.
Definition set_hit (ts : tstate) (x : bool) : tstate :=
  {| prog := prog ts; pc := pc ts; rreg := rreg ts; treg := treg ts; vreg := vreg ts; hit := x;
     tags := tags ts; evals := evals ts |}.
Definition log_tag (ts : tstate) (x : option tag) : tstate :=
  {| prog := prog ts; pc := pc ts; rreg := rreg ts; treg := treg ts; vreg := vreg ts; hit := hit ts;
     tags := tags ts ++ [x]; evals := evals ts |}.
Definition log_eval (ts : tstate) (o : opts) (v : value) : tstate :=
  {| prog := prog ts; pc := pc ts; rreg := rreg ts; treg := treg ts; vreg := vreg ts; hit := hit ts;
     tags := tags ts; evals := evals ts ++ [(o, v)] |}.

(** global-state setters *)
Definition set_tl (s : gstate) (t : thread) (x : tstate) : gstate :=
  {| runtimes := runtimes s; previous := previous s; heap := heap s; defaults := defaults s;
     table := table s; cache := cache s; reglog := reglog s; tl := upd (tl s) t x |}.
Definition set_slot (s : gstate) (t : thread) (x : option rt) : gstate :=
  {| runtimes := upd (runtimes s) t x; previous := previous s; heap := heap s;
     defaults := defaults s; table := table s; cache := cache s; reglog := reglog s; tl := tl s |}.
Definition set_prev (s : gstate) (t : thread) (x : list (option rt)) : gstate :=
  {| runtimes := runtimes s; previous := upd (previous s) t x; heap := heap s;
     defaults := defaults s; table := table s; cache := cache s; reglog := reglog s; tl := tl s |}.
Definition set_table (s : gstate) (a : alias) (i : impl) (x : list (alias * impl)) : gstate :=
  {| runtimes := runtimes s; previous := previous s; heap := heap s; defaults := defaults s;
     table := x; cache := cache s; reglog := reglog s ++ [(a, i)]; tl := tl s |}.
Definition set_cache (s : gstate) (x : list (fpr * value)) : gstate :=
  {| runtimes := runtimes s; previous := previous s; heap := heap s; defaults := defaults s;
     table := table s; cache := x; reglog := reglog s; tl := tl s |}.

Definition slot_or_fresh (x : option rt) : rt := match x with Some r => r | None => fresh_rt end.

Section Step.
  (** [fpf o] = Cacheable.fingerprint of the cached dataset under options [o];
      [valf o] = what evaluating the dataset's body under [o] yields (a function of the options). *)
  Variable fpf : opts -> fpr.
  Variable valf : opts -> value.
  Variable fl : flags.

  (** Runtime.__enter__ (187-192):
        thread = current_thread(); _PREVIOUS.setdefault(thread, []).append(_RUNTIMES.get(thread));
        _RUNTIMES[thread] = self *)
  Definition step_enter (t : thread) (r : rt) (s : gstate) : gstate :=
    let ts := tl s t in
    if enter_atomic fl then
      set_tl (set_slot (set_prev s t (runtimes s t :: previous s t)) t (Some r)) t (adv ts)
    else match pc ts with
      | 0 => set_tl s t (nxt (set_rreg ts (runtimes s t)))              (* read _RUNTIMES.get(thread) *)
      | 1 => set_tl (set_prev s t (rreg ts :: previous s t)) t (nxt ts) (* append to own stack *)
      | _ => set_tl (set_slot s t (Some r)) t (adv ts)                  (* _RUNTIMES[thread] = self *)
      end.

  (** Runtime.__exit__ (194-201): previous = _PREVIOUS[thread].pop();
        if previous is None: _RUNTIMES.pop(thread, None) else: _RUNTIMES[thread] = previous.
      An Exit with an empty stack (IndexError/KeyError in Python) is outside the generated
      universe (programs are well nested); the model skips the operation. *)
  Definition step_exit (t : thread) (s : gstate) : gstate :=
    let ts := tl s t in
    if exit_atomic fl then
      match previous s t with
      | [] => set_tl s t (adv ts)
      | p :: st => set_tl (set_slot (set_prev s t st) t p) t (adv ts)
      end
    else match pc ts with
      | 0 => match previous s t with
             | [] => set_tl s t (adv ts)
             | p :: st => set_tl (set_prev s t st) t (nxt (set_rreg ts p))   (* pop *)
             end
      | _ => set_tl (set_slot s t (rreg ts)) t (adv ts)                      (* write/pop the slot *)
      end.

  (** Request.run (l.51): current_runtime().run(self);
      current_runtime (208-211): with lock: return _RUNTIMES.setdefault(thread, Runtime()).
      The handler lookup reads only immutable data (Runtime.handlers) and the defaults. *)
  Definition step_run (t : thread) (q : ty) (s : gstate) : gstate :=
    let ts := tl s t in
    if current_atomic fl then
      let r := slot_or_fresh (runtimes s t) in
      set_tl (set_slot s t (Some r)) t (adv (log_tag ts (serve (heap s) (defaults s) r q)))
    else match pc ts with
      | 0 => set_tl s t (nxt (set_rreg ts (runtimes s t)))                   (* read own slot *)
      | _ => let r := slot_or_fresh (rreg ts) in                             (* setdefault's write *)
             set_tl (match rreg ts with None => set_slot s t (Some r) | Some _ => s end) t
                    (adv (log_tag ts (serve (heap s) (defaults s) r q)))
      end.

  (** inherit (257-266): with lock: _RUNTIMES[current] = _RUNTIMES.get(parent, Runtime()) *)
  Definition step_inherit (t : thread) (p : thread) (s : gstate) : gstate :=
    let ts := tl s t in
    if inherit_atomic fl then
      set_tl (set_slot s t (Some (slot_or_fresh (runtimes s p)))) t (adv ts)
    else match pc ts with
      | 0 => set_tl s t (nxt (set_rreg ts (Some (slot_or_fresh (runtimes s p)))))  (* read parent *)
      | _ => set_tl (set_slot s t (rreg ts)) t (adv ts)                            (* write own *)
      end.

  (** Overloaded.register (100-101): with self._lock: self.lookup = {**self.lookup, key: value} *)
  Definition step_register (t : thread) (a : alias) (i : impl) (s : gstate) : gstate :=
    let ts := tl s t in
    if register_rmw_atomic fl then
      set_tl (set_table s a i (aset a i (table s))) t (adv ts)
    else match pc ts with
      | 0 => set_tl s t (nxt (set_treg ts (table s)))                        (* read self.lookup *)
      | _ => set_tl (set_table s a i (aset a i (treg ts))) t (adv ts)        (* write self.lookup *)
      end.

  (** Cached.evaluate (328-338) with the default handlers (255-280) on a MemoryCache (159-169).
      Always four actions:
        0 exists:  [fingerprint in _cache]
        1 get:     only when exists said yes; a failing get (CacheGetFailure) falls through
        2 compute: only when no value was obtained; [self.evaluatable.evaluate(options)]
        3 set:     only when computed; [_cache[fp] = value] then read back [_cache[fp]]
                   (falls back to the value itself); the result is logged. *)
  Definition step_eval (t : thread) (o : opts) (s : gstate) : gstate :=
    let ts := tl s t in
    match pc ts with
    | 0 => set_tl s t (nxt (set_hit (set_vreg ts None)
                              (match assoc (fpf o) (cache s) with Some _ => true | None => false end)))
    | 1 => if hit ts
           then match assoc (fpf o) (cache s) with
                | Some v => set_tl s t (nxt (set_vreg ts (Some v)))
                | None => set_tl s t (nxt (set_hit ts false))
                end
           else set_tl s t (nxt ts)
    | 2 => match vreg ts with
           | Some _ => set_tl s t (nxt ts)
           | None => set_tl s t (nxt (set_hit (set_vreg ts (Some (valf o))) false))
           end
    | _ => match vreg ts with
           | None => set_tl s t (adv ts)      (* unreachable: action 2 always leaves a value *)
           | Some v =>
               if hit ts then set_tl s t (adv (set_vreg (log_eval ts o v) None))
               else let c := aset (fpf o) v (cache s) in
                    let back := match assoc (fpf o) c with Some w => w | None => v end in
                    set_tl (set_cache s c) t (adv (set_vreg (log_eval ts o back) None))
           end
    end.

  Definition step (t : thread) (s : gstate) : gstate :=
    match prog (tl s t) with
    | [] => s
    | Enter r :: _ => step_enter t r s
    | Exit :: _ => step_exit t s
    | Run q :: _ => step_run t q s
    | Inherit p :: _ => step_inherit t p s
    | Register a i :: _ => step_register t a i s
    | EvalCached o :: _ => step_eval t o s
    end.

  (** Running a schedule. *)
  Fixpoint run (sched : list thread) (s : gstate) : gstate :=
    match sched with [] => s | t :: sched' => run sched' (step t s) end.

  (** [n] consecutive actions of one thread ("t run alone"). *)
  Fixpoint solo (t : thread) (n : nat) (s : gstate) : gstate :=
    match n with O => s | S n' => solo t n' (step t s) end.

  (** Operation-level step: run [t] until its current operation is complete (at most 4 actions). *)
  Definition op_done (t : thread) (s : gstate) : bool := Nat.eqb (pc (tl s t)) 0.
  Definition step_op (t : thread) (s : gstate) : gstate :=
    let s1 := step t s in if op_done t s1 then s1 else
    let s2 := step t s1 in if op_done t s2 then s2 else
    let s3 := step t s2 in if op_done t s3 then s3 else step t s3.
  Fixpoint run_ops (sched : list thread) (s : gstate) : gstate :=
    match sched with [] => s | t :: sched' => run_ops sched' (step_op t s) end.
End Step.

Fixpoint count_thread (t : thread) (sched : list thread) : nat :=
  match sched with [] => O | u :: l => (if N.eqb u t then 1 else 0) + count_thread t l end.

(** Initial states: empty registers and logs, nothing entered. *)
Definition init_ts (p : list op) : tstate :=
  {| prog := p; pc := 0; rreg := None; treg := []; vreg := None; hit := false; tags := []; evals := [] |}.
Definition init_state (hp : list (rt * htable)) (dflt : htable) (progs : list (thread * list op)) : gstate :=
  {| runtimes := fun _ => None; previous := fun _ => []; heap := hp; defaults := dflt;
     table := []; cache := []; reglog := [];
     tl := fun t => init_ts (match assoc t progs with Some p => p | None => [] end) |}.

Definition no_inherit (p : list op) : bool :=
  forallb (fun o => match o with Inherit _ => false | _ => true end) p.
Definition all_done (ths : list thread) (s : gstate) : bool :=
  forallb (fun t => match prog (tl s t) with [] => true | _ => false end) ths.
