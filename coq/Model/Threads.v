(** Model of the thread-related logic of labrea (C15): executable definitions only.

    Sources (as of /repo HEAD, i.e. after fix 93f0f4c "per-thread stack of saved runtimes"
    and fd53836 "run falls back to the defaults table"):
      labrea/runtime.py   lock (l.29), Runtime.__init__ (112-116), Runtime.run (175-184),
                          Runtime.__enter__ (186-191), Runtime.__exit__ (193-200),
                          _RUNTIMES/_PREVIOUS (203-204), current_runtime (207-210),
                          inherit (256-265)
      labrea/overload.py  _get_lock (22-24), Overloaded.register (90-101)
      labrea/cache.py     MemoryCache (151-169), the three default cache handlers (255-280),
                          Cached.evaluate (328-338)
      labrea/types.py     Cacheable.fingerprint

    Global state = [_RUNTIMES : thread -> option rt], [_PREVIOUS : thread -> list (option rt)],
    the runtime heap (rt -> handler table, never written after creation), [_DEFAULT_HANDLERS],
    ONE overload lookup table, ONE memory cache, and one local state per thread.
    A schedule is a list of thread ids; [step t] runs the next ATOMIC ACTION of thread [t].
    Which accesses form one action is a parameter ([flags]): when a flag is true the body of the
    [with lock:] / [with self._lock:] block is one action, when false every shared read and every
    shared write is its own action (read into a thread-local register, then write). *)
From Coq Require Import List NArith Bool.
Import ListNotations.

Definition thread := N.
Definition rt := N.        (* runtime object; 0 = "a fresh Runtime()" (handlers = the defaults) *)
Definition ty := N.        (* request type *)
Definition tag := N.       (* handler identity *)
Definition alias := N.
Definition impl := N.
Definition opts := N.      (* an options dictionary, as an atom *)
Definition fpr := N.       (* fingerprint *)
Definition value := N.

Definition htable := list (ty * tag).
Definition fresh_rt : rt := 0%N.

Record flags := {
  enter_atomic : bool;             (* Runtime.__enter__ body inside [with lock:] *)
  exit_atomic : bool;              (* Runtime.__exit__ body inside [with lock:] *)
  current_atomic : bool;           (* current_runtime: setdefault inside [with lock:] *)
  inherit_atomic : bool;           (* inherit: read parent slot + write own slot inside [with lock:] *)
  register_default_atomic : bool;  (* handle_by_default: a single write; no effect on [step] *)
  register_rmw_atomic : bool       (* Overloaded.register: read + write of self.lookup inside [with self._lock:] *)
}.

Inductive op :=
| Enter (r : rt)                   (* r.__enter__() *)
| Exit                             (* the matching __exit__ *)
| Run (q : ty)                     (* Request.run(): current_runtime().run(request) *)
| Inherit (parent : thread)        (* labrea.runtime.inherit(parent) *)
| Register (a : alias) (i : impl)  (* overloaded.register(a, i) *)
| EvalCached (o : opts).           (* Cached.evaluate(o) on the shared MemoryCache *)

(** Thread-local state: remaining program, position inside the current operation, registers
    (values read from shared state and not yet used), observation logs. *)
Record tstate := {
  prog : list op;
  pc : nat;
  rreg : option rt;                (* runtime read from _RUNTIMES / popped from _PREVIOUS *)
  treg : list (alias * impl);      (* self.lookup as read by register *)
  vreg : option value;             (* value obtained by Cached.evaluate so far *)
  hit : bool;                      (* result of the exists request *)
  tags : list (option tag);        (* handler tag observed by each Run (None = "No handler") *)
  evals : list (opts * value)      (* (options, returned value) of each EvalCached *)
}.

Record gstate := {
  runtimes : thread -> option rt;              (* _RUNTIMES *)
  previous : thread -> list (option rt);       (* _PREVIOUS; head = top of the stack *)
  heap : list (rt * htable);                   (* Runtime.handlers of the shared runtime objects *)
  defaults : htable;                           (* _DEFAULT_HANDLERS *)
  table : list (alias * impl);                 (* Overloaded.lookup *)
  cache : list (fpr * value);                  (* MemoryCache._cache *)
  reglog : list (alias * impl);                (* ghost: register writes, oldest first *)
  tl : thread -> tstate
}.

Definition upd {A} (f : thread -> A) (t : thread) (v : A) : thread -> A :=
  fun u => if N.eqb u t then v else f u.

Fixpoint assoc {A} (k : N) (l : list (N * A)) : option A :=
  match l with [] => None | (k', v) :: l' => if N.eqb k k' then Some v else assoc k l' end.

(** [{**d, k: v}] / [d[k] = v]: replace in place, else append. *)
Fixpoint aset {A} (k : N) (v : A) (l : list (N * A)) : list (N * A) :=
  match l with
  | [] => [(k, v)]
  | (k', v') :: l' => if N.eqb k k' then (k, v) :: l' else (k', v') :: aset k v l'
  end.

(** Runtime.run (runtime.py 175-184): [self.handlers.get(type) or _DEFAULT_HANDLERS[type]];
    Runtime(h).handlers = {**_DEFAULT_HANDLERS, **h}; a fresh Runtime() has no entry in the heap. *)
Definition handlers_of (hp : list (rt * htable)) (r : rt) : htable :=
  match assoc r hp with Some h => h | None => [] end.
Definition serve (hp : list (rt * htable)) (dflt : htable) (r : rt) (q : ty) : option tag :=
  match assoc q (handlers_of hp r) with Some g => Some g | None => assoc q dflt end.

(** local-state setters *)
Definition set_pc (ts : tstate) (n : nat) : tstate :=
  {| prog := prog ts; pc := n; rreg := rreg ts; treg := treg ts; vreg := vreg ts; hit := hit ts;
     tags := tags ts; evals := evals ts |}.
Definition nxt (ts : tstate) : tstate := set_pc ts (S (pc ts)).
Definition adv (ts : tstate) : tstate :=
  {| prog := tail (prog ts); pc := 0; rreg := rreg ts; treg := treg ts; vreg := vreg ts;
     hit := hit ts; tags := tags ts; evals := evals ts |}.
Definition set_rreg (ts : tstate) (x : option rt) : tstate :=
  {| prog := prog ts; pc := pc ts; rreg := x; treg := treg ts; vreg := vreg ts; hit := hit ts;
     tags := tags ts; evals := evals ts |}.
Definition set_treg (ts : tstate) (x : list (alias * impl)) : tstate :=
  {| prog := prog ts; pc := pc ts; rreg := rreg ts; treg := x; vreg := vreg ts; hit := hit ts;
     tags := tags ts; evals := evals ts |}.
Definition set_vreg (ts : tstate) (x : option value) : tstate :=
  {| prog := prog ts; pc := pc ts; rreg := rreg ts; treg := treg ts; vreg := x; hit := hit ts;
     tags := tags ts; evals := evals ts |}.
Definition set_hit (ts : tstate) (x : bool) : tstate :=
  {| prog := prog ts; pc := pc ts; rreg := rreg ts; treg := treg ts; vreg := vreg ts; hit := x;
     tags := tags ts; evals := evals ts |}.
Definition log_tag (ts : tstate) (x : option tag) : tstate :=
  {| prog := prog ts; pc := pc ts; rreg := rreg ts; treg := treg ts; vreg := vreg ts; hit := hit ts;
     tags := tags ts ++ [x]; evals := evals ts |}.
Definition log_eval (ts : tstate) (o : opts) (v : value) : tstate :=
  {| prog := prog ts; pc := pc ts; rreg := rreg ts; treg := treg ts; vreg := vreg ts; hit := hit ts;
     tags := tags ts; evals := evals ts ++ [(o, v)] |}.
