(** Model of labrea/pipeline.py: [Pipeline] as the linked list the class keeps
    ([tail] + optional [rest]), [__init__]'s normalisation of an empty [rest],
    [empty], [__add__] case by case, [__iter__], [evaluate]/[transform],
    [validate]/[keys]/[explain].  Executable definitions only; proofs are in
    Proofs/PipelineProofs.v. *)
From Coq Require Import List NArith Bool.
Import ListNotations.

(** A step is an atom; atom 0 is [labrea.pipeline.Identity]
    ([PipelineStep.__eq__] compares the wrapped [Value], i.e. function identity). *)
Definition step := N.
Definition identity_step : step := 0%N.
Definition is_identity (s : step) : bool := N.eqb s identity_step.

(** [PNil t] : rest is None.  [PCons t r] : rest is the pipeline [r]. *)
Inductive pipe :=
| PNil (tail : step)
| PCons (tail : step) (rest : pipe).

(** [Pipeline.empty] : tail == Identity and rest is None *)
Definition empty (p : pipe) : bool :=
  match p with PNil t => is_identity t | PCons _ _ => false end.

(** [Pipeline.__init__(tail, rest)]: an empty [rest] is replaced by None. *)
Definition mk (t : step) (r : pipe) : pipe := if empty r then PNil t else PCons t r.

Definition empty_pipe : pipe := PNil identity_step.          (* Pipeline() *)
Definition single (s : step) : pipe := PNil s.               (* Pipeline(s) *)

(** [Pipeline.__add__(self, other)] for [other] a PipelineStep (or a plain callable, which is
    wrapped into a PipelineStep first). *)
Definition add_step (p : pipe) (s : step) : pipe := mk s p.

(** [Pipeline.__add__(self, other)] for [other] a Pipeline:
      other.empty          -> self
      other.rest is None   -> Pipeline(other.tail, self)
      otherwise            -> (self + other.rest) + other.tail *)
Fixpoint add (p q : pipe) : pipe :=
  match q with
  | PNil t => if is_identity t then p else mk t p
  | PCons t r => add_step (add p r) t
  end.

(** [PipelineStep.__add__]: Pipeline(self) + other *)
Definition step_add (s : step) (q : pipe) : pipe := add (single s) q.

(** [Pipeline.__iter__] *)
Fixpoint iter (p : pipe) : list step :=
  match p with
  | PNil t => [t]
  | PCons t r => iter r ++ [t]
  end.

(** The steps that do something: iteration order without Identity steps. *)
Definition steps (p : pipe) : list step := filter (fun s => negb (is_identity s)) (iter p).

Section Semantics.
  (** Options, values, evaluated step functions: abstract.  [sev s o] is
      [s.evaluate(o)] (None: evaluating the step's parameters fails); [ap f x]
      applies the evaluated function (None: it raises). [skeys s o] is the step's
      [keys(o)] (None: fails), likewise [sexplain], [svalid]. *)
  Variables O V F K : Type.
  Variable sev : step -> O -> option F.
  Variable ap : F -> V -> option V.
  Variable skeys : step -> O -> option (list K).
  Variable svalid : step -> O -> bool.

  Definition obind {A B} (x : option A) (f : A -> option B) : option B :=
    match x with Some a => f a | None => None end.

  (** [Pipeline.evaluate]: tail first, then rest; returns [fun x => tail (rest x)] *)
  Fixpoint evaluate (p : pipe) (o : O) : option (V -> option V) :=
    match p with
    | PNil t => obind (sev t o) (fun f => Some (ap f))
    | PCons t r =>
        obind (sev t o) (fun f =>
        obind (evaluate r o) (fun g =>
        Some (fun x => obind (g x) (ap f))))
    end.

  (** [Pipeline.transform(value, options)] = self(options)(value) *)
  Definition transform (p : pipe) (x : V) (o : O) : option V :=
    obind (evaluate p o) (fun f => f x).

  (** [Pipeline.keys]/[explain]: tail's | rest's *)
  Fixpoint pkeys (p : pipe) (o : O) : option (list K) :=
    match p with
    | PNil t => skeys t o
    | PCons t r => obind (skeys t o) (fun a => obind (pkeys r o) (fun b => Some (a ++ b)))
    end.

  Fixpoint pvalid (p : pipe) (o : O) : bool :=
    match p with
    | PNil t => svalid t o
    | PCons t r => svalid t o && pvalid r o
    end.

  (** Reference semantics: fold the steps, in application order. *)
  Fixpoint run_steps (l : list step) (x : V) (o : O) : option V :=
    match l with
    | [] => Some x
    | s :: l' => obind (sev s o) (fun f => obind (ap f x) (fun y => run_steps l' y o))
    end.

  Fixpoint all_eval (l : list step) (o : O) : bool :=
    match l with
    | [] => true
    | s :: l' => match sev s o with Some _ => all_eval l' o | None => false end
    end.
End Semantics.

(** Bracketings of a sequence of pipelines. *)
Inductive bracketing :=
| BLeaf (p : pipe)
| BNode (l r : bracketing).

Fixpoint bval (b : bracketing) : pipe :=
  match b with BLeaf p => p | BNode l r => add (bval l) (bval r) end.

Fixpoint bleaves (b : bracketing) : list pipe :=
  match b with BLeaf p => [p] | BNode l r => bleaves l ++ bleaves r end.

(** Construction expressions: what a user writes with [+] over steps (PipelineStep objects or
    plain callables, which [__add__] wraps) and pipelines.  [PipelineStep.__add__] is
    [Pipeline(self) + other]. *)
Inductive cexpr :=
| CStep (s : step)
| CPipe (p : pipe)
| CAdd (l r : cexpr).

Definition as_pipe (x : step + pipe) : pipe :=
  match x with inl s => single s | inr p => p end.

Fixpoint cval (c : cexpr) : step + pipe :=
  match c with
  | CStep s => inl s
  | CPipe p => inr p
  | CAdd l r =>
      inr (match cval r with
           | inl b => add_step (as_pipe (cval l)) b
           | inr q => add (as_pipe (cval l)) q
           end)
  end.

Fixpoint cleaves (c : cexpr) : list step :=
  match c with
  | CStep s => if is_identity s then [] else [s]
  | CPipe p => steps p
  | CAdd l r => cleaves l ++ cleaves r
  end.
