(** Concrete instance of Model/DatasetClass.v used by the correspondence check (harness/props/c19.py):
    a small member language and printers producing one canonical line per observation.

    Members:  Option(key) / Option(key, default=<constant>)     (labrea/option.py 153-215)
              a dataset function reading one or two such options and returning a tagged tuple
              a dataset function reading one option, with an EFFECT that reads another option:
                the effect's option is listed by explain() but not by keys() (labrea/computation.py
                149-171; by design effects are outside the cache key, finding D9) — the one member
                kind whose keys() and explain() differ on a successful evaluation.  The effect's
                own option always has a default and a flat key (generator invariant), so the
                effect itself never fails.
              Value(v)  (an annotated plain attribute, wrapped by the metaclass)
    Exceptions are reduced to the enum the harness reduces Python exceptions to:
    [EKnf k] (a KeyNotFoundError for key k somewhere in the cause chain) or [EType] (TypeError from
    confectioner indexing a scalar parent, finding D6). *)
From Coq Require Import List NArith ZArith Bool String.
Import ListNotations.
From LV Require Import Model.Show Model.Base Model.DatasetClass.

Inductive copt := COption (k : key) (default : option json).

Inductive cexpr :=
| COpt (p : copt)
| CData (tag : N) (a : copt) (b : option copt)
| CEData (tag : N) (a : copt) (eff : copt)
| CValue (v : json).

Inductive cval :=
| CJ (j : json)
| CTag (tag : N) (args : list json).

Inductive cerr :=
| EKnf (k : key)
| EType.

(** Option.evaluate: get_dotted_key; KeyError -> default or KeyNotFoundError; a TypeError
    (scalar parent) surfaces as EvaluationError from TypeError. *)
Definition opt_ev (p : copt) (o : dict) : result cerr json :=
  let '(COption k d) := p in
  match lookup_top k o with
  | Found v => Ok v
  | Absent => match d with Some dv => Ok dv | None => Err (EKnf k) end
  | TypeErr => Err EType
  end.

(** Option.validate: dotted_key_exists -> evaluate; else default.validate; else KeyNotFoundError.
    dotted_key_exists lets the TypeError through. *)
Definition opt_vl (p : copt) (o : dict) : option cerr :=
  let '(COption k d) := p in
  match lookup_top k o with
  | Found _ => None
  | Absent => match d with Some _ => None | None => Some (EKnf k) end
  | TypeErr => Some EType
  end.

(** Option.keys: {key} when present (values are template-free), the default's keys (none for a
    constant) when absent, KeyNotFoundError without default. *)
Definition opt_ks (p : copt) (o : dict) : result cerr (list key) :=
  let '(COption k d) := p in
  match lookup_top k o with
  | Found _ => Ok [k]
  | Absent => match d with Some _ => Ok [] | None => Err (EKnf k) end
  | TypeErr => Err EType
  end.

(** Option.explain: as keys, but a missing option without default is listed, not an error. *)
Definition opt_ex (p : copt) (o : dict) : result cerr (list key) :=
  let '(COption k d) := p in
  match lookup_top k o with
  | Found _ => Ok [k]
  | Absent => match d with Some _ => Ok [] | None => Ok [k] end
  | TypeErr => Err EType
  end.

Definition rbind {E A B} (x : result E A) (f : A -> result E B) : result E B :=
  match x with Ok a => f a | Err e => Err e end.

Definition c_ev (e : cexpr) (o : dict) : result cerr cval :=
  match e with
  | COpt p => rbind (opt_ev p o) (fun v => Ok (CJ v))
  | CValue v => Ok (CJ v)
  | CData t a None => rbind (opt_ev a o) (fun x => Ok (CTag t [x]))
  | CData t a (Some b) => rbind (opt_ev a o) (fun x => rbind (opt_ev b o) (fun y => Ok (CTag t [x; y])))
  | CEData t a _ => rbind (opt_ev a o) (fun x => Ok (CTag t [x]))
  end.

Definition c_vl (e : cexpr) (o : dict) : option cerr :=
  match e with
  | COpt p => opt_vl p o
  | CValue _ => None
  | CData _ a None => opt_vl a o
  | CData _ a (Some b) => match opt_vl a o with Some x => Some x | None => opt_vl b o end
  | CEData _ a _ => opt_vl a o
  end.

Definition c_ks (e : cexpr) (o : dict) : result cerr (list key) :=
  match e with
  | COpt p => opt_ks p o
  | CValue _ => Ok []
  | CData _ a None => opt_ks a o
  | CData _ a (Some b) => rbind (opt_ks a o) (fun x => rbind (opt_ks b o) (fun y => Ok (x ++ y)%list))
  | CEData _ a _ => opt_ks a o
  end.

Definition c_ex (e : cexpr) (o : dict) : result cerr (list key) :=
  match e with
  | COpt p => opt_ex p o
  | CValue _ => Ok []
  | CData _ a None => opt_ex a o
  | CData _ a (Some b) => rbind (opt_ex a o) (fun x => rbind (opt_ex b o) (fun y => Ok (x ++ y)%list))
  | CEData _ a eff => rbind (opt_ex a o) (fun x => rbind (opt_ex eff o) (fun y => Ok (x ++ y)%list))
  end.

Definition centry := entry cexpr cval.
Definition cklass := klass cexpr cval.

Definition c_instantiate (c : cklass) (o : dict) : outcome cerr (instance cval) :=
  instantiate cexpr cval cerr c_ev c_ks c o.
Definition c_keys (c : cklass) (o : dict) := class_keys cexpr cval cerr c_ks c o.
Definition c_explain (c : cklass) (o : dict) := class_explain cexpr cval cerr c_ex c o.
Definition c_validate (c : cklass) (o : dict) := class_validate cexpr cval cerr c_vl c o.

(** A class from its bodies, most derived first ([dir()] computed by the model). *)
Definition mk_class (id : N) (mro : list (list centry)) : cklass := mk_klass id (dir_entries mro).

(** ** Printers (canonical: dictionaries shown with keys in a fixed order, since no observation
    of C19 is about insertion order). *)
Open Scope string_scope.

Definition showSeg (s : seg) : string :=
  match s with SName n => "n" ++ showN n | SIdx i => "i" ++ showN i end.

Definition showKey (k : key) : string := String.concat "." (map showSeg k).

Definition showTok (t : tok) : string :=
  match t with
  | TLit c => showN c
  | TRef k => "ref" ++ showKey k
  | TPar p => "par" ++ showN p
  | TEscL => "escl"
  | TEscR => "escr"
  end.

Fixpoint ins_pair (p : seg * string) (l : list (seg * string)) : list (seg * string) :=
  match l with
  | [] => [p]
  | q :: l' => if seg_ltb (fst p) (fst q) then p :: l else q :: ins_pair p l'
  end.

Definition sort_pairs (l : list (seg * string)) : list (seg * string) := fold_right ins_pair [] l.

Fixpoint showJ (j : json) : string :=
  match j with
  | JNull => "null"
  | JBool b => showB b
  | JInt z => showZ z
  | JFlt id => "f" ++ showN id
  | JStr s => paren "s" (map showTok s)
  | JList l => brack ((fix go (l : list json) : list string :=
                         match l with [] => [] | x :: l' => showJ x :: go l' end) l)
  | JObj m =>
      "{" ++ commas (map (fun p => showSeg (fst p) ++ ":" ++ snd p)
                         (sort_pairs ((fix go (m : list (seg * json)) : list (seg * string) :=
                                         match m with [] => [] | (s, v) :: m' => (s, showJ v) :: go m' end) m)))
          ++ "}"
  end.

Definition showDict (d : dict) : string := showJ (JObj d).

Definition showVal (v : cval) : string :=
  match v with
  | CJ j => showJ j
  | CTag t args => paren ("d" ++ showN t) (map showJ args)
  end.

Definition showErr (e : cerr) : string :=
  match e with EKnf k => paren "knf" [showKey k] | EType => "type" end.

Definition showKeys (r : result cerr (list key)) : string :=
  match r with
  | Ok l => brack (map showKey (key_sort l))
  | Err e => paren "raises" [showErr e]
  end.

Definition showLres (r : lres) : string :=
  match r with Found _ => "found" | Absent => "KeyError" | TypeErr => "TypeError" end.

Definition showInst (i : instance cval) : string :=
  "inst(" ++ brack (map (fun nv => showN (fst nv) ++ "=" ++ showVal (snd nv)) (i_members i))
          ++ ";" ++ showDict (i_repr i) ++ ")".

(** Constructor outcome: the harness can tell an [EvaluationError] (a member failed) from a raw
    exception raised by the [_repr_options] loop, and reduces the former to the error enum. *)
Definition showOutcome (r : outcome cerr (instance cval)) : string :=
  match r with
  | Built i => showInst i
  | MemberFails _ e => paren "member_raises" [showErr e]
  | KeysFails e => paren "keys_raises" [showErr e]
  | LookupFails _ why => paren "raw" [showLres why]
  | SetFails _ => paren "raw" ["TypeError"]
  end.

(** The boolean side condition of the [_partial] theorems on this scenario (the harness counts
    it and computes it independently from the implementation's keys): the class reports only
    name paths. *)
Definition side_condition (c : cklass) (o : dict) : string :=
  match c_keys c o with
  | Ok reported => showB (name_keys reported)
  | Err _ => "-"
  end.

(** One line per (class, options): constructor | keys | explain | validate | caller's dictionary
    after the constructor's aliased writes (= means unchanged) | side condition. *)
Definition observe (c : cklass) (o : dict) : string :=
  showOutcome (c_instantiate c o) ++ "|" ++
  showKeys (c_keys c o) ++ "|" ++
  showKeys (c_explain c o) ++ "|" ++
  match c_validate c o with None => "valid" | Some e => paren "raises" [showErr e] end ++ "|" ++
  match c_keys c o with
  | Ok reported =>
      let o' := fst (caller_after reported o) in
      if json_eqb (JObj o') (JObj o) then "=" else showDict o'
  | Err _ => "="
  end ++ "|" ++ side_condition c o.

(** One line per (list of classes, list of dictionaries): the matrix of [==] over all pairs of
    constructible instances, row-major over (class index, dictionary index); [-] marks a pair
    with a failed construction. *)
Definition eq_matrix (cs : list cklass) (os : list dict) : string :=
  let insts := flat_map (fun c => map (fun o => c_instantiate c o) os) cs in
  String.concat ""
    (map (fun a =>
            String.concat ""
              (map (fun b =>
                      match a, b with
                      | Built x, Built y => showB (inst_eq x y)
                      | _, _ => "-"
                      end) insts) ++ "/") insts).
