(** Printing utilities used only to report model observations to the harness.
    Coq [string] is used for output only; no model datum is a string. *)
From Coq Require Import String List NArith ZArith DecimalString.
Import ListNotations.
Open Scope string_scope.

Definition showN (n : N) : string := NilEmpty.string_of_uint (N.to_uint n).
Definition showNat (n : nat) : string := NilEmpty.string_of_uint (Nat.to_uint n).
Definition showZ (z : Z) : string :=
  match z with
  | Z0 => "0"
  | Zpos p => showN (Npos p)
  | Zneg p => "-" ++ showN (Npos p)
  end.
Definition showB (b : bool) : string := if b then "T" else "F".
Definition commas (l : list string) : string := String.concat "," l.
Definition brack (l : list string) : string := "[" ++ commas l ++ "]".
Definition paren (h : string) (l : list string) : string := h ++ "(" ++ commas l ++ ")".
Definition showOpt {A} (f : A -> string) (o : option A) : string :=
  match o with None => "none" | Some a => paren "some" [f a] end.
