(** Model of labrea's cache layer (labrea/cache.py) in front of an UNRELIABLE backend, on a small
    dataset-graph language (labrea/dataset.py: a dataset wraps its body in
    [cached(Logged(...), self.cache)]).  Executable definitions only (no proofs).

    The backend is an honest store plus an ADVERSARY: an arbitrary function
    [fault : nat -> behaviour] consulted at every backend call (exists / get / set), indexed by the
    number of backend calls made so far in the whole history.

    Source clauses are cited as  file:lines  of /repo/labrea. *)
From Coq Require Import List NArith Bool.
Import ListNotations.

(* ------------------------------------------------------------------ data *)

(** Options dictionaries: only the values of the keys the graph reads matter; every read key is
    present (assumption of this model: missing options are C04's subject).                     *)
Definition options := N -> N.

(** types.py:115-119  Cacheable.fingerprint = json.dumps([{key: value} for key in sorted(keys)]) :
    an ordered list of (key, value) pairs.                                                      *)
Definition fingerprint := list (N * N).

Inductive err :=
| EBody (d : N)        (* the body of dataset d raised *)
| EDangling (d : N).   (* reference to a dataset the graph does not define (model artefact) *)

Inductive res (A : Type) := Ok (a : A) | Fail (e : err).
Arguments Ok {A} a.
Arguments Fail {A} e.

(** An argument of a dataset body: an option read or another dataset (dataset.py / application.py:
    keyword defaults evaluated left to right, arguments.py:98-99).                               *)
Inductive arg := AOpt (k : N) | ADs (d : N).

(** What the backend does at one call.
    - [Behave]    : answers truthfully, stores what it is given.
    - [Miss]      : reports absence (exists -> False, get -> CacheGetFailure) AND forgets the entry;
                    on [set]: the write is lost and the entry is gone.
    - [LieExists] : [exists] answers True whatever the store holds (other calls behave).
    - [FailGet]   : [get] raises CacheGetFailure although the entry may be present and keeps it —
                    also the read-back [get] of the set handler; on [exists] it answers False
                    without forgetting (this is what the ABC's default [exists] = try-get does when
                    get fails, cache.py:134-138: a pure "report a miss"); [set] behaves.        *)
Inductive behaviour := Behave | Miss | LieExists | FailGet.

(** Backend-call log: kind, dataset whose backend was called, answer (exists) / hit (get). *)
Inductive call := CExists (d : N) (ans : bool) | CGet (d : N) (hit : bool) | CSet (d : N).

Fixpoint fp_eqb (a b : fingerprint) : bool :=
  match a, b with
  | [], [] => true
  | (k, v) :: a', (k', v') :: b' => N.eqb k k' && N.eqb v v' && fp_eqb a' b'
  | _, _ => false
  end.

(** A store entry is addressed by (backend = dataset id, fingerprint): every dataset has its own
    backend object (dataset.py:522-528), all backends share the adversary's call counter.       *)
Definition skey := (N * fingerprint)%type.
Definition key_eqb (a b : skey) : bool := N.eqb (fst a) (fst b) && fp_eqb (snd a) (snd b).

Definition is_some {A} (x : option A) : bool := match x with Some _ => true | None => false end.

Section Sem.
  (** Values are arbitrary; [of_opt] injects an option's value. *)
  Variable value : Type.
  Variable of_opt : N -> value.

  (** A dataset: its arguments and its body, an ARBITRARY deterministic (possibly raising: [None])
      function of the argument values.  A graph is a list of datasets, newest first: the dataset at
      the head of [df :: g'] has id [length g'] and may only refer to datasets of [g'] (a DAG).   *)
  Record dsdef := { ds_args : list arg; ds_body : list value -> option value }.
  Definition graph := list dsdef.

  (** One execution of a dataset body. *)
  Record run := { r_ds : N; r_fp : fingerprint; r_args : list value; r_ok : bool }.

  Definition store := list (skey * value).
  Record state := { st_store : store; st_calls : list call; st_runs : list run }.
  Definition init_state : state := {| st_store := []; st_calls := []; st_runs := [] |}.

  Fixpoint s_find (k : skey) (s : store) : option value :=
    match s with
    | [] => None
    | (k', v) :: s' => if key_eqb k k' then Some v else s_find k s'
    end.
  Fixpoint s_remove (k : skey) (s : store) : store :=
    match s with
    | [] => []
    | (k', v) :: s' => if key_eqb k k' then s_remove k s' else (k', v) :: s_remove k s'
    end.
  Definition s_add (k : skey) (v : value) (s : store) : store := (k, v) :: s_remove k s.
  Definition s_mem (k : skey) (s : store) : bool := is_some (s_find k s).

  (** The fingerprint function (types.py:115-119) is a parameter: [fp d o] is the fingerprint of
      dataset d's cached evaluatable under options o.  Theorems assume it is SOUND (equal
      fingerprints => equal cache-free result: C01/C03); [fp_keys] below is the concrete one.    *)
  Variable fp : N -> options -> fingerprint.

  (* ---------------------------------------------------------------- arguments, body *)

  Section Args.
    Variable St : Type.
    Variable rec : N -> options -> St -> res value * St.   (* evaluator of the datasets defined earlier *)

    (* arguments.py:98-99 : {key: value.evaluate(options) for ...}, left to right, first error wins *)
    Fixpoint eval_args (l : list arg) (o : options) (st : St) : res (list value) * St :=
      match l with
      | [] => (Ok [], st)
      | a :: l' =>
          match (match a with AOpt k => (Ok (of_opt (o k)), st) | ADs j => rec j o st end) with
          | (Fail e, st1) => (Fail e, st1)
          | (Ok v, st1) =>
              match eval_args l' o st1 with
              | (Ok vs, st2) => (Ok (v :: vs), st2)
              | (Fail e, st2) => (Fail e, st2)
              end
          end
      end.
  End Args.

  Definition body_res (d : N) (r : option value) : res value :=
    match r with Some v => Ok v | None => Fail (EBody d) end.

  Definition mk_run (d : N) (o : options) (vs : list value) (r : option value) : run :=
    {| r_ds := d; r_fp := fp d o; r_args := vs; r_ok := is_some r |}.

  (* ---------------------------------------------------------------- the adversarial backend *)

  Variable fault : nat -> behaviour.

  Definition now (st : state) : nat := length (st_calls st).
  Definition tick (c : call) (s : store) (st : state) : state :=
    {| st_store := s; st_calls := st_calls st ++ [c]; st_runs := st_runs st |}.
  Definition add_run (r : run) (st : state) : state :=
    {| st_store := st_store st; st_calls := st_calls st; st_runs := st_runs st ++ [r] |}.

  (* Cache.exists (cache.py:114-138) of the backend of dataset d *)
  Definition b_exists (d : N) (f : fingerprint) (st : state) : bool * state :=
    let k := (d, f) in
    let s := st_store st in
    match fault (now st) with
    | Behave => let b := s_mem k s in (b, tick (CExists d b) s st)
    | Miss => (false, tick (CExists d false) (s_remove k s) st)
    | LieExists => (true, tick (CExists d true) s st)
    | FailGet => (false, tick (CExists d false) s st)
    end.

  (* Cache.get (cache.py:71-92): a value, or CacheGetFailure = None *)
  Definition b_get (d : N) (f : fingerprint) (st : state) : option value * state :=
    let k := (d, f) in
    let s := st_store st in
    match fault (now st) with
    | Behave | LieExists => let r := s_find k s in (r, tick (CGet d (is_some r)) s st)
    | Miss => (None, tick (CGet d false) (s_remove k s) st)
    | FailGet => (None, tick (CGet d false) s st)
    end.

  (* Cache.set (cache.py:94-112) *)
  Definition b_set (d : N) (f : fingerprint) (v : value) (st : state) : state :=
    let k := (d, f) in
    let s := st_store st in
    match fault (now st) with
    | Miss => tick (CSet d) (s_remove k s) st
    | Behave | LieExists | FailGet => tick (CSet d) (s_add k v s) st
    end.

  (* ---------------------------------------------------------------- Cached.evaluate *)

  Section Step.
    Variable rec : N -> options -> state -> res value * state.

    (* Logged(Computation(overloads.apply(callback))) without overloads/effects/callback
       (dataset.py:100-121): evaluate the arguments, run the body (recorded), application.py:57-60 *)
    Definition inner (d : N) (df : dsdef) (o : options) (st : state) : res value * state :=
      match eval_args state rec (ds_args df) o st with
      | (Fail e, st1) => (Fail e, st1)
      | (Ok vs, st1) =>
          let r := ds_body df vs in
          (body_res d r, add_run (mk_run d o vs r) st1)
      end.

    (* _set_cache_handler, cache.py:255-264:
         request.cache.set(...); try: return request.cache.get(...) except CacheGetFailure: return request.value *)
    Definition set_handler (d : N) (f : fingerprint) (v : value) (st : state) : value * state :=
      let st1 := b_set d f v st in
      match b_get d f st1 with
      | (Some v', st2) => (v', st2)
      | (None, st2) => (v, st2)
      end.

    (* Cached.evaluate, cache.py:328-338, with the default handlers (cache.py:267-280) or, when
       [dis], the disabled ones (cache.py:283-302: exists -> False, set -> request.value; the
       backend is not called at all).                                                           *)
    Definition cached_eval (dis : bool) (d : N) (df : dsdef) (o : options) (st : state)
      : res value * state :=
      if dis then inner d df o st
      else
        let f := fp d o in
        let '(ex, st1) := b_exists d f st in                 (* if CacheExistsRequest(...).run(): *)
        let '(got, st2) := if ex then b_get d f st1          (*   try: return CacheGetRequest(...).run() *)
                           else (None, st1) in               (*   except CacheGetFailure: pass *)
        match got with
        | Some v => (Ok v, st2)
        | None =>
            match inner d df o st2 with                      (* value = self.evaluatable.evaluate(options) *)
            | (Fail e, st3) => (Fail e, st3)                 (*   (an error propagates; nothing is stored) *)
            | (Ok v, st3) =>
                let '(v', st4) := set_handler d (fp d o) v st3 in   (* return CacheSetRequest(...).run() *)
                (Ok v', st4)
            end
        end.
  End Step.

  (** Dataset evaluation: look the dataset up by position; its arguments live in the tail. *)
  Fixpoint eval (g : graph) (dis : bool) (d : N) (o : options) (st : state) : res value * state :=
    match g with
    | [] => (Fail (EDangling d), st)
    | df :: g' =>
        if N.eqb d (N.of_nat (length g')) then cached_eval (eval g' dis) dis d df o st
        else eval g' dis d o st
    end.

  (** A history: evaluations (cache disabled for this evaluation?, dataset, options). *)
  Definition op := (bool * N * options)%type.
  Fixpoint run_hist (g : graph) (h : list op) (st : state) : list (res value) * state :=
    match h with
    | [] => ([], st)
    | (dis, d, o) :: h' =>
        let '(r, st1) := eval g dis d o st in
        let '(rs, st2) := run_hist g h' st1 in
        (r :: rs, st2)
    end.

  (* ---------------------------------------------------------------- reference (cache-free) semantics *)

  Section RefStep.
    Variable recv : N -> options -> res value.
    Variable recr : N -> options -> list run.

    Definition arg_refv (a : arg) (o : options) : res value :=
      match a with AOpt k => Ok (of_opt (o k)) | ADs j => recv j o end.
    Definition arg_refr (a : arg) (o : options) : list run :=
      match a with AOpt _ => [] | ADs j => recr j o end.

    Fixpoint refv_args (l : list arg) (o : options) : res (list value) :=
      match l with
      | [] => Ok []
      | a :: l' =>
          match arg_refv a o with
          | Fail e => Fail e
          | Ok v => match refv_args l' o with Ok vs => Ok (v :: vs) | Fail e => Fail e end
          end
      end.
    Fixpoint refr_args (l : list arg) (o : options) : list run :=
      match l with
      | [] => []
      | a :: l' =>
          arg_refr a o ++ match arg_refv a o with Fail _ => [] | Ok _ => refr_args l' o end
      end.

    Definition refv_step (d : N) (df : dsdef) (o : options) : res value :=
      match refv_args (ds_args df) o with
      | Fail e => Fail e
      | Ok vs => body_res d (ds_body df vs)
      end.
    Definition refr_step (d : N) (df : dsdef) (o : options) : list run :=
      refr_args (ds_args df) o ++
      match refv_args (ds_args df) o with
      | Fail _ => []
      | Ok vs => [mk_run d o vs (ds_body df vs)]
      end.
  End RefStep.

  (** The value the graph yields with no cache at all … *)
  Fixpoint refv (g : graph) (d : N) (o : options) : res value :=
    match g with
    | [] => Fail (EDangling d)
    | df :: g' =>
        if N.eqb d (N.of_nat (length g')) then refv_step (refv g') d df o else refv g' d o
    end.
  (** … and the body executions that computation performs, in order. *)
  Fixpoint ref_runs (g : graph) (d : N) (o : options) : list run :=
    match g with
    | [] => []
    | df :: g' =>
        if N.eqb d (N.of_nat (length g')) then refr_step (refv g') (ref_runs g') d df o
        else ref_runs g' d o
    end.

  (* ---------------------------------------------------------------- plain memoisation *)

  (** What [Cached] is with a truthful backend, written directly: look up, else compute and store. *)
  Definition mstate := (store * list run)%type.

  Section MemoStep.
    Variable rec : N -> options -> mstate -> res value * mstate.
    Definition memo_step (d : N) (df : dsdef) (o : options) (m : mstate) : res value * mstate :=
      let k := (d, fp d o) in
      match s_find k (fst m) with
      | Some v => (Ok v, m)
      | None =>
          match eval_args mstate rec (ds_args df) o m with
          | (Fail e, m1) => (Fail e, m1)
          | (Ok vs, m1) =>
              match ds_body df vs with
              | None => (Fail (EBody d), (fst m1, snd m1 ++ [mk_run d o vs None]))
              | Some v => (Ok v, (s_add k v (fst m1), snd m1 ++ [mk_run d o vs (Some v)]))
              end
          end
      end.
  End MemoStep.

  Fixpoint memo (g : graph) (d : N) (o : options) (m : mstate) : res value * mstate :=
    match g with
    | [] => (Fail (EDangling d), m)
    | df :: g' =>
        if N.eqb d (N.of_nat (length g')) then memo_step (memo g') d df o m else memo g' d o m
    end.

  Fixpoint memo_hist (g : graph) (h : list (N * options)) (m : mstate) : list (res value) * mstate :=
    match h with
    | [] => ([], m)
    | (d, o) :: h' =>
        let '(r, m1) := memo g d o m in
        let '(rs, m2) := memo_hist g h' m1 in
        (r :: rs, m2)
    end.

  (* ---------------------------------------------------------------- specification vocabulary *)

  Definition add_runs (l : list run) (st : state) : state :=
    {| st_store := st_store st; st_calls := st_calls st; st_runs := st_runs st ++ l |}.
  Definition mproj (st : state) : mstate := (st_store st, st_runs st).
  Definition enabled (h : list (N * options)) : list op := map (fun '(d, o) => (false, d, o)) h.

  (** Every entry the honest store holds is the cache-free result for every options dictionary
      with that fingerprint. *)
  Definition store_ok (g : graph) (s : store) : Prop :=
    forall d f v, s_find (d, f) s = Some v -> forall o, fp d o = f -> refv g d o = Ok v.

  (** Soundness of the fingerprint (the link to C01/C03). *)
  Definition fp_sound (g : graph) : Prop :=
    forall d o o', fp d o = fp d o' -> refv g d o = refv g d o'.

  (** Every dataset only refers to datasets defined before it. *)
  Fixpoint wf_graph (g : graph) : bool :=
    match g with
    | [] => true
    | df :: g' =>
        forallb (fun a => match a with AOpt _ => true | ADs j => N.ltb j (N.of_nat (length g')) end)
                (ds_args df) && wf_graph g'
    end.
  Definition bodies_total (g : graph) : Prop :=
    forall df, In df g -> forall vs, ds_body df vs <> None.

  Definition run_key (r : run) : skey := (r_ds r, r_fp r).
  Definition ok_keys (l : list run) : list skey := map run_key (filter r_ok l).
End Sem.

Arguments ds_args {value} d.
Arguments ds_body {value} d.
Arguments Build_dsdef {value}.
Arguments r_ds {value} r.
Arguments r_fp {value} r.
Arguments r_args {value} r.
Arguments r_ok {value} r.
Arguments st_store {value} s.
Arguments st_calls {value} s.
Arguments st_runs {value} s.

(** [l1] is a subsequence of [l2]. *)
Inductive sublist {A : Type} : list A -> list A -> Prop :=
| sl_nil : sublist [] []
| sl_skip : forall x l1 l2, sublist l1 l2 -> sublist l1 (x :: l2)
| sl_keep : forall x l1 l2, sublist l1 l2 -> sublist (x :: l1) (x :: l2).

(* ------------------------------------------------------------------ the concrete fingerprint *)

(** keys() of a dataset: the option keys its transitive arguments read
    (application.py:66-67, arguments.py:106-107: unions over the arguments). *)
Fixpoint insert_sorted (n : N) (l : list N) : list N :=
  match l with
  | [] => [n]
  | m :: l' => if N.ltb n m then n :: l else if N.eqb n m then l else m :: insert_sorted n l'
  end.
Definition sort_dedup (l : list N) : list N := fold_right insert_sorted [] l.

Section Keys.
  Variable value : Type.
  Fixpoint keys (g : graph value) (d : N) : list N :=
    match g with
    | [] => []
    | df :: g' =>
        if N.eqb d (N.of_nat (length g'))
        then flat_map (fun a => match a with AOpt k => [k] | ADs j => keys g' j end) (ds_args df)
        else keys g' d
    end.
  (* types.py:115-119 *)
  Definition fp_keys (g : graph value) (d : N) (o : options) : fingerprint :=
    map (fun k => (k, o k)) (sort_dedup (keys g d)).
End Keys.
