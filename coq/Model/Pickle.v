(** C20 — structural state of a dataset graph, [Overloaded.__getstate__/__setstate__], and a
    small evaluation semantics that reads only that state.  Executable definitions only.

    What is modelled (file/lines of /repo):
    - labrea/dataset.py:82-97   [Dataset.__init__]: the seven instance attributes
      [overloads, effects, cache, options, default_options, callback, _effects_disabled];
      dataset.py:541 [functools.update_wrapper(_dataset, definition, updated=())] adds
      [__name__/__qualname__/__module__/__wrapped__] to the instance [__dict__] (so they are
      pickled too; [__wrapped__] is the defining function object itself).
    - labrea/overload.py:55-66  [Overloaded.__init__]: [dispatch, lookup, default, _lock], the
      lock coming from [_get_lock(id(self))] (overload.py:18-24, the table [_LOCKS]).
    - labrea/overload.py:108-113 [__getstate__] = [{**self.__dict__, "_lock": id(self)}],
      [__setstate__] = [self.__dict__.update(state); self._lock = _get_lock(state["_lock"])].
    - every other class (Dataset, Option, Value, FunctionApplication, Pipeline, MemoryCache …)
      has no [__getstate__]/[__reduce__]: default instance pickling stores [__dict__] as is.
    - evaluation clauses: dataset.py:99-137 ([_composed]), option.py ([Option], [WithOptions]),
      conditional.py:137-160 ([Switch._lookup]), cache.py ([Cached], [MemoryCache]),
      computation.py:149-171, application.py, types.py ([Apply], [Value], [fingerprint]).

    What is NOT modelled: the pickle byte stream, [copyreg], the memo (sharing of one object by
    two parents — a graph is a *tree* here), import of functions by qualified name (abstracted by
    the list [imp] of function names that resolve to themselves, see [picklable]). *)
From Coq Require Import List NArith ZArith Bool.
Import ListNotations.
From LV Require Import Model.Base.

(** ** Data *)

(** Hashable dispatch values / overload aliases: strings, ints, None.  (Python identifies
    [1 == 1.0 == True] as dictionary keys; bool/float aliases are outside the modelled universe.) *)
Inductive hkey := HStr (s : str) | HInt (z : Z) | HNone.

Definition hkey_eqb (a b : hkey) : bool :=
  match a, b with
  | HStr x, HStr y => str_eqb x y
  | HInt x, HInt y => Z.eqb x y
  | HNone, HNone => true
  | _, _ => false
  end.

(** The [_lock] slot of an [Overloaded].  In a live object it is a lock object ([lk] names it;
    [oid] is [id(self)], the address of the object in its process).  In the state returned by
    [__getstate__] it is the integer [id(self)]. *)
Inductive lockf := Live (oid lk : N) | Pickled (oid : N).

(** Results of user functions: JSON data taken from the options, tagged tuples built by bodies
    and callbacks, and the [MISSING] sentinel (value of the "no dispatch" marker). *)
Inductive value := VJ (j : json) | VTag (f : N) (args : list value) | VMissing.

(** [MemoryCache._cache]: fingerprint -> value.  A fingerprint is the JSON text of
    [[{k: options[k]} for k in sorted(keys)]]; here the list of pairs. *)
Definition fprint := list (key * json).
Inductive cache := CNoCache | CMemory (entries : list (fprint * value)).

(** [__name__] and [__wrapped__] copied by [update_wrapper]; functions are *names* (atoms):
    that is what pickle stores for a function (module + qualified name). *)
Inductive dmeta := Meta (name : option N) (wrapped : option N).

Inductive node :=
| NValue (j : json)                               (* types.Value(constant) *)
| NMissingV                                       (* Value(MISSING): dataset without dispatch *)
| NOption (k : key) (dflt : option node)          (* Option(key[, default]) *)
| NApply (f : N) (args : list (N * node))         (* FunctionApplication(Value(f), **kwargs) *)
| NOverloaded (dispatch : node) (lookup : list (hkey * node)) (dflt : option node) (lock : lockf)
| NDataset (overloads : node) (effects : list N) (c : cache) (opts dopts : dict)
           (callback : list N) (effects_disabled : bool) (meta : dmeta).

(** ** Lock-insensitive equality: [erase] overwrites every lock slot with one constant. *)
Definition erased_lock : lockf := Pickled 0.

Fixpoint erase (t : node) : node :=
  match t with
  | NValue _ | NMissingV => t
  | NOption k d => NOption k (option_map erase d)
  | NApply f a => NApply f (map (fun '(n, x) => (n, erase x)) a)
  | NOverloaded d lk df _ =>
      NOverloaded (erase d) (map (fun '(k, x) => (k, erase x)) lk) (option_map erase df) erased_lock
  | NDataset ov effs c po dpo cb dis m => NDataset (erase ov) effs c po dpo cb dis m
  end.

(** ** [__getstate__]: the whole attribute dictionary, the lock replaced by [id(self)].
    Applied by pickle to every object of the graph (children are pickled through their own
    [__getstate__] / [__dict__]). *)
Definition getstate_lock (l : lockf) : lockf :=
  match l with Live oid _ => Pickled oid | Pickled oid => Pickled oid end.

Fixpoint getstate (t : node) : node :=
  match t with
  | NValue _ | NMissingV => t
  | NOption k d => NOption k (option_map getstate d)
  | NApply f a => NApply f (map (fun '(n, x) => (n, getstate x)) a)
  | NOverloaded d lk df l =>
      NOverloaded (getstate d) (map (fun '(k, x) => (k, getstate x)) lk) (option_map getstate df)
                  (getstate_lock l)
  | NDataset ov effs c po dpo cb dis m => NDataset (getstate ov) effs c po dpo cb dis m
  end.

(** ** The unpickling process: [_LOCKS] (id -> lock object), a supply of new lock objects and
    of new object addresses.  Any record is a legal process: a fresh interpreter has an empty
    or unrelated table, the pickling process itself still has the entry of the original object,
    and an unrelated live object may sit under the same key (ids are reused). *)
Record proc := { locks : list (N * N); next_lock : N; next_id : N }.

Fixpoint assoc {A} (k : N) (l : list (N * A)) : option A :=
  match l with [] => None | (k', v) :: l' => if N.eqb k k' then Some v else assoc k l' end.

(** [_get_lock(x)] = [_LOCKS.setdefault(x, threading.Lock())] under the module lock. *)
Definition get_lock (P : proc) (x : N) : N * proc :=
  match assoc x P.(locks) with
  | Some l => (l, P)
  | None => (P.(next_lock),
             {| locks := (x, P.(next_lock)) :: P.(locks);
                next_lock := N.succ P.(next_lock); next_id := P.(next_id) |})
  end.

(** [__setstate__] on the lock slot: the integer found in the state is the key (the OLD id);
    the new object lives at a new address. *)
Definition setstate_lock (P : proc) (l : lockf) : lockf * proc :=
  match l with
  | Pickled oid =>
      let '(lk, P1) := get_lock P oid in
      (Live P1.(next_id) lk,
       {| locks := P1.(locks); next_lock := P1.(next_lock); next_id := N.succ P1.(next_id) |})
  | Live _ _ => (l, P)
  end.

Definition thread {S A B} (f : S -> A -> B * S) : S -> list A -> list B * S :=
  fix go (s : S) (l : list A) : list B * S :=
    match l with
    | [] => ([], s)
    | a :: l' => let '(b, s1) := f s a in let '(r, s2) := go s1 l' in (b :: r, s2)
    end.

Definition thread_opt {S A B} (f : S -> A -> B * S) (s : S) (o : option A) : option B * S :=
  match o with None => (None, s) | Some a => let '(b, s1) := f s a in (Some b, s1) end.

(** Unpickling rebuilds children first, then calls [__setstate__] on the parent. *)
Fixpoint setstate (P : proc) (t : node) : node * proc :=
  match t with
  | NValue _ | NMissingV => (t, P)
  | NOption k d => let '(d', P1) := thread_opt setstate P d in (NOption k d', P1)
  | NApply f a =>
      let '(a', P1) := thread (fun P '(n, x) => let '(x', P') := setstate P x in ((n, x'), P')) P a in
      (NApply f a', P1)
  | NOverloaded d lk df l =>
      let '(d', P1) := setstate P d in
      let '(lk', P2) := thread (fun P '(k, x) => let '(x', P') := setstate P x in ((k, x'), P')) P1 lk in
      let '(df', P3) := thread_opt setstate P2 df in
      let '(l', P4) := setstate_lock P3 l in
      (NOverloaded d' lk' df' l', P4)
  | NDataset ov effs c po dpo cb dis m =>
      let '(ov', P1) := setstate P ov in (NDataset ov' effs c po dpo cb dis m, P1)
  end.

Definition roundtrip (P : proc) (t : node) : node := fst (setstate P (getstate t)).

(** ** What pickle needs from the outside world: every function reachable from the graph must
    be importable under its own qualified name ([imp] lists the names for which
    [getattr(module, qualname) is f]).  A decorator-form dataset rebinds the module attribute
    to the [Dataset], so its function is not in [imp] (finding D18). *)
Definition opt_list {A} (o : option A) : list A := match o with Some a => [a] | None => [] end.

Fixpoint funcs (t : node) : list N :=
  match t with
  | NValue _ | NMissingV => []
  | NOption _ d => match d with Some n => funcs n | None => [] end
  | NApply f a => f :: flat_map (fun '(_, x) => funcs x) a
  | NOverloaded d lk df _ =>
      funcs d ++ flat_map (fun '(_, x) => funcs x) lk ++ match df with Some n => funcs n | None => [] end
  | NDataset ov effs _ _ _ cb _ (Meta _ w) => funcs ov ++ effs ++ cb ++ opt_list w
  end.

Definition memN (x : N) (l : list N) : bool := existsb (N.eqb x) l.
Definition picklable (imp : list N) (t : node) : bool := forallb (fun f => memN f imp) (funcs t).

(** [pickle.dumps]: [None] is [PicklingError]. *)
Definition pickle (imp : list N) (t : node) : option node :=
  if picklable imp t then Some (getstate t) else None.

(** Every overload alias of the graph, nested tables included, in table order. *)
Fixpoint aliases (t : node) : list hkey :=
  match t with
  | NValue _ | NMissingV => []
  | NOption _ d => match d with Some n => aliases n | None => [] end
  | NApply _ a => flat_map (fun '(_, x) => aliases x) a
  | NOverloaded d lk df _ =>
      aliases d ++ flat_map (fun '(k, x) => k :: aliases x) lk
      ++ match df with Some n => aliases n | None => [] end
  | NDataset ov _ _ _ _ _ _ _ => aliases ov
  end.

(** Is every lock slot a lock object again (so that [with self._lock:] works)? *)
Definition is_live (l : lockf) : bool := match l with Live _ _ => true | Pickled _ => false end.

Fixpoint all_live (t : node) : bool :=
  match t with
  | NValue _ | NMissingV => true
  | NOption _ d => match d with Some n => all_live n | None => true end
  | NApply _ a => forallb (fun '(_, x) => all_live x) a
  | NOverloaded d lk df l =>
      all_live d && forallb (fun '(_, x) => all_live x) lk
      && match df with Some n => all_live n | None => true end && is_live l
  | NDataset ov _ _ _ _ _ _ _ => all_live ov
  end.

(** ** [Overloaded.register] (overload.py:90-101): [with self._lock: self.lookup =
    {**self.lookup, key: value}] — an existing alias keeps its position, a new one is appended.
    Needs a lock object in the slot ([None]: the [with] statement raises). *)
Fixpoint tset (k : hkey) (v : node) (l : list (hkey * node)) : list (hkey * node) :=
  match l with
  | [] => [(k, v)]
  | (k', v') :: l' => if hkey_eqb k k' then (k', v) :: l' else (k', v') :: tset k v l'
  end.

Fixpoint tfind (k : hkey) (l : list (hkey * node)) : option node :=
  match l with
  | [] => None
  | (k', v) :: l' => if hkey_eqb k k' then Some v else tfind k l'
  end.

Definition register_ov (k : hkey) (v : node) (t : node) : option node :=
  match t with
  | NOverloaded d lk df (Live oid l) => Some (NOverloaded d (tset k v lk) df (Live oid l))
  | _ => None
  end.

(** [Dataset.register] (dataset.py:218-241) delegates to [self.overloads.register]. *)
Definition register (k : hkey) (v : node) (t : node) : option node :=
  match t with
  | NDataset ov effs c po dpo cb dis m =>
      match register_ov k v ov with
      | Some ov' => Some (NDataset ov' effs c po dpo cb dis m)
      | None => None
      end
  | _ => register_ov k v t
  end.

(** The critical section of [register] against a set of currently held locks: it blocks
    ([None]) when its lock is held, otherwise acquires, rebuilds the table, releases — the set
    of held locks is unchanged and the new table does not depend on which lock object it was. *)
Definition register_step (held : list N) (lk : N) (tbl : list (hkey * node)) (k : hkey) (v : node)
  : option (list (hkey * node) * list N) :=
  if memN lk held then None else Some (tset k v tbl, held).

(** A sequence of registrations on several tables ([nat] index), each table with its lock
    given by an assignment [la]. *)
Fixpoint run_registers (la : nat -> N) (held : list N) (tbls : list (list (hkey * node)))
         (ops : list (nat * hkey * node)) : option (list (list (hkey * node))) :=
  match ops with
  | [] => Some tbls
  | (i, k, v) :: ops' =>
      match nth_error tbls i with
      | None => run_registers la held tbls ops'
      | Some tb =>
          match register_step held (la i) tb k v with
          | None => None
          | Some (tb', held') =>
              run_registers la held'
                (firstn i tbls ++ tb' :: skipn (S i) tbls) ops'
          end
      end
  end.

(** ** Evaluation semantics over the structural state *)

Inductive fail := FMissing | FSwitch | FUser | FType | FFuel.
Inductive res (A : Type) := Ok (a : A) | Fail (e : fail).
Arguments Ok {A} a.
Arguments Fail {A} e.

(** reserved atoms of the option keys labrea itself reads *)
Definition a_LABREA : N := 1.
Definition a_CACHE : N := 2.
Definition a_DISABLED : N := 3.
Definition a_DISABLE : N := 4.
Definition a_EFFECTS : N := 5.
Definition k_cache_disabled : key := [SName a_LABREA; SName a_CACHE; SName a_DISABLED].
Definition k_cache_disable : key := [SName a_LABREA; SName a_CACHE; SName a_DISABLE].
Definition k_effects_disabled : key := [SName a_LABREA; SName a_EFFECTS; SName a_DISABLED].

(** Python truthiness of an option value *)
Definition truthy (j : json) : bool :=
  match j with
  | JNull => false
  | JBool b => b
  | JInt z => negb (Z.eqb z 0)
  | JFlt _ => true
  | JStr s => match s with [] => false | _ => true end
  | JList l => match l with [] => false | _ => true end
  | JObj m => match m with [] => false | _ => true end
  end.

Definition flag (k : key) (o : dict) : option bool :=
  match lookup_top k o with Found v => Some (truthy v) | _ => None end.

(** cache.py:251-256 [Option("LABREA.CACHE.DISABLED", Option("LABREA.CACHE.DISABLE", False))] *)
Definition cache_disabled (o : dict) : bool :=
  match flag k_cache_disabled o with
  | Some b => b
  | None => match flag k_cache_disable o with Some b => b | None => false end
  end.

(** computation.py:16 [Option("LABREA.EFFECTS.DISABLED", False)] *)
Definition effects_disabled_opt (o : dict) : bool :=
  match flag k_effects_disabled o with Some b => b | None => false end.

(** [dotted_key_exists] (a scalar parent makes confectioner raise TypeError — finding D6 —;
    that corner is outside this model and counts as "not there") *)
Definition exists_ (k : key) (o : dict) : bool :=
  match lookup_top k o with Found _ => true | _ => false end.

Definition getv (k : key) (o : dict) : json :=
  match lookup_top k o with Found v => v | _ => JNull end.

(** option.py:377-386 [WithOptions._preset] *)
Definition preset_force (k : key) (given mixed preset : dict) : bool :=
  exists_ k preset && (negb (exists_ k given) || json_eq (getv k mixed) (getv k preset)).
Definition preset_default (k : key) (given preset : dict) : bool :=
  exists_ k preset && negb (exists_ k given).

(** types.py:115-119 [fingerprint] *)
Definition fp_of (ks : list key) (o : dict) : fprint :=
  map (fun k => (k, getv k o)) (key_sort ks).

Fixpoint fp_insert (e : key * json) (l : fprint) : fprint :=
  match l with
  | [] => [e]
  | e' :: l' => if key_ltb (fst e) (fst e') then e :: l else e' :: fp_insert e l'
  end.
Definition fp_norm (f : fprint) : fprint := fold_right fp_insert [] f.

Fixpoint fp_eqb (a b : fprint) : bool :=
  match a, b with
  | [], [] => true
  | (k, v) :: a', (k', v') :: b' => key_eqb k k' && json_eqb v v' && fp_eqb a' b'
  | _, _ => false
  end.

Fixpoint cfind (f : fprint) (es : list (fprint * value)) : option value :=
  match es with
  | [] => None
  | (f', v) :: es' => if fp_eqb (fp_norm f') f then Some v else cfind f es'
  end.

Definition to_hkey (v : value) : option hkey :=
  match v with
  | VJ (JStr s) => Some (HStr s)
  | VJ (JInt z) => Some (HInt z)
  | VJ JNull => Some HNone
  | _ => None
  end.

(** [key not in self.lookup] hashes the dispatch value first: a list or dict, or a tuple that
    contains one, raises TypeError (even when the table is empty). *)
Fixpoint hashable (v : value) : bool :=
  match v with
  | VJ (JList _) | VJ (JObj _) => false
  | VJ _ => true
  | VTag _ args => forallb hashable args
  | VMissing => true
  end.

(** conditional.py:137-151 [Switch._lookup]: the chosen branch and whether it is wrapped in
    [_DependsOn(branch, dispatch)] (its keys then include the dispatch's keys).  A dispatch
    that fails to evaluate selects the unwrapped default. *)
Definition choose (dv : res value) (lk : list (hkey * node)) (df : option node) : res (node * bool) :=
  match dv with
  | Fail e => match df with Some n => Ok (n, false) | None => Fail e end
  | Ok v =>
      if negb (hashable v) then Fail FType else
      match match to_hkey v with Some k => tfind k lk | None => None end with
      | Some n => Ok (n, true)
      | None => match df with Some n => Ok (n, true) | None => Fail FSwitch end
      end
  end.

Section Semantics.
  (** user code, identified by importable names: bodies (keyword arguments), callbacks,
      effects ([None]/[false] = raises) *)
  Variable body : N -> list (N * value) -> option value.
  Variable cbf : N -> value -> option value.
  Variable eff : N -> value -> bool.

  Fixpoint apply_callbacks (cb : list N) (v : value) : option value :=
    match cb with
    | [] => Some v
    | c :: cb' => match cbf c v with Some v' => apply_callbacks cb' v' | None => None end
    end.

  Definition map_res {A B} (f : A -> res B) : list (N * A) -> res (list (N * B)) :=
    fix go (l : list (N * A)) : res (list (N * B)) :=
      match l with
      | [] => Ok []
      | (n, a) :: l' =>
          match f a with
          | Fail e => Fail e
          | Ok b => match go l' with Ok r => Ok ((n, b) :: r) | Fail e => Fail e end
          end
      end.

  Definition cat_res {A} (f : A -> res (list key)) : list (N * A) -> res (list key) :=
    fix go (l : list (N * A)) : res (list key) :=
      match l with
      | [] => Ok []
      | (_, a) :: l' =>
          match f a with
          | Fail e => Fail e
          | Ok ks => match go l' with Ok r => Ok (ks ++ r) | Fail e => Fail e end
          end
      end.

  Definition all_res {A} (f : A -> res unit) : list (N * A) -> res unit :=
    fix go (l : list (N * A)) : res unit :=
      match l with
      | [] => Ok tt
      | (_, a) :: l' => match f a with Fail e => Fail e | Ok _ => go l' end
      end.

  (** One fuelled family: [eval] (evaluate), [keys], [valid] (validate).  Every recursive call
      goes to a direct child with one unit of fuel less; [S (height t)] always suffices. *)
  Fixpoint eval (fuel : nat) (t : node) (o : dict) {struct fuel} : res value :=
    match fuel with
    | O => Fail FFuel
    | S f =>
        match t with
        | NValue j => Ok (VJ j)
        | NMissingV => Ok VMissing
        | NOption k d =>
            match lookup_top k o with
            | Found v => Ok (VJ v)
            | Absent => match d with Some n => eval f n o | None => Fail FMissing end
            | TypeErr => Fail FType
            end
        | NApply fn a =>
            match map_res (fun x => eval f x o) a with
            | Fail e => Fail e
            | Ok vs => match body fn vs with Some v => Ok v | None => Fail FUser end
            end
        | NOverloaded d lk df _ =>
            match choose (eval f d o) lk df with
            | Fail e => Fail e
            | Ok (n, _) => eval f n o
            end
        | NDataset ov effs c po dpo cb dis _ =>
            let o1 := mix dpo o in                  (* WithDefaultOptions: the caller wins *)
            let o2 := mix o1 po in                  (* WithOptions(force): the pre-set wins *)
            let compute :=
              match eval f ov o2 with
              | Fail e => Fail e
              | Ok v =>
                  match apply_callbacks cb v with
                  | None => Fail FUser
                  | Some v' =>
                      if dis || effects_disabled_opt o2 then Ok v'
                      else if forallb (fun e => eff e v') effs then Ok v' else Fail FUser
                  end
              end in
            match c with
            | CNoCache => compute
            | CMemory es =>
                if cache_disabled o2 then compute else
                  (* Cached.evaluate asks the cache first: fingerprint -> keys() *)
                  match keys f ov o2 with
                  | Fail e => Fail e
                  | Ok ks => match cfind (fp_of ks o2) es with Some v => Ok v | None => compute end
                  end
            end
        end
    end
  with keys (fuel : nat) (t : node) (o : dict) {struct fuel} : res (list key) :=
    match fuel with
    | O => Fail FFuel
    | S f =>
        match t with
        | NValue _ | NMissingV => Ok []
        | NOption k d =>
            match lookup_top k o with
            | Found _ => Ok [k]
            | Absent => match d with Some n => keys f n o | None => Fail FMissing end
            | TypeErr => Fail FType
            end
        | NApply _ a => cat_res (fun x => keys f x o) a
        | NOverloaded d lk df _ =>
            match choose (eval f d o) lk df with
            | Fail e => Fail e
            | Ok (n, dep) =>
                match keys f n o with
                | Fail e => Fail e
                | Ok ks =>
                    if dep then match keys f d o with Ok kd => Ok (ks ++ kd) | Fail e => Fail e end
                    else Ok ks
                end
            end
        | NDataset ov _ _ po dpo _ _ _ =>
            let o1 := mix dpo o in
            let o2 := mix o1 po in
            match keys f ov o2 with
            | Fail e => Fail e
            | Ok ks =>
                Ok (filter (fun k => negb (preset_default k o dpo))
                      (filter (fun k => negb (preset_force k o1 o2 po)) ks))
            end
        end
    end.

  Fixpoint valid (fuel : nat) (t : node) (o : dict) {struct fuel} : res unit :=
    match fuel with
    | O => Fail FFuel
    | S f =>
        match t with
        | NValue _ | NMissingV => Ok tt
        | NOption k d =>
            match lookup_top k o with
            | Found _ => Ok tt
            | Absent => match d with Some n => valid f n o | None => Fail FMissing end
            | TypeErr => Fail FType
            end
        | NApply _ a => all_res (fun x => valid f x o) a
        | NOverloaded d lk df _ =>
            match choose (eval f d o) lk df with
            | Fail e => Fail e
            | Ok (n, _) => valid f n o
            end
        | NDataset ov _ c po dpo _ _ _ =>
            let o1 := mix dpo o in
            let o2 := mix o1 po in
            match c with
            | CNoCache => valid f ov o2
            | CMemory es =>
                if cache_disabled o2 then valid f ov o2 else
                  match keys f ov o2 with
                  | Fail e => Fail e
                  | Ok ks => match cfind (fp_of ks o2) es with Some _ => Ok tt | None => valid f ov o2 end
                  end
            end
        end
    end.
End Semantics.

Fixpoint height (t : node) : nat :=
  match t with
  | NValue _ | NMissingV => 0
  | NOption _ d => S (match d with Some n => height n | None => 0 end)
  | NApply _ a => S (fold_right (fun '(_, x) m => Nat.max (height x) m) 0 a)
  | NOverloaded d lk df _ =>
      S (Nat.max (height d)
           (Nat.max (fold_right (fun '(_, x) m => Nat.max (height x) m) 0 lk)
                    (match df with Some n => height n | None => 0 end)))
  | NDataset ov _ _ _ _ _ _ _ => S (height ov)
  end.
Definition fuel_for (t : node) : nat := S (height t).
