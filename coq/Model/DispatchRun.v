(** Concrete instance of the dispatch model used by the correspondence check (C07):
    implementations described by a table (which option keys they read, with which defaults, on
    which value they raise), values as the free algebra of tagged results and callback
    applications, and [show] functions producing one string per history. *)
From Coq Require Import List NArith Bool String.
Import ListNotations.
From LV Require Import Model.Show Model.Dispatch.
Local Open Scope N_scope.

(** free-algebra values: any wrong implementation, argument or missing callback is visible *)
Inductive val :=
| VTag (g : N) (reads : list (N * N))     (* body g returned, having read these (key, value) pairs *)
| VCb (c : N) (v : val).                  (* callback c applied *)

(** an opaque implementation: f(x=Option(k1[, d1]), y=Option(k2[, d2]), ...) raising when it
    reads value [snd bad] under key [fst bad] *)
Record idesc := { i_reads : list (N * option N); i_bad : option (N * N) }.
Definition itbl := list (N * idesc).

Fixpoint read_all (rs : list (N * option N)) (o : opts) : res (list (N * N)) :=
  match rs with
  | [] => RVal []
  | (k, dflt) :: rs' =>
      match or_default (assoc k o) dflt with
      | None => RErr (EKey k)                    (* Option.evaluate: KeyNotFoundError *)
      | Some v => match read_all rs' o with RVal l => RVal ((k, v) :: l) | RErr e => RErr e end
      end
  end.

Definition pair_in (p : N * N) (l : list (N * N)) : bool :=
  existsb (fun q => N.eqb (fst p) (fst q) && N.eqb (snd p) (snd q)) l.

Definition c_ieval (t : itbl) (g : N) (o : opts) : res val :=
  match assoc g t with
  | None => RErr EOther
  | Some dsc =>
      match read_all (i_reads dsc) o with
      | RErr e => RErr e
      | RVal l =>
          match i_bad dsc with
          | Some b => if pair_in b l then RErr EOther else RVal (VTag g l)
          | None => RVal (VTag g l)
          end
      end
  end.

(** FunctionApplication.keys: union of the arguments' keys, first failure wins *)
Fixpoint keys_all (rs : list (N * option N)) (o : opts) : kres :=
  match rs with
  | [] => KOk []
  | (k, dflt) :: rs' =>
      match assoc k o, dflt with
      | None, None => KErr (EKey k)
      | Some _, _ => match keys_all rs' o with KOk l => KOk (k :: l) | KErr e => KErr e end
      | None, Some _ => keys_all rs' o
      end
  end.

Definition c_ikeys (t : itbl) (g : N) (o : opts) : kres :=
  match assoc g t with
  | None => KErr EOther
  | Some dsc => keys_all (i_reads dsc) o
  end.

Definition c_cb (c : N) (v : val) : val := VCb c v.

Definition c_state := state val.
Definition c_run (t : itbl) (c : cfg) (fuel : nat) (h : list op) (s : c_state) :=
  run (c_ieval t) (c_ikeys t) c_cb c fuel h s.
Definition c_step (t : itbl) (c : cfg) (fuel : nat) (x : op) (s : c_state) :=
  step (c_ieval t) (c_ikeys t) c_cb c fuel x s.
Definition c_eval (t : itbl) (fuel : nat) (d : N) (o : opts) (s : c_state) :=
  eval (c_ieval t) (c_ikeys t) c_cb fuel d o s.

(** * Printing *)
Open Scope string_scope.

Fixpoint showVal (v : val) : string :=
  match v with
  | VTag g l => "t" ++ showN g ++ brack (map (fun p => showN (fst p) ++ "=" ++ showN (snd p)) l)
  | VCb c w => "cb" ++ showN c ++ "(" ++ showVal w ++ ")"
  end.

Definition showErr (e : err) : string :=
  match e with ESwitch => "switch" | EKey k => "key" ++ showN k | EOther => "other" end.

Definition showObs (ob : obs val) : string :=
  match ob with
  | ObVal v hit => "v:" ++ showVal v ++ (if hit then ":H" else ":M")
  | ObErr e => "e:" ++ showErr e
  | ObOk => "ok"
  | ObRej => "rej"
  | ObBad => "bad"
  end.

Definition showImpl (i : impl) : string :=
  match i with IFun g => "f" ++ showN g | IDs d => "d" ++ showN d end.

Fixpoint insert_by {A : Type} (k : N) (x : A) (l : list (N * A)) : list (N * A) :=
  match l with
  | [] => [(k, x)]
  | (k', y) :: l' => if N.leb k k' then (k, x) :: l else (k', y) :: insert_by k x l'
  end.
Definition sort_by {A : Type} (l : list (N * A)) : list (N * A) :=
  fold_right (fun p acc => insert_by (fst p) (snd p) acc) [] l.

(** every dataset's overload table (sorted by dataset, then alias) and whether it is abstract *)
Definition showTables (s : c_state) : string :=
  commas (map (fun p =>
      let d := fst p in
      match ovl_of s d with
      | None => "d" ++ showN d ++ "?"
      | Some ov =>
          "d" ++ showN d ++ (match o_default ov with None => "A" | Some _ => "D" end) ++
          brack (map (fun q => showN (fst q) ++ ">" ++ showImpl (snd q)) (sort_by (o_table ov)))
      end) (sort_by (st_ds s))).

(** one history -> one line: per operation its observation and (for operations other than
    evaluations) the tables after it *)
Fixpoint show_run (t : itbl) (c : cfg) (fuel : nat) (h : list op) (s : c_state) : list string :=
  match h with
  | [] => []
  | x :: h' =>
      match c_step t c fuel x s with
      | None => ["fuel"]
      | Some (ob, s1) =>
          (match x with
           | OEval _ _ => showObs ob                           (* evaluations never change a table *)
           | _ => showObs ob ++ "|" ++ showTables s1
           end) :: show_run t c fuel h' s1
      end
  end.

Definition observe (t : itbl) (fuel : nat) (h : list op) : string :=
  String.concat ";" (show_run t cfg_now fuel h (@empty_state val)).

(** the same history under the OLD code paths (only used to show the harness what the repaired
    defects looked like; never compared with the implementation on the unchanged tree) *)
Definition observe_old (t : itbl) (fuel : nat) (h : list op) : string :=
  String.concat ";" (show_run t {| c_validate_first := false; c_keep_callback := false |} fuel h (@empty_state val)).
