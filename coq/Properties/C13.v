(** C13 — Pipelines compose associatively; step parameters come from options and are keyed.
    Only statements closed by [exact], each followed by [Print Assumptions]. *)
From Coq Require Import List NArith Bool.
Import ListNotations.
From LV Require Import Model.Pipeline Proofs.PipelineProofs.

(** Iterating [p + q] yields p's steps then q's steps (Identity steps, which do nothing, aside). *)
Theorem C13_iter_add : forall p q, steps (add p q) = steps p ++ steps q.
Proof. exact steps_add. Qed.
Print Assumptions C13_iter_add.

(** … and exactly so for pipelines built without explicit Identity steps. *)
Theorem C13_iter_add_exact : forall p q,
  wf p = true -> wf q = true -> noid p = true -> noid q = true ->
  iter (add p q) = if empty p && empty q then [identity_step] else steps p ++ steps q.
Proof. exact iter_add. Qed.
Print Assumptions C13_iter_add_exact.

(** [+] is associative — on the very object structure the class keeps — … *)
Theorem C13_add_assoc : forall p q r,
  wf p = true -> wf q = true -> wf r = true ->
  noid p = true -> noid q = true -> noid r = true ->
  add (add p q) r = add p (add q r).
Proof. exact add_assoc. Qed.
Print Assumptions C13_add_assoc.

(** … with the empty pipeline as identity on both sides. *)
Theorem C13_add_empty_r : forall p, add p empty_pipe = p.
Proof. exact add_empty_r. Qed.
Print Assumptions C13_add_empty_r.

Theorem C13_add_empty_l : forall p, wf p = true -> noid p = true -> add empty_pipe p = p.
Proof. exact add_empty_l. Qed.
Print Assumptions C13_add_empty_l.

(** The constructor's invariant is preserved by [+] (so the hypotheses above are reachable). *)
Theorem C13_wf_add : forall p q, wf p = true -> wf (add p q) = true.
Proof. exact wf_add. Qed.
Print Assumptions C13_wf_add.

Theorem C13_noid_add : forall p q, noid p = true -> noid q = true -> noid (add p q) = true.
Proof. exact noid_add. Qed.
Print Assumptions C13_noid_add.

(** Mixed operands (PipelineStep + Pipeline, Pipeline + callable, step + step …): whatever the
    bracketing and operand kinds, the result iterates the leaves' steps left to right. *)
Theorem C13_construction_steps : forall c, steps (as_pipe (cval c)) = cleaves c.
Proof. exact steps_cval. Qed.
Print Assumptions C13_construction_steps.

Section Transformations.
  (* For ALL option types, value types, step semantics (possibly failing), key types. *)
  Variables O V F K : Type.
  Variable sev : step -> O -> option F.
  Variable ap : F -> V -> option V.
  Variable skeys : step -> O -> option (list K).
  Variable svalid : step -> O -> bool.
  Variable idf : F.
  Hypothesis sev_id : forall o, sev identity_step o = Some idf.
  Hypothesis ap_id : forall x, ap idf x = Some x.
  Hypothesis skeys_id : forall o, skeys identity_step o = Some [].
  Hypothesis svalid_id : forall o, svalid identity_step o = true.

  (** (p + q).transform(x, o) = q.transform(p.transform(x, o), o); a failure anywhere is a
      failure of both sides.  No restriction on p, q (explicit Identity steps allowed). *)
  Theorem C13_transform_add : forall p q x o,
    transform O V F sev ap (add p q) x o =
      obind (transform O V F sev ap p x o) (fun y => transform O V F sev ap q y o).
  Proof. exact (transform_add O V F sev ap idf sev_id ap_id). Qed.

  (** transform = fold of the iterated steps in order: iteration order is application order. *)
  Theorem C13_iter_is_application_order : forall p x o,
    transform O V F sev ap p x o =
      if all_eval O F sev (iter p) o then run_steps O V F sev ap (iter p) x o else None.
  Proof. exact (transform_spec O V F sev ap). Qed.

  Theorem C13_transform_assoc : forall p q r x o,
    transform O V F sev ap (add (add p q) r) x o = transform O V F sev ap (add p (add q r)) x o.
  Proof. exact (transform_assoc O V F sev ap idf sev_id ap_id). Qed.

  Theorem C13_transform_empty : forall x o, transform O V F sev ap empty_pipe x o = Some x.
  Proof. exact (transform_empty O V F sev ap idf sev_id ap_id). Qed.

  Theorem C13_transform_empty_l : forall p x o,
    transform O V F sev ap (add empty_pipe p) x o = transform O V F sev ap p x o.
  Proof. exact (transform_empty_l O V F sev ap idf sev_id ap_id). Qed.

  (** All bracketings of n pipelines (no bound on n): same steps, same transformation. *)
  Theorem C13_all_bracketings : forall b1 b2 x o,
    bleaves b1 = bleaves b2 ->
    steps (bval b1) = steps (bval b2) /\
    transform O V F sev ap (bval b1) x o = transform O V F sev ap (bval b2) x o.
  Proof. exact (bracketing_irrelevant O V F sev ap idf sev_id ap_id). Qed.

  Theorem C13_construction_bracketing_irrelevant : forall c1 c2 x o,
    cleaves c1 = cleaves c2 ->
    transform O V F sev ap (as_pipe (cval c1)) x o = transform O V F sev ap (as_pipe (cval c2)) x o.
  Proof. exact (cexpr_bracketing_irrelevant O V F sev ap idf sev_id ap_id). Qed.

  (** keys()/explain() of p + q = union of both sides' (as sets), failing iff one side fails. *)
  Theorem C13_keys_add : forall p q o,
    oequiv K (pkeys O K skeys (add p q) o)
      (obind (pkeys O K skeys p o) (fun a => obind (pkeys O K skeys q o) (fun b => Some (a ++ b)))).
  Proof. exact (pkeys_add O K skeys skeys_id). Qed.

  Theorem C13_validate_add : forall p q o,
    pvalid O svalid (add p q) o = pvalid O svalid p o && pvalid O svalid q o.
  Proof. exact (pvalid_add O svalid svalid_id). Qed.
End Transformations.
Print Assumptions C13_transform_add.
Print Assumptions C13_iter_is_application_order.
Print Assumptions C13_transform_assoc.
Print Assumptions C13_transform_empty.
Print Assumptions C13_transform_empty_l.
Print Assumptions C13_all_bracketings.
Print Assumptions C13_construction_bracketing_irrelevant.
Print Assumptions C13_keys_add.
Print Assumptions C13_validate_add.

(** Non-vacuity: concrete pipelines meeting every hypothesis, with a non-trivial result. *)
Example C13_hyps_satisfiable :
  let p := add (single 1%N) (single 2%N) in
  let q := add_step (single 3%N) 4%N in
  wf p = true /\ wf q = true /\ noid p = true /\ noid q = true /\
  iter (add p q) = [1; 2; 3; 4]%N /\
  iter (add (add p q) empty_pipe) = iter (add p (add q empty_pipe)).
Proof. vm_compute. repeat split. Qed.

(** The structural law needs the no-explicit-Identity hypothesis: with an explicit Identity
    step the two bracketings differ as step sequences (by that Identity step only). *)
Example C13_identity_step_corner :
  let p := single 1%N in
  iter (add (add_step p identity_step) empty_pipe) <> iter (add p (add (single identity_step) empty_pipe)).
Proof. vm_compute. discriminate. Qed.
