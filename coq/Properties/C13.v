(** C13 — Pipelines compose associatively; step parameters come from options and are keyed.
    Only statements closed by [exact], each followed by [Print Assumptions]. *)
From Coq Require Import List NArith Bool.
Import ListNotations.
From LV Require Import Model.Pipeline Proofs.PipelineProofs.

(** Iterating [p + q] yields p's steps then q's steps (Identity steps, which do nothing, aside). *)
Theorem C13_iter_add : forall p q, steps (add p q) = steps p ++ steps q.
Proof. exact steps_add. Qed.
Print Assumptions C13_iter_add.

(** … and exactly so for pipelines built without explicit Identity steps. *)
Theorem C13_iter_add_exact : forall p q,
  wf p = true -> wf q = true -> noid p = true -> noid q = true ->
  iter (add p q) = if empty p && empty q then [identity_step] else steps p ++ steps q.
Proof. exact iter_add. Qed.
Print Assumptions C13_iter_add_exact.

(** [+] is associative — on the very object structure the class keeps — … *)
Theorem C13_add_assoc : forall p q r,
  wf p = true -> wf q = true -> wf r = true ->
  noid p = true -> noid q = true -> noid r = true ->
  add (add p q) r = add p (add q r).
Proof. exact add_assoc. Qed.
Print Assumptions C13_add_assoc.

(** … with the empty pipeline as identity on both sides. *)
Theorem C13_add_empty_r : forall p, add p empty_pipe = p.
Proof. exact add_empty_r. Qed.
Print Assumptions C13_add_empty_r.

Theorem C13_add_empty_l : forall p, wf p = true -> noid p = true -> add empty_pipe p = p.
Proof. exact add_empty_l. Qed.
Print Assumptions C13_add_empty_l.

(** The constructor's invariant is preserved by [+] (so the hypotheses above are reachable). *)
Theorem C13_wf_add : forall p q, wf p = true -> wf (add p q) = true.
Proof. exact wf_add. Qed.
Print Assumptions C13_wf_add.

Theorem C13_noid_add : forall p q, noid p = true -> noid q = true -> noid (add p q) = true.
Proof. exact noid_add. Qed.
Print Assumptions C13_noid_add.

(** Mixed operands (PipelineStep + Pipeline, Pipeline + callable, step + step …): whatever the
    bracketing and operand kinds, the result iterates the leaves' steps left to right. *)
Theorem C13_construction_steps : forall c, steps (as_pipe (cval c)) = cleaves c.
Proof. exact steps_cval. Qed.
Print Assumptions C13_construction_steps.

Section Transformations.
  (* For ALL option types, value types, step semantics (possibly failing), key types. *)
  Variables O V F K : Type.
  Variable sev : step -> O -> option F.
  Variable ap : F -> V -> option V.
  Variable skeys : step -> O -> option (list K).
  Variable svalid : step -> O -> bool.
  Variable idf : F.
  Hypothesis sev_id : forall o, sev identity_step o = Some idf.
  Hypothesis ap_id : forall x, ap idf x = Some x.
  Hypothesis skeys_id : forall o, skeys identity_step o = Some [].
  Hypothesis svalid_id : forall o, svalid identity_step o = true.

  (** (p + q).transform(x, o) = q.transform(p.transform(x, o), o); a failure anywhere is a
      failure of both sides.  No restriction on p, q (explicit Identity steps allowed). *)
  Theorem C13_transform_add : forall p q x o,
    transform O V F sev ap (add p q) x o =
      obind (transform O V F sev ap p x o) (fun y => transform O V F sev ap q y o).
  Proof. exact (transform_add O V F sev ap idf sev_id ap_id). Qed.

  (** transform = fold of the iterated steps in order: iteration order is application order. *)
  Theorem C13_iter_is_application_order : forall p x o,
    transform O V F sev ap p x o =
      if all_eval O F sev (iter p) o then run_steps O V F sev ap (iter p) x o else None.
  Proof. exact (transform_spec O V F sev ap). Qed.

  Theorem C13_transform_assoc : forall p q r x o,
    transform O V F sev ap (add (add p q) r) x o = transform O V F sev ap (add p (add q r)) x o.
  Proof. exact (transform_assoc O V F sev ap idf sev_id ap_id). Qed.

  Theorem C13_transform_empty : forall x o, transform O V F sev ap empty_pipe x o = Some x.
  Proof. exact (transform_empty O V F sev ap idf sev_id ap_id). Qed.

  Theorem C13_transform_empty_l : forall p x o,
    transform O V F sev ap (add empty_pipe p) x o = transform O V F sev ap p x o.
  Proof. exact (transform_empty_l O V F sev ap idf sev_id ap_id). Qed.

  (** All bracketings of n pipelines (no bound on n): same steps, same transformation. *)
  Theorem C13_all_bracketings : forall b1 b2 x o,
    bleaves b1 = bleaves b2 ->
    steps (bval b1) = steps (bval b2) /\
    transform O V F sev ap (bval b1) x o = transform O V F sev ap (bval b2) x o.
  Proof. exact (bracketing_irrelevant O V F sev ap idf sev_id ap_id). Qed.

  Theorem C13_construction_bracketing_irrelevant : forall c1 c2 x o,
    cleaves c1 = cleaves c2 ->
    transform O V F sev ap (as_pipe (cval c1)) x o = transform O V F sev ap (as_pipe (cval c2)) x o.
  Proof. exact (cexpr_bracketing_irrelevant O V F sev ap idf sev_id ap_id). Qed.

  (** keys()/explain() of p + q = union of both sides' (as sets), failing iff one side fails. *)
  Theorem C13_keys_add : forall p q o,
    oequiv K (pkeys O K skeys (add p q) o)
      (obind (pkeys O K skeys p o) (fun a => obind (pkeys O K skeys q o) (fun b => Some (a ++ b)))).
  Proof. exact (pkeys_add O K skeys skeys_id). Qed.

  Theorem C13_validate_add : forall p q o,
    pvalid O svalid (add p q) o = pvalid O svalid p o && pvalid O svalid q o.
  Proof. exact (pvalid_add O svalid svalid_id). Qed.
End Transformations.
Print Assumptions C13_transform_add.
Print Assumptions C13_iter_is_application_order.
Print Assumptions C13_transform_assoc.
Print Assumptions C13_transform_empty.
Print Assumptions C13_transform_empty_l.
Print Assumptions C13_all_bracketings.
Print Assumptions C13_construction_bracketing_irrelevant.
Print Assumptions C13_keys_add.
Print Assumptions C13_validate_add.

(** Non-vacuity: concrete pipelines meeting every hypothesis, with a non-trivial result. *)
Example C13_hyps_satisfiable :
  let p := add (single 1%N) (single 2%N) in
  let q := add_step (single 3%N) 4%N in
  wf p = true /\ wf q = true /\ noid p = true /\ noid q = true /\
  iter (add p q) = [1; 2; 3; 4]%N /\
  iter (add (add p q) empty_pipe) = iter (add p (add q empty_pipe)).
Proof. vm_compute. repeat split. Qed.

(** The structural law needs the no-explicit-Identity hypothesis: with an explicit Identity
    step the two bracketings differ as step sequences (by that Identity step only). *)
Example C13_identity_step_corner :
  let p := single 1%N in
  iter (add (add_step p identity_step) empty_pipe) <> iter (add p (add (single identity_step) empty_pipe)).
Proof. vm_compute. discriminate. Qed.
Print Assumptions C13_hyps_satisfiable.
Print Assumptions C13_identity_step_corner.

(** * The CORE model (Model/Eval.v, Model/Derived.v): [e >> p] and step parameters.
    The theorems above are about the Pipeline OBJECT structure (Model/Pipeline.v) with abstract
    step semantics.  The two sentences "[e >> p] evaluates to [p.transform(e(o), o)]" and "step
    parameters are evaluated from the same options at evaluation time and are reported by keys()
    and explain()" are statements about evaluation; they are proved on the core model, where a
    pipeline is the expression [EPipe rsteps] (steps listed TAIL FIRST, the order labrea
    evaluates them in) and a [@pipeline_step] with parameters is [pstep f params].  For every
    store type, store operations, switches, user code, budget, ghost oracle. *)
From Coq Require Import ZArith String.
From LV Require Import Model.Base Model.Template Model.Eval Model.Derived Model.EvalRun
  Proofs.TraceProofs Proofs.C13CoreProofs.

Section Core.
  Variable S : Type.
  Variable mem_find : N -> fp -> S -> option value.
  Variable mem_store : N -> fp -> value -> S -> S.
  Variable cfg : config.
  Variable ucall : N -> list value -> cres.
  Variable rfuel : nat.
  Variable site_ok : expr -> dict -> bool.

  Notation eval := (eval S mem_find mem_store cfg ucall rfuel site_ok).
  Notation keys := (keys S mem_find mem_store cfg ucall rfuel site_ok).
  Notation explain := (explain S mem_find mem_store cfg ucall rfuel site_ok).
  Notation bind := (bind S).
  Notation ret := (ret S).
  Notation call_value := (call_value S ucall).
  Notation compose_run := (compose_run S ucall).

  (** what an evaluated pipeline (the value [VF B_COMPOSE fs []]) computes when called:
      [compose_run fs x] = apply the evaluated steps [fs] in order, each to the result of the
      previous one, the first failure ends the run … *)
  Theorem C13_compose_run_nil : forall x, compose_run [] x = ret x.
  Proof. reflexivity. Qed.
  Theorem C13_compose_run_cons : forall g fs x,
    compose_run (g :: fs) x = bind (call_value g x) (fun y => compose_run fs y).
  Proof. reflexivity. Qed.
  Theorem C13_call_of_evaluated_pipeline : forall fs post x s,
    call_value (VF B_COMPOSE fs post) x s = compose_run fs x s.
  Proof. exact (call_compose S ucall). Qed.
  (** … it splits over concatenation ((p + q).transform on evaluated steps) … *)
  Theorem C13_compose_run_app : forall fs gs x s,
    compose_run (fs ++ gs)%list x s = bind (compose_run fs x) (fun y => compose_run gs y) s.
  Proof. exact (compose_run_app S ucall). Qed.
  (** … and a step that is a function [f] closed over evaluated parameters [pv] is called as
      [f(x, *pv)] *)
  Theorem C13_call_of_evaluated_step : forall f pre post x,
    N.eqb f B_COMPOSE = false ->
    call_value (VF f pre post) x = call_fun S ucall f (pre ++ [x] ++ post)%list.
  Proof. exact (call_step S ucall). Qed.

  (** "[e >> p] evaluates to [p.transform(e(o), o)]": the source and every step are evaluated
      under the SAME dictionary [o] (source first, then the steps tail first), and the evaluated
      steps are applied to the source's value in application order ([rev] of the tail-first
      list); failures of any part are failures of the whole (behind the EvaluateRequest wrapper) *)
  Theorem C13_apply_pipeline : forall e rsteps o s,
    eval (EApply e (EPipe rsteps)) o s =
      wrap_eval S (bind (eval e o) (fun x =>
                   bind (mapM S (fun st => eval st o) rsteps) (fun fs =>
                   compose_run (rev fs) x))) s.
  Proof. exact (eval_apply_pipe S mem_find mem_store cfg ucall rfuel site_ok). Qed.

  Theorem C13_apply_pipeline_ok : forall e rsteps o s x s1 l1 fs s2 l2,
    eval e o s = (Ok x, s1, l1) ->
    mapM S (fun st => eval st o) rsteps s1 = (Ok fs, s2, l2) ->
    eval (EApply e (EPipe rsteps)) o s =
      wrap_out S (after S (l1 ++ l2)%list (compose_run (rev fs) x s2)).
  Proof. exact (eval_apply_pipe_ok S mem_find mem_store cfg ucall rfuel site_ok). Qed.

  (** "step parameters are evaluated from the same options at evaluation time": evaluating a
      [@pipeline_step] evaluates its parameters under [o] and yields [f] closed over their values *)
  Theorem C13_step_parameters_evaluated : forall f ps o s,
    eval (pstep f ps) o s =
      wrap_eval S (bind (mapM S (fun p => eval p o) ps) (fun pv => ret (VF f [] pv))) s.
  Proof. exact (eval_pstep S mem_find mem_store cfg ucall rfuel site_ok). Qed.

  (** "… and are reported by keys() and explain()": of a step = the union over its parameters,
      of [e >> p] = the source's followed by the union over the steps — all under the same [o] *)
  Theorem C13_step_keys : forall f ps o s,
    keys (pstep f ps) o s = unionM S (fun p => keys p o) ps s.
  Proof. exact (keys_pstep S mem_find mem_store cfg ucall rfuel site_ok). Qed.
  Theorem C13_step_explain : forall f ps o s,
    explain (pstep f ps) o s = unionM S (fun p => explain p o) ps s.
  Proof. exact (explain_pstep S mem_find mem_store cfg ucall rfuel site_ok). Qed.
  Theorem C13_apply_pipeline_keys : forall e rsteps o,
    keys (EApply e (EPipe rsteps)) o =
      bind (keys e o) (fun a => bind (unionM S (fun st => keys st o) rsteps) (fun b => ret (a ++ b)%list)).
  Proof. exact (keys_apply_pipe S mem_find mem_store cfg ucall rfuel site_ok). Qed.
  Theorem C13_apply_pipeline_explain : forall e rsteps o,
    explain (EApply e (EPipe rsteps)) o =
      bind (explain e o) (fun a => bind (unionM S (fun st => explain st o) rsteps) (fun b => ret (a ++ b)%list)).
  Proof. exact (explain_apply_pipe S mem_find mem_store cfg ucall rfuel site_ok). Qed.
End Core.
Print Assumptions C13_compose_run_nil.
Print Assumptions C13_compose_run_cons.
Print Assumptions C13_call_of_evaluated_pipeline.
Print Assumptions C13_compose_run_app.
Print Assumptions C13_call_of_evaluated_step.
Print Assumptions C13_apply_pipeline.
Print Assumptions C13_apply_pipeline_ok.
Print Assumptions C13_step_parameters_evaluated.
Print Assumptions C13_step_keys.
Print Assumptions C13_step_explain.
Print Assumptions C13_apply_pipeline_keys.
Print Assumptions C13_apply_pipeline_explain.

(** Non-vacuity on the real store: [Option(K10) >> (step110(x, Option(K12)) + step111(x,
    Option(K11)))] — EPipe lists the steps tail first.  The parameters are read from the same
    dictionary, step 110 is applied first and its result fed to step 111 (operand order: input
    first, then the parameters), and keys()/explain() report K10, K11, K12. *)
Open Scope string_scope.
Definition c13_e : expr :=
  EApply (EOption [SName 10] None None)
         (EPipe [pstep 111 [EOption [SName 11] None None]; pstep 110 [EOption [SName 12] None None]]).
Definition c13_o : dict := [(SName 10, JInt 1); (SName 11, JInt 2); (SName 12, JInt 3)].
Definition c13_op (m : meth) : op := {| op_meth := m; op_expr := 0%nat; op_cfg := cfg0; op_opts := c13_o |}.
Example C13_core_instance :
  run_scenario [] [c13_e] [c13_op MEval; c13_op MKeys; c13_op MExplain] =
  "ok:t111(t110(1,3),2)|c110(1,3) c111(t110(1,3),2) ## ok:[K10,K11,K12]| ## ok:[K10,K11,K12]|".
Proof. vm_compute. reflexivity. Qed.
Print Assumptions C13_core_instance.

(** the hypotheses of [C13_apply_pipeline_ok] hold on that instance: the steps evaluate (tail
    first) to the functions closed over the option values *)
Example C13_core_hyps_satisfiable :
  let ev := eval store mem_find mem_store cfg0 (ucall_of []) 40 (fun _ _ => true) in
  fst (fst (ev (EOption [SName 10] None None) c13_o [])) = Ok (VJ (JInt 1)) /\
  fst (fst (mapM store (fun st => ev st c13_o)
              [pstep 111 [EOption [SName 11] None None]; pstep 110 [EOption [SName 12] None None]] [])) =
    Ok [VF 111 [] [VJ (JInt 2)]; VF 110 [] [VJ (JInt 3)]].
Proof. vm_compute. split; reflexivity. Qed.
Print Assumptions C13_core_hyps_satisfiable.
