(** C03 — keys() is sufficient and present-only; fingerprints depend on nothing else.

    Statements only; proofs are in Proofs/{KeysPresent,SufficientProofs,CleanProofs,
    FingerprintProofs,FrameTheorem}.v.  [evalN/keysN/validateN] are the interpreters of
    Model/Eval.v on the cache-free reference instance (what labrea computes inside
    [labrea.cache.disabled()]); all theorems hold for ALL user code [u], ALL resolution budgets
    [fuel], ALL well-formed dictionaries (unique keys per section) and ALL expressions of the
    boolean fragment [frag] (Proofs/FrameProofs.v: every constructor except Map, AllOptions and
    non-empty pre-set dictionaries — those are covered by the correspondence + oracle of
    harness/props/c03.py only).  [no_par o] (Proofs/TemplateFrame.v): no top-level option name lies in
    the range the MODEL reserves for Template parameters (names >= 10^6; the harness never
    generates one, and [covered_ops] checks it).

    [clean_at u fuel e o] is the computed side condition (Model/EvalRun.v): every option the
    evaluation and the key inspection found PRESENT is reported by keys(), no lookup hit a scalar
    parent, reported keys are name-only paths.  It is false exactly in the zones of the known
    findings D1/D3/D4/D6/D9/D19; the harness evaluates it on every generated scenario. *)
From Coq Require Import List NArith ZArith Bool.
Import ListNotations.
From LV Require Import Model.Base Model.Template Model.Eval Model.Derived Model.EvalRun
  Proofs.FrameProofs Proofs.TemplateFrame Proofs.FrameTheorem Proofs.RestrictProofs Proofs.SufficientProofs
  Proofs.KeysPresent Proofs.CleanProofs Proofs.FingerprintProofs.

Notation evalN u fuel := (eval unit nc_find nc_store cfg_nc u fuel (fun _ _ => true)).
Notation validateN u fuel := (validate unit nc_find nc_store cfg_nc u fuel (fun _ _ => true)).
Notation keysN u fuel := (keys unit nc_find nc_store cfg_nc u fuel (fun _ _ => true)).

(** Whenever keys(o) succeeds, every reported key is present in o. *)
Theorem C03_keys_present_only : forall u fuel e o K l,
  frag e = true -> wf_dict o = true ->
  keysN u fuel e o tt = (Ok K, tt, l) ->
  forall k, In k K -> exists v, lookup k (JObj o) = Found v.
Proof. intros u fuel e o K l Hf Hw Hk. exact (keys_present_all u fuel e Hf o Hw K l Hk). Qed.
Print Assumptions C03_keys_present_only.

(** Evaluating on o restricted to exactly the reported keys gives the same outcome (value or
    failure cause, and the same option reads) and reports the same keys. *)
Theorem C03_keys_sufficient : forall u fuel e o K lk,
  frag e = true -> wf_dict o = true -> no_par o = true -> clean_at u fuel e o = true ->
  keysN u fuel e o tt = (Ok K, tt, lk) ->
  effects_opt_off (restrict o K) = effects_opt_off o ->
  obs (evalN u fuel e (restrict o K) tt) = obs (evalN u fuel e o tt) /\
  obs (keysN u fuel e (restrict o K) tt) = obs (keysN u fuel e o tt).
Proof. exact keys_sufficient_clean. Qed.
Print Assumptions C03_keys_sufficient.

(** The frame property behind it: a run depends on the dictionary only through the keys it
    looks up (for evaluate, validate and keys alike) — so changing, deleting or adding any
    other key changes nothing. *)
Theorem C03_frame : forall u fuel e o o',
  frag e = true -> wf_dict o = true -> wf_dict o' = true -> no_par o = true -> no_par o' = true ->
  effects_opt_off o' = effects_opt_off o ->
  (agree_keys o o' (reads_of (snd (evalN u fuel e o tt))) ->
     obs (evalN u fuel e o' tt) = obs (evalN u fuel e o tt)) /\
  (agree_keys o o' (reads_of (snd (validateN u fuel e o tt))) ->
     obs (validateN u fuel e o' tt) = obs (validateN u fuel e o tt)) /\
  (agree_keys o o' (reads_of (snd (keysN u fuel e o tt))) ->
     obs (keysN u fuel e o' tt) = obs (keysN u fuel e o tt)).
Proof. intros u fuel e o o' Hf Hw Hw' Hnp Hnp' Hsw. exact (frame_all u fuel e Hf o o' Hw Hw' Hnp Hnp' Hsw). Qed.
Print Assumptions C03_frame.

(** The fingerprint is a function of the reported keys and their values alone: identical for
    dictionaries that agree on them, whatever else they contain … *)
Theorem C03_fingerprint_depends_only_on_reported_keys : forall S ks o o',
  (forall k, In k ks -> lookup k (JObj o') = lookup k (JObj o)) ->
  fingerprint_of S ks o' = fingerprint_of S ks o.
Proof. exact fingerprint_of_agree. Qed.
Print Assumptions C03_fingerprint_depends_only_on_reported_keys.

(** … and different whenever the value under a reported key differs. *)
Theorem C03_fingerprint_separates : forall S ks o o' f f' s s1 l1 s' s2 l2 k,
  fingerprint_of S ks o s = (Ok f, s1, l1) ->
  fingerprint_of S ks o' s' = (Ok f', s2, l2) ->
  In k ks -> lookup k (JObj o') <> lookup k (JObj o) -> f' <> f.
Proof. exact differing_value_differing_fingerprint. Qed.
Print Assumptions C03_fingerprint_separates.

(** It exists exactly because reported keys are present (first theorem): computing it never
    fails on a key set all of whose members are present. *)
Theorem C03_fingerprint_defined : forall S ks o s,
  (forall k, In k ks -> exists v, lookup k (JObj o) = Found v) ->
  exists f, fingerprint_of S ks o s = (Ok f, s, []).
Proof. exact fingerprint_of_total. Qed.
Print Assumptions C03_fingerprint_defined.

(** ** Non-vacuity and the known finding.  Atoms: option names K7 = 7, K8 = 8. *)
Definition kA : key := [SName 7].
Definition kB : key := [SName 8].
Definition u0 : N -> list value -> cres := fun f args => COk (VT f args).

(** a clean, non-trivial instance: a switch on option A choosing between option B and a constant *)
Definition e_ok : expr :=
  ESwitch (EOption kA None None)
          [(VJ (JInt 1), EOption kB None None); (VJ (JInt 2), EValue (VJ (JInt 5)))] None.
Definition o_ok : dict := [(SName 7, JInt 1); (SName 8, JInt 9); (SName 9, JInt 0)].

Example C03_hypotheses_satisfiable :
  frag e_ok = true /\ wf_dict o_ok = true /\ clean_at u0 10 e_ok o_ok = true /\
  fst (fst (keysN u0 10 e_ok o_ok tt)) = Ok [kB; kA] /\
  fst (fst (evalN u0 10 e_ok (restrict o_ok [kB; kA]) tt)) = Ok (VJ (JInt 9)) /\
  restrict o_ok [kB; kA] = [(SName 7, JInt 1); (SName 8, JInt 9)].
Proof. vm_compute. repeat split. Qed.

(** D19 (known finding): without the side condition the sufficiency sentence is FALSE of the
    code.  A coalesce whose first member reads a present option A and then fails on the missing
    B: keys() = {} although the outcome depends on A; on the restricted dictionary {} the
    first member succeeds with the switch's other branch. *)
Definition e_d19 : expr :=
  ECoalesce [ESwitch (EOption kA (Some (EValue (VJ (JInt 2)))) None)
                     [(VJ (JInt 1), EOption kB None None); (VJ (JInt 2), EValue (VJ (JInt 5)))] None;
             EValue (VJ (JInt 6))].
Definition o_d19 : dict := [(SName 7, JInt 1)].

Theorem C03_keys_sufficient_refuted_D19 :
  exists u fuel e o K,
    frag e = true /\ wf_dict o = true /\
    fst (fst (keysN u fuel e o tt)) = Ok K /\
    fst (fst (evalN u fuel e (restrict o K) tt)) <> fst (fst (evalN u fuel e o tt)) /\
    clean_at u fuel e o = false.
Proof.
  exists u0, 10%nat, e_d19, o_d19, []. vm_compute. repeat split; congruence.
Qed.
Print Assumptions C03_keys_sufficient_refuted_D19.

(** D24 (known finding): the effects switch is read by every Computation and reported by no
    keys().  keys() = [] for a node whose only dependency is the switch, so the restriction drops
    LABREA.EFFECTS.DISABLED, the (raising) effect runs and the outcome changes — although the
    dictionary is clean.  Hence the hypothesis on the switch in [C03_keys_sufficient]. *)
Definition u_raise : N -> list value -> cres := fun f args => if N.eqb f 101 then CRaise 9 else COk (VT f args).
Definition e_d24 : expr := EComp (EValue (VJ (JInt 1))) [EValue (VF 101 [] [])].
Definition o_d24 : dict := [(SName A_LABREA, JObj [(SName A_EFFECTS, JObj [(SName A_DISABLED, JBool true)])])].

Theorem C03_keys_sufficient_refuted_effects_switch_D24 :
  exists u fuel e o K,
    frag e = true /\ wf_dict o = true /\ clean_at u fuel e o = true /\
    fst (fst (keysN u fuel e o tt)) = Ok K /\
    fst (fst (evalN u fuel e o tt)) = Ok (VJ (JInt 1)) /\
    fst (fst (evalN u fuel e (restrict o K) tt)) = Err (CUser 9) true /\
    effects_opt_off (restrict o K) <> effects_opt_off o.
Proof.
  exists u_raise, 10%nat, e_d24, o_d24, []. vm_compute. repeat split; congruence.
Qed.
Print Assumptions C03_keys_sufficient_refuted_effects_switch_D24.

(** the sufficiency theorem on a Template node with an option reference and a parameter *)
Definition e_tpl : expr := ETemplate [TLit 120; TRef kA; TPar 0] [(0%N, EOption kB None None)].
Example C03_template_hypotheses_satisfiable :
  frag e_tpl = true /\ wf_dict o_ok = true /\ no_par o_ok = true /\ clean_at u0 10 e_tpl o_ok = true /\
  fst (fst (keysN u0 10 e_tpl o_ok tt)) = Ok [kB; kA] /\
  fst (fst (evalN u0 10 e_tpl (restrict o_ok [kB; kA]) tt)) = Ok (VJ (JStr [TLit 120; TLit 49; TLit 57])).
Proof. vm_compute. repeat split. Qed.
