(** C11 — explain() covers keys() and names every missing option.
    Statements about the cache-free reference instance of the interpreters transcribed from the
    labrea classes ([explain_nc], [keys_nc], [validate_nc], [eval_nc] of Model/EvalRun.v), for ALL
    expressions of stated boolean fragments, ALL dictionaries (under stated side conditions), ALL
    user code.  Only [exact]-closed statements + [Print Assumptions]; proofs in Proofs/C11Proofs.v
    (and Proofs/AgreeProofs.v).

    Fragments (boolean predicates [fragP p], Proofs/AgreeProofs.v; never in: Map):
      [pC]  no bare lazy Iter (list()/tuple() of an Iter is in), no Template;
      [pM]  no Template, no pre-set dictionaries (refuted below: C11_missing_key_is_listed_refuted_presets),
            an Option's domain is a constant (finding D4);
      [pN]  [pC] without pre-set dictionaries and AllOptions.
    Side conditions on the dictionary where it is compared with what explain() lists:
      [wf_dict o] (unique keys) and [resolves fuel o] (every option value resolves: no reference
      to a missing key inside a value — findings D1/D13 and property C09 live there).
    User code: [clean_u] / [no_fabricated_missing] (results hold no deferred failure unless an
    argument did); otherwise arbitrary, it may raise anywhere. *)
From Coq Require Import List NArith ZArith Bool.
Import ListNotations.
From LV Require Import Model.Base Model.Template Model.Eval Model.Derived Model.EvalRun
  Proofs.AgreeProofs Proofs.C11Proofs.

(** "Whenever explain(o) succeeds it contains every key keys(o) would report" — all dictionaries
    (templated values, pre-set dictionaries, scalar parents included). *)
Theorem C11_explain_superset : forall u fuel e o Xs Ks,
  clean_u u -> fragP pC e = true ->
  fst (explain_nc u fuel e o) = Ok Xs -> fst (keys_nc u fuel e o) = Ok Ks -> incl Ks Xs.
Proof. exact explain_superset_nc. Qed.
Print Assumptions C11_explain_superset.

(** "a missing-key failure of validate(o) always names a listed key" — and that key is absent *)
Theorem C11_missing_key_is_listed : forall u fuel e o k ee Xs,
  no_fabricated_missing u -> fragP pM e = true -> wf_dict o = true -> resolves fuel o ->
  fst (validate_nc u fuel e o) = Err (CKey k) ee -> fst (explain_nc u fuel e o) = Ok Xs ->
  In k Xs /\ lookup k (JObj o) = Absent.
Proof. exact missing_key_is_listed_nc. Qed.
Print Assumptions C11_missing_key_is_listed.

(** "if none [of the listed keys] is absent validate(o) cannot fail for a missing option" *)
Theorem C11_explain_complete : forall u fuel e o Xs,
  no_fabricated_missing u -> fragP pM e = true -> wf_dict o = true -> resolves fuel o ->
  fst (explain_nc u fuel e o) = Ok Xs -> (forall k, In k Xs -> lookup k (JObj o) <> Absent) ->
  forall k ee, fst (validate_nc u fuel e o) <> Err (CKey k) ee.
Proof. exact explain_complete_nc. Qed.
Print Assumptions C11_explain_complete.

(** "if some are absent validate(o) fails" (and so does evaluate) *)
Theorem C11_explain_sound : forall u fuel e o Xs k,
  clean_u u -> fragP pN e = true -> wf_dict o = true -> resolves fuel o ->
  fst (explain_nc u fuel e o) = Ok Xs -> In k Xs -> lookup k (JObj o) = Absent ->
  okb (fst (validate_nc u fuel e o)) = false /\ okb (fst (eval_nc u fuel e o)) = false.
Proof. exact explain_sound_nc. Qed.
Print Assumptions C11_explain_sound.

(** "explain() fails only with an insufficient-information error" — for EVERY expression (no
    fragment), every dictionary, every user code: an EvaluationError leaving explain() is
    InsufficientInformationError (or the run is outside the modelled universe); any other failure
    is a raw TypeError (finding D6: scalar parent; unhashable dispatch value), an exhausted
    resolution budget, or an exception of user code explain() called directly (a partial bind
    function, a case predicate) — never a missing-option, switch, case-when or domain error. *)
Theorem C11_explain_fails_only_insufficient : forall u fuel e o c ee,
  fst (explain_nc u fuel e o) = Err c ee ->
  (ee = true -> c = CInsuff \/ c = CUnmodelled) /\
  (ee = false -> c = CType \/ c = CUnmodelled \/ c = CFuel \/ exists n, c = CUser n).
Proof. exact explain_fails_only_insufficient_nc. Qed.
Print Assumptions C11_explain_fails_only_insufficient.

(** "… when a branch cannot be chosen": when validate(o) passes, neither explain(o) nor keys(o)
    raises an EvaluationError (in particular not InsufficientInformationError). *)
Theorem C11_validate_ok_no_insufficient : forall u fuel e o,
  clean_u u -> fragP pC e = true -> fst (validate_nc u fuel e o) = Ok tt ->
  (forall c, fst (keys_nc u fuel e o) <> Err c true) /\ (forall c, fst (explain_nc u fuel e o) <> Err c true).
Proof. exact validate_ok_explain_keys_no_evaluation_error_nc. Qed.
Print Assumptions C11_validate_ok_no_insufficient.

(** "… and never runs dataset bodies beyond branch selection" — for EVERY expression, dictionary
    and user code: a user-code call logged by explain of [e] under [o] happens inside the evaluation
    of a sub-expression in chooser position under the dictionary that reaches it ([reaches]: [o]
    overlaid by the WithOptions nodes above it / by the current Map row), or is a case condition
    applied to the dispatch value, both evaluated under that dictionary. *)
Theorem C11_explain_runs_only_choosers : forall u fuel e o evt,
  is_call evt = true -> In evt (snd (explain_nc u fuel e o)) -> allowed u fuel e o evt.
Proof. exact (fun u fuel e o evt Hc H => runs_only_choosers_nc u fuel e o evt Hc (or_intror (or_intror H))). Qed.
Print Assumptions C11_explain_runs_only_choosers.

(** ** where the code violates the sentences (recorded findings; closed witnesses) *)
(** D4: a domain expression's keys are never listed: nothing listed is absent, validate fails for
    a missing option that is not listed *)
Theorem C11_explain_complete_refuted_D4 :
  fst (explain_nc u_total 40 d4x_expr o_A1) = Ok [kA] /\ lookup kA (JObj o_A1) <> Absent /\
  fst (validate_nc u_total 40 d4x_expr o_A1) = Err (CKey kP) true /\ ~ In kP [kA].
Proof. exact d4_complete_refuted. Qed.
Print Assumptions C11_explain_complete_refuted_D4.

(** D1: a templated string inside a container value is invisible to explain *)
Theorem C11_missing_key_is_listed_refuted_D1 :
  fst (explain_nc u_total 40 (EOption kA None None) d1_opts) = Ok [kA] /\
  fst (validate_nc u_total 40 (EOption kA None None) d1_opts) = Err (CKey kB) true /\ ~ In kB [kA].
Proof. exact d1_listed_refuted. Qed.
Print Assumptions C11_missing_key_is_listed_refuted_D1.

(** pre-set dictionaries ([pM]/[pN] exclude them; no general theorem yet): the witness with which the
    first version of this file REFUTED "a missing-key failure names a listed key" under pre-set
    dictionaries — WithOptions(Option('S.X'), {'S': {'X': 1}}, force=False) on {'S': []}: validate
    fails for the missing option S.X while explain listed NOTHING (its filter dropped S.X as
    "determined by the pre-set options").  That was a genuine defect of labrea (reproduced on the
    implementation), repaired by fix 6884003; the model follows the repaired code, and on the
    witness explain now lists S.X, which is absent. *)
Example C11_preset_overlaid_away_is_listed_after_fix :
  wf_dict preset_opts = true /\
  fst (validate_nc u_total 40 preset_expr preset_opts) = Err (CKey kSX) true /\
  fst (explain_nc u_total 40 preset_expr preset_opts) = Ok [kSX] /\
  lookup kSX (JObj preset_opts) = Absent.
Proof. exact presets_overlaid_away_listed. Qed.
Print Assumptions C11_preset_overlaid_away_is_listed_after_fix.

(** D6: a scalar parent makes explain fail with a raw TypeError, not InsufficientInformationError *)
Theorem C11_explain_fails_only_insufficient_refuted_D6 :
  fst (explain_nc u_total 40 d6_expr d6_opts) = Err CType false.
Proof. reflexivity. Qed.
Print Assumptions C11_explain_fails_only_insufficient_refuted_D6.

(** ** non-vacuity: switch(Option('A', 2), {1: Option('B'), 2: f(Option('Q'))}) is in every
    fragment; on {'A': 1} explain lists the absent B, validate fails naming B; on {'Q': 1} nothing
    listed is absent and validate passes; on {} (default branch) explain lists Q only. *)
Example C11_ex_fragments : fragP pC sw_expr = true /\ fragP pM sw_expr = true /\ fragP pN sw_expr = true.
Proof. repeat split; reflexivity. Qed.
Print Assumptions C11_ex_fragments.
Example C11_ex_side_conditions :
  clean_u u_total /\ no_fabricated_missing u_total /\ wf_dict o_A1 = true /\ resolves 40 o_A1 /\ resolves 40 o_Q1 /\ resolves 40 [].
Proof.
  exact (conj u_total_clean (conj u_total_no_fabrication (conj eq_refl (conj resolves_o_A1 (conj resolves_o_Q1 resolves_nil))))).
Qed.
Print Assumptions C11_ex_side_conditions.
Example C11_ex_missing :
  fst (explain_nc u_total 40 sw_expr o_A1) = Ok [kB; kA] /\
  fst (validate_nc u_total 40 sw_expr o_A1) = Err (CKey kB) true /\ lookup kB (JObj o_A1) = Absent.
Proof. repeat split; reflexivity. Qed.
Print Assumptions C11_ex_missing.
Example C11_ex_sufficient :
  fst (explain_nc u_total 40 sw_expr o_Q1) = Ok [kQ] /\ fst (keys_nc u_total 40 sw_expr o_Q1) = Ok [kQ] /\
  fst (validate_nc u_total 40 sw_expr o_Q1) = Ok tt.
Proof. repeat split; reflexivity. Qed.
Print Assumptions C11_ex_sufficient.
Example C11_ex_default_branch :
  fst (explain_nc u_total 40 sw_expr []) = Ok [kQ] /\ fst (validate_nc u_total 40 sw_expr []) = Err (CKey kQ) true.
Proof. repeat split; reflexivity. Qed.
Print Assumptions C11_ex_default_branch.
