(** C07 — Overload and interface dispatch select exactly the registered implementation.
    Only statements closed by [exact] (witnesses by [vm_compute]), each followed by
    [Print Assumptions].  The model is Model/Dispatch.v (the code as it is NOW); the two
    theorems labelled OLD CODE are about the pre-fix code paths kept for reference. *)
From Coq Require Import List NArith Bool.
Import ListNotations.
From LV Require Import Model.Dispatch Model.DispatchRun Proofs.DispatchProofs.
Local Open Scope N_scope.

(** * 1. What an evaluation returns *)
Section AllImplementations.
  (* for ALL value types, implementations (possibly failing), callbacks *)
  Variable V : Type.
  Variable ieval : N -> opts -> res V.
  Variable ikeys : N -> opts -> kres.
  Variable cbapp : N -> V -> V.

  (** An evaluation that is not served from the cache returns the dataset's callback applied to
      the outcome of [pick] = the implementation registered under the current dispatch value in
      the table AS IT IS AT THAT MOMENT, the default when that value is unregistered or the
      dispatch cannot be evaluated; with no default (abstract) it fails, with SwitchError when the
      value is known and with the dispatch's own error otherwise.  Any state, any fuel. *)
  Theorem C07_dispatch_spec : forall f d o s r s' rc ov,
    eval ieval ikeys cbapp (S f) d o s = Some (r, s') ->
    get_ds s d = Some rc -> get_ovl s (d_ovl rc) = Some ov ->
    stored V ikeys f s d o = None ->
    match pick ov (overlay (d_preset rc) o) with
    | None => r = RErr (why_none ov (overlay (d_preset rc) o)) /\ s' = s
    | Some i =>
        exists r0 s1, impl_outcome V ieval ikeys cbapp f s ov i (overlay (d_preset rc) o) = Some (r0, s1) /\
                      r = rmap V (apply_cb cbapp (d_cb rc)) r0
    end.
  Proof. exact (dispatch_spec V ieval ikeys cbapp). Qed.

  (** ... and one that is served returns exactly what is stored under its fingerprint. *)
  Theorem C07_served_from_cache : forall f d o s r s' v,
    eval ieval ikeys cbapp (S f) d o s = Some (r, s') -> stored V ikeys f s d o = Some v -> r = RVal v.
  Proof. exact (eval_served V ieval ikeys cbapp). Qed.

  (** Abstract and nothing applies: failure (also when something is stored: nothing can be). *)
  Theorem C07_abstract_fails : forall f d o s r s' rc ov,
    eval ieval ikeys cbapp (S f) d o s = Some (r, s') ->
    get_ds s d = Some rc -> get_ovl s (d_ovl rc) = Some ov ->
    pick ov (overlay (d_preset rc) o) = None ->
    r = RErr (why_none ov (overlay (d_preset rc) o)) /\ s' = s.
  Proof. exact (abstract_fails V ieval ikeys cbapp). Qed.

  (** * 2. Registrations made at any time apply to every later evaluation not already stored *)

  (** register / @overload('A') / @overload(['A','B']) / stacked decorators: accepted means
      bound, for every alias of the list. *)
  Theorem C07_registration_takes_effect : forall fuel x s s1 d a i,
    wf V s -> step ieval ikeys cbapp cfg_now fuel x s = Some (ObOk, s1) -> registers x d a i ->
    has_key d (st_ds s1) = true /\ binding s1 d a = Some i.
  Proof. exact (registration_takes_effect V ieval ikeys cbapp). Qed.

  (** Nothing but a new registration under the same alias changes a binding: not evaluations,
      not set_dispatch (the table is copied), not new datasets / derivatives / interfaces, not
      registrations under other aliases, not rejected implementations.  Histories of any length. *)
  Theorem C07_registration_persists : forall fuel h s obs s' d a,
    wf V s -> has_key d (st_ds s) = true ->
    run ieval ikeys cbapp cfg_now fuel h s = Some (obs, s') -> forallb (op_quiet a) h = true ->
    binding s' d a = binding s d a.
  Proof. exact (registration_persists V ieval ikeys cbapp). Qed.

  (** For every history [h1 ++ x :: h2] from the empty state in which [x] registers [i] under
      [a] on [d] and [h2] (any interleaving of evaluations, set_dispatch, other registrations...)
      does not re-register [a]: [i] is bound at the end, and every evaluation of [d] there whose
      dispatch value is [a] and that is not already stored returns callback(outcome of [i]). *)
  Theorem C07_late_registration_applies : forall fuel h1 x h2 obs s d a i,
    run ieval ikeys cbapp cfg_now fuel (h1 ++ x :: h2) (@empty_state V) = Some (obs, s) ->
    registers x d a i -> nth_error obs (length h1) = Some ObOk ->
    forallb (op_quiet a) h2 = true ->
    binding s d a = Some i /\
    forall f o r s' rc ov,
      get_ds s d = Some rc -> get_ovl s (d_ovl rc) = Some ov ->
      eval ieval ikeys cbapp (S f) d o s = Some (r, s') ->
      stored V ikeys f s d o = None ->
      deval (o_disp ov) (overlay (d_preset rc) o) = DVal a ->
      exists r0 s1, impl_outcome V ieval ikeys cbapp f s ov i (overlay (d_preset rc) o) = Some (r0, s1) /\
                    r = rmap V (apply_cb cbapp (d_cb rc)) r0.
  Proof. exact (late_registration_applies V ieval ikeys cbapp). Qed.

  (** * 3. The callback applies to every implementation *)
  Theorem C07_callback_on_every_impl : forall f d o s v s' rc ov,
    eval ieval ikeys cbapp (S f) d o s = Some (RVal v, s') ->
    get_ds s d = Some rc -> get_ovl s (d_ovl rc) = Some ov ->
    stored V ikeys f s d o = None ->
    exists i x s1, pick ov (overlay (d_preset rc) o) = Some i /\
                   impl_run V ieval ikeys cbapp f i (overlay (d_preset rc) o) s = Some (RVal x, s1) /\
                   v = apply_cb cbapp (d_cb rc) x.
  Proof. exact (callback_applied V ieval ikeys cbapp). Qed.

  (** ... and, in every history from the empty state, to every value an evaluation returned,
      computed OR served from the cache shared with the with_options derivatives. *)
  Theorem C07_callback_on_every_observation : forall fuel h obs s n d o v hit,
    run ieval ikeys cbapp cfg_now fuel h (@empty_state V) = Some (obs, s) ->
    nth_error h n = Some (OEval d o) -> nth_error obs n = Some (ObVal v hit) ->
    exists rc w, get_ds s d = Some rc /\ v = apply_cb cbapp (d_cb rc) w.
  Proof. exact (callback_on_every_observation V ieval ikeys cbapp). Qed.

  (** * 4. A value stored for one dispatch value is never returned for another (PARTIAL:
        outside the zone of finding D19, [dispatch_safe = true]) *)
  Theorem C07_no_cross_dispatch_partial : forall fuel h obs s,
    run ieval ikeys cbapp cfg_now fuel h (@empty_state V) = Some (obs, s) ->
    forall l1 e2 l2, st_trace s = l1 ++ e2 :: l2 -> e_hit e2 = true ->
      exists e1, In e1 l2 /\ explains V e1 e2 /\
        (e_disp e1 = e_disp e2 -> dispatch_safe (e_disp e2) = true ->
         dres_same (e_dres e1) (e_dres e2)).
  Proof. exact (no_cross_dispatch_history V ieval ikeys cbapp). Qed.

  (** * 5. Interfaces *)
  Theorem C07_interface_consistent : forall fuel h obs s,
    run ieval ikeys cbapp cfg_now fuel h (@empty_state V) = Some (obs, s) ->
    keeps V ieval ikeys cbapp fuel h (@empty_state V) = true ->
    forall i f n1 d1 n2 d2, assoc i (st_if s) = Some f ->
      In (n1, d1) (if_members f) -> In (n2, d2) (if_members f) ->
      exists ov1 ov2, ovl_of s d1 = Some ov1 /\ ovl_of s d2 = Some ov2 /\
        o_disp ov1 = if_disp f /\ o_disp ov2 = if_disp f /\
        forall o, deval (o_disp ov1) o = deval (o_disp ov2) o.
  Proof. exact (interface_consistent V ieval ikeys cbapp). Qed.

  (** A rejected implementation leaves the whole state unchanged ... *)
  Theorem C07_implement_rejected_nothing : forall fuel ifs als prov s s',
    step ieval ikeys cbapp cfg_now fuel (OImplement ifs als prov) s = Some (ObRej, s') -> s' = s.
  Proof. exact (implement_rejected_nothing V ieval ikeys cbapp). Qed.

  (** ... it is rejected exactly when it names an unknown member or omits an abstract one ... *)
  Theorem C07_implement_rejected_iff : forall (s : state V) ifs als prov,
    implement s ifs als prov = None <->
    (exists n i, In (n, i) prov /\ has_key n (members_of s ifs) = false) \/
    (exists n dl d, In (n, dl) (members_of s ifs) /\ In d dl /\ is_abstract s d = true /\ assoc n prov = None).
  Proof. exact (implement_rejected_iff V). Qed.

  Theorem C07_member_name_iff : forall (s : state V) ifs n,
    has_key n (members_of s ifs) = true <->
    exists j f d, In j ifs /\ assoc j (st_if s) = Some f /\ In (n, d) (if_members f).
  Proof. exact (member_name_iff V). Qed.

  (** ... an accepted one performs exactly the registrations (member dataset, alias, provided
      implementation) for every provided name, every alias, every interface with that member ... *)
  Theorem C07_implement_registers_exactly : forall (s : state V) ifs als prov d a i,
    In (d, a, i) (regs_of (members_of s ifs) als prov) <->
    exists n, assoc n prov = Some i /\ In a als /\
      exists j f, In j ifs /\ assoc j (st_if s) = Some f /\ In (n, d) (if_members f).
  Proof. exact (implement_registers_exactly V ieval ikeys cbapp). Qed.

  (** ... and every table afterwards is the old one overwritten by those registrations. *)
  Theorem C07_implement_accepted : forall fuel ifs als prov s s',
    wf V s -> step ieval ikeys cbapp cfg_now fuel (OImplement ifs als prov) s = Some (ObOk, s') ->
    let regs := regs_of (members_of s ifs) als prov in
    s' = apply_regs s regs /\
    forall d a, binding s' d a =
      match last_reg V s d a regs None with Some i => Some i | None => binding s d a end.
  Proof. exact (implement_accepted V ieval ikeys cbapp). Qed.

  (** the states histories reach are well-formed (hypothesis [wf] above is reachable) *)
  Theorem C07_reachable_wf : forall fuel h obs s,
    run ieval ikeys cbapp cfg_now fuel h (@empty_state V) = Some (obs, s) -> wf V s.
  Proof. exact (fun fuel h obs s => run_wf V ieval ikeys cbapp fuel h _ obs s (wf_empty V)). Qed.
End AllImplementations.
Print Assumptions C07_dispatch_spec.
Print Assumptions C07_served_from_cache.
Print Assumptions C07_abstract_fails.
Print Assumptions C07_registration_takes_effect.
Print Assumptions C07_registration_persists.
Print Assumptions C07_late_registration_applies.
Print Assumptions C07_callback_on_every_impl.
Print Assumptions C07_callback_on_every_observation.
Print Assumptions C07_no_cross_dispatch_partial.
Print Assumptions C07_interface_consistent.
Print Assumptions C07_implement_rejected_nothing.
Print Assumptions C07_implement_rejected_iff.
Print Assumptions C07_member_name_iff.
Print Assumptions C07_implement_registers_exactly.
Print Assumptions C07_implement_accepted.
Print Assumptions C07_reachable_wf.

(** A member without an override for the current alias uses the interface's default (and fails
    if it is abstract: [C07_abstract_fails]). *)
Theorem C07_member_without_override : forall ov o a,
  deval (o_disp ov) o = DVal a -> assoc a (o_table ov) = None -> pick ov o = o_default ov.
Proof. exact member_without_override. Qed.
Print Assumptions C07_member_without_override.

(** The fact behind no-cross-dispatch: outside the D19 zone, equal fingerprints force equal
    dispatch outcomes — whatever the two tables, implementations and other options are. *)
Theorem C07_fingerprint_determines_dispatch : forall e o1 o2 ks1 ks2 f,
  dispatch_safe e = true ->
  mk_fp o1 ks1 = Some f -> mk_fp o2 ks2 = Some f ->
  (forall a, deval e o1 = DVal a -> incl (dkeys e o1) ks1) ->
  (forall a, deval e o2 = DVal a -> incl (dkeys e o2) ks2) ->
  dres_same (deval e o1) (deval e o2).
Proof. exact fp_determines_dispatch. Qed.
Print Assumptions C07_fingerprint_determines_dispatch.

(** The investigated corner, for EVERY dispatch form: dispatch key absent under [o1] (unwrapped
    default, or an Option default supplying the dispatch value: the key is not in the
    fingerprint) vs. present under [o2] with a successful dispatch: the fingerprints differ. *)
Theorem C07_absent_vs_present_fingerprints_differ : forall e k v o1 o2 ks1 ks2 f,
  dkey e = Some k -> assoc k o1 = None -> assoc k o2 = Some v ->
  incl (dkeys e o2) ks2 ->
  mk_fp o1 ks1 = Some f -> mk_fp o2 ks2 = Some f -> False.
Proof. exact absent_present_fp_differ. Qed.
Print Assumptions C07_absent_vs_present_fingerprints_differ.

(** * Witnesses (concrete instance of Model/DispatchRun.v) *)
Definition rd (k : N) : idesc := {| i_reads := [(k, None)]; i_bad := None |}.
Definition tb : itbl := [(1, rd 10); (2, rd 10); (3, rd 10); (4, rd 10)].

(** REFUTATION of the full statement (finding D19 seen through C07): dispatch =
    Option(K20, default 5, domain [5,6]); {K20: 9, K10: 1} — dispatch fails on a PRESENT value,
    the unwrapped default computes and stores under fingerprint [K10=1]; then {K10: 1} — the
    dispatch value is 5 (Option default), alias 5 IS registered, but the fingerprint is again
    [K10=1]: the default's value is served. *)
Theorem C07_no_cross_dispatch_refuted :
  let h := [ONew 1 (DKeyDom 20 (Some 5) [5; 6]) (Some (IFun 1)) (Some 7);
            OOverload 1 [5] 2 2;
            OEval 1 [(20, 9); (10, 1)];
            OEval 1 [(10, 1)]] in
  exists s e1 e2 ov,
    c_run tb cfg_now 10 h (@empty_state val) =
      Some ([ObOk; ObOk; ObVal (VCb 7 (VTag 1 [(10, 1)])) false; ObVal (VCb 7 (VTag 1 [(10, 1)])) true], s) /\
    st_trace s = [e2; e1] /\ e_hit e2 = true /\ e_hit e1 = false /\ e_fp e1 = e_fp e2 /\
    e_disp e1 = e_disp e2 /\ dispatch_safe (e_disp e2) = false /\
    e_dres e1 = DFail EOther /\ e_dres e2 = DVal 5 /\
    ovl_of s 1 = Some ov /\ pick ov [(10, 1)] = Some (IDs 2) /\ pick ov [(20, 9); (10, 1)] = Some (IFun 1).
Proof.
  simpl. eexists. eexists. eexists. eexists.
  split; [vm_compute; reflexivity|].
  split; [vm_compute; reflexivity|].
  vm_compute. repeat split.
Qed.
Print Assumptions C07_no_cross_dispatch_refuted.

(** SECOND REFUTATION (finding D22): [set_dispatch] keeps the cache object, so the hypothesis
    "same dispatch expression" of [C07_no_cross_dispatch_partial] is needed too: a dataset without
    dispatch is evaluated on {K10: 1} (stored under [K10=1]); set_dispatch(Option(K20, default 5))
    and @overload(5); the same dictionary now has dispatch value 5, registered — the old value is
    served.  Both dispatch expressions are outside the D19 zone. *)
Theorem C07_no_cross_dispatch_set_dispatch_refuted :
  let h := [ONew 1 DMissing (Some (IFun 1)) None;
            OEval 1 [(10, 1)];
            OSetDispatch 1 (DKeyDefault 20 5);
            OOverload 1 [5] 2 2;
            OEval 1 [(10, 1)]; OEval 1 [(10, 2)]] in
  exists s e1 e2 e3 e4 ov,
    c_run tb cfg_now 10 h (@empty_state val) =
      Some ([ObOk; ObVal (VTag 1 [(10, 1)]) false; ObOk; ObOk; ObVal (VTag 1 [(10, 1)]) true;
             ObVal (VTag 2 [(10, 2)]) false], s) /\
    st_trace s = [e4; e3; e2; e1] /\ e_hit e2 = true /\ e_hit e1 = false /\ e_fp e1 = e_fp e2 /\
    e_disp e1 = DMissing /\ e_disp e2 = DKeyDefault 20 5 /\
    dispatch_safe (e_disp e1) = true /\ dispatch_safe (e_disp e2) = true /\
    e_dres e1 = DVal missing_alias /\ e_dres e2 = DVal 5 /\
    ovl_of s 1 = Some ov /\ pick ov [(10, 1)] = Some (IDs 2).
Proof.
  simpl. eexists. eexists. eexists. eexists. eexists. eexists.
  split; [vm_compute; reflexivity|].
  split; [vm_compute; reflexivity|].
  vm_compute. repeat split.
Qed.
Print Assumptions C07_no_cross_dispatch_set_dispatch_refuted.

(** OLD CODE (before fix: b8adbdb, finding D11): the pre-fix registration loop, on an interface
    with members 101 (abstract, first in the class dictionary) and 102 (abstract, annotated),
    given an implementation providing only 101: rejected AND 101 registered.  The code as it is
    now rejects the same implementation and registers nothing. *)
Theorem C07_old_code_refuted :
  let h := [OInterface 1 (DKey 20) [(101, MAbstract 11); (102, MAbstract 12)];
            OImplement [1] [5] [(101, IFun 1)]] in
  exists s_old s_now,
    c_run tb {| c_validate_first := false; c_keep_callback := true |} 10 h (@empty_state val) = Some ([ObOk; ObRej], s_old) /\
    binding s_old 11 5 = Some (IFun 1) /\
    c_run tb cfg_now 10 h (@empty_state val) = Some ([ObOk; ObRej], s_now) /\
    binding s_now 11 5 = None.
Proof.
  simpl. eexists. eexists.
  split; [vm_compute; reflexivity|].
  split; [vm_compute; reflexivity|].
  split; [vm_compute; reflexivity|].
  vm_compute. reflexivity.
Qed.
Print Assumptions C07_old_code_refuted.

(** OLD CODE (before fix: 3f28b1e, finding D8): with_options dropped the callback but shared the
    cache: the derivative stores the un-called-back value and the base then serves it, which
    contradicts [C07_callback_on_every_observation]; the code as it is now returns cb7(...). *)
Theorem C07_old_with_options_refuted :
  let h := [ONew 1 DMissing (Some (IFun 1)) (Some 7); OWithOptions 2 1 [(30, 1)];
            OEval 2 [(10, 1)]; OEval 1 [(10, 1)]] in
  option_map fst (c_run tb {| c_validate_first := true; c_keep_callback := false |} 10 h (@empty_state val)) =
    Some [ObOk; ObOk; ObVal (VTag 1 [(10, 1)]) false; ObVal (VTag 1 [(10, 1)]) true] /\
  option_map fst (c_run tb cfg_now 10 h (@empty_state val)) =
    Some [ObOk; ObOk; ObVal (VCb 7 (VTag 1 [(10, 1)])) false; ObVal (VCb 7 (VTag 1 [(10, 1)])) true].
Proof. split; vm_compute; reflexivity. Qed.
Print Assumptions C07_old_with_options_refuted.

(** * Non-vacuity *)

(** A history interleaving registration, evaluation and set_dispatch: the second evaluation is
    "already stored" (served: the default's value although alias 5 is registered by then), the
    third is not and uses the late registration; the list alias 6 serves after set_dispatch; an
    absent dispatch key and an unregistered value give the default. *)
Definition ex_h1 : list op :=
  [ONew 1 (DKey 20) (Some (IFun 1)) (Some 7); OEval 1 [(20, 5); (10, 1)];
   OOverload 1 [5; 6] 2 2; OEval 1 [(20, 5); (10, 1)]; OEval 1 [(20, 5); (10, 2)];
   OSetDispatch 1 (DKey 21); OEval 1 [(21, 6); (10, 1)]; OEval 1 [(10, 1)]; OEval 1 [(21, 9); (10, 1)]].

Example C07_example_history :
  option_map fst (c_run tb cfg_now 10 ex_h1 (@empty_state val)) =
    Some [ObOk; ObVal (VCb 7 (VTag 1 [(10, 1)])) false; ObOk;
          ObVal (VCb 7 (VTag 1 [(10, 1)])) true;
          ObVal (VCb 7 (VTag 2 [(10, 2)])) false; ObOk;
          ObVal (VCb 7 (VTag 2 [(10, 1)])) false;
          ObVal (VCb 7 (VTag 1 [(10, 1)])) false;
          ObVal (VCb 7 (VTag 1 [(10, 1)])) false].
Proof. vm_compute. reflexivity. Qed.
Print Assumptions C07_example_history.

(** the hypotheses of [C07_late_registration_applies] are satisfiable on it ([x] = the
    @overload([5,6]) at position 2, alias 6, six later operations incl. set_dispatch) *)
Example C07_late_registration_hyps :
  registers (OOverload 1 [5; 6] 2 2) 1 6 (IDs 2) /\
  forallb (op_quiet 6) (skipn 3 ex_h1) = true /\
  ex_h1 = firstn 2 ex_h1 ++ OOverload 1 [5; 6] 2 2 :: skipn 3 ex_h1 /\
  (exists s, option_map snd (c_run tb cfg_now 10 ex_h1 (@empty_state val)) = Some s /\
             binding s 1 6 = Some (IDs 2) /\ dispatch_safe (DKey 21) = true).
Proof.
  split; [simpl; auto|]. split; [reflexivity|]. split; [reflexivity|].
  eexists. split; [vm_compute; reflexivity|]. split; vm_compute; reflexivity.
Qed.
Print Assumptions C07_late_registration_hyps.

(** An interface (abstract / default / adopted member with a callback), an accepted
    implementation under a list alias, two rejected ones (omitted abstract member; unknown name):
    tables unchanged by the rejected ones, members consistent, [keeps] holds. *)
Definition ex_h2 : list op :=
  [ONew 3 DMissing (Some (IFun 3)) (Some 7);
   OInterface 1 (DKey 20) [(101, MAbstract 11); (102, MDefault 12 2); (103, MExisting 3)];
   OImplement [1] [5; 6] [(101, IFun 1)];
   OEval 11 [(20, 5); (10, 1)]; OEval 12 [(20, 5); (10, 1)]; OEval 3 [(20, 6); (10, 1)];
   OImplement [1] [8] [(102, IFun 4)];
   OImplement [1] [8] [(101, IFun 1); (104, IFun 4)];
   OEval 11 [(20, 8); (10, 1)]; OEval 11 [(10, 1)]].

Example C07_example_interface :
  option_map fst (c_run tb cfg_now 10 ex_h2 (@empty_state val)) =
    Some [ObOk; ObOk; ObOk; ObVal (VTag 1 [(10, 1)]) false; ObVal (VTag 2 [(10, 1)]) false;
          ObVal (VCb 7 (VTag 3 [(10, 1)])) false; ObRej; ObRej; ObErr ESwitch; ObErr (EKey 20)] /\
  keeps val (c_ieval tb) (c_ikeys tb) c_cb 10 ex_h2 (@empty_state val) = true.
Proof. split; vm_compute; reflexivity. Qed.
Print Assumptions C07_example_interface.

(** set_dispatch on a member is what [keeps] excludes *)
Example C07_keeps_needed :
  keeps val (c_ieval tb) (c_ikeys tb) c_cb 10 (firstn 2 ex_h2 ++ [OSetDispatch 11 (DKey 21)]) (@empty_state val) = false.
Proof. vm_compute. reflexivity. Qed.
Print Assumptions C07_keeps_needed.

(** … and then members DO disagree: the conclusion of [C07_interface_consistent] fails without
    its [keeps] hypothesis.  Interface 1 dispatching on K20 with abstract members 101 (dataset
    11) and 102 (dataset 12); implementations under alias 5 (functions 1, 2) and alias 6
    (functions 3, 4).  Under {K20: 5, K21: 6} both members run alias 5's implementation (tags 1
    and 2) — up to there [keeps] holds.  After [set_dispatch(K21)] on member 11, under the same
    K20 / K21 (K10 changed so that nothing is served from a cache) member 11 runs alias 6's
    implementation (tag 3) while member 12 still runs alias 5's (tag 2): in the final state the
    two members' dispatch expressions differ, one is no longer the interface's, and they
    evaluate to different dispatch values (6 vs 5) under that one dictionary. *)
Definition ex_h3 : list op :=
  [OInterface 1 (DKey 20) [(101, MAbstract 11); (102, MAbstract 12)];
   OImplement [1] [5] [(101, IFun 1); (102, IFun 2)];
   OImplement [1] [6] [(101, IFun 3); (102, IFun 4)];
   OEval 11 [(20, 5); (21, 6); (10, 1)]; OEval 12 [(20, 5); (21, 6); (10, 1)];
   OSetDispatch 11 (DKey 21);
   OEval 11 [(20, 5); (21, 6); (10, 2)]; OEval 12 [(20, 5); (21, 6); (10, 2)]].

Theorem C07_interface_consistent_without_keeps_refuted :
  keeps val (c_ieval tb) (c_ikeys tb) c_cb 10 (firstn 5 ex_h3) (@empty_state val) = true /\
  keeps val (c_ieval tb) (c_ikeys tb) c_cb 10 ex_h3 (@empty_state val) = false /\
  option_map fst (c_run tb cfg_now 10 ex_h3 (@empty_state val)) =
    Some [ObOk; ObOk; ObOk; ObVal (VTag 1 [(10, 1)]) false; ObVal (VTag 2 [(10, 1)]) false; ObOk;
          ObVal (VTag 3 [(10, 2)]) false; ObVal (VTag 2 [(10, 2)]) false] /\
  exists s f ov1 ov2,
    option_map snd (c_run tb cfg_now 10 ex_h3 (@empty_state val)) = Some s /\
    assoc 1 (st_if s) = Some f /\ In (101, 11) (if_members f) /\ In (102, 12) (if_members f) /\
    ovl_of s 11 = Some ov1 /\ ovl_of s 12 = Some ov2 /\
    o_disp ov1 <> if_disp f /\ o_disp ov2 = if_disp f /\
    deval (o_disp ov1) [(20, 5); (21, 6); (10, 2)] <> deval (o_disp ov2) [(20, 5); (21, 6); (10, 2)].
Proof.
  split; [vm_compute; reflexivity|]. split; [vm_compute; reflexivity|]. split; [vm_compute; reflexivity|].
  eexists. eexists. eexists. eexists.
  split; [vm_compute; reflexivity|]. split; [vm_compute; reflexivity|].
  split; [vm_compute; auto|]. split; [vm_compute; auto|].
  split; [vm_compute; reflexivity|]. split; [vm_compute; reflexivity|].
  split; [vm_compute; discriminate|]. split; [vm_compute; reflexivity|]. vm_compute; discriminate.
Qed.
Print Assumptions C07_interface_consistent_without_keeps_refuted.
