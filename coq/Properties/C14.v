(** C14 — Handler scoping: the entered runtime serves; leaving a block restores the prior.
    Statements about Model/Runtime.v (labrea/runtime.py as of fix: 93f0f4c, fd53836, 8a7cb3b), each
    closed by [exact] and followed by [Print Assumptions]; non-vacuity [Example]s at the end.
    Every [forall ops] / [forall body] is an unbounded quantification over operation lists. *)
From Coq Require Import List NArith Bool.
Import ListNotations.
From LV Require Import Model.Runtime Proofs.RuntimeProofs.

(** ** Refinement to the stack specification.
    For ALL operation sequences (any length, any runtime objects -- fresh, derived elsewhere,
    reused, re-entered while active --, any request types and handlers; well nested or not:
    an unmatched exit is rejected identically on both sides), started from ANY thread state
    satisfying the code's invariant [state_ok] (in particular a thread with or without a
    runtime, below), every operation -- in particular every [Run] -- is answered by the code
    model exactly as the stack specification answers it, and the abstraction of the final
    state is the specification's final state.  No side condition on handlers. *)
Theorem C14_refines_stack : forall ops s,
  state_ok s = true ->
  snd (run ops s) = snd (arun ops (abs s)) /\
  abs (fst (run ops s)) = fst (arun ops (abs s)) /\
  state_ok (fst (run ops s)) = true.
Proof. exact refines_stack. Qed.
Print Assumptions C14_refines_stack.

(** One commuting square per operation (the lemma the refinement is lifted from). *)
Theorem C14_step_commutes : forall c s,
  state_ok s = true ->
  abs (fst (step c s)) = fst (astep c (abs s)) /\
  snd (step c s) = snd (astep c (abs s)) /\
  state_ok (fst (step c s)) = true.
Proof. exact step_commutes. Qed.
Print Assumptions C14_step_commutes.

(** The two initial situations of the property satisfy the invariant, and abstract to the
    empty stack without / with a base runtime. *)
Theorem C14_fresh_thread_ok : forall o,
  state_ok (fresh_thread o) = true /\ abs (fresh_thread o) = mkA o [] None.
Proof. exact (fun o => conj (fresh_thread_ok o) (abs_fresh_thread o)). Qed.
Print Assumptions C14_fresh_thread_ok.

Theorem C14_thread_with_ok : forall r o,
  state_ok (thread_with r o) = true /\ abs (thread_with r o) = mkA o [] (Some r).
Proof. exact (fun r o => conj (thread_with_ok r o) (abs_thread_with r o)). Qed.
Print Assumptions C14_thread_with_ok.

(** ** Leaving a block restores exactly what was current before it.
    For ALL states s (no invariant needed: with or without a current runtime, at any depth),
    ALL runtimes r, ALL well-nested bodies (arbitrary length; may re-enter r itself, leave
    inner blocks by exception, derive, register defaults, run requests), left normally
    ([Exit]) or by exception ([ExitExc]): the current-runtime slot and the saved stack after
    the block are those before it, and the closing exit is never unmatched. *)
Theorem C14_exit_restores : forall r body x s,
  balanced body = true -> is_exit x = true ->
  let s' := fst (run (Enter r :: body ++ [x]) s) in
  cur s' = cur s /\ saved s' = saved s /\ ob s' = ob (fst (run body (enter r s))) /\
  last (snd (run (Enter r :: body ++ [x]) s)) ODone <> OUnmatchedExit.
Proof. exact exit_restores. Qed.
Print Assumptions C14_exit_restores.

(** ... including "the thread had no runtime before": the slot is removed again. *)
Theorem C14_exit_restores_no_runtime : forall r body x s,
  balanced body = true -> is_exit x = true -> cur s = None ->
  cur (fst (run (Enter r :: body ++ [x]) s)) = None.
Proof. exact exit_restores_no_runtime. Qed.
Print Assumptions C14_exit_restores_no_runtime.

(** Any well-nested sequence run while the thread has a current runtime preserves it. *)
Theorem C14_balanced_preserves : forall body s r,
  balanced body = true -> cur s = Some r ->
  cur (fst (run body s)) = Some r /\ saved (fst (run body s)) = saved s.
Proof. exact balanced_preserves. Qed.
Print Assumptions C14_balanced_preserves.

(** After [Enter r] and any well-nested prefix of the body, r is the current runtime. *)
Theorem C14_entered_is_current : forall r pre s,
  balanced pre = true -> cur (fst (run (Enter r :: pre) s)) = Some r.
Proof. exact entered_is_current. Qed.
Print Assumptions C14_entered_is_current.

(** ** Deriving never alters the runtime it derives from, nor any other existing runtime,
    nor the defaults, nor the saved stack ... *)
Theorem C14_derive_pure : forall sr ov s r t,
  heap_fresh (ob s) = true -> lookup r (heap (ob s)) = Some t ->
  lookup r (heap (ob (fst (step (Derive sr ov) s)))) = Some t /\
  defaults (ob (fst (step (Derive sr ov) s))) = defaults (ob s) /\
  prev (fst (step (Derive sr ov) s)) = prev s.
Proof. exact derive_pure. Qed.
Print Assumptions C14_derive_pure.

(** ... indeed no operation sequence whatsoever changes an existing runtime's handlers. *)
Theorem C14_tables_immutable : forall ops s r t,
  heap_fresh (ob s) = true -> lookup r (heap (ob s)) = Some t ->
  lookup r (heap (ob (fst (run ops s)))) = Some t.
Proof. exact tables_immutable. Qed.
Print Assumptions C14_tables_immutable.

(** A derived runtime holds its overrides, else the handlers of the runtime it was derived
    from, else the defaults of the moment of derivation. *)
Theorem C14_derived_holds : forall r ov o t,
  let (n, o') := derive r ov o in
  lookup t (handlers_of o' n) =
    match lookup t ov with
    | Some h => Some h
    | None => match lookup t (handlers_of o r) with
              | Some h => Some h
              | None => lookup t (defaults o)
              end
    end.
Proof. exact derived_holds. Qed.
Print Assumptions C14_derived_holds.

(** ** A default registered after runtime r was created is served by r for a type r holds no
    handler for -- whatever happens in between (any operations [mid], of any length, that do
    not register that type again). *)
Theorem C14_late_default_served : forall s r tb t h mid,
  heap_fresh (ob s) = true ->
  lookup r (heap (ob s)) = Some tb -> lookup t tb = None ->
  registers t mid = false ->
  let s2 := fst (run (RegisterDefault t h :: mid) s) in
  snd (run [Enter r; Run t] s2) = [ORet r; OServed h].
Proof. exact late_default_served. Qed.
Print Assumptions C14_late_default_served.

(** ** The serve rule: handler held by the current runtime, else the current default, else
    TypeError; the request does not change the state. *)
Theorem C14_handler_else_default_else_typeerror : forall s r t,
  cur s = Some r ->
  step (Run t) s =
    (s, match lookup t (handlers_of (ob s) r) with
        | Some h => OServed h
        | None => match lookup t (defaults (ob s)) with
                  | Some d => OServed d
                  | None => OTypeError
                  end
        end).
Proof. exact serve_rule. Qed.
Print Assumptions C14_handler_else_default_else_typeerror.

(** In a thread without a runtime the request is served by the current default (else
    TypeError) and a fresh runtime becomes the thread's runtime; the saved stack is untouched. *)
Theorem C14_serve_without_runtime : forall s t,
  cur s = None ->
  snd (step (Run t) s) =
    match lookup t (defaults (ob s)) with Some d => OServed d | None => OTypeError end /\
  cur (fst (step (Run t) s)) = Some (next (ob s)) /\ prev (fst (step (Run t) s)) = prev s.
Proof. exact serve_rule_no_runtime. Qed.
Print Assumptions C14_serve_without_runtime.

(** ** About the OLD code only (before fix: 93f0f4c; NOT the current /repo): with the single
    [previous] pointer stored on the runtime object, re-entering an active runtime, or
    entering one in a thread without a runtime, loses the runtime to restore: the next request
    crashes on None, where the specification -- and the current code -- serve it by default. *)
Theorem C14_old_code_refuted :
  exists ops o,
    last (snd (run_old ops (old_thread_with 0%N o))) (OO ODone) = OAttributeError /\
    last (snd (arun ops (abs (thread_with 0%N o)))) ODone = OServed 2%N /\
    snd (run ops (thread_with 0%N o)) = snd (arun ops (abs (thread_with 0%N o))).
Proof. exact old_code_refuted_reentry. Qed.
Print Assumptions C14_old_code_refuted.

Theorem C14_old_code_refuted_no_runtime :
  exists ops o,
    last (snd (run_old ops (old_fresh_thread o))) (OO ODone) = OAttributeError /\
    last (snd (arun ops (abs (fresh_thread o)))) ODone = OServed 2%N /\
    snd (run ops (fresh_thread o)) = snd (arun ops (abs (fresh_thread o))).
Proof. exact old_code_refuted_no_runtime. Qed.
Print Assumptions C14_old_code_refuted_no_runtime.

(** ** About the OLD code only (fd53836 .. before fix: 8a7cb3b; NOT the current /repo): with
    [self.handlers.get(T) or _DEFAULT_HANDLERS[T]] in Runtime.run a held handler whose truth
    value is False was skipped in favour of the default, where the specification -- and the
    current code -- serve with the held handler. *)
Theorem C14_old_or_fallback_refuted :
  exists ops s,
    state_ok s = true /\
    last (snd (run_or_old ops s)) ODone = OServed 2%N /\
    last (snd (arun ops (abs s))) ODone = OServed falsy_tag /\
    snd (run ops s) = snd (arun ops (abs s)).
Proof. exact old_or_fallback_refuted. Qed.
Print Assumptions C14_old_or_fallback_refuted.

(** ** Non-vacuity. *)
Open Scope N_scope.

(** A nested, re-entrant history in a FRESH thread: object 0 = Runtime({T1: h1}) made
    elsewhere; entered, re-entered while active, inner block left by exception; a derived
    runtime (object 1) entered inside; a late default for T2; after the outermost block the
    thread has no runtime again and the next request creates one (object 2). *)
Definition ex_history : list op :=
  [ New [(1, 1)]; Enter 0; Run 1; Enter 0; Run 1;
    Derive SCur [(1, 3)]; Enter 1; Run 1; Run 2; RegisterDefault 2 2; Run 2; ExitExc;
    Run 1; Exit; Run 1; Run 2; Exit; Run 1; Run 2; GetCur ].

Example C14_example_answers :
  snd (run ex_history (fresh_thread (mkObjs [] 0 []))) =
  [ ORet 0; ORet 0; OServed 1; ORet 0; OServed 1;
    ORet 1; ORet 1; OServed 3; OTypeError; ODone; OServed 2; ORaised;
    OServed 1; ODone; OServed 1; OServed 2; ODone; OTypeError; OServed 2; ORet 2 ]
  /\ snd (arun ex_history (abs (fresh_thread (mkObjs [] 0 [])))) =
     snd (run ex_history (fresh_thread (mkObjs [] 0 []))).
Proof. vm_compute. repeat split. Qed.

(** The hypotheses of C14_exit_restores are met by a body that re-enters r, raises out of an
    inner block, derives and registers; and the block really is transparent for the slot. *)
Example C14_example_block :
  let body := [ Run 1; Enter 0; Derive SCur [(2, 3)]; Enter 1; RegisterDefault 1 2; ExitExc;
                Run 2; Exit; Run 1 ] in
  let s := fst (run [New [(1, 1)]] (fresh_thread (mkObjs [] 0 []))) in
  balanced body = true /\ cur s = None /\
  cur (fst (run (Enter 0 :: body ++ [ExitExc]) s)) = None /\
  saved (fst (run (Enter 0 :: body ++ [ExitExc]) s)) = [].
Proof. vm_compute. repeat split. Qed.

(** The hypotheses of C14_late_default_served are satisfiable (r = object 0 holds no T2). *)
Example C14_example_late_default :
  let s := fst (run [New [(1, 1)]; GetCur] (fresh_thread (mkObjs [] 0 []))) in
  heap_fresh (ob s) = true /\ lookup 0 (heap (ob s)) = Some [(1, 1)] /\
  lookup 2 [(1, 1)] = None (A := tag) /\
  snd (run [RegisterDefault 2 3; Enter 0; Run 2] s) = [ODone; ORet 0; OServed 3].
Proof. vm_compute. repeat split. Qed.

(** An ill-nested sequence is recognised as such, and an unmatched exit changes nothing. *)
Example C14_example_unmatched :
  balanced [Exit; Enter 0] = false /\
  run [Exit] (thread_with 0 (mkObjs [(0, [])] 1 [])) =
    (thread_with 0 (mkObjs [(0, [])] 1 []), [OUnmatchedExit]).
Proof. vm_compute. repeat split. Qed.

(** The current code serves with a held handler whatever its truth value ([falsy_tag] is a
    callable whose bool() is False): the witness of C14_old_or_fallback_refuted, today. *)
Example C14_example_falsy_handler_serves :
  snd (run falsy_witness (fresh_thread (mkObjs [] 0 []))) =
    [ODone; ORet 0; ORet 0; OServed falsy_tag].
Proof. vm_compute. reflexivity. Qed.
