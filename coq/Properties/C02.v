(** C02 — Memoization is effective: one body run per relevant option assignment.
    Statements only, each closed by [exact]; lemmas are in Proofs/C02Proofs.v.
    Setting: the REAL memo store of Model/EvalRun.v (one association list per MemoryCache), the
    cache clause [ECached (CMem cid) e] of Model/Eval.v, ALL user code ([ucall] universally
    quantified), all switches [cfg], all stores [s], all dictionaries.  Fragment: [kstatic e]
    (keys() of the cached expression never looks at the store and runs no user code: no
    case-when / coalesce / Map on the path keys() walks, dispatch of switch / bind / overloads a
    constant or a plain Option); for the "irrelevant change" sentence [kfrag] = [kstatic] without
    AllOptions and with duplicate-free pre-set dictionaries. *)
From Coq Require Import List NArith ZArith Bool Permutation.
Import ListNotations.
From LV Require Import Model.Base Model.Template Model.Eval Model.Derived Model.EvalRun
  Proofs.FrameProofs Proofs.TraceProofs Proofs.C02Proofs.

Section C02.
  Variable cfg : config.
  Variable ucall : N -> list value -> cres.
  Variable rfuel : nat.
  Variable site_ok : expr -> dict -> bool.

  Notation eval := (eval store mem_find mem_store cfg ucall rfuel site_ok).
  Notation validate := (validate store mem_find mem_store cfg ucall rfuel site_ok).
  Notation keys := (keys store mem_find mem_store cfg ucall rfuel site_ok).
  Notation fingerprint := (fingerprint store mem_find mem_store cfg ucall rfuel site_ok).
  Notation effect_run := (effect_run store mem_find mem_store cfg ucall rfuel site_ok).
  Notation fp_res := (fp_res cfg ucall rfuel site_ok).
  Notation fp_log := (fp_log cfg ucall rfuel site_ok).
  Notation hit_log := (hit_log cfg ucall rfuel site_ok).
  Notation miss_log := (miss_log cfg ucall rfuel site_ok).
  Notation hist_store := (hist_store cfg ucall rfuel site_ok).
  Notation cache_off := (cache_off cfg).

  (** the fingerprint of a [kstatic] expression is a function of the dictionary alone: the
      computation leaves every store as it is and logs only option reads *)
  Theorem C02_fingerprint_is_a_function : forall e o,
    kstatic e = true ->
    quiet (fp_log e o) = true /\ forall s, fingerprint e o s = (fp_res e o, s, fp_log e o).
  Proof. exact (fingerprint_run cfg ucall rfuel site_ok). Qed.

  (** (1) "returns the stored value without running the body": a hit returns the stored value,
      leaves the store unchanged, and its log is exactly: option reads of the fingerprint,
      exists(true), the same reads, get(true) — no user call, no log request, no cache write *)
  Theorem C02_hit_runs_nothing : forall cid e o s f v,
    kstatic e = true -> cache_off o = false ->
    fp_res e o = Ok f -> mem_find cid f s = Some v ->
    eval (ECached (CMem cid) e) o s = (Ok v, s, hit_log cid e o).
  Proof. exact (hit_runs_nothing cfg ucall rfuel site_ok). Qed.

  Theorem C02_hit_log_has_only_reads_exists_get : forall cid e o,
    kstatic e = true ->
    forallb (hit_event cid) (hit_log cid e o) = true /\ code_free (hit_log cid e o) = true.
  Proof.
    exact (fun cid e o Hk => conj (hit_log_events cfg ucall rfuel site_ok cid e o Hk)
                                  (hit_log_code_free cfg ucall rfuel site_ok cid e o Hk)).
  Qed.

  (** every successful evaluation of a cached node is either such a hit or a miss that evaluates
      the expression once and stores its value under the fingerprint *)
  Theorem C02_hit_or_storing_miss : forall cid e o s v s' l,
    kstatic e = true -> cache_off o = false ->
    eval (ECached (CMem cid) e) o s = (Ok v, s', l) ->
    exists f, fp_res e o = Ok f /\
      ((mem_find cid f s = Some v /\ s' = s /\ l = hit_log cid e o) \/
       (mem_find cid f s = None /\
        exists s1 l1, eval e o s = (Ok v, s1, l1) /\
                      s' = mem_store cid f (exhaust v) s1 /\ l = miss_log cid e o v l1)).
  Proof. exact (node_eval_ok cfg ucall rfuel site_ok). Qed.

  (** the store: find after put; put disturbs no other fingerprint and no other cache; no
      evaluate / validate / keys run of ANY expression ever removes an entry *)
  Theorem C02_find_after_put : forall c f v s, mem_find c f (mem_store c f v s) = Some v.
  Proof. exact mem_find_store_same. Qed.
  Theorem C02_put_keeps_other_fingerprints : forall c f g v s,
    g <> f -> mem_find c g (mem_store c f v s) = mem_find c g s.
  Proof. exact mem_find_store_other_fp. Qed.
  Theorem C02_put_keeps_other_caches : forall c c' f g v s,
    c <> c' -> mem_find c g (mem_store c' f v s) = mem_find c g s.
  Proof. exact mem_find_store_other_cache. Qed.
  Theorem C02_entries_are_never_removed : forall e o s r s' l,
    eval e o s = (r, s', l) -> forall c f, mem_find c f s <> None -> mem_find c f s' <> None.
  Proof. exact (eval_mono cfg ucall rfuel site_ok). Qed.

  (** (2) "repeating an evaluation …": after one successful evaluation, EVERY later evaluation
      of the node under a dictionary with the same fingerprint is a hit — whatever operations
      (evaluate / validate / keys of any expressions under any dictionaries) ran in between *)
  Theorem C02_miss_then_hit : forall cid e o1 o2 s v s1 l hs,
    kstatic e = true -> cache_off o1 = false -> cache_off o2 = false ->
    eval (ECached (CMem cid) e) o1 s = (Ok v, s1, l) ->
    fp_res e o2 = fp_res e o1 ->
    let s2 := hist_store hs s1 in
    exists v', eval (ECached (CMem cid) e) o2 s2 = (Ok v', s2, hit_log cid e o2) /\
               code_free (hit_log cid e o2) = true.
  Proof. exact (miss_then_hit cfg ucall rfuel site_ok). Qed.

  (** the immediate repeat returns the same value (a value holding a generator comes back
      exhausted — that is finding D21, reproduced by the model) *)
  Theorem C02_immediate_repeat_same_value : forall cid e o s v s1 l,
    kstatic e = true -> cache_off o = false ->
    eval (ECached (CMem cid) e) o s = (Ok v, s1, l) ->
    exists v', eval (ECached (CMem cid) e) o s1 = (Ok v', s1, hit_log cid e o) /\
               (has_lazy v = false -> v' = v) /\ (v' = v \/ v' = exhaust v).
  Proof. exact (immediate_repeat cfg ucall rfuel site_ok). Qed.

  (** "runs at most once per distinct assignment": along ANY history that interleaves
      evaluations of one cached node with arbitrary other operations, from ANY initial store,
      for every fingerprint [f]: at most ONE successful evaluation (cache switched on) under a
      dictionary with fingerprint [f] runs any code (user call, log request, cache write) *)
  Theorem C02_body_at_most_once : forall cid e f its s,
    kstatic e = true ->
    (List.length (filter (counted cfg ucall rfuel site_ok e f)
               (run_items cfg ucall rfuel site_ok (ECached (CMem cid) e) its s)) <= 1)%nat.
  Proof. exact (body_at_most_once cfg ucall rfuel site_ok). Qed.

  (** a failing evaluation stores nothing under its fingerprint (so the body may run again):
      either the fingerprint cannot be computed, or it was a miss whose expression failed *)
  Theorem C02_failure_is_not_stored : forall cid e o s c ee s' l,
    kstatic e = true -> cache_off o = false ->
    eval (ECached (CMem cid) e) o s = (Err c ee, s', l) ->
    (exists ee0, fp_res e o = Err c ee0 /\ s' = s) \/
    (exists f ee0 l1, fp_res e o = Ok f /\ mem_find cid f s = None /\ eval e o s = (Err c ee0, s', l1)).
  Proof. exact (node_eval_err cfg ucall rfuel site_ok). Qed.

  (** (3) "adding or changing options that nothing in the graph refers to": if [o'] holds the
      same entry as [o] under every top-level name that a key looked up by the keys()-run starts
      with, the fingerprint computation under [o'] IS the one under [o] *)
  Theorem C02_irrelevant_change_same_fingerprint : forall e o o',
    kfrag e = true -> nodup_keys o = true -> nodup_keys o' = true ->
    tagree o o' (reads_of (fp_log e o)) ->
    forall s, fingerprint e o' s = fingerprint e o s.
  Proof. exact (irrelevant_change_same_fingerprint cfg ucall rfuel site_ok). Qed.

  (** every key keys() reports was looked up by that run (so "the keys the run looks up" covers
      the reported keys the fingerprint reads the values of) *)
  Theorem C02_reported_keys_were_looked_up : forall e o s ks s' l,
    kfrag e = true -> keys e o s = (Ok ks, s', l) -> incl ks (reads_of l).
  Proof. exact (fun e o s ks s' l Hk => keys_reported_read cfg ucall rfuel site_ok e Hk o s ks s' l). Qed.

  (** … hence the evaluation under the changed dictionary is a hit *)
  Theorem C02_irrelevant_change_is_hit : forall cid e o o' s v s1 l hs,
    kfrag e = true -> nodup_keys o = true -> nodup_keys o' = true ->
    cache_off o = false -> cache_off o' = false ->
    eval (ECached (CMem cid) e) o s = (Ok v, s1, l) ->
    tagree o o' (reads_of (fp_log e o)) ->
    let s2 := hist_store hs s1 in
    exists v', eval (ECached (CMem cid) e) o' s2 = (Ok v', s2, hit_log cid e o') /\
               code_free (hit_log cid e o') = true.
  Proof. exact (irrelevant_change_is_hit cfg ucall rfuel site_ok). Qed.

  (** the two shapes named by the property: an added / changed never-mentioned top-level key … *)
  Theorem C02_unmentioned_key_is_hit : forall cid e o nm x s v s1 l hs,
    kfrag e = true -> nodup_keys o = true -> nm <> SName A_LABREA ->
    forallb (fun k => negb (starts_with nm k)) (reads_of (fp_log e o)) = true ->
    cache_off o = false ->
    eval (ECached (CMem cid) e) o s = (Ok v, s1, l) ->
    let s2 := hist_store hs s1 in
    let o' := dset nm x o in
    exists v', eval (ECached (CMem cid) e) o' s2 = (Ok v', s2, hit_log cid e o') /\
               code_free (hit_log cid e o') = true.
  Proof. exact (unmentioned_key_is_hit cfg ucall rfuel site_ok). Qed.

  (** … and the top-level order permuted *)
  Theorem C02_permuted_options_is_hit : forall cid e o o' s v s1 l hs,
    kfrag e = true -> nodup_keys o = true -> Permutation o o' ->
    ~ In [] (reads_of (fp_log e o)) -> cache_off o = false ->
    eval (ECached (CMem cid) e) o s = (Ok v, s1, l) ->
    let s2 := hist_store hs s1 in
    exists v', eval (ECached (CMem cid) e) o' s2 = (Ok v', s2, hit_log cid e o') /\
               code_free (hit_log cid e o') = true.
  Proof. exact (permuted_options_is_hit cfg ucall rfuel site_ok). Qed.

  (** (5) "within one evaluation a dependency shared by several consumers runs once": among
      sibling sub-expressions evaluated in sequence under one dictionary (the parameters of a
      dataset body, the steps of a pipeline) the second occurrence of a cached node is a hit,
      whatever is evaluated in between.  (For consumers nested deeper, [C02_miss_then_hit]
      applies at the state the nested evaluation starts from, which is later in the [mono] order;
      nested diamonds as whole graphs are exercised by the harness.) *)
  Theorem C02_shared_dependency_runs_once : forall cid e o pre mid post s vs s' l,
    kstatic e = true -> cache_off o = false ->
    let n := ECached (CMem cid) e in
    mapM store (fun x => eval x o) (pre ++ n :: mid ++ n :: post) s = (Ok vs, s', l) ->
    exists va v1 vm w vp s1 s2 s4 la l1 lb lc,
      (* the run decomposes: [pre], the first occurrence, [mid] ... *)
      mapM store (fun x => eval x o) pre s = (Ok va, s1, la) /\
      eval n o s1 = (Ok v1, s2, l1) /\
      mapM store (fun x => eval x o) mid s2 = (Ok vm, s4, lb) /\
      mapM store (fun x => eval x o) (pre ++ n :: mid) s = (Ok (va ++ v1 :: vm), s4, la ++ l1 ++ lb) /\
      (* ... in the state reached after [pre ++ n :: mid] the second occurrence IS a hit: stored
         value, store unchanged, log = hit_log (reads, exists(true), reads, get(true)) ... *)
      eval n o s4 = (Ok w, s4, hit_log cid e o) /\
      (* ... then [post], from that same store; values and log of the whole run are the
         concatenations *)
      mapM store (fun x => eval x o) post s4 = (Ok vp, s', lc) /\
      vs = va ++ v1 :: vm ++ w :: vp /\
      l = la ++ l1 ++ lb ++ hit_log cid e o ++ lc /\
      code_free (hit_log cid e o) = true.
  Proof. exact (shared_dependency_runs_once cfg ucall rfuel site_ok). Qed.

  (** (4) "effects run once per body execution, after it and with its value": the log of a
      Computation is the log of its expression followed by the effects' events, in order, each
      effect being [callback(options)(value)] with the expression's value … *)
  Theorem C02_effects_follow_body : forall e effects o s v s1 l1,
    effects_opt_off o = false -> eval e o s = (Ok v, s1, l1) ->
    eval (EComp e effects) o s =
      match iterM store (effect_run o v) effects s1 with
      | (Ok _, s2, l2) => (Ok v, s2, l1 ++ l2)
      | (Err c _, s2, l2) => (Err c true, s2, l1 ++ l2)
      end.
  Proof. exact (effects_follow_body cfg ucall rfuel site_ok). Qed.

  (** … for effects that are plain functions (a function value or a parameterless pipeline
      step): exactly one call each, with the body's value, in the order of registration … *)
  Theorem C02_fn_effects_follow_body : forall e (effs : list (expr * N)) o s v s1 l1,
    effects_opt_off o = false -> eval e o s = (Ok v, s1, l1) -> deep_err v = None ->
    Forall (fun ef => fn_effect cfg ucall rfuel site_ok o (fst ef) (snd ef) /\ user_fn (snd ef) = true /\
                      exists r, ucall (snd ef) [listify v] = COk r) effs ->
    eval (EComp e (map fst effs)) o s = (Ok v, s1, l1 ++ map (fun ef => EvCall (snd ef) [listify v]) effs).
  Proof. exact (fn_effects_follow_body cfg ucall rfuel site_ok). Qed.

  (** … none when the body fails, none when switched off by option … *)
  Theorem C02_no_effect_when_body_fails : forall e effects o s c ee s1 l1,
    eval e o s = (Err c ee, s1, l1) -> eval (EComp e effects) o s = (Err c true, s1, l1).
  Proof. exact (effects_none_on_failure cfg ucall rfuel site_ok). Qed.
  Theorem C02_no_effect_when_disabled_by_option : forall e effects o s,
    effects_opt_off o = true -> eval (EComp e effects) o s = eval e o s.
  Proof. exact (effects_off_by_option cfg ucall rfuel site_ok). Qed.

  (** … "and never on a cache hit": a DATASET (defaults(presets(Cached(Logged(Computation(body
      >> callback, effects)))))) on a hit runs no body, no effect and issues no log request … *)
  Theorem C02_dataset_hit_runs_nothing : forall d cid o s f v,
    d.(ds_cache) = CMem cid -> kstatic (ds_inner d) = true -> cache_off (ds_opts d o) = false ->
    fp_res (ds_inner d) (ds_opts d o) = Ok f -> mem_find cid f s = Some v ->
    eval (dataset_expr d) o s = (Ok v, s, hit_log cid (ds_inner d) (ds_opts d o)) /\
    code_free (hit_log cid (ds_inner d) (ds_opts d o)) = true.
  Proof. exact (dataset_hit_runs_nothing cfg ucall rfuel site_ok). Qed.

  (** … and on a storing miss its log is: fingerprint reads, exists(false), the log request, the
      body with its callback, THEN the effects with the body's value, then the cache write *)
  Theorem C02_dataset_miss_log : forall d cid o s f v s1 lc s2 le,
    d.(ds_cache) = CMem cid -> kstatic (ds_inner d) = true -> d.(ds_effects_disabled) = false ->
    let o' := ds_opts d o in
    cache_off o' = false -> effects_opt_off o' = false ->
    fp_res (ds_inner d) o' = Ok f -> mem_find cid f s = None ->
    eval (ds_calc d) o' s = (Ok v, s1, lc) ->
    iterM store (effect_run o' v) d.(ds_effects) s1 = (Ok tt, s2, le) ->
    eval (dataset_expr d) o s =
      (Ok v, mem_store cid f (exhaust v) s2,
       miss_log cid (ds_inner d) o' v ([EvLogReq] ++ emit_log cfg o' ++ lc ++ le)).
  Proof. exact (dataset_miss_log cfg ucall rfuel site_ok). Qed.

  (** datasets: repeat / irrelevant change are hits (the caller's dictionary reaches the cached
      region overlaid with the dataset's default and pre-set options; with_options derivatives
      share the cache id, Model/Derived.v) *)
  Theorem C02_dataset_miss_then_hit : forall d cid o1 o2 s v s1 l hs,
    d.(ds_cache) = CMem cid -> kstatic (ds_inner d) = true ->
    cache_off (ds_opts d o1) = false -> cache_off (ds_opts d o2) = false ->
    eval (dataset_expr d) o1 s = (Ok v, s1, l) ->
    fp_res (ds_inner d) (ds_opts d o2) = fp_res (ds_inner d) (ds_opts d o1) ->
    let s2 := hist_store hs s1 in
    exists v', eval (dataset_expr d) o2 s2 = (Ok v', s2, hit_log cid (ds_inner d) (ds_opts d o2)) /\
               code_free (hit_log cid (ds_inner d) (ds_opts d o2)) = true.
  Proof. exact (dataset_miss_then_hit cfg ucall rfuel site_ok). Qed.

  Theorem C02_dataset_irrelevant_change_is_hit : forall d cid o o' s v s1 l hs,
    d.(ds_cache) = CMem cid -> kfrag (ds_inner d) = true ->
    nodup_keys d.(ds_options) = true -> nodup_keys d.(ds_default_options) = true ->
    nodup_keys o = true -> nodup_keys o' = true ->
    cache_off (ds_opts d o) = false -> cache_off (ds_opts d o') = false ->
    eval (dataset_expr d) o s = (Ok v, s1, l) ->
    tagree o o' (reads_of (fp_log (ds_inner d) (ds_opts d o))) ->
    let s2 := hist_store hs s1 in
    exists v', eval (dataset_expr d) o' s2 = (Ok v', s2, hit_log cid (ds_inner d) (ds_opts d o')) /\
               code_free (hit_log cid (ds_inner d) (ds_opts d o')) = true.
  Proof. exact (dataset_irrelevant_change_is_hit cfg ucall rfuel site_ok). Qed.
  (** with_options derivatives use the same cache and the same cached region (Model/Derived.v,
      after fix 3f28b1e): evaluating the derivative after the original under dictionaries that give
      the region the same fingerprint is a hit — the cache is not keyed per Dataset object *)
  Theorem C02_derivative_shares_entries : forall d p cid o1 o2 s v s1 l hs,
    d.(ds_cache) = CMem cid -> d.(ds_effects_disabled) = false -> kstatic (ds_inner d) = true ->
    let d' := ds_with_options d p in
    cache_off (ds_opts d o1) = false -> cache_off (ds_opts d' o2) = false ->
    eval (dataset_expr d) o1 s = (Ok v, s1, l) ->
    fp_res (ds_inner d) (ds_opts d' o2) = fp_res (ds_inner d) (ds_opts d o1) ->
    let s2 := hist_store hs s1 in
    exists v', eval (dataset_expr d') o2 s2 = (Ok v', s2, hit_log cid (ds_inner d) (ds_opts d' o2)) /\
               code_free (hit_log cid (ds_inner d) (ds_opts d' o2)) = true.
  Proof. exact (derivative_shares_entries cfg ucall rfuel site_ok). Qed.

  (** what is NOT memoized ("nocache nodes mixed in"): a NoCache node, and any node while the cache
      is switched off (context or LABREA.CACHE.DISABLED option), evaluates its expression every time *)
  Theorem C02_nocache_evaluates_every_time : forall e o s, eval (ECached CNone e) o s = eval e o s.
  Proof. exact (nocache_evaluates_every_time cfg ucall rfuel site_ok). Qed.
  Theorem C02_cache_off_evaluates_every_time : forall cid e o s,
    cache_off o = true -> eval (ECached (CMem cid) e) o s = eval e o s.
  Proof. exact (cache_off_evaluates_every_time cfg ucall rfuel site_ok). Qed.
End C02.

Print Assumptions C02_fingerprint_is_a_function.
Print Assumptions C02_hit_runs_nothing.
Print Assumptions C02_hit_log_has_only_reads_exists_get.
Print Assumptions C02_hit_or_storing_miss.
Print Assumptions C02_find_after_put.
Print Assumptions C02_put_keeps_other_fingerprints.
Print Assumptions C02_put_keeps_other_caches.
Print Assumptions C02_entries_are_never_removed.
Print Assumptions C02_miss_then_hit.
Print Assumptions C02_immediate_repeat_same_value.
Print Assumptions C02_body_at_most_once.
Print Assumptions C02_failure_is_not_stored.
Print Assumptions C02_irrelevant_change_same_fingerprint.
Print Assumptions C02_reported_keys_were_looked_up.
Print Assumptions C02_irrelevant_change_is_hit.
Print Assumptions C02_unmentioned_key_is_hit.
Print Assumptions C02_permuted_options_is_hit.
Print Assumptions C02_shared_dependency_runs_once.
Print Assumptions C02_effects_follow_body.
Print Assumptions C02_fn_effects_follow_body.
Print Assumptions C02_no_effect_when_body_fails.
Print Assumptions C02_no_effect_when_disabled_by_option.
Print Assumptions C02_dataset_hit_runs_nothing.
Print Assumptions C02_dataset_miss_log.
Print Assumptions C02_dataset_miss_then_hit.
Print Assumptions C02_dataset_irrelevant_change_is_hit.
Print Assumptions C02_derivative_shares_entries.
Print Assumptions C02_nocache_evaluates_every_time.
Print Assumptions C02_cache_off_evaluates_every_time.

(** * Non-vacuity: a diamond of datasets (top <- a, b <- n; n has an effect), evaluated five
    times: first run, exact repeat, top-level order permuted, unrelated keys added/changed, then a
    relevant change.  Computed by the model (the harness compares such runs with labrea). *)
From Coq Require Import String.
Open Scope string_scope.
Definition K10 : key := [SName 10].
Definition mk (cid fid : N) (kw : list expr) (effs : list expr) : dsrec :=
  {| ds_dispatch := no_dispatch; ds_table := []; ds_default := Some (body fid kw); ds_callback := empty_callback;
     ds_effects := effs; ds_effects_disabled := false; ds_cache := CMem cid; ds_options := []; ds_default_options := [] |}.
Definition dn := mk 1 100 [EOption K10 None None] [pstep 110 []].
Definition da := mk 2 101 [dataset_expr dn] [].
Definition db := mk 3 102 [dataset_expr dn] [].
Definition dtop := mk 4 103 [dataset_expr da; dataset_expr db] [].
Definition opn (o : dict) : op := {| op_meth := MEval; op_expr := 0%nat; op_cfg := cfg0; op_opts := o |}.
Definition o1 : dict := [(SName 10, JInt 1); (SName 12, JInt 5)].
Definition o1p : dict := [(SName 12, JInt 5); (SName 10, JInt 1)].
Definition o1x : dict := [(SName 10, JInt 1); (SName 12, JInt 6); (SName 11, JInt 7)].
Definition o2 : dict := [(SName 10, JInt 2); (SName 12, JInt 5)].

(** the shared body c100 runs once per evaluation (second use: ex1T get1T), its effect c110 right
    after it with its value; repeat / permuted / unrelated-key evaluations: ex4T get4T only *)
Example C02_diamond_history :
  run_scenario [] [dataset_expr dtop] [opn o1; opn o1; opn o1p; opn o1x; opn o2] =
  "ok:t103(t101(t100(1)),t102(t100(1)))|ex4F log emit ex2F log emit ex1F log emit c100(1) c110(t100(1)) set1 get1T c101(t100(1)) set2 get2T ex3F log emit ex1T get1T c102(t100(1)) set3 get3T c103(t101(t100(1)),t102(t100(1))) set4 get4T ## ok:t103(t101(t100(1)),t102(t100(1)))|ex4T get4T ## ok:t103(t101(t100(1)),t102(t100(1)))|ex4T get4T ## ok:t103(t101(t100(1)),t102(t100(1)))|ex4T get4T ## ok:t103(t101(t100(2)),t102(t100(2)))|ex4F log emit ex2F log emit ex1F log emit c100(2) c110(t100(2)) set1 get1T c101(t100(2)) set2 get2T ex3F log emit ex1T get1T c102(t100(2)) set3 get3T c103(t101(t100(2)),t102(t100(2))) set4 get4T".
Proof. vm_compute. reflexivity. Qed.
Print Assumptions C02_diamond_history.

(** the hypotheses of the dataset theorems are satisfiable: the diamond's top dataset is in the
    fragment, its fingerprint under [o1] is computed, and [o1p], [o1x] agree with [o1] on what
    the keys()-run looks up *)
Example C02_fragment_inhabited :
  kfrag (ds_inner dtop) = true /\
  fp_res cfg0 (ucall_of []) 40 (fun _ _ => true) (ds_inner dtop) (ds_opts dtop o1) = Ok [([SName 10], JInt 1)] /\
  reads_of (fp_log cfg0 (ucall_of []) 40 (fun _ _ => true) (ds_inner dtop) (ds_opts dtop o1)) <> [] /\
  forallb (fun k => negb (starts_with (SName 11) k) && negb (starts_with (SName 12) k))
          (reads_of (fp_log cfg0 (ucall_of []) 40 (fun _ _ => true) (ds_inner dtop) (ds_opts dtop o1))) = true.
Proof. vm_compute. repeat split; try reflexivity. discriminate. Qed.
Print Assumptions C02_fragment_inhabited.

(** the hypotheses of [C02_shared_dependency_runs_once] are satisfiable: siblings
    [const; n; Option; n; const] with n a cached body reading K10 — the second [n] logs only
    ex1T get1T and the body c100 is called once *)
Definition nshared : expr := ECached (CMem 1) (body 100 [EOption K10 None None]).
Example C02_shared_dependency_instance :
  kstatic (body 100 [EOption K10 None None]) = true /\ cache_off cfg0 o1 = false /\
  let '(r, _, l) := mapM store (fun x => eval store mem_find mem_store cfg0 (ucall_of []) 40 (fun _ _ => true) x o1)
                      ([EValue (VJ (JInt 0))] ++ nshared :: [EOption K10 None None] ++ nshared :: [EValue (VJ (JInt 9))]) [] in
  r = Ok [VJ (JInt 0); VT 100 [VJ (JInt 1)]; VJ (JInt 1); VT 100 [VJ (JInt 1)]; VJ (JInt 9)] /\
  String.concat " " (flat_map show_event l) = "ex1F c100(1) set1 get1T ex1T get1T".
Proof. vm_compute. repeat split; reflexivity. Qed.
Print Assumptions C02_shared_dependency_instance.
