(** C16 — feature switches change side behaviour only, never values.

    Statements only; proofs in Proofs/C16Proofs.v (one lock-step simulation theorem [sim_main]
    between two instances of the interpreters of Model/Eval.v, and its instances).

    How the model carries the switches (Model/Eval.v): the context managers
    [labrea.cache.disabled()] / [labrea.logging.disabled()] are the two fields of [config]; the
    option spellings LABREA.CACHE.DISABLED / LABREA.CACHE.DISABLE / LABREA.EFFECTS.DISABLED /
    LABREA.LOGGING.DISABLED are read from the dictionary the node is evaluated under
    ([cache_opt_off], [effects_opt_off], [logging_opt_off]), exactly where the handlers read
    [request.options]; [nocache] is the cache reference [CNone]; the per-dataset toggle
    [disable_effects()] is [ds_effects_disabled] of Derived.dataset_expr.

    All theorems are for ALL expressions (of the stated boolean fragment where one is named),
    ALL dictionaries, ALL stores of ANY store type, ALL user code [ucall], ALL resolution
    budgets and ghost oracles.

    [switch_stable e]: no pre-set / default dictionary (WithOptions, dataset options) and no Map
    key inside [e] mentions the LABREA section — then the section the caller passed is the one
    every node sees.  It is needed: see [C16_option_switch_without_stable_refuted].
    [kstatic e] (TraceProofs): the fingerprint of [e] is computed without evaluating
    sub-expressions (constant / plain-Option dispatch).

    NOT proved here (named in the claim): that a run with caches ON returns the values of the run
    with caches OFF — that is the transparency theorem of C01/C02 and holds only on clean
    dictionaries (known findings D1/D3/D4/D9/D19/D21/D24); here the single cache site
    ([C16_cached_site_value_partial]) and, as a corollary of C01's theorem, covered histories
    ([C16_cache_switch_value_invariant_history]).  The INFO level of the log request is not in the model
    (checked on the implementation by harness/props/c16.py). *)
From Coq Require Import List NArith ZArith Bool.
Import ListNotations.
From LV Require Import Model.Base Model.Template Model.Eval Model.Derived Model.EvalRun
  Proofs.BaseProofs Proofs.TraceProofs Proofs.CleanProofs Proofs.CacheSim Proofs.C16Proofs.

(** ** 1. Caching disabled (context manager, or either option spelling): every evaluation IS the
    cache-free reference evaluation; stored entries are neither read nor written. *)
Theorem C16_cache_off_is_reference :
  forall S mf ms ucall rfuel site cfg e o (s : S),
    caching_off_for cfg e o ->
    eval S mf ms cfg ucall rfuel site e o s =
      lift S s (eval unit nc_find nc_store (cfg_ref cfg) ucall rfuel (fun _ _ => true) e o tt).
Proof. exact cache_off_is_reference_eval. Qed.
Print Assumptions C16_cache_off_is_reference.

Theorem C16_cache_off_is_reference_validate :
  forall S mf ms ucall rfuel site cfg e o (s : S),
    caching_off_for cfg e o ->
    validate S mf ms cfg ucall rfuel site e o s =
      lift S s (validate unit nc_find nc_store (cfg_ref cfg) ucall rfuel (fun _ _ => true) e o tt).
Proof. exact cache_off_is_reference_validate. Qed.
Print Assumptions C16_cache_off_is_reference_validate.

Theorem C16_cache_off_no_cache_traffic :
  forall S mf ms ucall rfuel site cfg e o (s : S),
    caching_off_for cfg e o ->
    filter cacheev (snd (eval S mf ms cfg ucall rfuel site e o s)) = [] /\
    filter cacheev (snd (validate S mf ms cfg ucall rfuel site e o s)) = [].
Proof. exact cache_off_no_cache_events. Qed.
Print Assumptions C16_cache_off_no_cache_traffic.

(** [nocache] and a switched-off cache are the same site *)
Theorem C16_nocache_is_cache_off :
  forall S mf ms cfg ucall rfuel site cid e o (s : S),
    cache_off cfg o = true ->
    eval S mf ms cfg ucall rfuel site (ECached (CMem cid) e) o s =
    eval S mf ms cfg ucall rfuel site (ECached CNone e) o s.
Proof. exact nocache_is_cache_off. Qed.
Print Assumptions C16_nocache_is_cache_off.

(** ** 2. Logging disabled: nothing is emitted; inside [labrea.logging.disabled()] the run is the
    run with logging on with the emissions erased (same result, same store, same other events,
    same log REQUESTS) — whatever the cache setting and the store. *)
Theorem C16_logging_off_silent :
  forall S mf ms ucall rfuel site cfg e o (s : S),
    logging_off_for cfg e o ->
    filter is_emit (snd (eval S mf ms cfg ucall rfuel site e o s)) = [].
Proof. exact logging_off_silent. Qed.
Print Assumptions C16_logging_off_silent.

Theorem C16_logging_ctx_only_erases_emissions :
  forall S mf ms ucall rfuel site cfg e o (s : S),
    let off := eval S mf ms (set_log true cfg) ucall rfuel site e o s in
    let on := eval S mf ms (set_log false cfg) ucall rfuel site e o s in
    fst (fst off) = fst (fst on) /\ snd (fst off) = snd (fst on) /\ snd off = filter not_emit (snd on).
Proof. exact logging_ctx_only_erases_emissions. Qed.
Print Assumptions C16_logging_ctx_only_erases_emissions.

Theorem C16_logging_ctx_keeps_requests :
  forall S mf ms ucall rfuel site cfg e o (s : S),
    filter is_logreq (snd (eval S mf ms (set_log true cfg) ucall rfuel site e o s)) =
    filter is_logreq (snd (eval S mf ms (set_log false cfg) ucall rfuel site e o s)).
Proof. exact logging_ctx_keeps_requests. Qed.
Print Assumptions C16_logging_ctx_keeps_requests.

(** ** 3. Effects disabled by the option: the Computation is its body (no effect expression is
    evaluated, no callback called); effects' results are discarded; the per-dataset toggle and
    the option agree. *)
Theorem C16_effects_off_no_effect :
  forall S mf ms cfg ucall rfuel site e effs o (s : S),
    effects_opt_off o = true ->
    eval S mf ms cfg ucall rfuel site (EComp e effs) o s = eval S mf ms cfg ucall rfuel site e o s.
Proof. exact effects_off_no_effect. Qed.
Print Assumptions C16_effects_off_no_effect.

Theorem C16_effects_off_no_effect_validate :
  forall S mf ms cfg ucall rfuel site e effs o (s : S),
    effects_opt_off o = true ->
    validate S mf ms cfg ucall rfuel site (EComp e effs) o s = validate S mf ms cfg ucall rfuel site e o s.
Proof. exact effects_off_no_effect_validate. Qed.
Print Assumptions C16_effects_off_no_effect_validate.

Theorem C16_computation_returns_body_value :
  forall S mf ms cfg ucall rfuel site e effs o (s : S) v s' l,
    eval S mf ms cfg ucall rfuel site (EComp e effs) o s = (Ok v, s', l) ->
    exists s1 l1 l2, eval S mf ms cfg ucall rfuel site e o s = (Ok v, s1, l1) /\ l = l1 ++ l2.
Proof. exact computation_returns_body_value. Qed.
Print Assumptions C16_computation_returns_body_value.

Theorem C16_computation_body_failure :
  forall S mf ms cfg ucall rfuel site e effs o (s : S) c ee s1 l1,
    eval S mf ms cfg ucall rfuel site e o s = (Err c ee, s1, l1) ->
    eval S mf ms cfg ucall rfuel site (EComp e effs) o s = (Err c ee, s1, l1).
Proof. exact computation_body_failure. Qed.
Print Assumptions C16_computation_body_failure.

Theorem C16_dataset_toggle_equals_option :
  forall S mf ms cfg ucall rfuel site d o (s : S),
    d.(ds_effects_disabled) = false -> effects_opt_off (ds_site_options d o) = true ->
    site (ELogged (ds_base d)) (ds_site_options d o) =
      site (ELogged (ds_base (ds_toggle d))) (ds_site_options d o) ->
    eval S mf ms cfg ucall rfuel site (dataset_expr d) o s =
    eval S mf ms cfg ucall rfuel site (dataset_expr (ds_toggle d)) o s.
Proof. exact dataset_toggle_equals_option. Qed.
Print Assumptions C16_dataset_toggle_equals_option.

(** ** 4. Exactly one log request per evaluation of a dataset not served from its cache, none
    when it is served from its cache. *)
Theorem C16_logged_one_request :
  forall S mf ms cfg ucall rfuel site e o (s : S),
    eval S mf ms cfg ucall rfuel site (ELogged e) o s =
      after S (EvLogReq :: (if log_off cfg o then [] else [EvLogEmit]))
            (eval S mf ms cfg ucall rfuel site e o s).
Proof. exact logged_one_request. Qed.
Print Assumptions C16_logged_one_request.

Theorem C16_dataset_hit_no_request :
  forall S mf ms cfg ucall rfuel site d cid o (s : S) f v,
    d.(ds_cache) = CMem cid -> cache_off cfg (ds_site_options d o) = false -> kstatic (ds_base d) = true ->
    fst (fst (fingerprint S mf ms cfg ucall rfuel site (ELogged (ds_base d)) (ds_site_options d o) s)) = Ok f ->
    mf cid f s = Some v ->
    let x := eval S mf ms cfg ucall rfuel site (dataset_expr d) o s in
    fst (fst x) = Ok v /\ snd (fst x) = s /\
    filter is_logreq' (snd x) = [] /\ filter is_emit (snd x) = [] /\ filter is_call (snd x) = [].
Proof. exact dataset_hit_no_request. Qed.
Print Assumptions C16_dataset_hit_no_request.

Theorem C16_dataset_miss_one_request :
  forall S mf ms cfg ucall rfuel site d cid o (s : S) f,
    d.(ds_cache) = CMem cid -> cache_off cfg (ds_site_options d o) = false -> kstatic (ds_base d) = true ->
    fst (fst (fingerprint S mf ms cfg ucall rfuel site (ELogged (ds_base d)) (ds_site_options d o) s)) = Ok f ->
    mf cid f s = None ->
    filter is_logreq' (snd (eval S mf ms cfg ucall rfuel site (dataset_expr d) o s)) =
      EvLogReq :: filter is_logreq' (snd (eval S mf ms cfg ucall rfuel site (ds_base d) (ds_site_options d o) s)) /\
    filter is_emit (snd (eval S mf ms cfg ucall rfuel site (dataset_expr d) o s)) =
      (if log_off cfg (ds_site_options d o) then [] else [EvLogEmit]) ++
      filter is_emit (snd (eval S mf ms cfg ucall rfuel site (ds_base d) (ds_site_options d o) s)).
Proof. exact dataset_miss_one_request. Qed.
Print Assumptions C16_dataset_miss_one_request.

Theorem C16_dataset_uncached_one_request :
  forall S mf ms cfg ucall rfuel site d o (s : S),
    (d.(ds_cache) = CNone \/ cache_off cfg (ds_site_options d o) = true) ->
    eval S mf ms cfg ucall rfuel site (dataset_expr d) o s =
      after S (EvLogReq :: (if log_off cfg (ds_site_options d o) then [] else [EvLogEmit]))
            (eval S mf ms cfg ucall rfuel site (ds_base d) (ds_site_options d o) s).
Proof. exact dataset_uncached_one_request. Qed.
Print Assumptions C16_dataset_uncached_one_request.

(** ** 5. Values across the option spellings.  Two dictionaries that differ only in the LABREA
    section ([eqx]); caching off on both sides (by context or by option — so this is relative
    to the cache-free semantics); the effects switch equal on both sides unless the expression
    has no effects; the first run reads no LABREA key and not the whole dictionary
    ([reads_no_switch], computed on its log).  Then: same result, same store, same events up to
    log emissions.
    PARTIAL with respect to the sentence "every evaluation returns the same value as with all
    switches off": what is missing is (a) the case of caches ON (the option spellings of the
    logging / effects switches on a caching run are compared with the all-off run only by the
    oracle of harness/props/c16.py; a lock-step proof needs "every reported key was read"), and
    (b) the cached-vs-uncached step (C01/C02, see below). *)
Theorem C16_switch_options_value_invariant_partial :
  forall S mf ms ucall rfuel site cfg1 cfg2 e o1 o2 (s : S),
    switch_stable_eff (Bool.eqb (effects_opt_off o1) (effects_opt_off o2)) e = true ->
    wf_dict o1 = true -> wf_dict o2 = true -> eqx o1 o2 ->
    cache_off cfg1 o1 = true -> cache_off cfg2 o2 = true ->
    let x1 := eval S mf ms cfg1 ucall rfuel site e o1 s in
    let x2 := eval S mf ms cfg2 ucall rfuel site e o2 s in
    reads_no_switch (snd x1) = true ->
    fst (fst x2) = fst (fst x1) /\ snd (fst x2) = snd (fst x1) /\
    filter not_emit (snd x2) = filter not_emit (snd x1).
Proof. exact switch_options_frame. Qed.
Print Assumptions C16_switch_options_value_invariant_partial.

(** PARTIAL (the caching switch and values): one cache site whose entry, if any, is what the
    cached expression evaluates to now returns the value of the expression.  The induction
    over all sites (stores stay sound along runs) is C01/C02's transparency theorem. *)
Theorem C16_cached_site_value_partial :
  forall S mf ms cfg ucall rfuel site cid e o (s : S) f,
    cache_off cfg o = false -> kstatic e = true ->
    fst (fst (fingerprint S mf ms cfg ucall rfuel site e o s)) = Ok f ->
    site_sound S mf ms cfg ucall rfuel site cid e o s f ->
    fst (fst (eval S mf ms cfg ucall rfuel site (ECached (CMem cid) e) o s)) =
    fst (fst (eval S mf ms cfg ucall rfuel site e o s)).
Proof. exact cached_site_value_partial. Qed.
Print Assumptions C16_cached_site_value_partial.

(** ** Non-vacuity, on the real store of Model/EvalRun.v *)
Definition u0 : N -> list value -> cres := fun f args => COk (VT f args).
Definition evalC cfg := eval store mem_find mem_store cfg u0 10 (fun _ _ => true).
Definition kA : key := [SName 10].
Definition dsA : dsrec :=
  {| ds_dispatch := no_dispatch; ds_table := []; ds_default := Some (body 100 [EOption kA None None]);
     ds_callback := empty_callback; ds_effects := [pstep 101 []]; ds_effects_disabled := false;
     ds_cache := CMem 1; ds_options := []; ds_default_options := [] |}.
Definition oA : dict := [(SName 10, JInt 7)].
Definition sw (sec name : N) : dict :=
  [(SName 10, JInt 7); (SName A_LABREA, JObj [(SName sec, JObj [(SName name, JBool true)])])].
Definition count (p : event -> bool) (x : res value * store * list event) : nat := length (filter p (snd x)).

(** a warm cache; then: both option spellings and the context manager recompute (the body is
    called again), return the same value, leave the store as it is, with no cache traffic;
    a plain evaluation is a hit with no request and no call *)
Example C16_switches_on_a_warm_cache :
  let '(r0, s0, l0) := evalC cfg0 (dataset_expr dsA) oA [] in
  let hit := evalC cfg0 (dataset_expr dsA) oA s0 in
  let d1 := evalC cfg0 (dataset_expr dsA) (sw A_CACHE A_DISABLED) s0 in
  let d2 := evalC cfg0 (dataset_expr dsA) (sw A_CACHE A_DISABLE) s0 in
  let d3 := evalC {| cache_ctx_off := true; log_ctx_off := false |} (dataset_expr dsA) oA s0 in
  caching_off_for cfg0 (dataset_expr dsA) (sw A_CACHE A_DISABLED) /\
  caching_off_for cfg0 (dataset_expr dsA) (sw A_CACHE A_DISABLE) /\
  count is_logreq' (r0, s0, l0) = 1 /\ count is_call (r0, s0, l0) = 2 /\
  fst (fst hit) = r0 /\ count is_logreq' hit = 0 /\ count is_call hit = 0 /\
  (fst (fst d1) = r0 /\ fst (fst d2) = r0 /\ fst (fst d3) = r0) /\
  (snd (fst d1) = s0 /\ snd (fst d2) = s0 /\ snd (fst d3) = s0) /\
  (count is_call d1 = 2 /\ count is_call d2 = 2 /\ count is_call d3 = 2) /\
  (count is_logreq' d1 = 1 /\ count cacheev d1 = 0 /\ count cacheev d2 = 0 /\ count cacheev d3 = 0) /\
  s0 <> [].
Proof.
  vm_compute. repeat split; try (right; repeat split; reflexivity); congruence.
Qed.
Print Assumptions C16_switches_on_a_warm_cache.

(** effects switch / per-dataset toggle: the effect callback (function 101) is not called, the
    value is the same; logging switch: request issued, nothing emitted *)
Example C16_effects_and_logging_switches :
  let on := evalC cfg0 (dataset_expr dsA) oA [] in
  let eo := evalC cfg0 (dataset_expr dsA) (sw A_EFFECTS A_DISABLED) [] in
  let et := evalC cfg0 (dataset_expr (ds_toggle dsA)) oA [] in
  let lo := evalC cfg0 (dataset_expr dsA) (sw A_LOGGING A_DISABLED) [] in
  let lc := evalC {| cache_ctx_off := false; log_ctx_off := true |} (dataset_expr dsA) oA [] in
  count is_call on = 2 /\ count is_call eo = 1 /\ count is_call et = 1 /\
  fst (fst eo) = fst (fst on) /\ fst (fst et) = fst (fst on) /\
  count is_emit on = 1 /\ count is_emit lo = 0 /\ count is_emit lc = 0 /\
  count is_logreq' lo = 1 /\ count is_logreq' lc = 1 /\
  fst (fst lo) = fst (fst on) /\ fst (fst lc) = fst (fst on) /\
  logging_off_for cfg0 (dataset_expr dsA) (sw A_LOGGING A_DISABLED).
Proof. vm_compute. repeat split; right; repeat split; reflexivity. Qed.
Print Assumptions C16_effects_and_logging_switches.

(** the hypotheses of [C16_switch_options_value_invariant_partial] are satisfiable with a real difference *)
Example C16_frame_hypotheses_satisfiable :
  let cfgc := {| cache_ctx_off := true; log_ctx_off := false |} in
  let o2 := [(SName 10, JInt 7);
             (SName A_LABREA, JObj [(SName A_CACHE, JObj [(SName A_DISABLE, JBool true)]);
                                    (SName A_LOGGING, JObj [(SName A_DISABLED, JBool true)])])] in
  switch_stable_eff (Bool.eqb (effects_opt_off oA) (effects_opt_off o2)) (dataset_expr dsA) = true /\
  wf_dict oA = true /\ wf_dict o2 = true /\
  cache_off cfgc oA = true /\ cache_off cfg0 o2 = true /\
  reads_no_switch (snd (evalC cfgc (dataset_expr dsA) oA [])) = true /\ oA <> o2.
Proof. vm_compute. repeat split; congruence. Qed.
Print Assumptions C16_frame_hypotheses_satisfiable.

(** ... and the guard is needed: an expression that READS a switch key has the switch in its
    value by definition *)
Theorem C16_value_invariant_without_read_guard_refuted :
  let cfgc := {| cache_ctx_off := true; log_ctx_off := false |} in
  let e := EOption k_cache_disable (Some (EValue (VJ (JBool false)))) None in
  fst (fst (evalC cfgc e oA [])) <> fst (fst (evalC cfgc e (sw A_CACHE A_DISABLE) [])) /\
  reads_no_switch (snd (evalC cfgc e oA [])) = false.
Proof. vm_compute. split; congruence. Qed.
Print Assumptions C16_value_invariant_without_read_guard_refuted.

(** [switch_stable] is needed for the OPTION spellings: a pre-set dictionary that sets
    LABREA.CACHE.DISABLED back to false re-enables the cache below it (the handlers read the
    options of the request, i.e. the overlaid dictionary) — the store is written although the
    caller passed DISABLED = true *)
Theorem C16_option_switch_without_stable_refuted :
  let e := EWith true [(SName A_LABREA, JObj [(SName A_CACHE, JObj [(SName A_DISABLED, JBool false)])])]
             (ECached (CMem 1) (body 100 [])) in
  cache_opt_off (sw A_CACHE A_DISABLED) = true /\ wf_dict (sw A_CACHE A_DISABLED) = true /\
  switch_stable e = false /\ snd (fst (evalC cfg0 e (sw A_CACHE A_DISABLED) [])) <> [].
Proof. vm_compute. repeat split; congruence. Qed.
Print Assumptions C16_option_switch_without_stable_refuted.

(** ** 6. The effects switch DOES change an outcome when an effect raises (finding D24 seen from
    C16): the guard [switch_stable_eff (effects switch equal on both sides)] of
    [C16_switch_options_value_invariant_partial] cannot be dropped.  A Computation with body 1
    and one effect (user function 101) that raises: under {LABREA.EFFECTS.DISABLED: true} the
    evaluation returns 1, under {} it fails in the effect.  Every other hypothesis of that
    theorem holds on the witness (well-formed dictionaries that differ only in the LABREA
    section, caching off on both sides, no LABREA key read, and the expression is stable once
    the effects switch is equal: [switch_stable_eff true e]). *)
Definition u_raise16 : N -> list value -> cres :=
  fun f args => if N.eqb f 101 then CRaise 9 else COk (VT f args).
Definition e_eff16 : expr := EComp (EValue (VJ (JInt 1))) [EValue (VF 101 [] [])].
Definition o_eff16 : dict :=
  [(SName A_LABREA, JObj [(SName A_EFFECTS, JObj [(SName A_DISABLED, JBool true)])])].

Theorem C16_effects_switch_changes_outcome_refuted :
  exists u e o1 o2,
    let cfgc := {| cache_ctx_off := true; log_ctx_off := false |} in
    let ev := eval store mem_find mem_store cfgc u 10 (fun _ _ => true) e in
    wf_dict o1 = true /\ wf_dict o2 = true /\ eqx o1 o2 /\
    cache_off cfgc o1 = true /\ cache_off cfgc o2 = true /\
    reads_no_switch (snd (ev o1 [])) = true /\ reads_no_switch (snd (ev o2 [])) = true /\
    switch_stable_eff true e = true /\
    effects_opt_off o1 = true /\ effects_opt_off o2 = false /\
    switch_stable_eff (Bool.eqb (effects_opt_off o1) (effects_opt_off o2)) e = false /\
    fst (fst (ev o1 [])) = Ok (VJ (JInt 1)) /\
    fst (fst (ev o2 [])) = Err (CUser 9) true.
Proof.
  exists u_raise16, e_eff16, o_eff16, [].
  cbv zeta. split; [vm_compute; reflexivity|]. split; [vm_compute; reflexivity|].
  split.
  - intros sg Hs. cbn [dget o_eff16].
    destruct (seg_eqb sg (SName A_LABREA)) eqn:E; [|reflexivity].
    exfalso. apply Hs. now apply seg_eqb_eq in E.
  - vm_compute. repeat split; reflexivity.
Qed.
Print Assumptions C16_effects_switch_changes_outcome_refuted.

(** ** 7. The CACHE switch and values, at history level (corollary of C01's transparency
    theorem, Proofs/CacheSim.v): along a covered history ([hist_ok]: every operation's cache
    sites are registered, in the fragment, and reached by clean dictionaries with one value of
    the effects switch — the zones of the known findings excluded) run on one long-lived store
    from the empty store, every operation (evaluate / validate / keys / explain) answers the
    same whatever the context switches ([labrea.cache.disabled()], [labrea.logging.disabled()])
    and the ghost oracle: in particular with caching disabled and with caching enabled. *)
Theorem C16_context_switches_value_invariant_history :
  forall u fuel cfg1 cfg2 so1 so2 sites esw h,
    hist_ok u fuel sites esw h ->
    run_hist u fuel cfg1 so1 h [] = run_hist u fuel cfg2 so2 h [].
Proof. exact history_independent_of_switches. Qed.
Print Assumptions C16_context_switches_value_invariant_history.

Theorem C16_cache_switch_value_invariant_history :
  forall u fuel lg1 lg2 so1 so2 sites esw h,
    hist_ok u fuel sites esw h ->
    run_hist u fuel {| cache_ctx_off := true; log_ctx_off := lg1 |} so1 h [] =
    run_hist u fuel {| cache_ctx_off := false; log_ctx_off := lg2 |} so2 h [].
Proof.
  exact (fun u fuel lg1 lg2 so1 so2 =>
           history_independent_of_switches u fuel {| cache_ctx_off := true; log_ctx_off := lg1 |}
                                           {| cache_ctx_off := false; log_ctx_off := lg2 |} so1 so2).
Qed.
Print Assumptions C16_cache_switch_value_invariant_history.

(** the hypothesis is satisfiable on a history with misses and hits: one cached node (body 100
    reading K10) evaluated / validated / asked for its keys under two dictionaries; with caching
    disabled and with caching enabled the answers are the same (and the enabled run does store) *)
Definition e16 : expr := body 100 [EOption kA None None].
Definition node16 : expr := ECached (CMem 1) e16.
Definition sites16 (c : N) : option expr := if N.eqb c 1 then Some e16 else None.
Definition oB16 : dict := [(SName 10, JInt 8)].
Definition h16 : list hop :=
  [HEval node16 oA; HEval node16 oA; HValidate node16 oB16; HEval node16 oB16; HKeys node16 oA; HEval node16 oB16].

Lemma okd16 o : In o [oA; oB16] -> okd u0 10 sites16 false o.
Proof.
  intros Ho. split.
  - cbn in Ho. repeat (destruct Ho as [<-|Ho]; [reflexivity|]). destruct Ho.
  - split; [cbn in Ho; repeat (destruct Ho as [<-|Ho]; [reflexivity|]); destruct Ho|].
    split; [cbn in Ho; repeat (destruct Ho as [<-|Ho]; [reflexivity|]); destruct Ho|].
    intros c b Hs. unfold sites16 in Hs. destruct (N.eqb c 1); [|discriminate]. inversion Hs; subst b.
    cbn in Ho.
    repeat (destruct Ho as [<-|Ho]; [
        split; [vm_compute; reflexivity|];
        split; [split; [|split]; intros; match goal with H : _ = _ |- _ => vm_compute in H end;
                try discriminate; match goal with H : _ = _ |- _ => inversion H; subst end; vm_compute; reflexivity
               |split; [intros v H; vm_compute in H; try discriminate; inversion H; reflexivity
                       |intros K H; vm_compute in H; try discriminate; inversion H; subst; vm_compute; reflexivity]] |]).
    destruct Ho.
Qed.

Lemma scoh16 o : In o [oA; oB16] -> scoh u0 10 sites16 false node16 (eq o).
Proof.
  intros Ho. cbn [node16 scoh]. split; [reflexivity|]. split; [|split; [cbn; repeat split; reflexivity|reflexivity]].
  intros o' <-. now apply okd16.
Qed.

Example C16_cache_switch_history_hypotheses_satisfiable :
  hist_ok u0 10 sites16 false h16 /\
  run_hist u0 10 {| cache_ctx_off := true; log_ctx_off := false |} (fun _ _ => true) h16 [] =
    [OEval (Ok (VT 100 [VJ (JInt 7)])); OEval (Ok (VT 100 [VJ (JInt 7)])); OValidate (Ok tt);
     OEval (Ok (VT 100 [VJ (JInt 8)])); OKeys (Ok [kA]); OEval (Ok (VT 100 [VJ (JInt 8)]))] /\
  run_hist u0 10 cfg0 (fun _ _ => true) h16 [] =
    run_hist u0 10 {| cache_ctx_off := true; log_ctx_off := false |} (fun _ _ => true) h16 [].
Proof.
  split; [|split; vm_compute; reflexivity].
  intros p Hp. unfold h16 in Hp.
  repeat (destruct Hp as [<-|Hp]; [apply scoh16; cbn; tauto|]). destruct Hp.
Qed.
Print Assumptions okd16.
Print Assumptions scoh16.
Print Assumptions C16_cache_switch_history_hypotheses_satisfiable.
