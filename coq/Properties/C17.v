(** C17 — An unreliable cache backend costs recomputation, never a wrong value or failure.
    Only statements closed by [exact], each followed by [Print Assumptions], plus non-vacuity
    examples closed by computation.

    Everything below holds for ALL value types, ALL dataset graphs (any number of datasets, bodies
    arbitrary — possibly raising — functions of their arguments), ALL fingerprint functions that are
    sound for the graph, ALL fault oracles [fault : nat -> behaviour] (the adversary: an arbitrary
    function of the global backend-call counter), ALL histories of evaluations of any length,
    cache-enabled or cache-disabled per evaluation.                                              *)
From Coq Require Import List NArith Bool String.
Import ListNotations.
From LV Require Import Model.CacheFault Model.CacheFaultRun Proofs.CacheFaultProofs.
Close Scope string_scope.
Open Scope list_scope.

Section C17.
  Variable value : Type.
  Variable of_opt : N -> value.
  Variable fp : N -> options -> fingerprint.
  Variable fault : nat -> behaviour.                 (* the adversary *)

  (** Every evaluation of every history returns exactly the cache-free result for its options
      (a value when the cache-free evaluation yields one, the same body error when a body raises:
      CacheGetFailure never escapes, nothing else is raised), and the invariant "every entry the
      honest store holds is correct for its fingerprint" survives the whole history.
      [fp_sound] is the link to C01/C03: equal fingerprints imply equal cache-free results.       *)
  Theorem C17_faulty_backend_correct : forall G : graph value,
    fp_sound value of_opt fp G ->
    forall (h : list op) (st : state value) rs st',
      store_ok value of_opt fp G (st_store st) ->
      run_hist value of_opt fp fault G h st = (rs, st') ->
      rs = ref_results value of_opt G h /\ store_ok value of_opt fp G (st_store st').
  Proof. exact (faulty_backend_correct value of_opt fp fault). Qed.

  (** … in particular from the empty cache. *)
  Theorem C17_faulty_backend_correct_from_empty : forall G : graph value,
    fp_sound value of_opt fp G ->
    forall h : list op,
      fst (run_hist value of_opt fp fault G h (init_state value)) = ref_results value of_opt G h.
  Proof. exact (faulty_backend_correct_init value of_opt fp fault). Qed.

  (** One evaluation, from any state whose store is correct. *)
  Theorem C17_faulty_evaluation_correct : forall G : graph value,
    fp_sound value of_opt fp G ->
    forall dis d o (st : state value),
      store_ok value of_opt fp G (st_store st) ->
      fst (eval value of_opt fp fault G dis d o st) = refv value of_opt G d o /\
      store_ok value of_opt fp G (st_store (snd (eval value of_opt fp fault G dis d o st))).
  Proof. exact (faulty_eval_correct value of_opt fp fault). Qed.

  (** The invariant is preserved by every single backend call under every fault: exists and get
      can only lose entries, a value returned by get is one the honest store held, set stores the
      (correct) value it is given or forgets.                                                    *)
  Theorem C17_every_backend_call_preserves_invariant : forall (G : graph value) d f (st : state value),
    store_ok value of_opt fp G (st_store st) ->
    store_ok value of_opt fp G (st_store (snd (b_exists value fault d f st))) /\
    store_ok value of_opt fp G (st_store (snd (b_get value fault d f st))) /\
    (forall v, fst (b_get value fault d f st) = Some v -> s_find value (d, f) (st_store st) = Some v) /\
    (forall v, (forall o, fp d o = f -> refv value of_opt G d o = Ok v) ->
               store_ok value of_opt fp G (st_store (b_set value fault d f v st))).
  Proof. exact (backend_calls_preserve_invariant value of_opt fp fault). Qed.

  (** Never a failure: when no body can raise and the graph has no dangling reference, every
      evaluation of every history yields a value, whatever the backend does.                     *)
  Theorem C17_never_fails : forall G : graph value,
    fp_sound value of_opt fp G -> wf_graph value G = true -> bodies_total value G ->
    forall h : list op,
      (forall dis d o, In (dis, d, o) h -> (d < N.of_nat (List.length G))%N) ->
      forall r, In r (fst (run_hist value of_opt fp fault G h (init_state value))) -> exists v, r = Ok v.
  Proof. exact (faulty_never_fails value of_opt fp fault). Qed.

  (** At worst recomputation: the bodies executed under faults are, in order, a subsequence of the
      bodies the cache-free evaluations of the same history execute (same dataset, same
      fingerprint, same argument values, same outcome) — nothing else ever runs, and never more. *)
  Theorem C17_costs_only_recompute : forall G : graph value,
    fp_sound value of_opt fp G ->
    forall (h : list op) (st : state value) rs st',
      store_ok value of_opt fp G (st_store st) ->
      run_hist value of_opt fp fault G h st = (rs, st') ->
      exists dl, st_runs st' = st_runs st ++ dl /\
                 sublist dl (ref_hist_runs value of_opt fp G h) /\
                 (forall x, In x dl -> In x (ref_hist_runs value of_opt fp G h)) /\
                 List.length dl <= List.length (ref_hist_runs value of_opt fp G h).
  Proof. exact (faulty_costs_only_recompute value of_opt fp fault). Qed.

  (** … and so for each single evaluation. *)
  Theorem C17_costs_only_recompute_each_evaluation : forall G : graph value,
    fp_sound value of_opt fp G ->
    forall dis d o (st : state value) r st',
      store_ok value of_opt fp G (st_store st) ->
      eval value of_opt fp fault G dis d o st = (r, st') ->
      exists dl, st_runs st' = st_runs st ++ dl /\ sublist dl (ref_runs value of_opt fp G d o).
  Proof. exact (faulty_costs_only_recompute_eval value of_opt fp fault). Qed.

  (** The yardstick is the library's own: with the cache disabled (labrea.cache.disabled(), or
      LABREA.CACHE.DISABLED) an evaluation returns [refv], executes exactly [ref_runs], and does not
      touch the backend (store and call counter unchanged), under any adversary.                  *)
  Theorem C17_disabled_is_reference : forall (G : graph value) d o (st : state value),
    eval value of_opt fp fault G true d o st =
    (refv value of_opt G d o, add_runs value (ref_runs value of_opt fp G d o) st).
  Proof. exact (eval_disabled value of_opt fp fault). Qed.

  (** The truthful backend is the special case [fault = fun _ => Behave]: the model then coincides
      with plain memoisation (look up; else compute, store, return) — same results, same store,
      same body executions …                                                                      *)
  Theorem C17_honest_is_special_case : forall (G : graph value) d o (st : state value) r st',
    eval value of_opt fp (fun _ => Behave) G false d o st = (r, st') ->
    memo value of_opt fp G d o (mproj value st) = (r, mproj value st').
  Proof. exact (honest_eval_memo value of_opt fp). Qed.

  Theorem C17_honest_is_special_case_histories : forall (G : graph value) h (st : state value) rs st',
    run_hist value of_opt fp (fun _ => Behave) G (enabled h) st = (rs, st') ->
    memo_hist value of_opt fp G h (mproj value st) = (rs, mproj value st').
  Proof. exact (honest_hist_memo value of_opt fp). Qed.

  (** … in which, over a whole history, each (dataset, fingerprint) body succeeds at most once:
      the lower end of the cost range whose upper end is [C17_costs_only_recompute].             *)
  Theorem C17_honest_runs_each_body_once : forall (G : graph value) h rs st',
    run_hist value of_opt fp (fun _ => Behave) G (enabled h) (init_state value) = (rs, st') ->
    NoDup (ok_keys value (st_runs st')).
  Proof. exact (honest_runs_once value of_opt fp). Qed.
End C17.
Print Assumptions C17_faulty_backend_correct.
Print Assumptions C17_faulty_backend_correct_from_empty.
Print Assumptions C17_faulty_evaluation_correct.
Print Assumptions C17_every_backend_call_preserves_invariant.
Print Assumptions C17_never_fails.
Print Assumptions C17_costs_only_recompute.
Print Assumptions C17_costs_only_recompute_each_evaluation.
Print Assumptions C17_disabled_is_reference.
Print Assumptions C17_honest_is_special_case.
Print Assumptions C17_honest_is_special_case_histories.
Print Assumptions C17_honest_runs_each_body_once.

(** The hypothesis [fp_sound] is not vacuous: labrea's own fingerprint (types.py:115-119: the values
    of the sorted keys the dataset transitively reads) satisfies it for every graph of this
    language (the general statement, with templates, presets, overloads …, is C01/C03's).        *)
Theorem C17_concrete_fingerprint_sound : forall (value : Type) (of_opt : N -> value) (G : graph value),
  fp_sound value of_opt (fp_keys value G) G.
Proof. exact fp_keys_sound. Qed.
Print Assumptions C17_concrete_fingerprint_sound.

(** Hence, with that fingerprint, no hypothesis is left. *)
Theorem C17_faulty_backend_correct_concrete :
  forall (value : Type) (of_opt : N -> value) (fault : nat -> behaviour) (G : graph value) (h : list op),
    fst (run_hist value of_opt (fp_keys value G) fault G h (init_state value)) = ref_results value of_opt G h.
Proof. exact (fun value of_opt fault G => faulty_backend_correct_init value of_opt (fp_keys value G) fault G (fp_keys_sound value of_opt G)). Qed.
Print Assumptions C17_faulty_backend_correct_concrete.

(* ------------------------------------------------------------------ non-vacuity *)

(** A diamond (0 = s(K1); 1 = b(s, K2); 2 = c(s); 3 = a(b, c)), a script using every fault kind,
    a history with a repeat, a changed option, a cache-disabled evaluation and a raising body.
    What the model observes (this is the line the harness compares with labrea).  The first
    evaluation meets: exists lies and the get fails (a); a set that is lost and a read-back that
    fails (s: the value is returned all the same, and s is recomputed for c); a read-back that
    forgets the entry just stored (b: recomputed by the last evaluation); exists lies again (c).  *)
Definition ex_script := [LieExists; FailGet; Behave; Behave; Miss; FailGet; Behave; Miss; LieExists].
Definition ex_hist : list (bool * N * list (N * N)) :=
  [ (false, 3, [(1, 1); (2, 2)]); (false, 3, [(1, 1); (2, 2)]); (false, 3, [(1, 1); (2, 5)]);
    (true, 3, [(1, 1); (2, 5)]); (false, 3, [(1, 13); (2, 5)]); (false, 1, [(1, 1); (2, 2)]) ]%N.

Example C17_example_observation :
  observe diamond ex_script ex_hist =
  ("ok:t3(t1(t0(1),2),t2(t0(1)));E3T,G3F,E1F,E0F,S0,G0F,S1,G1F,E2T,G2F,E0F,S0,G0T,S2,G2T,S3,G3T;0+{1=1},1+{1=1&2=2},0+{1=1},2+{1=1},3+{1=1&2=2}/" ++
   "ok:t3(t1(t0(1),2),t2(t0(1)));E3T,G3T;/" ++
   "ok:t3(t1(t0(1),5),t2(t0(1)));E3F,E1F,E0T,G0T,S1,G1T,E2T,G2T,S3,G3T;1+{1=1&2=5},3+{1=1&2=5}/" ++
   "ok:t3(t1(t0(1),5),t2(t0(1)));;0+{1=1},1+{1=1&2=5},0+{1=1},2+{1=1},3+{1=1&2=5}/" ++
   "raise:0;E3F,E1F,E0F;0-{1=13}/" ++
   "ok:t1(t0(1),2);E1F,E0T,G0T,S1,G1T;1+{1=1&2=2}")%string.
Proof. vm_compute. reflexivity. Qed.

(** The results are the cache-free ones (an instance of the theorem, by computation) … *)
Example C17_example_results_are_reference :
  fst (c_run_hist diamond ex_script ex_hist) =
  map (fun '(_, d, ol) => c_refv diamond d (mk_opts ol)) ex_hist
  /\ nth 0 (fst (c_run_hist diamond ex_script ex_hist)) (Fail (EDangling 0)) =
     Ok (CTag 3 [CTag 1 [CTag 0 [CNum 1]; CNum 2]; CTag 2 [CTag 0 [CNum 1]]])%N
  /\ nth 4 (fst (c_run_hist diamond ex_script ex_hist)) (Fail (EDangling 0)) = Fail (EBody 0).
Proof. vm_compute. repeat split. Qed.

(** … the faults did cost recomputation (more body executions than with a truthful backend, not
    more than without a cache), and the truthful backend ran no successful body twice.           *)
Definition enabled_only (h : list (bool * N * list (N * N))) := filter (fun '(dis, _, _) => negb dis) h.
Definition runs_of (s : list behaviour) (h : list (bool * N * list (N * N))) : nat :=
  List.length (st_runs (snd (c_run_hist diamond s h))).
Definition all_miss := repeat Miss 200.

Example C17_example_costs :
  runs_of [] (enabled_only ex_hist) = 7 /\
  runs_of ex_script (enabled_only ex_hist) = 9 /\
  runs_of [Behave; Behave; Behave; Behave; FailGet] (enabled_only ex_hist) = 7 /\
  runs_of [Miss; Miss; Miss; Miss; Miss; Miss; Miss; Miss; Miss; Miss] (enabled_only ex_hist) = 10 /\
  runs_of all_miss (enabled_only ex_hist) = 18 /\
  List.length (flat_map (fun '(_, d, ol) => c_ref_runs diamond d (mk_opts ol)) (enabled_only ex_hist)) = 18.
Proof. vm_compute. repeat split. Qed.

(** Hypotheses of [C17_never_fails] are satisfiable by a non-trivial graph. *)
Definition total_chain : graph cv :=
  [ {| ds_args := [ADs 1]; ds_body := fun a => Some (CTag 2 a) |};
    {| ds_args := [ADs 0; AOpt 2]; ds_body := fun a => Some (CTag 1 a) |};
    {| ds_args := [AOpt 1]; ds_body := fun a => Some (CTag 0 a) |} ]%N.

Example C17_example_never_fails_hypotheses :
  wf_graph cv total_chain = true /\ bodies_total cv total_chain /\
  wf_graph cv (mk_graph diamond) = true /\ wf_graph cv (mk_graph chain) = true.
Proof.
  split; [vm_compute; reflexivity|]. split; [|split; vm_compute; reflexivity].
  intros df [H|[H|[H|[]]]] vs; subst df; simpl; discriminate.
Qed.
