(** C09 — Templates substitute options and parameters transitively and report their reads.
    Only statements closed by [exact] (lemmas: Proofs/C09Proofs.v, Proofs/FrameProofs.v), each
    followed by [Print Assumptions]; non-vacuity [Example]s closed by computation.

    Vocabulary.  [flatten d o s] is the SPECIFICATION of substitution, written independently of
    the code: every reference token of [s] ({KEY}, or {:p:} through the slot the parameter is
    stored under) is replaced by the FULL expansion (depth < d) of the string form of its value,
    literals and escapes are kept; [expand o s] is one such pass with the raw string forms;
    [unescape] turns the two escape tokens into brace characters.  [resolve] is the code-shaped
    iterate-and-rescan resolver of confectioner (Model/Template.v) that Template.evaluate and
    Option.evaluate call; [resolve_reads] lists the keys it looks up; [EvRead k _] is the event
    every interpreter logs when option key [k] is looked up. *)
From Coq Require Import List NArith ZArith Bool.
Import ListNotations.
From LV Require Import Model.Base Model.Template Model.Eval Model.Derived Model.EvalRun
  Proofs.BaseProofs Proofs.FrameProofs Proofs.EvalProofs Proofs.C09Proofs.

(** * The specification against the code-shaped resolver (no interpreter involved) *)

(** whenever the independent transitive expansion is defined at some depth, the resolver, with
    any budget above that depth, returns a value whose string form is that expansion with the
    escapes removed *)
Theorem C09_spec_agrees_with_resolver : forall d o s e,
  flatten d o s = Some e ->
  forall f, f > d -> exists r, resolve f o (JStr s) = ROk r /\ to_str r = Some (unescape e).
Proof. exact flatten_resolve. Qed.
Print Assumptions C09_spec_agrees_with_resolver.

(** the keys [resolve_reads] lists are all the resolver depends on: a dictionary that answers
    those lookups alike gives the same result (and the same list) *)
Theorem C09_reads_are_what_resolution_depends_on : forall o o' f v,
  (forall k, In k (resolve_reads f o v) -> lookup k (JObj o') = lookup k (JObj o)) ->
  resolve_reads f o' v = resolve_reads f o v /\ resolve f o' v = resolve f o v.
Proof. exact resolve_frame. Qed.
Print Assumptions C09_reads_are_what_resolution_depends_on.

(** escaped braces: they survive substitution as they are, become brace characters in the final
    text, and are never taken for references *)
Theorem C09_escaped_braces_stay_literal : forall d o a b ea eb,
  flatten d o a = Some ea -> flatten d o b = Some eb ->
  flatten d o (a ++ TEscL :: b) = Some (ea ++ TEscL :: eb) /\
  flatten d o (a ++ TEscR :: b) = Some (ea ++ TEscR :: eb) /\
  unescape (ea ++ TEscL :: eb) = unescape ea ++ TLit 123 :: unescape eb /\
  unescape (ea ++ TEscR :: eb) = unescape ea ++ TLit 125 :: unescape eb /\
  refs (a ++ TEscL :: b) = refs a ++ refs b /\ refs (a ++ TEscR :: b) = refs a ++ refs b.
Proof. exact escapes_literal. Qed.
Print Assumptions C09_escaped_braces_stay_literal.

(** the D1 side condition can be checked on the dictionary alone *)
Theorem C09_flat_dictionary_suffices : forall o ks,
  flat o = true -> ~ In [] ks -> flat_at o ks = true.
Proof. exact flat_flat_at. Qed.
Print Assumptions C09_flat_dictionary_suffices.

Section AllInstances.
  (* for every store, store operations, switch configuration, user code, resolution budget and
     ghost oracle *)
  Variable S : Type.
  Variable mem_find : N -> fp -> S -> option value.
  Variable mem_store : N -> fp -> value -> S -> S.
  Variable cfg : config.
  Variable ucall : N -> list value -> cres.
  Variable rfuel : nat.
  Variable site_ok : expr -> dict -> bool.
  Notation eval := (eval S mem_find mem_store cfg ucall rfuel site_ok).
  Notation keys := (keys S mem_find mem_store cfg ucall rfuel site_ok).
  Notation explain := (explain S mem_find mem_store cfg ucall rfuel site_ok).

  (** * Sentence 1 — the text of a Template *)

  (** no parameters: the text is the transitive expansion with the escapes removed, the store is
      untouched, and every logged read is a key the resolution consulted *)
  Theorem C09_text_is_the_transitive_expansion : forall s o st d e,
    flatten d o s = Some e -> rfuel > d ->
    exists l, eval (ETemplate s []) o st = (Ok (VJ (JStr (unescape e))), st, l) /\
              forall k p, In (EvRead k p) l -> In k (resolve_reads rfuel o (JStr s)).
  Proof. exact (eval_template_nil_spec S mem_find mem_store cfg ucall rfuel site_ok). Qed.

  (** one level: when every referenced option holds a scalar or a template-free string, the text
      is one substitution pass ("every {KEY} replaced by the string form of that option") *)
  Theorem C09_text_one_level : forall s o st e,
    closed o s = true -> expand o s = Some e -> rfuel > 1 ->
    exists l, eval (ETemplate s []) o st = (Ok (VJ (JStr (unescape e))), st, l) /\
              forall k p, In (EvRead k p) l -> In k (resolve_reads rfuel o (JStr s)).
  Proof. exact (eval_template_one_level S mem_find mem_store cfg ucall rfuel site_ok). Qed.

  (** with parameters: the same expansion, taken in the dictionary [o'] that
      [template_options] builds; the parameters' own events come first, then only reads *)
  Theorem C09_text_with_parameters : forall s ps o st o' st1 l1 d e,
    template_options S (fun x => eval x o) ps o st = (Ok o', st1, l1) ->
    flatten d o' s = Some e -> rfuel > d ->
    exists l2, eval (ETemplate s ps) o st = (Ok (VJ (JStr (unescape e))), st1, l1 ++ l2)
               /\ forallb is_read l2 = true.
  Proof. exact (eval_template_spec S mem_find mem_store cfg ucall rfuel site_ok). Qed.

  (** … where [o'] holds, in the slot of each parameter, the value of ITS expression evaluated
      under the caller's options [o] … *)
  Theorem C09_parameters_are_evaluated_under_the_same_options : forall ps o st o' st' l,
    template_options S (fun x => eval x o) ps o st = (Ok o', st', l) -> NoDup (map fst ps) ->
    forall p pe, In (p, pe) ps ->
    exists v s1 s2 l', eval pe o s1 = (Ok v, s2, l') /\
      forall j, v = VJ j -> (forall m, j <> JObj m) -> lookup (par_key p) (JObj o') = Found j.
  Proof. exact (template_options_param S mem_find mem_store cfg ucall rfuel site_ok). Qed.

  (** … and every option key has in [o'] the value it has in [o] *)
  Theorem C09_parameters_leave_the_options_alone : forall ev ps o st o' st' l,
    template_options S ev ps o st = (Ok o', st', l) ->
    forall k, opt_key k = true -> lookup k (JObj o') = lookup k (JObj o).
  Proof. exact (template_options_agree S). Qed.

  (** one parameter, forwards (the hypothesis of the three statements above is satisfiable) *)
  Theorem C09_one_parameter : forall p pe o st j st1 l1,
    eval pe o st = (Ok (VJ j), st1, l1) -> (forall m, j <> JObj m) ->
    template_options S (fun x => eval x o) [(p, pe)] o st = (Ok (mix o [(pname p, j)]), st1, l1) /\
    lookup (par_key p) (JObj (mix o [(pname p, j)])) = Found j /\
    (forall k, opt_key k = true -> lookup k (JObj (mix o [(pname p, j)])) = lookup k (JObj o)).
  Proof. exact (template_one_param S mem_find mem_store cfg ucall rfuel site_ok). Qed.

  (** the whole observation of Template.evaluate in one equation *)
  Theorem C09_template_observation : forall s ps o st o' st1 l1,
    template_options S (fun x => eval x o) ps o st = (Ok o', st1, l1) ->
    eval (ETemplate s ps) o st =
      (template_result (resolve rfuel o' (JStr s)), st1,
       l1 ++ map (fun k => EvRead k (present o k)) (filter not_par (resolve_reads rfuel o' (JStr s)))).
  Proof. exact (eval_template_log S mem_find mem_store cfg ucall rfuel site_ok). Qed.

  (** * Sentence 2 — a referenced key that is absent *)

  (** [misses o' n s k]: resolution of [s] meets the absent key [k] (directly, behind a single
      reference, or after a substitution round) within [n] rounds: the evaluation fails with an
      EvaluationError that is a KeyNotFoundError naming [k] *)
  Theorem C09_missing_reference_is_named : forall s ps o st o' st1 l1 n k,
    template_options S (fun x => eval x o) ps o st = (Ok o', st1, l1) ->
    misses o' n s k -> rfuel > n ->
    exists l2, eval (ETemplate s ps) o st = (Err (CKey k) true, st1, l1 ++ l2) /\ forallb is_read l2 = true.
  Proof. exact (eval_template_missing_reference S mem_find mem_store cfg ucall rfuel site_ok). Qed.

  (** * Sentence 3 — keys() and explain() include every option key the substitution reads *)

  (** Template, on evaluate's own log: after the parameters' events, every read evaluate records
      is a reported key.  Side conditions: D1 ([flat_at]: no reported key holds a container with
      a templated string inside), D13 ([params_plain]: no parameter value holds a templated
      string), reported keys are option keys (not parameter slots). *)
  Theorem C09_template_keys_cover_the_reads : forall s ps o st o' st1 l1 st2 ks st3 lg,
    template_options S (fun x => eval x o) ps o st = (Ok o', st1, l1) ->
    keys (ETemplate s ps) o st2 = (Ok ks, st3, lg) ->
    flat_at o ks = true -> forallb opt_key ks = true -> params_plain o' s = true ->
    exists r l2, eval (ETemplate s ps) o st = (r, st1, l1 ++ l2) /\
                 forall k p, In (EvRead k p) l2 -> In k ks.
  Proof. exact (template_keys_cover_log S mem_find mem_store cfg ucall rfuel site_ok). Qed.

  Theorem C09_template_explain_covers_the_reads : forall s ps o st o' st1 l1 st2 ks st3 lg,
    template_options S (fun x => eval x o) ps o st = (Ok o', st1, l1) ->
    explain (ETemplate s ps) o st2 = (Ok ks, st3, lg) ->
    flat_at o ks = true -> forallb opt_key ks = true -> params_plain o' s = true ->
    exists r l2, eval (ETemplate s ps) o st = (r, st1, l1 ++ l2) /\
                 forall k p, In (EvRead k p) l2 -> In k ks.
  Proof. exact (template_explain_cover_log S mem_find mem_store cfg ucall rfuel site_ok). Qed.

  (** Template, semantically: any dictionary that agrees with [o] on the reported keys gives
      the same text or the same failure — nothing outside keys() / explain() is read *)
  Theorem C09_template_keys_determine_the_text : forall s o o' st ks st' lg,
    pars s = [] ->
    keys (ETemplate s []) o st = (Ok ks, st', lg) -> flat_at o ks = true ->
    (forall k, In k ks -> lookup k (JObj o') = lookup k (JObj o)) ->
    forall st2, fst (fst (eval (ETemplate s []) o' st2)) = fst (fst (eval (ETemplate s []) o st2)).
  Proof. exact (template_keys_determine_text S mem_find mem_store cfg ucall rfuel site_ok). Qed.

  Theorem C09_template_explain_determines_the_text : forall s o o' st ks st' lg,
    pars s = [] ->
    explain (ETemplate s []) o st = (Ok ks, st', lg) -> flat_at o ks = true ->
    (forall k, In k ks -> lookup k (JObj o') = lookup k (JObj o)) ->
    forall st2, fst (fst (eval (ETemplate s []) o' st2)) = fst (fst (eval (ETemplate s []) o st2)).
  Proof. exact (template_explain_determine_text S mem_find mem_store cfg ucall rfuel site_ok). Qed.

  (** Option whose VALUE is templated, at any depth of the reference chain (induction on the
      resolution budget): keys()/explain() hold the key and everything [resolve] looks up *)
  Theorem C09_option_keys_cover_the_reads : forall k dflt dom o raw st ks st' lg,
    lookup k (JObj o) = Found raw ->
    keys (EOption k dflt dom) o st = (Ok ks, st', lg) ->
    flat_at o ks = true ->
    In k ks /\ forall g, incl (resolve_reads g o raw) ks.
  Proof. exact (option_keys_cover_reads S mem_find mem_store cfg ucall rfuel site_ok). Qed.

  Theorem C09_option_explain_covers_the_reads : forall k dflt dom o raw st ks st' lg,
    lookup k (JObj o) = Found raw ->
    explain (EOption k dflt dom) o st = (Ok ks, st', lg) ->
    flat_at o ks = true ->
    In k ks /\ forall g, incl (resolve_reads g o raw) ks.
  Proof. exact (option_explain_cover_reads S mem_find mem_store cfg ucall rfuel site_ok). Qed.

  Theorem C09_option_keys_cover_the_log : forall k dflt o raw st ks st' lg st2,
    lookup k (JObj o) = Found raw ->
    keys (EOption k dflt None) o st = (Ok ks, st', lg) -> flat_at o ks = true ->
    exists r l, eval (EOption k dflt None) o st2 = (r, st2, l) /\ forall k' p, In (EvRead k' p) l -> In k' ks.
  Proof. exact (option_keys_cover_log S mem_find mem_store cfg ucall rfuel site_ok). Qed.

  Theorem C09_option_keys_determine_the_value : forall k dflt o o' raw st ks st' lg,
    lookup k (JObj o) = Found raw ->
    keys (EOption k dflt None) o st = (Ok ks, st', lg) -> flat_at o ks = true ->
    (forall k', In k' ks -> lookup k' (JObj o') = lookup k' (JObj o)) ->
    forall st2, fst (fst (eval (EOption k dflt None) o' st2)) = fst (fst (eval (EOption k dflt None) o st2)).
  Proof. exact (option_keys_determine_value S mem_find mem_store cfg ucall rfuel site_ok). Qed.

  Theorem C09_option_explain_determines_the_value : forall k dflt o o' raw st ks st' lg,
    lookup k (JObj o) = Found raw ->
    explain (EOption k dflt None) o st = (Ok ks, st', lg) -> flat_at o ks = true ->
    (forall k', In k' ks -> lookup k' (JObj o') = lookup k' (JObj o)) ->
    forall st2, fst (fst (eval (EOption k dflt None) o' st2)) = fst (fst (eval (EOption k dflt None) o st2)).
  Proof. exact (option_explain_determine_value S mem_find mem_store cfg ucall rfuel site_ok). Qed.

  (** Option whose DEFAULT is templated (a string default is a Template), key absent: keys() are
      the Template's, and determine the value among dictionaries where the key stays absent *)
  Theorem C09_option_default_keys_are_the_templates : forall k d dom o st,
    lookup k (JObj o) = Absent ->
    keys (EOption k (Some d) dom) o st = (let '(r, s', l) := keys d o st in (r, s', EvRead k false :: l)).
  Proof. exact (keys_option_absent S mem_find mem_store cfg ucall rfuel site_ok). Qed.

  Theorem C09_option_default_keys_determine_the_value : forall k s o o' st ks st' lg,
    pars s = [] ->
    lookup k (JObj o) = Absent -> lookup k (JObj o') = Absent ->
    keys (EOption k (Some (ETemplate s [])) None) o st = (Ok ks, st', lg) -> flat_at o ks = true ->
    (forall k', In k' ks -> lookup k' (JObj o') = lookup k' (JObj o)) ->
    forall st2, fst (fst (eval (EOption k (Some (ETemplate s [])) None) o' st2)) =
                fst (fst (eval (EOption k (Some (ETemplate s [])) None) o st2)).
  Proof. exact (option_default_keys_determine_value S mem_find mem_store cfg ucall rfuel site_ok). Qed.

  Theorem C09_option_default_explain_determines_the_value : forall k s o o' st ks st' lg,
    pars s = [] ->
    lookup k (JObj o) = Absent -> lookup k (JObj o') = Absent ->
    explain (EOption k (Some (ETemplate s [])) None) o st = (Ok ks, st', lg) -> flat_at o ks = true ->
    (forall k', In k' ks -> lookup k' (JObj o') = lookup k' (JObj o)) ->
    forall st2, fst (fst (eval (EOption k (Some (ETemplate s [])) None) o' st2)) =
                fst (fst (eval (EOption k (Some (ETemplate s [])) None) o st2)).
  Proof. exact (option_default_explain_determine_value S mem_find mem_store cfg ucall rfuel site_ok). Qed.
End AllInstances.

Print Assumptions C09_text_is_the_transitive_expansion.
Print Assumptions C09_text_one_level.
Print Assumptions C09_text_with_parameters.
Print Assumptions C09_parameters_are_evaluated_under_the_same_options.
Print Assumptions C09_parameters_leave_the_options_alone.
Print Assumptions C09_one_parameter.
Print Assumptions C09_template_observation.
Print Assumptions C09_missing_reference_is_named.
Print Assumptions C09_template_keys_cover_the_reads.
Print Assumptions C09_template_explain_covers_the_reads.
Print Assumptions C09_template_keys_determine_the_text.
Print Assumptions C09_template_explain_determines_the_text.
Print Assumptions C09_option_keys_cover_the_reads.
Print Assumptions C09_option_explain_covers_the_reads.
Print Assumptions C09_option_keys_cover_the_log.
Print Assumptions C09_option_keys_determine_the_value.
Print Assumptions C09_option_explain_determines_the_value.
Print Assumptions C09_option_default_keys_are_the_templates.
Print Assumptions C09_option_default_keys_determine_the_value.
Print Assumptions C09_option_default_explain_determines_the_value.

(** * The two recorded defects: the statements WITHOUT their side condition are false *)

(** D1 (no [flat_at]): Option('A') under {'A': ['{B}'], 'B': 1} and {'A': ['{B}'], 'B': 2}:
    keys() = {A} both times, the dictionaries agree on A, the values are [1] and [2] … *)
Theorem C09_option_keys_determine_the_value_refuted_D1 :
  exists k o o' ks,
    fst (keys_nc u_none 40 (EOption k None None) o) = Ok ks /\
    (forall k', In k' ks -> lookup k' (JObj o') = lookup k' (JObj o)) /\
    fst (eval_nc u_none 40 (EOption k None None) o') <> fst (eval_nc u_none 40 (EOption k None None) o).
Proof. exact D1_option_keys_do_not_determine_value. Qed.
Print Assumptions C09_option_keys_determine_the_value_refuted_D1.

(** … and evaluate logs a read of B that keys() does not list *)
Theorem C09_option_keys_cover_the_log_refuted_D1 :
  exists k o ks,
    fst (keys_nc u_none 40 (EOption k None None) o) = Ok ks /\
    In (EvRead kB true) (snd (eval_nc u_none 40 (EOption k None None) o)) /\ ~ In kB ks.
Proof. exact D1_option_reads_unreported. Qed.
Print Assumptions C09_option_keys_cover_the_log_refuted_D1.

(** D13 (no [params_plain]): Template('{:p1:}', p1='{B}'): keys() = explain() = {}, validate
    passes under {}, evaluate fails there with KeyNotFoundError(B) and yields '1' / '2' under
    {'B': 1} / {'B': 2} *)
Theorem C09_template_keys_cover_the_reads_refuted_D13 :
  fst (keys_nc u_none 40 d13_t [(SName 11, JInt 1)]) = Ok [] /\
  fst (explain_nc u_none 40 d13_t []) = Ok [] /\
  fst (validate_nc u_none 40 d13_t []) = Ok tt /\
  fst (eval_nc u_none 40 d13_t []) = Err (CKey kB) true /\
  fst (eval_nc u_none 40 d13_t [(SName 11, JInt 1)]) = Ok (VJ (JStr (lit [49%N]))) /\
  fst (eval_nc u_none 40 d13_t [(SName 11, JInt 2)]) = Ok (VJ (JStr (lit [50%N]))).
Proof. exact D13_template_keys_do_not_determine_text. Qed.
Print Assumptions C09_template_keys_cover_the_reads_refuted_D13.

(** * Non-vacuity: concrete instances of every hypothesis used above *)

(** {'A': '{B}/{S.X}', 'B': 'x{C}', 'C': '{S.X}', 'S': {'X': 5}, 'P': 7} and '{A}-\{x\}': the
    reference chain has depth 4 (A -> B -> C -> S.X -> 5); the specification is defined at depth
    4 and not at depth 3; the interpreter yields 'x5/5-{x}' *)
Example C09_ex_expansion_depth4 :
  flatten 4 ex_o ex_s = Some [TLit 120; TLit 53; TLit 47; TLit 53; TLit 45; TEscL; TLit 120; TEscR] /\
  flatten 3 ex_o ex_s = None /\
  fst (eval_nc u_none 40 (ETemplate ex_s []) ex_o) =
    Ok (VJ (JStr [TLit 120; TLit 53; TLit 47; TLit 53; TLit 45; TLit 123; TLit 120; TLit 125])).
Proof. vm_compute. repeat split. Qed.

(** keys() of that template lists the whole chain; the D1 / option-key side conditions hold *)
Example C09_ex_keys :
  fst (keys_nc u_none 40 (ETemplate ex_s []) ex_o) = Ok [kA; kB; kC; kSX; kSX] /\
  flat_at ex_o [kA; kB; kC; kSX; kSX] = true /\ forallb opt_key [kA; kB; kC; kSX; kSX] = true /\
  flat ex_o = true /\ pars ex_s = [].
Proof. vm_compute. repeat split. Qed.

(** a parameter: Template('v={:p1:}/{C}', p1=Option('P')) gives 'v=7/5', keys() = {P, C, S.X},
    and the D13 side condition holds of the dictionary the template is resolved against *)
Example C09_ex_parameter :
  fst (eval_nc u_none 40 ex_p ex_o) = Ok (VJ (JStr [TLit 118; TLit 61; TLit 55; TLit 47; TLit 53])) /\
  fst (keys_nc u_none 40 ex_p ex_o) = Ok [[SName 13]; kC; kSX] /\
  params_plain (mix ex_o [(pname 1, JInt 7)]) [TLit 118; TLit 61; TPar 1; TLit 47; TRef kC] = true.
Proof. vm_compute. repeat split. Qed.

(** a missing reference two levels down: [misses] holds and the interpreter names S.X *)
Example C09_ex_missing : misses ex_o_missing 1 ex_s kSX.
Proof. exact ex_misses. Qed.

Example C09_ex_missing_run :
  fst (eval_nc u_none 40 (ETemplate ex_s []) ex_o_missing) = Err (CKey kSX) true /\
  fst (explain_nc u_none 40 (ETemplate ex_s []) ex_o_missing) = Ok [kA; kB; kSX].
Proof. vm_compute. repeat split. Qed.

(** one level: all referenced values atomic *)
Example C09_ex_one_level :
  closed [(SName 10, JInt 3); (SName 11, JStr (lit [97%N]))] [TRef kA; TLit 47; TRef kB; TEscL] = true /\
  expand [(SName 10, JInt 3); (SName 11, JStr (lit [97%N]))] [TRef kA; TLit 47; TRef kB; TEscL] =
    Some [TLit 51; TLit 47; TLit 97; TEscL].
Proof. vm_compute. repeat split. Qed.
