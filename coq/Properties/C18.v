(** C18 — Every core operation is an interceptable request; pass-through changes nothing.
    Only statements closed by [exact] (Examples and refutation witnesses by computation), each
    followed by [Print Assumptions].

    Model: Model/Requests.v (program trees with explicit requests, [run H] = Runtime.run under
    the handler table [H]; the four interpreters of Model/Eval.v re-transcribed with the
    request layer; a class whose reflection-table row is not wrapped calls its method
    directly).  All statements are for ALL expressions, dictionaries, stores, user code,
    resolution budgets, configurations; (1) and the nesting theorem also for all reflection
    tables; (2), (3) and (4) under the per-run obligation [table_ok rt = true], which the harness
    discharges by [vm_compute] on the table reflected from the running package.
    (4) links this model to the core model Model/Eval.v ([eval] / [validate] / [keys] /
    [explain], about which C01-C13 speak): it is the same semantics, for all expressions. *)
From Coq Require Import List NArith ZArith Bool String.
Import ListNotations.
From LV Require Import Model.Base Model.Template Model.Eval Model.Derived Model.EvalRun
  Model.Requests Model.RequestsRun Proofs.C18Proofs Proofs.C18Link.

(** ** (1) Pass-through changes nothing and sees everything *)

(** For EVERY program of the request layer (in particular evaluate / validate / keys / explain
    of every expression) and EVERY set [K] of request kinds: running with recording
    pass-through handlers installed for the kinds in [K] yields the very run without handlers
    — same result, same final store, same history — with one [RSeen r] inserted right after
    each issued request [r] of a kind in [K]. *)
Theorem C18_passthrough_exact :
  forall (S : Type) (K : rkind -> bool) (A : Type) (q : prog S A) (s : S),
    run S (passthrough K) q s =
      (let '(r, s', l) := run S no_handlers q s in (r, s', mark K l)).
Proof. exact run_passthrough. Qed.
Print Assumptions C18_passthrough_exact.

(** … spelled out: same result, same store, same core history (user-code calls, cache
    operations, log emissions), same requests issued; the handlers have recorded exactly the
    requests of their kinds that the plain run issues (the plain run's request trace, in
    order); a run without handlers records nothing. *)
Theorem C18_passthrough_transparent :
  forall (S : Type) (K : rkind -> bool) (A : Type) (q : prog S A) (s : S),
    let plain := run S no_handlers q s in
    let thru := run S (passthrough K) q s in
    fst (fst thru) = fst (fst plain) /\ snd (fst thru) = snd (fst plain) /\
    core_events (snd thru) = core_events (snd plain) /\
    issued (snd thru) = issued (snd plain) /\
    seen (snd thru) = filter (fun r => K r.(rq_kind)) (issued (snd plain)) /\
    seen (snd plain) = [].
Proof. exact passthrough_transparent. Qed.
Print Assumptions C18_passthrough_transparent.

(** ** (2) The recorded requests cover the nodes, nested ones included *)
Section Methods.
  Variable S : Type.
  Variable mem_find : N -> fp -> S -> option value.
  Variable mem_store : N -> fp -> value -> S -> S.
  Variable cfg : config.
  Variable ucall : N -> list value -> cres.
  Variable rfuel : nat.
  Variable site_ok : expr -> dict -> bool.
  Variable rt : rtable.

  Notation deval := (deval S mem_find mem_store cfg ucall rfuel site_ok rt).
  Notation dvalidate := (dvalidate S mem_find mem_store cfg ucall rfuel site_ok rt).
  Notation dkeys := (dkeys S mem_find mem_store cfg ucall rfuel site_ok rt).
  Notation dexplain := (dexplain S mem_find mem_store cfg ucall rfuel site_ok rt).

  (** [covered K x root vs]: in the run [x] the handlers for the kinds [K] have seen the request
      [root] (if its kind is in [K]) whatever the outcome, and, when the run succeeds, every
      request of [vs] whose kind is in [K].  [visits_*] are defined by structural recursion on
      the expression alone (Model/Requests.v): the node's own request, its cache / log / type
      check requests, and recursively the requests of every sub-node the method visits
      unconditionally. *)
  Theorem C18_requests_cover_nodes_evaluate :
    table_ok rt = true ->
    forall K e p o s,
      covered S K (run S (passthrough K) (deval p e o) s) (KEval, p) (visits_eval p e).
  Proof. exact (requests_cover_eval S mem_find mem_store cfg ucall rfuel site_ok rt). Qed.

  Theorem C18_requests_cover_nodes_validate :
    table_ok rt = true ->
    forall K e p o s,
      covered S K (run S (passthrough K) (dvalidate p e o) s) (KValidate, p) (visits_validate p e).
  Proof. exact (requests_cover_validate S mem_find mem_store cfg ucall rfuel site_ok rt). Qed.

  Theorem C18_requests_cover_nodes_keys :
    table_ok rt = true ->
    forall K e p o s,
      covered S K (run S (passthrough K) (dkeys p e o) s) (KKeys, p) (visits_keys p e).
  Proof. exact (requests_cover_keys S mem_find mem_store cfg ucall rfuel site_ok rt). Qed.

  Theorem C18_requests_cover_nodes_explain :
    table_ok rt = true ->
    forall K e p o s,
      covered S K (run S (passthrough K) (dexplain p e o) s) (KExplain, p) (visits_explain p e).
  Proof. exact (requests_cover_explain S mem_find mem_store cfg ucall rfuel site_ok rt). Qed.

  (** Nested requests concern sub-nodes only: whatever handlers are installed, every request
      issued or seen while a method runs on the node at position [p] is a request on a position
      at or below [p] (no request of an evaluation escapes its sub-graph). *)
  Theorem C18_requests_nested :
    forall H e p o s,
      all_below p (snd (run S H (deval p e o) s)) /\
      all_below p (snd (run S H (dvalidate p e o) s)) /\
      all_below p (snd (run S H (dkeys p e o) s)) /\
      all_below p (snd (run S H (dexplain p e o) s)).
  Proof. exact (requests_nested S mem_find mem_store cfg ucall rfuel site_ok rt). Qed.

  (** ** (3) A substituted result is honoured wherever the node is a dependency *)

  (** An EvaluateRequest handler answering [v] for the node(s) at the positions [sels] (and
      passing every other request on): the evaluation is the evaluation of the expression in
      which those nodes are replaced by the constant [v] — same result (value or error), same
      final store, same history up to the names of the nodes — PROVIDED no selected node sits
      below a Coalesce (which validates its members: a ValidateRequest, not intercepted) or
      below a Cached whose memory cache is in use (whose fingerprint asks the keys of
      everything below it: a KeysRequest, not intercepted).  [frag] is that boolean condition. *)
  Theorem C18_substitution_honoured_partial :
    table_ok rt = true ->
    forall sels v e p o s,
      frag sels (negb cfg.(cache_ctx_off)) p e = true ->
      let sub := run S (substituting sels v) (deval p e o) s in
      let ref := run S no_handlers (deval p (replace_at sels v p e) o) s in
      fst (fst sub) = fst (fst ref) /\ snd (fst sub) = snd (fst ref) /\
      skel (snd sub) = skel (snd ref).
  Proof. exact (substitution_run S mem_find mem_store cfg ucall rfuel site_ok rt). Qed.
End Methods.
Print Assumptions C18_requests_cover_nodes_evaluate.
Print Assumptions C18_requests_cover_nodes_validate.
Print Assumptions C18_requests_cover_nodes_keys.
Print Assumptions C18_requests_cover_nodes_explain.
Print Assumptions C18_requests_nested.
Print Assumptions C18_substitution_honoured_partial.

(** ** (4) The request layer IS the core model *)

(** The projection of a request-layer history onto the vocabulary of the core model
    (Proofs/C18Link.v), spelled out: the core events are kept; a LogRequest handed to the runtime
    is what the core model calls [EvLogReq]; every other piece of request bookkeeping (requests
    issued, requests seen by handlers) is forgotten. *)
Theorem C18_link_events_spec :
  forall l : list hev,
    link_events l =
    flat_map (fun e => match e with
                       | RCore c => [c]
                       | RIssued r => match r.(rq_kind) with KLog => [EvLogReq] | _ => [] end
                       | RSeen _ => []
                       end) l.
Proof. exact (fun l => eq_refl). Qed.
Print Assumptions C18_link_events_spec.

Section Link.
  Variable S : Type.
  Variable mem_find : N -> fp -> S -> option value.
  Variable mem_store : N -> fp -> value -> S -> S.
  Variable cfg : config.
  Variable ucall : N -> list value -> cres.
  Variable rfuel : nat.
  Variable site_ok : expr -> dict -> bool.
  Variable rt : rtable.

  Notation deval := (deval S mem_find mem_store cfg ucall rfuel site_ok rt).
  Notation dvalidate := (dvalidate S mem_find mem_store cfg ucall rfuel site_ok rt).
  Notation dkeys := (dkeys S mem_find mem_store cfg ucall rfuel site_ok rt).
  Notation dexplain := (dexplain S mem_find mem_store cfg ucall rfuel site_ok rt).
  Notation eval := (eval S mem_find mem_store cfg ucall rfuel site_ok).
  Notation validate := (validate S mem_find mem_store cfg ucall rfuel site_ok).
  Notation keys := (keys S mem_find mem_store cfg ucall rfuel site_ok).
  Notation explain := (explain S mem_find mem_store cfg ucall rfuel site_ok).

  (** For ALL expressions, positions, dictionaries, stores (and store types, user code,
      budgets, configurations, ghost oracles): with every class wrapped and no handler installed,
      each of the four interpreters of the request layer computes exactly what the corresponding
      interpreter of Model/Eval.v computes - same result (value or error, EvaluationError flag
      included), same final store, same history of core events (option reads, user calls, cache
      exists/get/set, log requests and emissions, ghost events) in the same order.  The two
      transcriptions are one semantics; the C18 theorems about [deval] … are theorems about
      [eval] …. *)
  Theorem C18_request_layer_is_core_model :
    table_ok rt = true ->
    forall e p o s,
      eval e o s = (let '(r, s', l) := run S no_handlers (deval p e o) s in (r, s', link_events l)) /\
      validate e o s = (let '(r, s', l) := run S no_handlers (dvalidate p e o) s in (r, s', link_events l)) /\
      keys e o s = (let '(r, s', l) := run S no_handlers (dkeys p e o) s in (r, s', link_events l)) /\
      explain e o s = (let '(r, s', l) := run S no_handlers (dexplain p e o) s in (r, s', link_events l)).
  Proof. exact (link_runs S mem_find mem_store cfg ucall rfuel site_ok rt). Qed.

  (** … and so does every run under recording pass-through handlers for any set of request
      kinds: pass-through leaves the CORE MODEL's results, stores and histories unchanged. *)
  Theorem C18_passthrough_is_core_model :
    table_ok rt = true ->
    forall K e p o s,
      eval e o s = (let '(r, s', l) := run S (passthrough K) (deval p e o) s in (r, s', link_events l)) /\
      validate e o s = (let '(r, s', l) := run S (passthrough K) (dvalidate p e o) s in (r, s', link_events l)) /\
      keys e o s = (let '(r, s', l) := run S (passthrough K) (dkeys p e o) s in (r, s', link_events l)) /\
      explain e o s = (let '(r, s', l) := run S (passthrough K) (dexplain p e o) s in (r, s', link_events l)).
  Proof. exact (link_runs_passthrough S mem_find mem_store cfg ucall rfuel site_ok rt). Qed.

  (** what the link needs of the reflection table, exactly: every class's [evaluate] is a
      request-issuing wrapper (its default handler is what turns every exception into an
      EvaluationError) and [Logged] issues its LogRequest; whether the other methods and side
      operations are wrapped does not matter to a run without handlers. *)
  Theorem C18_request_layer_is_core_model_minimal :
    (forall c, wrapped rt c KEval = true) -> wrapped rt CtLogged KLog = true ->
    forall e p o s,
      eval e o s = (let '(r, s', l) := run S no_handlers (deval p e o) s in (r, s', link_events l)) /\
      validate e o s = (let '(r, s', l) := run S no_handlers (dvalidate p e o) s in (r, s', link_events l)) /\
      keys e o s = (let '(r, s', l) := run S no_handlers (dkeys p e o) s in (r, s', link_events l)) /\
      explain e o s = (let '(r, s', l) := run S no_handlers (dexplain p e o) s in (r, s', link_events l)).
  Proof. exact (link_runs_weak S mem_find mem_store cfg ucall rfuel site_ok rt). Qed.
End Link.
Print Assumptions C18_request_layer_is_core_model.
Print Assumptions C18_passthrough_is_core_model.
Print Assumptions C18_request_layer_is_core_model_minimal.

(** ** Witnesses and non-vacuity (closed by computation on the concrete instance) *)
Definition k10 : key := [SName 10%N].
Definition ds (cache : cache_ref) (kw : list expr) : expr :=
  dataset_expr {| ds_dispatch := no_dispatch; ds_table := []; ds_default := Some (body 100%N kw);
                  ds_callback := empty_callback; ds_effects := []; ds_effects_disabled := false;
                  ds_cache := cache; ds_options := []; ds_default_options := [] |}.
Definition run_eval (rt : rtable) (c : config) (H : htable) (e : expr) (o : dict) :=
  run store H (deval store mem_find mem_store c (ucall_of []) default_fuel (fun _ _ => true) rt [0%nat] e o) [].

(** the hypothesis of (2)/(3) is satisfiable: the table in which every class is wrapped *)
Example C18_full_table_ok : table_ok full_table = true.
Proof. vm_compute. reflexivity. Qed.
Print Assumptions C18_full_table_ok.

(** the hypothesis is NEEDED: with a table in which Switch.evaluate is not a wrapper (a subclass
    that bypassed the class-creation hook), a successful evaluation issues no EvaluateRequest
    for the switch node: its request is missing from what pass-through handlers see. *)
Definition bypass_table : rtable :=
  map (fun r => match r.(rr_ctor) with
                | Some CtSwitch => {| rr_class := r.(rr_class); rr_ctor := r.(rr_ctor); rr_eval := false;
                                      rr_validate := true; rr_keys := true; rr_explain := true; rr_side := true |}
                | _ => r
                end) full_table.
Example C18_unwrapped_class_not_covered :
  table_ok bypass_table = false /\
  let e := ESwitch (EValue (VJ (JInt 1))) [(VJ (JInt 1), EValue (VJ (JInt 5)))] None in
  let '(r, _, l) := run_eval bypass_table cfg0 (passthrough (fun _ => true)) e [] in
  r = Ok (VJ (JInt 5)) /\
  existsb (fun q => rkind_eqb q.(rq_kind) KEval && path_eqb q.(rq_path) [0%nat]) (seen l) = false /\
  let '(r', _, l') := run_eval full_table cfg0 (passthrough (fun _ => true)) e [] in
  r' = Ok (VJ (JInt 5)) /\
  existsb (fun q => rkind_eqb q.(rq_kind) KEval && path_eqb q.(rq_path) [0%nat]) (seen l') = true.
Proof. vm_compute. repeat split; reflexivity. Qed.
Print Assumptions C18_unwrapped_class_not_covered.

(** a non-trivial evaluation (a dataset with a memory cache, a logged body, an option with a type
    check) under pass-through handlers for ALL kinds: it succeeds, and the handlers see
    evaluate, keys, cache-exists, cache-set, log and type-check requests, nested ones included
    (46 requests) *)
Example C18_nontrivial_passthrough :
  let e := ds (CMem 1%N) [EOption k10 None None] in
  let '(r, _, l) := run_eval full_table cfg0 (passthrough (fun _ => true)) e [(SName 10%N, JInt 3)] in
  r = Ok (VT 100%N [VJ (JInt 3)]) /\ List.length (seen l) = List.length (issued l) /\
  forallb (fun k => existsb (fun q => rkind_eqb q.(rq_kind) k) (seen l))
          [KEval; KKeys; KCacheExists; KCacheSet; KLog; KType] = true /\
  List.length (seen l) = 46%nat.
Proof. vm_compute. repeat split; reflexivity. Qed.
Print Assumptions C18_nontrivial_passthrough.

(** (4) on a non-trivial instance (the dataset of [C18_nontrivial_passthrough]: memory cache, logged
    body, option read, user call): the core model and the request layer under pass-through
    handlers for all kinds yield the same value, the same store (one new cache entry) and the same
    10 core events, among them the log request and its emission, the cache miss, the store and
    the read-back *)
Example C18_link_nontrivial :
  let e := ds (CMem 1%N) [EOption k10 None None] in
  let o := [(SName 10%N, JInt 3)] in
  let core := eval store mem_find mem_store cfg0 (ucall_of []) default_fuel (fun _ _ => true) e o [] in
  let '(r, s', l) := run_eval full_table cfg0 (passthrough (fun _ => true)) e o in
  core = (r, s', link_events l) /\
  r = Ok (VT 100%N [VJ (JInt 3)]) /\ List.length s' = 1%nat /\
  link_events l =
    [EvRead k10 true; EvCacheExists 1 false; EvLogReq; EvLogEmit; EvRead k10 true;
     EvCall 100 [VJ (JInt 3)]; EvRead k10 true; EvCacheSet 1; EvRead k10 true; EvCacheGet 1 true] /\
  List.length (issued l) = 46%nat.
Proof. vm_compute. repeat split; reflexivity. Qed.
Print Assumptions C18_link_nontrivial.

(** the hypothesis of (4) is NEEDED: with [bypass_table] (Switch.evaluate not a wrapper) a switch
    on an unhashable dispatch value fails with a bare TypeError in the request layer, with an
    EvaluationError in the core model (and in the request layer with every class wrapped) *)
Example C18_link_needs_wrapping :
  let e := ESwitch (EValue (VJ (JList []))) [] None in
  fst (fst (eval store mem_find mem_store cfg0 (ucall_of []) default_fuel (fun _ _ => true) e [] [])) = Err CType true /\
  fst (fst (run_eval full_table cfg0 no_handlers e [])) = Err CType true /\
  fst (fst (run_eval bypass_table cfg0 no_handlers e [])) = Err CType false.
Proof. vm_compute. repeat split; reflexivity. Qed.
Print Assumptions C18_link_needs_wrapping.

(** (3) is not vacuous: a consumer dataset (caching disabled by context) of a dataset [d] that
    needs a missing option: with the handler answering 7 for [d] the consumer evaluates to
    f(7); without it the evaluation fails *)
Definition inner_d : expr := ds (CMem 2%N) [EOption k10 None None].
Definition consumer (c : cache_ref) : expr := ds c [inner_d].
Definition d_path : path := [0; 0; 0; 0; 0; 0; 0; 1; 1]%nat.
Definition cfg_nocache : config := {| cache_ctx_off := true; log_ctx_off := false |}.

Example C18_substitution_nontrivial :
  frag [d_path] false [0%nat] (consumer (CMem 1%N)) = true /\
  (let '(r, _, _) := run_eval full_table cfg_nocache (substituting [d_path] (VJ (JInt 7))) (consumer (CMem 1%N)) [] in
   r = Ok (VT 100%N [VJ (JInt 7)])) /\
  (let '(r, _, _) := run_eval full_table cfg_nocache no_handlers (consumer (CMem 1%N)) [] in
   r = Err (CKey k10) true).
Proof. vm_compute. repeat split; reflexivity. Qed.
Print Assumptions C18_substitution_nontrivial.

(** (3) at full strength is FALSE, outside the fragment: the same consumer with its memory cache
    in use.  The handler answers 7 for [d], but the consumer's cache fingerprint asks for the
    keys of [d] (a KeysRequest, which an EvaluateRequest handler does not intercept), [d]'s
    option is missing, and the evaluation fails: the substituted result is NOT honoured, while
    the expression with [d] replaced by the constant evaluates to f(7). *)
Theorem C18_substitution_honoured_refuted :
  exists sels v e o,
    frag sels true [0%nat] e = false /\
    fst (fst (run_eval full_table cfg0 (substituting sels v) e o)) = Err (CKey k10) true /\
    fst (fst (run_eval full_table cfg0 no_handlers (replace_at sels v [0%nat] e) o)) = Ok (VT 100%N [v]).
Proof.
  exists [d_path], (VJ (JInt 7)), (consumer (CMem 1%N)), []. vm_compute. repeat split; reflexivity.
Qed.
Print Assumptions C18_substitution_honoured_refuted.
