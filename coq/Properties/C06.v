(** C06 — laziness: only bodies on the selected path run, and only when evaluated.

    The model (Model/Eval.v) logs every execution of user code — dataset bodies, overload
    implementations, callbacks, pipeline steps, predicates, effect callbacks — as an
    [EvCall f args] event in order of occurrence.  An outcome is a triple (result, store, log).
    All statements below hold for EVERY expression, options dictionary, memo store (type and
    operations), user code, context switches and template-resolution budget; nothing is bounded.
    Lemmas and definitions ([conds_false], [skipped], [path_in], …): Proofs/C06Proofs.v.
    Construction-time laziness (building / composing / overloading / defining interfaces never
    runs a body) is a runtime matter — the model's constructors are data — and is decided on
    the implementation by harness/props/c06.py (PARTIAL, runtime). *)
From Coq Require Import List NArith ZArith Bool.
Import ListNotations.
From LV Require Import Model.Base Model.Template Model.Eval Model.Derived Model.EvalRun
  Proofs.EvalProofs Proofs.TraceProofs Proofs.C06Proofs.

(** * (a) Unselected branches never run *)

(** Switch (and Overloaded.switch): the outcome is the dispatch's log followed by the outcome
    of the branch registered under the dispatch value — nothing of any other branch, nothing of
    the default. *)
Theorem C06_switch_selected_only :
  forall (S : Type) mf ms cfg u fu so disp tbl dflt o (s : S) k s1 l1 b,
  eval S mf ms cfg u fu so disp o s = (Ok k, s1, l1) -> hashable k = true -> assoc_v k tbl = Some b ->
  eval S mf ms cfg u fu so (ESwitch disp tbl dflt) o s = after S l1 (eval S mf ms cfg u fu so b o s1).
Proof. exact switch_selected_only. Qed.
Print Assumptions C06_switch_selected_only.

(** … said as an independence: replace every other branch and the default by anything. *)
Theorem C06_switch_unselected_irrelevant :
  forall (S : Type) mf ms cfg u fu so disp tbl dflt tbl' dflt' o (s : S) k s1 l1 b,
  eval S mf ms cfg u fu so disp o s = (Ok k, s1, l1) -> hashable k = true ->
  assoc_v k tbl = Some b -> assoc_v k tbl' = Some b ->
  eval S mf ms cfg u fu so (ESwitch disp tbl dflt) o s = eval S mf ms cfg u fu so (ESwitch disp tbl' dflt') o s.
Proof. exact switch_unselected_irrelevant. Qed.
Print Assumptions C06_switch_unselected_irrelevant.

(** an unregistered dispatch value, or a dispatch that cannot be evaluated: the default only *)
Theorem C06_switch_default_only :
  forall (S : Type) mf ms cfg u fu so disp tbl d o (s : S) k s1 l1,
  eval S mf ms cfg u fu so disp o s = (Ok k, s1, l1) -> hashable k = true -> assoc_v k tbl = None ->
  eval S mf ms cfg u fu so (ESwitch disp tbl (Some d)) o s = after S l1 (eval S mf ms cfg u fu so d o s1).
Proof. exact switch_default_only. Qed.
Print Assumptions C06_switch_default_only.

Theorem C06_switch_fallback_only :
  forall (S : Type) mf ms cfg u fu so disp tbl d o (s : S) c s1 l1,
  eval S mf ms cfg u fu so disp o s = (Err c true, s1, l1) -> c <> CUnmodelled ->
  eval S mf ms cfg u fu so (ESwitch disp tbl (Some d)) o s = after S l1 (eval S mf ms cfg u fu so d o s1).
Proof. exact switch_fallback_only. Qed.
Print Assumptions C06_switch_fallback_only.

(** validate and keys walk the same single branch *)
Theorem C06_switch_validate_selected_only :
  forall (S : Type) mf ms cfg u fu so disp tbl dflt o (s : S) k s1 l1 b,
  eval S mf ms cfg u fu so disp o s = (Ok k, s1, l1) -> hashable k = true -> assoc_v k tbl = Some b ->
  validate S mf ms cfg u fu so (ESwitch disp tbl dflt) o s = after S l1 (validate S mf ms cfg u fu so b o s1).
Proof. exact switch_validate_selected_only. Qed.
Print Assumptions C06_switch_validate_selected_only.

(** a dataset's overloads: the dispatch and the registered implementation only — neither the
    decorated default body nor any other implementation *)
Theorem C06_overload_selected_only :
  forall (S : Type) mf ms cfg u fu so (d : dsrec) o (s : S) k s1 l1 b,
  eval S mf ms cfg u fu so d.(ds_dispatch) o s = (Ok k, s1, l1) -> hashable k = true ->
  assoc_v k d.(ds_table) = Some b ->
  eval S mf ms cfg u fu so (ESwitch d.(ds_dispatch) d.(ds_table) d.(ds_default)) o s =
    after S l1 (eval S mf ms cfg u fu so b o s1).
Proof. exact overload_selected_only. Qed.
Print Assumptions C06_overload_selected_only.

Theorem C06_bind_selected_only :
  forall (S : Type) mf ms cfg u fu so src tbl dflt o (s : S) x s1 l1 b,
  eval S mf ms cfg u fu so src o s = (Ok x, s1, l1) -> assoc_v x tbl = Some b ->
  eval S mf ms cfg u fu so (EBind src tbl dflt) o s = after S l1 (eval S mf ms cfg u fu so b o s1).
Proof. exact bind_selected_only. Qed.
Print Assumptions C06_bind_selected_only.

(** CaseWhen: the dispatch, then the conditions up to and including the first true one
    ([conds_false]: each earlier condition evaluated and was false of the dispatch value), then
    that case's result ONLY: no result of an earlier case, nothing of a later case, no default. *)
Theorem C06_case_first_true_only :
  forall (S : Type) mf ms cfg u fu so disp pre c r post dflt o (s : S) x s0 l0 s1 l1 p s2 l2 b s3 l3,
  eval S mf ms cfg u fu so disp o s = (Ok x, s0, l0) ->
  conds_false S mf ms cfg u fu so o x pre s0 s1 l1 ->
  eval S mf ms cfg u fu so c o s1 = (Ok p, s2, l2) -> call_value S u p x s2 = (Ok b, s3, l3) -> truthy b = true ->
  eval S mf ms cfg u fu so (ECase disp (pre ++ (c, r) :: post) dflt) o s =
    after S (l0 ++ l1 ++ l2 ++ l3) (eval S mf ms cfg u fu so r o s3).
Proof. exact case_first_true_only. Qed.
Print Assumptions C06_case_first_true_only.

Theorem C06_case_unselected_irrelevant :
  forall (S : Type) mf ms cfg u fu so disp pre pre' c r post post' dflt dflt' o (s : S) x s0 l0 s1 l1 p s2 l2 b s3 l3,
  eval S mf ms cfg u fu so disp o s = (Ok x, s0, l0) ->
  conds_false S mf ms cfg u fu so o x pre s0 s1 l1 -> same_conds pre pre' ->
  eval S mf ms cfg u fu so c o s1 = (Ok p, s2, l2) -> call_value S u p x s2 = (Ok b, s3, l3) -> truthy b = true ->
  eval S mf ms cfg u fu so (ECase disp (pre ++ (c, r) :: post) dflt) o s =
  eval S mf ms cfg u fu so (ECase disp (pre' ++ (c, r) :: post') dflt') o s.
Proof. exact case_unselected_irrelevant. Qed.
Print Assumptions C06_case_unselected_irrelevant.

Theorem C06_case_default_only :
  forall (S : Type) mf ms cfg u fu so disp cases d o (s : S) x s0 l0 s1 l1,
  eval S mf ms cfg u fu so disp o s = (Ok x, s0, l0) -> conds_false S mf ms cfg u fu so o x cases s0 s1 l1 ->
  eval S mf ms cfg u fu so (ECase disp cases (Some d)) o s = after S (l0 ++ l1) (eval S mf ms cfg u fu so d o s1).
Proof. exact case_default_only. Qed.
Print Assumptions C06_case_default_only.

(** Coalesce: the attempts (validate, then evaluate) up to and including the first one that
    succeeds ([skipped]: each earlier attempt raised an EvaluationError); the members after it
    do not occur in the outcome at all. *)
Theorem C06_coalesce_first_success_only :
  forall (S : Type) mf ms cfg u fu so pre m post o (s : S) s1 l1 v s2 l2,
  skipped S mf ms cfg u fu so o pre s s1 l1 ->
  bind S (validate S mf ms cfg u fu so m o) (fun _ => eval S mf ms cfg u fu so m o) s1 = (Ok v, s2, l2) ->
  eval S mf ms cfg u fu so (ECoalesce (pre ++ m :: post)) o s = (Ok v, s2, l1 ++ l2).
Proof. exact coalesce_first_success_only. Qed.
Print Assumptions C06_coalesce_first_success_only.

Theorem C06_coalesce_later_irrelevant :
  forall (S : Type) mf ms cfg u fu so pre m post post' o (s : S) s1 l1 v s2 l2,
  skipped S mf ms cfg u fu so o pre s s1 l1 ->
  bind S (validate S mf ms cfg u fu so m o) (fun _ => eval S mf ms cfg u fu so m o) s1 = (Ok v, s2, l2) ->
  eval S mf ms cfg u fu so (ECoalesce (pre ++ m :: post)) o s =
  eval S mf ms cfg u fu so (ECoalesce (pre ++ m :: post')) o s.
Proof. exact coalesce_later_irrelevant. Qed.
Print Assumptions C06_coalesce_later_irrelevant.

(** Option: when the key is present the outcome does not depend on the default expression
    (it is not evaluated), and without a domain the log holds option reads only. *)
Theorem C06_option_present_default_irrelevant :
  forall (S : Type) mf ms cfg u fu so k dflt dflt' dom o raw,
  lookup k (JObj o) = Found raw ->
  forall s : S, eval S mf ms cfg u fu so (EOption k dflt dom) o s = eval S mf ms cfg u fu so (EOption k dflt' dom) o s.
Proof. exact option_present_default_irrelevant. Qed.
Print Assumptions C06_option_present_default_irrelevant.

Theorem C06_option_present_only_reads :
  forall (S : Type) mf ms cfg u fu so k dflt o raw (s : S),
  lookup k (JObj o) = Found raw ->
  forallb is_read (log_of S (eval S mf ms cfg u fu so (EOption k dflt None) o s)) = true.
Proof. exact option_present_only_reads. Qed.
Print Assumptions C06_option_present_only_reads.

(** (not vacuous: with the key absent the default is exactly what runs) *)
Theorem C06_option_absent_runs_default :
  forall (S : Type) mf ms cfg u fu so k d o (s : S),
  lookup k (JObj o) = Absent ->
  eval S mf ms cfg u fu so (EOption k (Some d) None) o s = after S [EvRead k false] (eval S mf ms cfg u fu so d o s).
Proof. exact option_absent_runs_default. Qed.
Print Assumptions C06_option_absent_runs_default.

(** * (b) Order: arguments before the body, source before the step *)

(** FunctionApplication (dataset bodies): the events of the function expression, of ALL
    positional and of ALL keyword argument expressions, then the call. *)
Theorem C06_call_args_before_body :
  forall (S : Type) mf ms cfg u fu so fe args kwargs o (s : S) fv s1 l1 av s2 l2 kv s3 l3,
  eval S mf ms cfg u fu so fe o s = (Ok fv, s1, l1) ->
  mapM S (fun y => eval S mf ms cfg u fu so y o) args s1 = (Ok av, s2, l2) ->
  mapM S (fun y => eval S mf ms cfg u fu so y o) kwargs s2 = (Ok kv, s3, l3) ->
  eval S mf ms cfg u fu so (ECall false fe args kwargs) o s =
    wrap_out S (after S (l1 ++ l2 ++ l3) (call_value_n S u fv (av ++ kv) s3)).
Proof. exact call_args_before_body. Qed.
Print Assumptions C06_call_args_before_body.

(** … and the call contributes at most one event, the body's own, LAST, with the values the
    arguments produced *)
Theorem C06_call_log_shape :
  forall (S : Type) mf ms cfg u fu so fe args kwargs o (s : S) fid pre post s1 l1 av s2 l2 kv s3 l3,
  eval S mf ms cfg u fu so fe o s = (Ok (VF fid pre post), s1, l1) ->
  mapM S (fun y => eval S mf ms cfg u fu so y o) args s1 = (Ok av, s2, l2) ->
  mapM S (fun y => eval S mf ms cfg u fu so y o) kwargs s2 = (Ok kv, s3, l3) ->
  let l := log_of S (eval S mf ms cfg u fu so (ECall false fe args kwargs) o s) in
  l = l1 ++ l2 ++ l3 \/
  l = (l1 ++ l2 ++ l3) ++ [EvCall fid (map listify (pre ++ (av ++ kv) ++ post))].
Proof. exact call_log_shape. Qed.
Print Assumptions C06_call_log_shape.

(** an argument fails: the body does not run *)
Theorem C06_call_arg_fails_no_body :
  forall (S : Type) mf ms cfg u fu so fe pre x post kwargs o (s : S) fv s1 l1 vs s2 l2 c ee s3 l3,
  eval S mf ms cfg u fu so fe o s = (Ok fv, s1, l1) ->
  mapM S (fun y => eval S mf ms cfg u fu so y o) pre s1 = (Ok vs, s2, l2) ->
  eval S mf ms cfg u fu so x o s2 = (Err c ee, s3, l3) ->
  eval S mf ms cfg u fu so (ECall false fe (pre ++ x :: post) kwargs) o s = (Err c true, s3, l1 ++ l2 ++ l3).
Proof. exact call_arg_fails_no_body. Qed.
Print Assumptions C06_call_arg_fails_no_body.

(** >> / apply / pipeline application: all events of the source, then all events of the
    function expression, then the step's run. *)
Theorem C06_apply_source_before_step :
  forall (S : Type) mf ms cfg u fu so src fn o (s : S) x s1 l1 f s2 l2,
  eval S mf ms cfg u fu so src o s = (Ok x, s1, l1) -> eval S mf ms cfg u fu so fn o s1 = (Ok f, s2, l2) ->
  eval S mf ms cfg u fu so (EApply src fn) o s = wrap_out S (after S (l1 ++ l2) (call_value S u f x s2)).
Proof. exact apply_source_before_step. Qed.
Print Assumptions C06_apply_source_before_step.

Theorem C06_apply_log_shape :
  forall (S : Type) mf ms cfg u fu so src fn o (s : S) x s1 l1 fid pre post s2 l2,
  eval S mf ms cfg u fu so src o s = (Ok x, s1, l1) ->
  eval S mf ms cfg u fu so fn o s1 = (Ok (VF fid pre post), s2, l2) -> N.eqb fid B_COMPOSE = false ->
  let l := log_of S (eval S mf ms cfg u fu so (EApply src fn) o s) in
  l = l1 ++ l2 \/ l = (l1 ++ l2) ++ [EvCall fid (map listify (pre ++ [x] ++ post))].
Proof. exact apply_log_shape. Qed.
Print Assumptions C06_apply_log_shape.

Theorem C06_apply_source_fails_no_step :
  forall (S : Type) mf ms cfg u fu so src fn o (s : S) c ee s1 l1,
  eval S mf ms cfg u fu so src o s = (Err c ee, s1, l1) ->
  eval S mf ms cfg u fu so (EApply src fn) o s = (Err c true, s1, l1).
Proof. exact apply_source_fails_no_step. Qed.
Print Assumptions C06_apply_source_fails_no_step.

(** * (c) Containment: every body that runs is on a selectable path *)

(** [path_in F e o]: every function atom on a path of [e] that is selectable under [o] is built
    in or in [F] (structural recursion; a switch branch counts only if the dispatch can evaluate
    to its key, a case result only if its condition can hold and the earlier ones can fail, a
    coalesce member only if all earlier members can fail, a default only if the key is absent,
    a Map body under the rows the iterables can produce, effects unless switched off).
    [Inv]: any store invariant under which stored values mention only functions of [F];
    user code returns only functions it was given or of [F].  Then every [EvCall f] logged by
    evaluate / validate / keys / explain has [f] in [F]. *)
Theorem C06_only_selected_bodies_run :
  forall (S : Type) mf ms cfg u fu so (F : N -> Prop) (Inv : S -> Prop),
  (forall c f s v, Inv s -> mf c f s = Some v -> vin F v) ->
  (forall c f v s, Inv s -> vin F v -> Inv (ms c f v s)) ->
  (forall f args v, F f -> Forall (vin F) args -> u f args = COk v -> vin F v) ->
  forall e o s f args,
  path_in S mf ms cfg u fu so F e o -> Inv s ->
  In (EvCall f args) (log_of S (eval S mf ms cfg u fu so e o s)) -> F f.
Proof. exact only_selected_bodies_run. Qed.
Print Assumptions C06_only_selected_bodies_run.

Theorem C06_only_selected_bodies_run_validate :
  forall (S : Type) mf ms cfg u fu so (F : N -> Prop) (Inv : S -> Prop),
  (forall c f s v, Inv s -> mf c f s = Some v -> vin F v) ->
  (forall c f v s, Inv s -> vin F v -> Inv (ms c f v s)) ->
  (forall f args v, F f -> Forall (vin F) args -> u f args = COk v -> vin F v) ->
  forall e o s f args,
  path_in S mf ms cfg u fu so F e o -> Inv s ->
  In (EvCall f args) (log_of S (validate S mf ms cfg u fu so e o s)) -> F f.
Proof. exact only_selected_bodies_run_validate. Qed.
Print Assumptions C06_only_selected_bodies_run_validate.

Theorem C06_only_selected_bodies_run_keys :
  forall (S : Type) mf ms cfg u fu so (F : N -> Prop) (Inv : S -> Prop),
  (forall c f s v, Inv s -> mf c f s = Some v -> vin F v) ->
  (forall c f v s, Inv s -> vin F v -> Inv (ms c f v s)) ->
  (forall f args v, F f -> Forall (vin F) args -> u f args = COk v -> vin F v) ->
  forall e o s f args,
  path_in S mf ms cfg u fu so F e o -> Inv s ->
  In (EvCall f args) (log_of S (keys S mf ms cfg u fu so e o s)) -> F f.
Proof. exact only_selected_bodies_run_keys. Qed.
Print Assumptions C06_only_selected_bodies_run_keys.

Theorem C06_only_selected_bodies_run_explain :
  forall (S : Type) mf ms cfg u fu so (F : N -> Prop) (Inv : S -> Prop),
  (forall c f s v, Inv s -> mf c f s = Some v -> vin F v) ->
  (forall c f v s, Inv s -> vin F v -> Inv (ms c f v s)) ->
  (forall f args v, F f -> Forall (vin F) args -> u f args = COk v -> vin F v) ->
  forall e o s f args,
  path_in S mf ms cfg u fu so F e o -> Inv s ->
  In (EvCall f args) (log_of S (explain S mf ms cfg u fu so e o s)) -> F f.
Proof. exact only_selected_bodies_run_explain. Qed.
Print Assumptions C06_only_selected_bodies_run_explain.

(** the syntactic special case: nothing runs that is not written in the expression *)
Theorem C06_only_written_bodies_run :
  forall (S : Type) mf ms cfg u fu so (F : N -> Prop) (Inv : S -> Prop),
  (forall c f s v, Inv s -> mf c f s = Some v -> vin F v) ->
  (forall c f v s, Inv s -> vin F v -> Inv (ms c f v s)) ->
  (forall f args v, F f -> Forall (vin F) args -> u f args = COk v -> vin F v) ->
  forall e o s f args,
  all_in F e -> Inv s -> In (EvCall f args) (log_of S (eval S mf ms cfg u fu so e o s)) -> F f.
Proof. exact only_written_bodies_run. Qed.
Print Assumptions C06_only_written_bodies_run.

(** instances: the real memo store of the correspondence run (table-driven user code), where
    the invariant holds of the empty store and is kept by every successful evaluation … *)
Theorem C06_store_only_selected_bodies_run :
  forall (F : N -> Prop) t cfg fuel so, table_in F t ->
  forall e o s f args,
  path_in store mem_find mem_store cfg (ucall_of t) fuel so F e o -> store_in F s ->
  In (EvCall f args) (log_of store (eval store mem_find mem_store cfg (ucall_of t) fuel so e o s)) -> F f.
Proof. exact store_only_selected_bodies_run. Qed.
Print Assumptions C06_store_only_selected_bodies_run.

Theorem C06_store_invariant :
  forall (F : N -> Prop) t cfg fuel so, table_in F t ->
  store_in F [] /\
  forall e o s v s' l,
  path_in store mem_find mem_store cfg (ucall_of t) fuel so F e o -> store_in F s ->
  eval store mem_find mem_store cfg (ucall_of t) fuel so e o s = (Ok v, s', l) -> store_in F s'.
Proof. exact store_invariant_both. Qed.
Print Assumptions C06_store_invariant.

(** … and the cache-free reference run *)
Theorem C06_nc_only_selected_bodies_run :
  forall (F : N -> Prop) t fuel, table_in F t ->
  forall e o f args,
  path_nc F t fuel e o -> In (EvCall f args) (snd (eval_nc (ucall_of t) fuel e o)) -> F f.
Proof. exact nc_only_selected_bodies_run. Qed.
Print Assumptions C06_nc_only_selected_bodies_run.

(** * Non-vacuity *)
(** One body whose four arguments are a switch, a case-when, a coalesce and an Option with a
    default, each with a tripwire body (666 / 667) in every unselected position.  Under {A: 1}
    the hypotheses of the containment theorem hold with F = {100, 201} (the selected bodies and
    the case predicate), … *)
Example C06_example_paths : path_nc F_ex ex_tbl 40 ex_all oA1.
Proof. exact ex_all_path. Qed.
Print Assumptions C06_example_paths.

(** … bodies do run, selected ones only, arguments first and the outer body last, … *)
Example C06_example_calls :
  filter (fun ev => match ev with EvCall _ _ => true | _ => false end) (run_log ex_all oA1) =
    [EvCall 100 []; EvCall 201 [VJ (JInt 1)]; EvCall 100 [];
     EvCall 100 [VT 100 []; VT 100 []; VJ (JInt 1); VJ (JInt 1)]].
Proof. vm_compute. reflexivity. Qed.
Print Assumptions C06_example_calls.

(** … no tripwire among them (by the theorem), although the tripwires are live code: they run
    under the empty dictionary. *)
Example C06_example_no_tripwire : forall f args, In (EvCall f args) (run_log ex_all oA1) -> F_ex f.
Proof. exact ex_all_no_tripwire. Qed.
Print Assumptions C06_example_no_tripwire.

Example C06_example_tripwires_live : trip (run_log ex_all []) = true /\ trip (run_log ex_all oA1) = false.
Proof. split; vm_compute; reflexivity. Qed.
Print Assumptions C06_example_tripwires_live.

Example C06_example_args_before_body :
  run_log (body 100 [body 101 []; body 102 []]) [] =
    [EvCall 101 []; EvCall 102 []; EvCall 100 [VT 101 []; VT 102 []]].
Proof. vm_compute. reflexivity. Qed.
Print Assumptions C06_example_args_before_body.

Example C06_example_source_before_step :
  run_log (EApply (body 101 []) (pstep 102 [body 103 []])) [] =
    [EvCall 101 []; EvCall 103 []; EvCall 102 [VT 101 []; VT 103 []]].
Proof. vm_compute. reflexivity. Qed.
Print Assumptions C06_example_source_before_step.
