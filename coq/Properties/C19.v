(** C19 — Dataset classes: members are evaluations; equality follows relevant options; repr.
    Only statements closed by [exact], each followed by [Print Assumptions]; non-vacuity
    [Example]s at the end.  Model: Model/DatasetClass.v (labrea/datasetclass.py after fix
    61df49c); proofs: Proofs/DatasetClassProofs.v.

    Every theorem of the Section holds for ALL member semantics (the four methods of a member
    are arbitrary functions of the options dictionary), ALL classes (any list of dir() entries),
    ALL option dictionaries.  The [_partial] theorems assume the boolean side condition
    [name_keys K] (the class reports no list-index key such as 'L.0'): without it the statements
    are false of the faithful model — see the [_refuted] theorems (finding C19-L). *)
From Coq Require Import List NArith ZArith Bool.
Import ListNotations.
From LV Require Import Model.Base Model.DatasetClass Proofs.DatasetClassProofs.

Section AnyMembers.
  Variables X V E : Type.
  Variable ev : X -> dict -> result E V.            (* member.evaluate(options) *)
  Variable vl : X -> dict -> option E.              (* member.validate(options), None = passes *)
  Variable ks : X -> dict -> result E (list key).   (* member.keys(options) *)
  Variable ex : X -> dict -> result E (list key).   (* member.explain(options) *)

  (** Instantiating sets every evaluatable member to its evaluation under those options and
      every plain member to its constant, in dir() order; when a member's evaluation fails the
      constructor fails with the exception of the FIRST failing member in dir() order (and it
      reports a member failure iff some member fails); [cls.evaluate(o)] is [cls(o)]. *)
  Theorem C19_members_are_evaluations : forall (c : klass X V) (o : dict),
    (forall i, instantiate X V E ev ks c o = Built i ->
       i_cls i = k_id c /\
       Forall2 (fun en nv =>
                  fst nv = e_name en /\
                  match e_member en with
                  | MExpr e => ev e o = Ok (snd nv)
                  | MConst v => snd nv = v
                  end) (visible (k_entries c)) (i_members i)) /\
    (forall n x, instantiate X V E ev ks c o = MemberFails n x <->
       exists pre en post e,
         visible (k_entries c) = pre ++ en :: post /\ e_name en = n /\ e_member en = MExpr e /\
         ev e o = Err x /\
         Forall (fun en' => forall e', e_member en' = MExpr e' -> exists v, ev e' o = Ok v) pre) /\
    ((exists n x, instantiate X V E ev ks c o = MemberFails n x) <->
       ~ (forall e, In e (member_exprs (k_entries c)) -> exists v, ev e o = Ok v)) /\
    class_evaluate X V E ev ks c o = instantiate X V E ev ks c o.
  Proof. exact (members_are_evaluations X V E ev ks). Qed.

  (** ... and the constructor succeeds as soon as every member evaluates, provided the class
      reports name paths that are present in the dictionary. *)
  Theorem C19_instantiation_total_partial : forall (c : klass X V) (o : dict) (K : list key),
    wf_dict o = true ->
    (forall e, In e (member_exprs (k_entries c)) -> exists v, ev e o = Ok v) ->
    class_keys X V E ks c o = Ok K -> name_keys K = true -> keys_present K o = true ->
    exists i, instantiate X V E ev ks c o = Built i.
  Proof. exact (instantiation_total X V E ev ks). Qed.

  (** The class's keys / explain are the union over its members (failing, with the first failing
      member's exception, iff a member's keys / explain fails); validate passes iff every member's
      validate passes (and fails with the first failing member's exception). *)
  Theorem C19_class_ops_are_unions : forall (c : klass X V) (o : dict),
    (forall K, class_keys X V E ks c o = Ok K ->
       forall k, In k K <-> exists e Ke, In e (member_exprs (k_entries c)) /\ ks e o = Ok Ke /\ In k Ke) /\
    (forall x, class_keys X V E ks c o = Err x <->
       exists pre e post, member_exprs (k_entries c) = pre ++ e :: post /\ ks e o = Err x /\
                          Forall (fun e' => exists Ke, ks e' o = Ok Ke) pre) /\
    (forall K, class_explain X V E ex c o = Ok K ->
       forall k, In k K <-> exists e Ke, In e (member_exprs (k_entries c)) /\ ex e o = Ok Ke /\ In k Ke) /\
    (forall x, class_explain X V E ex c o = Err x <->
       exists pre e post, member_exprs (k_entries c) = pre ++ e :: post /\ ex e o = Err x /\
                          Forall (fun e' => exists Ke, ex e' o = Ok Ke) pre) /\
    (class_validate X V E vl c o = None <-> forall e, In e (member_exprs (k_entries c)) -> vl e o = None) /\
    (forall x, class_validate X V E vl c o = Some x <->
       exists pre e post, member_exprs (k_entries c) = pre ++ e :: post /\ vl e o = Some x /\
                          Forall (fun e' => vl e' o = None) pre).
  Proof. exact (class_ops_are_unions X V E vl ks ex). Qed.

  Theorem C19_class_keys_total : forall (c : klass X V) (o : dict),
    (exists K, class_keys X V E ks c o = Ok K) <->
    (forall e, In e (member_exprs (k_entries c)) -> exists Ke, ks e o = Ok Ke).
  Proof. exact (class_keys_total X V E ks). Qed.

  (** Two instances of the same class compare equal ([==], order-insensitive on dictionaries,
      True == 1) exactly when the options each was built from, restricted to the keys the class
      reports for them (nested dotted keys included), are equal. *)
  Theorem C19_eq_iff_relevant_partial :
    forall (c : klass X V) (o1 o2 : dict) (i1 i2 : instance V) (K1 K2 : list key),
    wf_dict o1 = true -> wf_dict o2 = true ->
    instantiate X V E ev ks c o1 = Built i1 -> instantiate X V E ev ks c o2 = Built i2 ->
    class_keys X V E ks c o1 = Ok K1 -> class_keys X V E ks c o2 = Ok K2 ->
    name_keys K1 = true -> name_keys K2 = true ->
    inst_eq i1 i2 = json_eq (JObj (restrict o1 K1)) (JObj (restrict o2 K2)).
  Proof. exact (eq_iff_relevant X V E ev ks). Qed.

  (** Instances of different dataset classes are never equal. *)
  Theorem C19_eq_other_class :
    forall (c1 c2 : klass X V) (o1 o2 : dict) (i1 i2 : instance V),
    k_id c1 <> k_id c2 ->
    instantiate X V E ev ks c1 o1 = Built i1 -> instantiate X V E ev ks c2 o2 = Built i2 ->
    inst_eq i1 i2 = false.
  Proof. exact (eq_other_class X V E ev ks). Qed.

  (** repr shows the class and a dictionary that is ([==]) the options restricted to the reported
      keys; every reported key reads in it exactly the value it has in the options. *)
  Theorem C19_repr_shows_relevant_partial :
    forall (c : klass X V) (o : dict) (i : instance V) (K : list key),
    wf_dict o = true -> instantiate X V E ev ks c o = Built i -> class_keys X V E ks c o = Ok K ->
    name_keys K = true ->
    wf_dict (i_repr i) = true /\
    json_eq (JObj (i_repr i)) (JObj (restrict o K)) = true /\
    (forall k, In k K -> lookup_top k (i_repr i) = lookup_top k o) /\
    inst_repr i = (k_id c, i_repr i).
  Proof. exact (repr_of_instance X V E ev ks). Qed.
End AnyMembers.
Print Assumptions C19_members_are_evaluations.
Print Assumptions C19_instantiation_total_partial.
Print Assumptions C19_class_ops_are_unions.
Print Assumptions C19_class_keys_total.
Print Assumptions C19_eq_iff_relevant_partial.
Print Assumptions C19_eq_other_class.
Print Assumptions C19_repr_shows_relevant_partial.

(** [_repr_options], as the constructor's loop builds it from the sorted reported keys with
    [get_dotted_key]/[set_dotted_key], is the options restricted to the reported keys: the loop
    does not fail, the result is a well-formed dictionary equal ([==]) to [Base.restrict o K],
    and every reported key reads the same value in both. *)
Theorem C19_repr_options_is_restriction_partial : forall (K : list key) (o : dict),
  wf_dict o = true -> name_keys K = true -> keys_present K o = true ->
  exists r, repr_options K o = RBuilt r /\ wf_dict r = true /\
            json_eq (JObj r) (JObj (restrict o K)) = true /\
            (forall k, In k K -> lookup_top k r = lookup_top k o).
Proof. exact repr_options_restrict. Qed.
Print Assumptions C19_repr_options_is_restriction_partial.

(** The caller's dictionary.  The model is pure; the aliasing the Python code has (the
    constructor stores the caller's own nested object for a reported key and later assigns into
    it for a reported extension of that key) is made explicit by [caller_writes]: those writes,
    applied to the caller's dictionary, leave it exactly as it was — for ALL reported key lists
    (a write that raises, as for 'L' + 'L.0', raises before changing anything) — and for name
    paths none of them raises.  (That these are the only writes reaching caller-owned objects is
    a statement about CPython object identity: checked by the harness with deep snapshots.) *)
Theorem C19_inputs_unmodified : forall (K : list key) (o : dict), fst (caller_after K o) = o.
Proof. exact caller_unchanged. Qed.
Print Assumptions C19_inputs_unmodified.

Theorem C19_inputs_unmodified_no_raise : forall (K : list key) (o : dict),
  name_keys K = true -> caller_after K o = (o, true).
Proof. exact caller_unchanged_names. Qed.
Print Assumptions C19_inputs_unmodified_no_raise.

(** [dir()] as modelled lists each name once, in increasing order. *)
Theorem C19_dir_sorted : forall (X V : Type) (mro : list (list (entry X V))), names_sorted (dir_entries mro).
Proof. exact (@dir_entries_sorted). Qed.
Print Assumptions C19_dir_sorted.

(** ** List-index keys (finding C19-L): the full statements are false of the faithful model. *)
From LV Require Import Model.DatasetClassRun.
Import Witness.
Local Open Scope list_scope.

(** class C: l = Option('L'); l0 = Option('L.0') on {'L': [1, 2]}: every member evaluates, keys()
    succeeds and every reported key is present, yet the constructor raises (set_dotted_key indexes
    the caller's list with the string '0': TypeError). *)
Theorem C19_instantiation_total_refuted :
  exists (c : cklass) (o : dict) (K : list key),
    wf_dict o = true /\
    (forall e, In e (member_exprs (k_entries c)) -> exists v, c_ev e o = Ok v) /\
    c_keys c o = Ok K /\ keys_present K o = true /\
    c_instantiate c o = SetFails [SName 1%N; SIdx 0%N].
Proof. exact instantiation_total_witness. Qed.
Print Assumptions C19_instantiation_total_refuted.

(** class C: l0 = Option('L.0') on {'L': [1, 2]}: _repr_options is {'L': {'0': 1}}, which is not
    the options restricted to 'L.0' (no sub-dictionary of the options at all). *)
Theorem C19_repr_options_is_restriction_refuted :
  exists (o : dict) (K : list key) (r : dict),
    wf_dict o = true /\ keys_present K o = true /\ repr_options K o = RBuilt r /\
    json_eq (JObj r) (JObj (restrict o K)) = false /\
    r = [(SName 1%N, JObj [(SIdx 0%N, JInt 1%Z)])].
Proof. exact repr_options_restrict_witness. Qed.
Print Assumptions C19_repr_options_is_restriction_refuted.

(** Same class on {'L': [1, 2]} and {'L': [1, 3]}: the instances compare equal although the
    restrictions (which keep a list on the path whole) differ.  (Equality still follows the VALUE
    of the reported key: see [C19_listindex_eq_follows_value] below.) *)
Theorem C19_eq_iff_relevant_refuted :
  exists (c : cklass) (o1 o2 : dict) (i1 i2 : instance cval) (K1 K2 : list key),
    wf_dict o1 = true /\ wf_dict o2 = true /\
    c_instantiate c o1 = Built i1 /\ c_instantiate c o2 = Built i2 /\
    c_keys c o1 = Ok K1 /\ c_keys c o2 = Ok K2 /\
    inst_eq i1 i2 = true /\ json_eq (JObj (restrict o1 K1)) (JObj (restrict o2 K2)) = false.
Proof. exact eq_iff_relevant_witness. Qed.
Print Assumptions C19_eq_iff_relevant_refuted.

Example C19_listindex_eq_follows_value :
  match c_instantiate cls_L0 o_L12, c_instantiate cls_L0 o_L13, c_instantiate cls_L0 o_L52 with
  | Built a, Built b, Built c => inst_eq a b = true /\ inst_eq a c = false
  | _, _, _ => False
  end.
Proof. vm_compute. split; reflexivity. Qed.

(** ** Non-vacuity: a class with an inherited body, a dataset member, a key and its prefix both
    reported ('S' and 'S.X'), a default, a hidden (dunder) member and a plain constant, on nested
    dictionaries: every hypothesis of the [_partial] theorems holds and the results are not
    trivial. *)
Example C19_hyps_satisfiable :
  wf_dict o_good = true /\ wf_dict o_good_perm = true /\
  map e_name (k_entries cls_good) = [5; 10; 30; 40; 50; 60; 70]%N /\
  c_keys cls_good o_good = Ok [[nA]; [nS; nX]; [nS]; [nS; nX]; [nS; nY]] /\
  name_keys [[nA]; [nS; nX]; [nS]; [nS; nX]; [nS; nY]] = true /\
  keys_present [[nA]; [nS; nX]; [nS]; [nS; nX]; [nS; nY]] o_good = true /\
  (exists i, c_instantiate cls_good o_good = Built i /\
             i_members i = [(10, CTag 9 [JInt 1; JInt 2]); (30, CJ (JBool true)); (40, CJ (JInt 4));
                            (50, CJ (JObj [(nX, JInt 2); (nY, JInt 3)])); (60, CJ (JInt 2));
                            (70, CJ (JInt 3))]%N%Z /\
             i_repr i = [(nS, JObj [(nX, JInt 2); (nY, JInt 3)]); (nA, JInt 1)]%Z) /\
  c_validate cls_good o_good = None /\
  c_instantiate cls_good [(nA, JInt 1%Z)] = MemberFails 10%N (EKnf [nS; nX]).
Proof. vm_compute. repeat split. eexists. repeat split. Qed.

(** Equality on that class: equal for a permuted dictionary with an extra irrelevant key (and 1
    written as True); different for a change in the relevant nested key S.X; equal for a change
    in the irrelevant key Q; never equal to an instance of another class. *)
Example C19_eq_examples :
  match c_instantiate cls_good o_good, c_instantiate cls_good o_good_perm,
        c_instantiate cls_good o_good_sx, c_instantiate cls_good o_good_q,
        c_instantiate (mk_klass 4%N (k_entries cls_good)) o_good with
  | Built a, Built b, Built c, Built d, Built e =>
      inst_eq a b = true /\ inst_eq a c = false /\ inst_eq a d = true /\ inst_eq a e = false /\
      json_eq (JObj (restrict o_good [[nA]; [nS]; [nS; nX]])) (JObj (restrict o_good_perm [[nS; nX]; [nA]; [nS]])) = true
  | _, _, _, _, _ => False
  end.
Proof. vm_compute. repeat split. Qed.
