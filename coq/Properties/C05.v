(** C05 — combinators evaluate to what the equivalent eager Python computation yields.
    [Model/Spec.v] defines that computation ([sem]: result only, plain error monad).  Here:
    the interpreter transcribed from the labrea classes computes exactly [sem] (for EVERY
    expression, dictionary, user code and resolution budget), then the sentences of the property
    as statements about [sem].  Only [exact]-closed statements + [Print Assumptions]. *)
From Coq Require Import List NArith ZArith Bool.
Import ListNotations.
From LV Require Import Model.Base Model.Template Model.Eval Model.Derived Model.EvalRun Model.Spec
  Proofs.BaseProofs Proofs.EvalProofs Proofs.SpecProofs.

(** The result of the cache-free reference run of the code-structured interpreter — request
    wrappers, [_DependsOn], the macro expansion of Map, try/except of coalesce and switch, the
    event log — is the reference value, for all expressions (no fragment restriction). *)
Theorem C05_eval_refines_spec : forall u fuel e o,
  fst (fst (eval unit nc_find nc_store cfg_nc u fuel (fun _ _ => true) e o tt)) = sem u fuel e o.
Proof. exact C05_refinement. Qed.
Print Assumptions C05_eval_refines_spec.

Theorem C05_validate_refines_spec : forall u fuel e o,
  fst (fst (validate unit nc_find nc_store cfg_nc u fuel (fun _ _ => true) e o tt)) = sem_valid u fuel e o.
Proof. exact C05_refinement_validate. Qed.
Print Assumptions C05_validate_refines_spec.

(** … and the observation compared with labrea by the correspondence run ([eval_nc]: the result
    with every lazily evaluated iterable consumed) is the reference value, consumed. *)
Theorem C05_observed_refines_spec : forall u fuel e o,
  fst (eval_nc u fuel e o) = consumed (sem u fuel e o).
Proof. exact C05_refinement_observed. Qed.
Print Assumptions C05_observed_refines_spec.

(** switch takes the branch registered under the dispatch value and otherwise (or when the
    dispatch cannot be evaluated) the default; with neither, it fails. *)
Theorem C05_switch_spec : forall u fuel disp tbl dflt o,
  sem u fuel (ESwitch disp tbl dflt) o =
    match sem u fuel disp o with
    | Ok k =>
        if hashable k then
          match assoc_v k tbl with
          | Some b => sem u fuel b o
          | None => match dflt with Some d => sem u fuel d o | None => Err CSwitch true end
          end
        else Err CType true
    | Err c ee =>
        match dflt with
        | Some d => if is_unmodelled c then Err c true else sem u fuel d o
        | None => Err c true
        end
    end.
Proof. exact switch_spec. Qed.
Print Assumptions C05_switch_spec.

(** … the same, one sentence at a time: the registered branch; else the default; the default
    also when the dispatch cannot be evaluated, whatever its failure. *)
Theorem C05_switch_registered : forall u fuel disp tbl dflt o k b,
  sem u fuel disp o = Ok k -> hashable k = true -> assoc_v k tbl = Some b ->
  sem u fuel (ESwitch disp tbl dflt) o = sem u fuel b o.
Proof. exact switch_registered. Qed.
Print Assumptions C05_switch_registered.

Theorem C05_switch_unregistered_default : forall u fuel disp tbl d o k,
  sem u fuel disp o = Ok k -> hashable k = true -> assoc_v k tbl = None ->
  sem u fuel (ESwitch disp tbl (Some d)) o = sem u fuel d o.
Proof. exact switch_unregistered_default. Qed.
Print Assumptions C05_switch_unregistered_default.

Theorem C05_switch_dispatch_fails_default : forall u fuel disp tbl d o c ee,
  sem u fuel disp o = Err c ee -> c <> CUnmodelled ->
  sem u fuel (ESwitch disp tbl (Some d)) o = sem u fuel d o.
Proof. exact switch_dispatch_fails_default. Qed.
Print Assumptions C05_switch_dispatch_fails_default.

(** case-when takes the first matching case: every earlier condition is false of the dispatch
    value, this one is true. *)
Theorem C05_case_first_match : forall u fuel disp pre c r post dflt o x p b,
  sem u fuel disp o = Ok x ->
  Forall (case_fails u fuel o x) pre ->
  sem u fuel c o = Ok p -> scall_value u p x = Ok b -> truthy b = true ->
  sem u fuel (ECase disp (pre ++ (c, r) :: post) dflt) o = sem u fuel r o.
Proof. exact case_first_match. Qed.
Print Assumptions C05_case_first_match.

Theorem C05_case_no_match_default : forall u fuel disp cases dflt o x,
  sem u fuel disp o = Ok x -> Forall (case_fails u fuel o x) cases ->
  sem u fuel (ECase disp cases dflt) o =
    match dflt with Some d => sem u fuel d o | None => Err CCase true end.
Proof. exact case_no_match. Qed.
Print Assumptions C05_case_no_match_default.

(** coalesce yields the first member that can be evaluated: every earlier member is passed over
    (does not validate, or validates and fails), this one validates and yields [v]. *)
Theorem C05_coalesce_first_evaluable : forall u fuel pre m post o v,
  Forall (passed_over u fuel o) pre -> sem_valid u fuel m o = Ok tt -> sem u fuel m o = Ok v ->
  sem u fuel (ECoalesce (pre ++ m :: post)) o = Ok v.
Proof. exact coalesce_first_evaluable. Qed.
Print Assumptions C05_coalesce_first_evaluable.

(** The sentence WITHOUT the side condition on the members passed over — "the first member
    that can be evaluated, every earlier one failing" — is false of the code as it is (finding
    D23): a member whose bind function raises aborts the whole coalesce (the exception leaves the
    member's validate() outside any EvaluateRequest, so it is not an EvaluationError) although
    the next member validates and evaluates. *)
Theorem C05_coalesce_first_evaluable_refuted :
  exists (u : N -> list value -> cres) (fuel : nat) m1 m2 o v,
    (exists c, sem u fuel m1 o = Err c true) /\
    sem_valid u fuel m2 o = Ok tt /\ sem u fuel m2 o = Ok v /\
    exists c, sem u fuel (ECoalesce [m1; m2]) o = Err c true.
Proof. exact coalesce_first_evaluable_refuted. Qed.
Print Assumptions C05_coalesce_first_evaluable_refuted.

(** … and it holds under the explicit boolean side condition that every earlier member fails
    with an EvaluationError (at validation, or after validating). *)
Theorem C05_coalesce_first_evaluable_partial : forall u fuel pre m post o v,
  forallb (passed_overb u fuel o) pre = true -> sem_valid u fuel m o = Ok tt -> sem u fuel m o = Ok v ->
  sem u fuel (ECoalesce (pre ++ m :: post)) o = Ok v.
Proof. exact coalesce_first_evaluable_b. Qed.
Print Assumptions C05_coalesce_first_evaluable_partial.

(** collections keep order: Iter, list, tuple (and dict: built from the pairs in order). *)
Theorem C05_collections_keep_order : forall u fuel es vs o,
  Forall2 (yields u fuel o) es vs ->
  sem u fuel (EIter es) o = Ok (VT T_ITER vs) /\
  sem u fuel (elist es) o = Ok (VT T_LIST vs) /\
  sem u fuel (etuple es) o = Ok (VT T_TUPLE vs).
Proof.
  exact (fun u fuel es vs o H =>
           conj (iter_keeps_order u fuel es vs o H)
                (conj (list_keeps_order u fuel es vs o H) (tuple_keeps_order u fuel es vs o H))).
Qed.
Print Assumptions C05_collections_keep_order.

Theorem C05_dict_keeps_order : forall u fuel (kvs : list (value * expr)) vs o,
  Forall2 (fun kv v => yields u fuel o (snd kv) v /\ deep_err (fst kv) = None) kvs vs ->
  sem u fuel (edict kvs) o =
    match dict_of_pairs (map (fun p => VT T_ITER [fst (fst p); snd p]) (combine kvs vs)) [] with
    | Some d => Ok (VT T_DICT d)
    | None => Err CType true
    end.
Proof. exact dict_keeps_order. Qed.
Print Assumptions C05_dict_keeps_order.

(** Map yields one (assignment, result) pair per element of the cartesian product of its
    evaluated iterables ([product]: itertools.product, last iterable varying fastest), in order,
    each result being the body's value with that assignment overriding the caller's options
    ([map_pairs]: [sem e (mix o os)] for the dictionary [os] the assignment denotes). *)
Theorem C05_map_cartesian_in_order : forall u fuel e its o vals out,
  Forall2 (iterates u fuel o) its vals ->
  map_pairs u fuel e o (map (fun combo => combine (map fst its) combo) (product vals)) out ->
  sem u fuel (EMap e its) o = Ok (VT T_ITER out).
Proof. exact map_cartesian_in_order. Qed.
Print Assumptions C05_map_cartesian_in_order.

(** … one pair per element of the product (as many as the lengths of the evaluated iterables
    multiply to), the i-th pair carrying the i-th assignment of the product order. *)
Theorem C05_map_one_pair_per_combination : forall u fuel e its o vals out,
  Forall2 (iterates u fuel o) its vals ->
  map_pairs u fuel e o (map (fun combo => combine (map fst its) combo) (product vals)) out ->
  sem u fuel (EMap e its) o = Ok (VT T_ITER out) /\
  length out = fold_right (fun l n => (length l * n)%nat) 1%nat vals /\
  map pair_fst out = map (fun combo => row_dict (combine (map fst its) combo)) (product vals).
Proof. exact map_one_pair_per_combination. Qed.
Print Assumptions C05_map_one_pair_per_combination.

(** "that assignment overriding the caller's options": in the dictionary [mix o os] under which
    [map_pairs] evaluates the body, the assigned (dotted) key holds the assigned value whatever the
    caller supplied there, and every key diverging from it keeps the caller's value. *)
Theorem C05_map_assignment_overrides : forall k j o os,
  k <> [] -> forallb is_name k = true -> wf_json j = true -> (forall m, j <> JObj m) ->
  srow_options [(k, VJ j)] = Ok os ->
  lookup k (JObj (mix o os)) = Found j /\
  (forall k' w, diverge k k' = true -> forallb is_name k' = true ->
                lookup k' (JObj o) = Found w -> lookup k' (JObj (mix o os)) = Found w).
Proof. exact map_assignment_overrides. Qed.
Print Assumptions C05_map_assignment_overrides.

(** When no branch applies and there is no default, evaluation fails instead of returning a
    value: switch (unregistered value; dispatch not evaluable), case-when, coalesce. *)
Theorem C05_no_branch_no_value : forall u fuel,
  (forall disp tbl o k, sem u fuel disp o = Ok k -> hashable k = true -> assoc_v k tbl = None ->
     sem u fuel (ESwitch disp tbl None) o = Err CSwitch true) /\
  (forall disp tbl o c ee, sem u fuel disp o = Err c ee ->
     sem u fuel (ESwitch disp tbl None) o = Err c true) /\
  (forall disp cases o x, sem u fuel disp o = Ok x -> Forall (case_fails u fuel o x) cases ->
     sem u fuel (ECase disp cases None) o = Err CCase true) /\
  (forall ms o, Forall (passed_over u fuel o) ms -> exists c, sem u fuel (ECoalesce ms) o = Err c true).
Proof.
  exact (fun u fuel => conj (switch_no_branch u fuel)
                      (conj (switch_no_dispatch_no_default u fuel)
                      (conj (case_no_branch u fuel) (coalesce_none_evaluable u fuel)))).
Qed.
Print Assumptions C05_no_branch_no_value.

(** apply / >>, bind, function application and datasets. *)
Theorem C05_apply_is_application : forall u fuel src fn o x f,
  sem u fuel src o = Ok x -> sem u fuel fn o = Ok f ->
  sem u fuel (EApply src fn) o = as_ee (scall_value u f x).
Proof. exact apply_is_application. Qed.
Print Assumptions C05_apply_is_application.

Theorem C05_apply_user_function : forall u fuel src fn o x f,
  sem u fuel src o = Ok x -> sem u fuel fn o = Ok (VF f [] []) -> user_fn f = true -> deep_err x = None ->
  sem u fuel (EApply src fn) o =
    match u f [listify x] with COk v => Ok v | CRaise n => Err (CUser n) true end.
Proof. exact apply_user_function. Qed.
Print Assumptions C05_apply_user_function.

Theorem C05_bind_is_application : forall u fuel src tbl dflt o x b,
  sem u fuel src o = Ok x -> assoc_v x tbl = Some b -> sem u fuel (EBind src tbl dflt) o = sem u fuel b o.
Proof. exact bind_is_application. Qed.
Print Assumptions C05_bind_is_application.

Theorem C05_call_is_application : forall u fuel f kwargs vs o,
  user_fn f = true -> Forall2 (fun e v => sem u fuel e o = Ok v) kwargs vs -> deep_err_list vs = None ->
  sem u fuel (body f kwargs) o =
    match u f (map listify vs) with COk v => Ok v | CRaise n => Err (CUser n) true end.
Proof. exact call_is_application. Qed.
Print Assumptions C05_call_is_application.

Theorem C05_dataset_spec : forall u fuel d o,
  sem u fuel (dataset_expr d) o =
    sem u fuel
      (if d.(ds_effects_disabled)
       then EApply (ESwitch d.(ds_dispatch) d.(ds_table) d.(ds_default)) d.(ds_callback)
       else EComp (EApply (ESwitch d.(ds_dispatch) d.(ds_table) d.(ds_default)) d.(ds_callback)) d.(ds_effects))
      (mix (mix d.(ds_default_options) o) d.(ds_options)).
Proof. exact dataset_spec. Qed.
Print Assumptions C05_dataset_spec.

(** ** Non-vacuity (closed by computation). *)
Definition kA : key := [SName 10]%N.
Definition kB : key := [SName 11]%N.
Definition jstr (c : N) : json := JStr [TLit c].
Definition cst (j : json) : expr := EValue (VJ j).
Definition u0 := ucall_of [(101%N, FEq (VJ (JInt 1))); (102%N, FTruthy)].

(** switch(Option('A'), {1: 'x', 2: 'y'}, 'z') on {'A': 2}, {'A': 3} (unregistered), {}
    (dispatch not evaluable); without default: SwitchError / the dispatch's missing key. *)
Example C05_ex_switch :
  let sw d := ESwitch (EOption kA None None)
                [(VJ (JInt 1), cst (jstr 120)); (VJ (JInt 2), cst (jstr 121))] d in
  let run e o := sem u0 10 e o in
  run (sw (Some (cst (jstr 122)))) [(SName 10, JInt 2)]%N = Ok (VJ (jstr 121)) /\
  run (sw (Some (cst (jstr 122)))) [(SName 10, JInt 3)]%N = Ok (VJ (jstr 122)) /\
  run (sw (Some (cst (jstr 122)))) [] = Ok (VJ (jstr 122)) /\
  run (sw None) [(SName 10, JInt 3)]%N = Err CSwitch true /\
  run (sw None) [] = Err (CKey kA) true.
Proof. vm_compute. repeat split. Qed.

(** case(Option('A')).when(== 1, 'first').when(truthy, 'second'): both conditions hold of 1 —
    the first wins; only the second holds of 5; none of 0 (CaseWhenError). *)
Example C05_ex_case_first :
  let cw := ECase (EOption kA None None)
              [(EValue (VF 101 [] []), cst (jstr 102)); (EValue (VF 102 [] []), cst (jstr 115))] None in
  sem u0 10 cw [(SName 10, JInt 1)]%N = Ok (VJ (jstr 102)) /\
  sem u0 10 cw [(SName 10, JInt 5)]%N = Ok (VJ (jstr 115)) /\
  sem u0 10 cw [(SName 10, JInt 0)]%N = Err CCase true.
Proof. vm_compute. repeat split. Qed.

(** Coalesce(switch(Option('A'), {1: Option('B')}), Option('B', 7)): the switch is passed over
    when A is missing or unregistered or B is missing. *)
Example C05_ex_coalesce :
  let co := ECoalesce [ESwitch (EOption kA None None) [(VJ (JInt 1), EOption kB None None)] None;
                       EOption kB (Some (cst (JInt 7))) None] in
  sem u0 10 co [(SName 10, JInt 1); (SName 11, JInt 5)]%N = Ok (VJ (JInt 5)) /\
  sem u0 10 co [(SName 10, JInt 2); (SName 11, JInt 5)]%N = Ok (VJ (JInt 5)) /\
  sem u0 10 co [(SName 10, JInt 1)]%N = Ok (VJ (JInt 7)) /\
  sem u0 10 (ECoalesce [EOption kA None None; EOption kB None None]) [] = Err (CKey kB) true.
Proof. vm_compute. repeat split. Qed.

(** Map(f(Option('A'), Option('B')), {'A': [1, 2], 'B': Option('L')}) on {'L': [3, 4], 'A': 9}:
    four pairs, product order, the assignment overriding the caller's A. *)
Example C05_ex_map :
  let m := EMap (body 200 [EOption kA None None; EOption kB None None])
                [(kA, cst (JList [JInt 1; JInt 2])); (kB, EOption [SName 30]%N None None)] in
  let pair a b := VT T_TUPLE [VT T_DICT [VT T_PAIR [VJ (JStr [TRef kA]); VJ (JInt a)];
                                         VT T_PAIR [VJ (JStr [TRef kB]); VJ (JInt b)]];
                              VT 200 [VJ (JInt a); VJ (JInt b)]] in
  sem u0 10 m [(SName 30, JList [JInt 3; JInt 4]); (SName 10, JInt 9)]%N =
    Ok (VT T_ITER [pair 1 3; pair 1 4; pair 2 3; pair 2 4])%Z.
Proof. vm_compute. reflexivity. Qed.

(** the hypotheses of [C05_map_cartesian_in_order] and [C05_collections_keep_order] are
    satisfiable: instances *)
Example C05_ex_map_hyps :
  let o := [(SName 10, JInt 9)]%N in
  map_pairs u0 10 (EOption kA None None) o
    (map (fun combo => combine [kA] combo) (product [[VJ (JInt 1); VJ (JInt 2)]]))
    [VT T_TUPLE [row_dict [(kA, VJ (JInt 1))]; VJ (JInt 1)];
     VT T_TUPLE [row_dict [(kA, VJ (JInt 2))]; VJ (JInt 2)]].
Proof.
  cbn. eapply mp_cons; [vm_compute; reflexivity|vm_compute; reflexivity|reflexivity|].
  eapply mp_cons; [vm_compute; reflexivity|vm_compute; reflexivity|reflexivity|]. apply mp_nil.
Qed.

Example C05_ex_collections :
  sem u0 10 (elist [EOption kB None None; cst (JInt 0); EOption kA None None])
      [(SName 10, JInt 1); (SName 11, JInt 2)]%N
  = Ok (VT T_LIST [VJ (JInt 2); VJ (JInt 0); VJ (JInt 1)]).
Proof. vm_compute. reflexivity. Qed.

(** the code-structured interpreter and the reference agree on a composite tree (an instance of
    the refinement theorem, by computation): a switch inside a Map inside a dataset default *)
Example C05_ex_composite :
  let ds := dataset_expr {| ds_dispatch := no_dispatch; ds_table := []; 
                            ds_default := Some (body 200 [EOption kA None None]);
                            ds_callback := empty_callback; ds_effects := []; ds_effects_disabled := false;
                            ds_cache := CMem 1; ds_options := []; ds_default_options := [] |} in
  let e := elist [EOption kB (Some (EApply (EMap (ESwitch (EOption kA None None) [(VJ (JInt 1), ds)] (Some (cst JNull)))
                                                [(kA, cst (JList [JInt 1; JInt 2]))])
                                          (EValue (VF B_LIST [] [])))) None] in
  fst (eval_nc u0 10 e []) = consumed (sem u0 10 e []) /\
  exists v, sem u0 10 e [] = Ok v.
Proof. vm_compute. split; [reflexivity|eexists; reflexivity]. Qed.

(** the side conditions of the case-when and coalesce theorems are satisfiable, and the D23 shape
    is exactly what the boolean side condition excludes *)
Example C05_ex_side_conditions :
  passed_overb u0 10 [] (EOption kA None None) = true /\
  passed_overb u0 10 [] (body 200 [EOption kA None None]) = true /\
  passed_overb u0 10 [] (EBind (cst (JInt 2)) [] None) = false /\
  (exists p b, sem u0 10 (EValue (VF 101 [] [])) [] = Ok p /\ scall_value u0 p (VJ (JInt 5)) = Ok b /\ truthy b = false).
Proof. vm_compute. repeat split. eexists; eexists; repeat split. Qed.

(** bind, apply and a two-key Map assignment overriding a section the caller partly supplies *)
Example C05_ex_bind_apply_override :
  sem u0 10 (EBind (EOption kA None None) [(VJ (JInt 1), EOption kB None None)] (Some (cst JNull)))
      [(SName 10, JInt 1); (SName 11, JInt 7)]%N = Ok (VJ (JInt 7)) /\
  sem u0 10 (EApply (EOption kA None None) (EValue (VF 200 [] []))) [(SName 10, JInt 1)]%N = Ok (VT 200 [VJ (JInt 1)]) /\
  sem u0 10 (EApply (EMap (elist [EOption [SName 20; SName 21]%N None None; EOption [SName 20; SName 22]%N None None; EOption kA None None])
                          [([SName 20; SName 21]%N, cst (JList [JInt 1])); (kA, cst (JList [JInt 2]))])
                    (EValue (VF B_LIST [] [])))
      [(SName 20, JObj [(SName 21, JInt 8); (SName 22, JInt 9)]); (SName 10, JInt 0)]%N
  = Ok (VT T_LIST [VT T_TUPLE [VT T_DICT [VT T_PAIR [VJ (JStr [TRef [SName 20; SName 21]%N]); VJ (JInt 1)];
                                          VT T_PAIR [VJ (JStr [TRef kA]); VJ (JInt 2)]];
                               VT T_LIST [VJ (JInt 1); VJ (JInt 9); VJ (JInt 2)]]]).
Proof. vm_compute. repeat split. Qed.
