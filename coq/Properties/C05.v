(** C05 — combinators evaluate to what the equivalent eager Python computation yields.

    THREE layers, and what each is worth:
    - [Eval.eval]: the interpreter transcribed clause by clause from the labrea classes (state,
      event log, request wrappers).
    - [Spec.sem] ([Model/Spec.v]): "eval with the effects erased" — the SAME clause-by-clause
      recursion in the plain error monad, reusing the model's helpers ([pick], [product],
      [option_set], [mix], …).  An INTERMEDIATE layer, not an independent specification:
      [C05_eval_refines_spec] is a monad erasure, and the sentence theorems about switch / bind /
      dataset stated with [assoc_v] below ([C05_switch_spec], [C05_switch_registered],
      [C05_bind_is_application], [C05_dataset_spec], …) are unfoldings of its clauses.
    - the independent, declarative specification ([Proofs/C05Spec.v]), last part of this file:
      Map by a comprehension over the standard library's [list_prod] (also: membership and the
      mixed-radix position of every combination), the dictionary of an assignment by what
      [lookup] answers in it ([overlays]), the lazy sequence as a [firstn]; Coalesce, switch, bind,
      case-when by [List.find] over outcomes / tables.  [sem] — hence [eval], through the
      refinement theorem — is proved equal to it on well-formed inputs.
    Only [exact]-closed statements + [Print Assumptions]. *)
From Coq Require Import List NArith ZArith Bool.
Import ListNotations.
From LV Require Import Model.Base Model.Template Model.Eval Model.Derived Model.EvalRun Model.Spec
  Proofs.BaseProofs Proofs.EvalProofs Proofs.SpecProofs Proofs.C08Overlay Proofs.C05Spec.

(** ** Layer 1 -> layer 2: erasing the effects.  The result of the cache-free reference run of
    the code-structured interpreter — request wrappers, [_DependsOn], the macro expansion of Map,
    try/except of coalesce and switch, the event log — is [sem], for all expressions (no fragment
    restriction). *)
Theorem C05_eval_refines_spec : forall u fuel e o,
  fst (fst (eval unit nc_find nc_store cfg_nc u fuel (fun _ _ => true) e o tt)) = sem u fuel e o.
Proof. exact C05_refinement. Qed.
Print Assumptions C05_eval_refines_spec.

Theorem C05_validate_refines_spec : forall u fuel e o,
  fst (fst (validate unit nc_find nc_store cfg_nc u fuel (fun _ _ => true) e o tt)) = sem_valid u fuel e o.
Proof. exact C05_refinement_validate. Qed.
Print Assumptions C05_validate_refines_spec.

(** … and the observation compared with labrea by the correspondence run ([eval_nc]: the result
    with every lazily evaluated iterable consumed) is the reference value, consumed. *)
Theorem C05_observed_refines_spec : forall u fuel e o,
  fst (eval_nc u fuel e o) = consumed (sem u fuel e o).
Proof. exact C05_refinement_observed. Qed.
Print Assumptions C05_observed_refines_spec.

(** ** Sentences about [sem] (layer 2).  Those about switch / bind / dataset in this part are
    the clauses of [sem] restated (model clauses); the real content here is case-when / coalesce
    over arbitrary prefixes, collection order, and the Map count / override theorems.

    switch takes the branch registered under the dispatch value and otherwise (or when the
    dispatch cannot be evaluated) the default; with neither, it fails. *)
Theorem C05_switch_spec : forall u fuel disp tbl dflt o,
  sem u fuel (ESwitch disp tbl dflt) o =
    match sem u fuel disp o with
    | Ok k =>
        if hashable k then
          match assoc_v k tbl with
          | Some b => sem u fuel b o
          | None => match dflt with Some d => sem u fuel d o | None => Err CSwitch true end
          end
        else Err CType true
    | Err c ee =>
        match dflt with
        | Some d => if is_unmodelled c then Err c true else sem u fuel d o
        | None => Err c true
        end
    end.
Proof. exact switch_spec. Qed.
Print Assumptions C05_switch_spec.

(** … the same, one sentence at a time: the registered branch; else the default; the default
    also when the dispatch cannot be evaluated, whatever its failure. *)
Theorem C05_switch_registered : forall u fuel disp tbl dflt o k b,
  sem u fuel disp o = Ok k -> hashable k = true -> assoc_v k tbl = Some b ->
  sem u fuel (ESwitch disp tbl dflt) o = sem u fuel b o.
Proof. exact switch_registered. Qed.
Print Assumptions C05_switch_registered.

Theorem C05_switch_unregistered_default : forall u fuel disp tbl d o k,
  sem u fuel disp o = Ok k -> hashable k = true -> assoc_v k tbl = None ->
  sem u fuel (ESwitch disp tbl (Some d)) o = sem u fuel d o.
Proof. exact switch_unregistered_default. Qed.
Print Assumptions C05_switch_unregistered_default.

Theorem C05_switch_dispatch_fails_default : forall u fuel disp tbl d o c ee,
  sem u fuel disp o = Err c ee -> c <> CUnmodelled ->
  sem u fuel (ESwitch disp tbl (Some d)) o = sem u fuel d o.
Proof. exact switch_dispatch_fails_default. Qed.
Print Assumptions C05_switch_dispatch_fails_default.

(** case-when takes the first matching case: every earlier condition is false of the dispatch
    value, this one is true. *)
Theorem C05_case_first_match : forall u fuel disp pre c r post dflt o x p b,
  sem u fuel disp o = Ok x ->
  Forall (case_fails u fuel o x) pre ->
  sem u fuel c o = Ok p -> scall_value u p x = Ok b -> truthy b = true ->
  sem u fuel (ECase disp (pre ++ (c, r) :: post) dflt) o = sem u fuel r o.
Proof. exact case_first_match. Qed.
Print Assumptions C05_case_first_match.

Theorem C05_case_no_match_default : forall u fuel disp cases dflt o x,
  sem u fuel disp o = Ok x -> Forall (case_fails u fuel o x) cases ->
  sem u fuel (ECase disp cases dflt) o =
    match dflt with Some d => sem u fuel d o | None => Err CCase true end.
Proof. exact case_no_match. Qed.
Print Assumptions C05_case_no_match_default.

(** coalesce yields the first member that can be evaluated: every earlier member is passed over
    (does not validate, or validates and fails), this one validates and yields [v]. *)
Theorem C05_coalesce_first_evaluable : forall u fuel pre m post o v,
  Forall (passed_over u fuel o) pre -> sem_valid u fuel m o = Ok tt -> sem u fuel m o = Ok v ->
  sem u fuel (ECoalesce (pre ++ m :: post)) o = Ok v.
Proof. exact coalesce_first_evaluable. Qed.
Print Assumptions C05_coalesce_first_evaluable.

(** The sentence WITHOUT the side condition on the members passed over — "the first member
    that can be evaluated, every earlier one failing" — is false of the code as it is (finding
    D23): a member whose bind function raises aborts the whole coalesce (the exception leaves the
    member's validate() outside any EvaluateRequest, so it is not an EvaluationError) although
    the next member validates and evaluates. *)
Theorem C05_coalesce_first_evaluable_refuted :
  exists (u : N -> list value -> cres) (fuel : nat) m1 m2 o v,
    (exists c, sem u fuel m1 o = Err c true) /\
    sem_valid u fuel m2 o = Ok tt /\ sem u fuel m2 o = Ok v /\
    exists c, sem u fuel (ECoalesce [m1; m2]) o = Err c true.
Proof. exact coalesce_first_evaluable_refuted. Qed.
Print Assumptions C05_coalesce_first_evaluable_refuted.

(** … and it holds under the explicit boolean side condition that every earlier member fails
    with an EvaluationError (at validation, or after validating). *)
Theorem C05_coalesce_first_evaluable_partial : forall u fuel pre m post o v,
  forallb (passed_overb u fuel o) pre = true -> sem_valid u fuel m o = Ok tt -> sem u fuel m o = Ok v ->
  sem u fuel (ECoalesce (pre ++ m :: post)) o = Ok v.
Proof. exact coalesce_first_evaluable_b. Qed.
Print Assumptions C05_coalesce_first_evaluable_partial.

(** collections keep order: Iter, list, tuple (and dict: built from the pairs in order). *)
Theorem C05_collections_keep_order : forall u fuel es vs o,
  Forall2 (yields u fuel o) es vs ->
  sem u fuel (EIter es) o = Ok (VT T_ITER vs) /\
  sem u fuel (elist es) o = Ok (VT T_LIST vs) /\
  sem u fuel (etuple es) o = Ok (VT T_TUPLE vs).
Proof.
  exact (fun u fuel es vs o H =>
           conj (iter_keeps_order u fuel es vs o H)
                (conj (list_keeps_order u fuel es vs o H) (tuple_keeps_order u fuel es vs o H))).
Qed.
Print Assumptions C05_collections_keep_order.

Theorem C05_dict_keeps_order : forall u fuel (kvs : list (value * expr)) vs o,
  Forall2 (fun kv v => yields u fuel o (snd kv) v /\ deep_err (fst kv) = None) kvs vs ->
  sem u fuel (edict kvs) o =
    match dict_of_pairs (map (fun p => VT T_ITER [fst (fst p); snd p]) (combine kvs vs)) [] with
    | Some d => Ok (VT T_DICT d)
    | None => Err CType true
    end.
Proof. exact dict_keeps_order. Qed.
Print Assumptions C05_dict_keeps_order.

(** Map yields one (assignment, result) pair per element of the cartesian product of its
    evaluated iterables ([product]: itertools.product, last iterable varying fastest), in order,
    each result being the body's value with that assignment overriding the caller's options
    ([map_pairs]: [sem e (mix o os)] for the dictionary [os] the assignment denotes). *)
Theorem C05_map_cartesian_in_order : forall u fuel e its o vals out,
  Forall2 (iterates u fuel o) its vals ->
  map_pairs u fuel e o (map (fun combo => combine (map fst its) combo) (product vals)) out ->
  sem u fuel (EMap e its) o = Ok (VT T_ITER out).
Proof. exact map_cartesian_in_order. Qed.
Print Assumptions C05_map_cartesian_in_order.

(** … one pair per element of the product (as many as the lengths of the evaluated iterables
    multiply to), the i-th pair carrying the i-th assignment of the product order. *)
Theorem C05_map_one_pair_per_combination : forall u fuel e its o vals out,
  Forall2 (iterates u fuel o) its vals ->
  map_pairs u fuel e o (map (fun combo => combine (map fst its) combo) (product vals)) out ->
  sem u fuel (EMap e its) o = Ok (VT T_ITER out) /\
  length out = fold_right (fun l n => (length l * n)%nat) 1%nat vals /\
  map pair_fst out = map (fun combo => row_dict (combine (map fst its) combo)) (product vals).
Proof. exact map_one_pair_per_combination. Qed.
Print Assumptions C05_map_one_pair_per_combination.

(** "that assignment overriding the caller's options": in the dictionary [mix o os] under which
    [map_pairs] evaluates the body, the assigned (dotted) key holds the assigned value whatever the
    caller supplied there, and every key diverging from it keeps the caller's value. *)
Theorem C05_map_assignment_overrides : forall k j o os,
  k <> [] -> forallb is_name k = true -> wf_json j = true -> (forall m, j <> JObj m) ->
  srow_options [(k, VJ j)] = Ok os ->
  lookup k (JObj (mix o os)) = Found j /\
  (forall k' w, diverge k k' = true -> forallb is_name k' = true ->
                lookup k' (JObj o) = Found w -> lookup k' (JObj (mix o os)) = Found w).
Proof. exact map_assignment_overrides. Qed.
Print Assumptions C05_map_assignment_overrides.

(** When no branch applies and there is no default, evaluation fails instead of returning a
    value: switch (unregistered value; dispatch not evaluable), case-when, coalesce. *)
Theorem C05_no_branch_no_value : forall u fuel,
  (forall disp tbl o k, sem u fuel disp o = Ok k -> hashable k = true -> assoc_v k tbl = None ->
     sem u fuel (ESwitch disp tbl None) o = Err CSwitch true) /\
  (forall disp tbl o c ee, sem u fuel disp o = Err c ee ->
     sem u fuel (ESwitch disp tbl None) o = Err c true) /\
  (forall disp cases o x, sem u fuel disp o = Ok x -> Forall (case_fails u fuel o x) cases ->
     sem u fuel (ECase disp cases None) o = Err CCase true) /\
  (forall ms o, Forall (passed_over u fuel o) ms -> exists c, sem u fuel (ECoalesce ms) o = Err c true).
Proof.
  exact (fun u fuel => conj (switch_no_branch u fuel)
                      (conj (switch_no_dispatch_no_default u fuel)
                      (conj (case_no_branch u fuel) (coalesce_none_evaluable u fuel)))).
Qed.
Print Assumptions C05_no_branch_no_value.

(** apply / >>, bind, function application and datasets. *)
Theorem C05_apply_is_application : forall u fuel src fn o x f,
  sem u fuel src o = Ok x -> sem u fuel fn o = Ok f ->
  sem u fuel (EApply src fn) o = as_ee (scall_value u f x).
Proof. exact apply_is_application. Qed.
Print Assumptions C05_apply_is_application.

Theorem C05_apply_user_function : forall u fuel src fn o x f,
  sem u fuel src o = Ok x -> sem u fuel fn o = Ok (VF f [] []) -> user_fn f = true -> deep_err x = None ->
  sem u fuel (EApply src fn) o =
    match u f [listify x] with COk v => Ok v | CRaise n => Err (CUser n) true end.
Proof. exact apply_user_function. Qed.
Print Assumptions C05_apply_user_function.

Theorem C05_bind_is_application : forall u fuel src tbl dflt o x b,
  sem u fuel src o = Ok x -> assoc_v x tbl = Some b -> sem u fuel (EBind src tbl dflt) o = sem u fuel b o.
Proof. exact bind_is_application. Qed.
Print Assumptions C05_bind_is_application.

Theorem C05_call_is_application : forall u fuel f kwargs vs o,
  user_fn f = true -> Forall2 (fun e v => sem u fuel e o = Ok v) kwargs vs -> deep_err_list vs = None ->
  sem u fuel (body f kwargs) o =
    match u f (map listify vs) with COk v => Ok v | CRaise n => Err (CUser n) true end.
Proof. exact call_is_application. Qed.
Print Assumptions C05_call_is_application.

Theorem C05_dataset_spec : forall u fuel d o,
  sem u fuel (dataset_expr d) o =
    sem u fuel
      (if d.(ds_effects_disabled)
       then EApply (ESwitch d.(ds_dispatch) d.(ds_table) d.(ds_default)) d.(ds_callback)
       else EComp (EApply (ESwitch d.(ds_dispatch) d.(ds_table) d.(ds_default)) d.(ds_callback)) d.(ds_effects))
      (mix (mix d.(ds_default_options) o) d.(ds_options)).
Proof. exact dataset_spec. Qed.
Print Assumptions C05_dataset_spec.

(** ** Layer 3: the independent specification ([Proofs/C05Spec.v]) and [sem] / [eval] equal to it.

    *** The cartesian product.  [cart] is a comprehension over the standard library's [list_prod],
    written without reference to the model's [Eval.product]; the model's product is it … *)
Theorem C05_product_is_list_prod_comprehension : forall (A : Type) (ls : list (list A)),
  product ls = cart ls.
Proof. exact @product_is_cart. Qed.
Print Assumptions C05_product_is_list_prod_comprehension.

(** … its members are exactly the lists picking one element of each factor, in order … *)
Theorem C05_cart_membership : forall (A : Type) (ls : list (list A)) combo,
  In combo (cart ls) <-> Forall2 (fun x l => In x l) combo ls.
Proof. exact @in_cart. Qed.
Print Assumptions C05_cart_membership.

(** … and the i-th one is the mixed-radix representation of i with the LAST factor as least
    significant digit: lexicographic order, last key varying fastest. *)
Theorem C05_cart_order_last_fastest : forall (A : Type) (d : A) (ls : list (list A)) i,
  (i < radix ls)%nat -> nth i (cart ls) [] = digits d ls i.
Proof. exact @nth_cart. Qed.
Print Assumptions C05_cart_order_last_fastest.

(** *** The dictionary an assignment denotes, by what [lookup] answers in it ([overlays o row d]:
    every assigned key holds the assigned value; every key that is neither a prefix nor an
    extension of an assigned key is answered as the caller's [o] answers it).  For keys that are
    non-empty paths of names, none a prefix of another, and non-dictionary JSON values, the
    model's nested-set of ALL assignments of the combination succeeds and the caller's options
    overlaid by it satisfy that characterisation. *)
Theorem C05_map_assignment_dictionary : forall o row,
  forallb name_key (map fst row) = true -> pairwise_diverge (map fst row) = true ->
  forallb scalar_value (map snd row) = true ->
  exists os, srow_options row = Ok os /\ overlays o row (mix o os).
Proof. exact row_overlay_spec. Qed.
Print Assumptions C05_map_assignment_dictionary.

(** *** Map.  With iterables evaluating to the collections [xss] and, for each assignment, the
    dictionary [osf row] it denotes: the elements (assignment, value of the body under the
    caller's options overlaid by that dictionary) in the order of [cart], up to and including the
    first that fails ([upto_first_bad] is a [firstn]); a failing element is the deferred failure
    [VErr c], raised when that element is consumed. *)
Theorem C05_map_spec : forall u fuel e its o xss (osf : list (key * value) -> dict),
  Forall2 (iterates u fuel o) its xss ->
  (forall row, In row (assignments (map fst its) xss) -> srow_options row = Ok (osf row)) ->
  (forall row, In row (assignments (map fst its) xss) -> modelled (sem u fuel e (mix o (osf row))) = true) ->
  sem u fuel (EMap e its) o =
    Ok (VT T_ITER (map map_elem
                    (upto_first_bad outcome_ok
                       (map (fun row => (row, sem u fuel e (mix o (osf row))))
                            (assignments (map fst its) xss))))).
Proof. exact map_value_spec. Qed.
Print Assumptions C05_map_spec.

(** … on well-formed inputs, with the dictionaries characterised by [overlays] alone … *)
Theorem C05_map_spec_wellformed : forall u fuel e its o xss,
  Forall2 (iterates u fuel o) its xss ->
  forallb name_key (map fst its) = true -> pairwise_diverge (map fst its) = true ->
  Forall (fun xs => forallb scalar_value xs = true) xss ->
  (forall row, In row (assignments (map fst its) xss) ->
     map fst row = map fst its /\ overlays o row (assignment_dict o row)) /\
  ((forall row, In row (assignments (map fst its) xss) ->
      modelled (sem u fuel e (assignment_dict o row)) = true) ->
   sem u fuel (EMap e its) o =
     Ok (VT T_ITER (map map_elem
                     (upto_first_bad outcome_ok
                        (map (fun row => (row, sem u fuel e (assignment_dict o row)))
                             (assignments (map fst its) xss)))))).
Proof. exact map_spec_wf. Qed.
Print Assumptions C05_map_spec_wellformed.

(** … and the same of the code-structured interpreter. *)
Theorem C05_eval_map_spec_wellformed : forall u fuel e its o xss,
  let evalR e o := fst (fst (eval unit nc_find nc_store cfg_nc u fuel (fun _ _ => true) e o tt)) in
  Forall2 (iterates_eval u fuel o) its xss ->
  forallb name_key (map fst its) = true -> pairwise_diverge (map fst its) = true ->
  Forall (fun xs => forallb scalar_value xs = true) xss ->
  (forall row, In row (assignments (map fst its) xss) ->
     map fst row = map fst its /\ overlays o row (assignment_dict o row)) /\
  ((forall row, In row (assignments (map fst its) xss) ->
      modelled (evalR e (assignment_dict o row)) = true) ->
   evalR (EMap e its) o =
     Ok (VT T_ITER (map map_elem
                     (upto_first_bad outcome_ok
                        (map (fun row => (row, evalR e (assignment_dict o row)))
                             (assignments (map fst its) xss)))))).
Proof. exact eval_map_spec_wf. Qed.
Print Assumptions C05_eval_map_spec_wellformed.

(** the i-th assignment pairs the keys with the mixed-radix digits of i *)
Theorem C05_map_assignments_in_product_order : forall (ks : list key) xss i,
  (i < radix xss)%nat -> nth i (assignments ks xss) [] = combine ks (digits VMissing xss i).
Proof. exact nth_assignments. Qed.
Print Assumptions C05_map_assignments_in_product_order.

(** an iterable that cannot be evaluated or consumed: the Map fails with that failure at once *)
Theorem C05_map_iterable_fails : forall u fuel e pre k it post o xss c ee,
  Forall2 (iterates u fuel o) pre xss ->
  (sem u fuel it o = Err c ee \/ exists v, sem u fuel it o = Ok v /\ sforce v = Err c ee) ->
  sem u fuel (EMap e (pre ++ (k, it) :: post)) o = Err c true.
Proof. exact map_iterable_fails. Qed.
Print Assumptions C05_map_iterable_fails.

(** laziness: a body failing at one assignment does not fail the Map; the failure is deferred to
    that element (and ends the sequence there) *)
Theorem C05_map_failure_surfaces_at_element : forall u fuel e its o xss pre row post c ee,
  Forall2 (iterates u fuel o) its xss ->
  forallb name_key (map fst its) = true -> pairwise_diverge (map fst its) = true ->
  Forall (fun xs => forallb scalar_value xs = true) xss ->
  assignments (map fst its) xss = pre ++ row :: post ->
  forallb (fun r => outcome_ok (r, sem u fuel e (assignment_dict o r))) pre = true ->
  sem u fuel e (assignment_dict o row) = Err c ee -> c <> CUnmodelled ->
  (forall r, In r post -> modelled (sem u fuel e (assignment_dict o r)) = true) ->
  sem u fuel (EMap e its) o =
    Ok (VT T_ITER (map (fun r => map_elem (r, sem u fuel e (assignment_dict o r))) pre ++ [VErr c])).
Proof. exact map_failure_surfaces_at_element. Qed.
Print Assumptions C05_map_failure_surfaces_at_element.

(** *** Coalesce: [List.find] over the members' outcomes ([attempt]: validate, then evaluate).
    The first member that is not passed over decides — a member is passed over iff trying it
    fails with an EvaluationError, so the deciding member is the first that validates and
    evaluates OR the first failing with anything else (finding D23); if all are passed over, the
    failure of the last one. *)
Theorem C05_coalesce_find_spec : forall u fuel ms o,
  sem u fuel (ECoalesce ms) o =
    as_ee (match find (fun r => negb (passed r)) (map (attempt u fuel o) ms) with
           | Some r => r
           | None => last (map (attempt u fuel o) ms) (Err CUnmodelled false)
           end).
Proof. exact coalesce_find_spec. Qed.
Print Assumptions C05_coalesce_find_spec.

Theorem C05_coalesce_valid_find_spec : forall u fuel ms o,
  sem_valid u fuel (ECoalesce ms) o =
    match find (fun r => negb (passed r)) (map (fun m => sem_valid u fuel m o) ms) with
    | Some r => r
    | None => last (map (fun m => sem_valid u fuel m o) ms) (Err CUnmodelled false)
    end.
Proof. exact coalesce_valid_find_spec. Qed.
Print Assumptions C05_coalesce_valid_find_spec.

Theorem C05_eval_coalesce_find_spec : forall u fuel ms o,
  let evalR e := fst (fst (eval unit nc_find nc_store cfg_nc u fuel (fun _ _ => true) e o tt)) in
  let validR e := fst (fst (validate unit nc_find nc_store cfg_nc u fuel (fun _ _ => true) e o tt)) in
  evalR (ECoalesce ms) =
    as_ee (match find (fun r => negb (passed r)) (map (fun m => rbind (validR m) (fun _ => evalR m)) ms) with
           | Some r => r
           | None => last (map (fun m => rbind (validR m) (fun _ => evalR m)) ms) (Err CUnmodelled false)
           end).
Proof. exact eval_coalesce_find_spec. Qed.
Print Assumptions C05_eval_coalesce_find_spec.

(** *** switch, bind, case-when: [List.find] in the table (by Python [==]) / the case list *)
Theorem C05_switch_find_spec : forall u fuel disp tbl dflt o,
  sem u fuel (ESwitch disp tbl dflt) o =
    match sem u fuel disp o with
    | Ok k =>
        if hashable k then
          match option_map snd (find (fun ve => value_eq k (fst ve)) tbl) with
          | Some b => sem u fuel b o
          | None => match dflt with Some d => sem u fuel d o | None => Err CSwitch true end
          end
        else Err CType true
    | Err c ee =>
        match dflt with
        | Some d => if is_unmodelled c then Err c true else sem u fuel d o
        | None => Err c true
        end
    end.
Proof. exact switch_find_spec. Qed.
Print Assumptions C05_switch_find_spec.

Theorem C05_bind_find_spec : forall u fuel src tbl dflt o,
  sem u fuel (EBind src tbl dflt) o =
    match sem u fuel src o with
    | Ok x =>
        match option_map snd (find (fun ve => value_eq x (fst ve)) tbl) with
        | Some b => sem u fuel b o
        | None => match dflt with Some d => sem u fuel d o | None => Err (CUser 0) true end
        end
    | Err c ee => Err c true
    end.
Proof. exact bind_find_spec. Qed.
Print Assumptions C05_bind_find_spec.

(** the first case whose condition is not plainly false decides ([case_test]: the condition
    applied to the dispatch value): its result if the condition holds, the condition's failure if
    it cannot be evaluated; with no such case, the default *)
Theorem C05_case_find_spec : forall u fuel disp cases dflt o,
  sem u fuel (ECase disp cases dflt) o =
    match sem u fuel disp o with
    | Ok x =>
        match find (case_decides u fuel o x) cases with
        | Some cr => match case_test u fuel o x cr with
                     | Ok _ => sem u fuel (snd cr) o
                     | Err c _ => Err c true
                     end
        | None => match dflt with Some d => sem u fuel d o | None => Err CCase true end
        end
    | Err c ee => Err c true
    end.
Proof. exact case_find_spec. Qed.
Print Assumptions C05_case_find_spec.

(** ** Non-vacuity (closed by computation). *)
Definition kA : key := [SName 10]%N.
Definition kB : key := [SName 11]%N.
Definition jstr (c : N) : json := JStr [TLit c].
Definition cst (j : json) : expr := EValue (VJ j).
Definition u0 := ucall_of [(101%N, FEq (VJ (JInt 1))); (102%N, FTruthy)].

(** switch(Option('A'), {1: 'x', 2: 'y'}, 'z') on {'A': 2}, {'A': 3} (unregistered), {}
    (dispatch not evaluable); without default: SwitchError / the dispatch's missing key. *)
Example C05_ex_switch :
  let sw d := ESwitch (EOption kA None None)
                [(VJ (JInt 1), cst (jstr 120)); (VJ (JInt 2), cst (jstr 121))] d in
  let run e o := sem u0 10 e o in
  run (sw (Some (cst (jstr 122)))) [(SName 10, JInt 2)]%N = Ok (VJ (jstr 121)) /\
  run (sw (Some (cst (jstr 122)))) [(SName 10, JInt 3)]%N = Ok (VJ (jstr 122)) /\
  run (sw (Some (cst (jstr 122)))) [] = Ok (VJ (jstr 122)) /\
  run (sw None) [(SName 10, JInt 3)]%N = Err CSwitch true /\
  run (sw None) [] = Err (CKey kA) true.
Proof. vm_compute. repeat split. Qed.
Print Assumptions C05_ex_switch.

(** case(Option('A')).when(== 1, 'first').when(truthy, 'second'): both conditions hold of 1 —
    the first wins; only the second holds of 5; none of 0 (CaseWhenError). *)
Example C05_ex_case_first :
  let cw := ECase (EOption kA None None)
              [(EValue (VF 101 [] []), cst (jstr 102)); (EValue (VF 102 [] []), cst (jstr 115))] None in
  sem u0 10 cw [(SName 10, JInt 1)]%N = Ok (VJ (jstr 102)) /\
  sem u0 10 cw [(SName 10, JInt 5)]%N = Ok (VJ (jstr 115)) /\
  sem u0 10 cw [(SName 10, JInt 0)]%N = Err CCase true.
Proof. vm_compute. repeat split. Qed.
Print Assumptions C05_ex_case_first.

(** Coalesce(switch(Option('A'), {1: Option('B')}), Option('B', 7)): the switch is passed over
    when A is missing or unregistered or B is missing. *)
Example C05_ex_coalesce :
  let co := ECoalesce [ESwitch (EOption kA None None) [(VJ (JInt 1), EOption kB None None)] None;
                       EOption kB (Some (cst (JInt 7))) None] in
  sem u0 10 co [(SName 10, JInt 1); (SName 11, JInt 5)]%N = Ok (VJ (JInt 5)) /\
  sem u0 10 co [(SName 10, JInt 2); (SName 11, JInt 5)]%N = Ok (VJ (JInt 5)) /\
  sem u0 10 co [(SName 10, JInt 1)]%N = Ok (VJ (JInt 7)) /\
  sem u0 10 (ECoalesce [EOption kA None None; EOption kB None None]) [] = Err (CKey kB) true.
Proof. vm_compute. repeat split. Qed.
Print Assumptions C05_ex_coalesce.

(** Map(f(Option('A'), Option('B')), {'A': [1, 2], 'B': Option('L')}) on {'L': [3, 4], 'A': 9}:
    four pairs, product order, the assignment overriding the caller's A. *)
Example C05_ex_map :
  let m := EMap (body 200 [EOption kA None None; EOption kB None None])
                [(kA, cst (JList [JInt 1; JInt 2])); (kB, EOption [SName 30]%N None None)] in
  let pair a b := VT T_TUPLE [VT T_DICT [VT T_PAIR [VJ (JStr [TRef kA]); VJ (JInt a)];
                                         VT T_PAIR [VJ (JStr [TRef kB]); VJ (JInt b)]];
                              VT 200 [VJ (JInt a); VJ (JInt b)]] in
  sem u0 10 m [(SName 30, JList [JInt 3; JInt 4]); (SName 10, JInt 9)]%N =
    Ok (VT T_ITER [pair 1 3; pair 1 4; pair 2 3; pair 2 4])%Z.
Proof. vm_compute. reflexivity. Qed.
Print Assumptions C05_ex_map.

(** the hypotheses of [C05_map_cartesian_in_order] and [C05_collections_keep_order] are
    satisfiable: instances *)
Example C05_ex_map_hyps :
  let o := [(SName 10, JInt 9)]%N in
  map_pairs u0 10 (EOption kA None None) o
    (map (fun combo => combine [kA] combo) (product [[VJ (JInt 1); VJ (JInt 2)]]))
    [VT T_TUPLE [row_dict [(kA, VJ (JInt 1))]; VJ (JInt 1)];
     VT T_TUPLE [row_dict [(kA, VJ (JInt 2))]; VJ (JInt 2)]].
Proof.
  cbn. eapply mp_cons; [vm_compute; reflexivity|vm_compute; reflexivity|reflexivity|].
  eapply mp_cons; [vm_compute; reflexivity|vm_compute; reflexivity|reflexivity|]. apply mp_nil.
Qed.
Print Assumptions C05_ex_map_hyps.

Example C05_ex_collections :
  sem u0 10 (elist [EOption kB None None; cst (JInt 0); EOption kA None None])
      [(SName 10, JInt 1); (SName 11, JInt 2)]%N
  = Ok (VT T_LIST [VJ (JInt 2); VJ (JInt 0); VJ (JInt 1)]).
Proof. vm_compute. reflexivity. Qed.
Print Assumptions C05_ex_collections.

(** the code-structured interpreter and the reference agree on a composite tree (an instance of
    the refinement theorem, by computation): a switch inside a Map inside a dataset default *)
Example C05_ex_composite :
  let ds := dataset_expr {| ds_dispatch := no_dispatch; ds_table := []; 
                            ds_default := Some (body 200 [EOption kA None None]);
                            ds_callback := empty_callback; ds_effects := []; ds_effects_disabled := false;
                            ds_cache := CMem 1; ds_options := []; ds_default_options := [] |} in
  let e := elist [EOption kB (Some (EApply (EMap (ESwitch (EOption kA None None) [(VJ (JInt 1), ds)] (Some (cst JNull)))
                                                [(kA, cst (JList [JInt 1; JInt 2]))])
                                          (EValue (VF B_LIST [] [])))) None] in
  fst (eval_nc u0 10 e []) = consumed (sem u0 10 e []) /\
  exists v, sem u0 10 e [] = Ok v.
Proof. vm_compute. split; [reflexivity|eexists; reflexivity]. Qed.
Print Assumptions C05_ex_composite.

(** the side conditions of the case-when and coalesce theorems are satisfiable, and the D23 shape
    is exactly what the boolean side condition excludes *)
Example C05_ex_side_conditions :
  passed_overb u0 10 [] (EOption kA None None) = true /\
  passed_overb u0 10 [] (body 200 [EOption kA None None]) = true /\
  passed_overb u0 10 [] (EBind (cst (JInt 2)) [] None) = false /\
  (exists p b, sem u0 10 (EValue (VF 101 [] [])) [] = Ok p /\ scall_value u0 p (VJ (JInt 5)) = Ok b /\ truthy b = false).
Proof. vm_compute. repeat split. eexists; eexists; repeat split. Qed.
Print Assumptions C05_ex_side_conditions.

(** bind, apply and a two-key Map assignment overriding a section the caller partly supplies *)
Example C05_ex_bind_apply_override :
  sem u0 10 (EBind (EOption kA None None) [(VJ (JInt 1), EOption kB None None)] (Some (cst JNull)))
      [(SName 10, JInt 1); (SName 11, JInt 7)]%N = Ok (VJ (JInt 7)) /\
  sem u0 10 (EApply (EOption kA None None) (EValue (VF 200 [] []))) [(SName 10, JInt 1)]%N = Ok (VT 200 [VJ (JInt 1)]) /\
  sem u0 10 (EApply (EMap (elist [EOption [SName 20; SName 21]%N None None; EOption [SName 20; SName 22]%N None None; EOption kA None None])
                          [([SName 20; SName 21]%N, cst (JList [JInt 1])); (kA, cst (JList [JInt 2]))])
                    (EValue (VF B_LIST [] [])))
      [(SName 20, JObj [(SName 21, JInt 8); (SName 22, JInt 9)]); (SName 10, JInt 0)]%N
  = Ok (VT T_LIST [VT T_TUPLE [VT T_DICT [VT T_PAIR [VJ (JStr [TRef [SName 20; SName 21]%N]); VJ (JInt 1)];
                                          VT T_PAIR [VJ (JStr [TRef kA]); VJ (JInt 2)]];
                               VT T_LIST [VJ (JInt 1); VJ (JInt 9); VJ (JInt 2)]]]).
Proof. vm_compute. repeat split. Qed.
Print Assumptions C05_ex_bind_apply_override.

(** ** Non-vacuity of the independent specification. *)

(** the comprehension, its order, and the mixed-radix reading of a position: 3 x 2 x 2 = 12
    combinations; the 7th (counting from 0) is digits (1, 1, 1) of 7 = 1*4 + 1*2 + 1 *)
Example C05_ex_cart :
  cart [[1; 2; 3]; [4; 5]; [6; 7]]%nat =
    [[1;4;6]; [1;4;7]; [1;5;6]; [1;5;7]; [2;4;6]; [2;4;7]; [2;5;6]; [2;5;7];
     [3;4;6]; [3;4;7]; [3;5;6]; [3;5;7]]%nat /\
  radix [[1; 2; 3]; [4; 5]; [6; 7]]%nat = 12%nat /\
  digits 0%nat [[1; 2; 3]; [4; 5]; [6; 7]]%nat 7 = [2; 5; 7]%nat /\
  nth 7 (cart [[1; 2; 3]; [4; 5]; [6; 7]]%nat) [] = [2; 5; 7]%nat.
Proof. vm_compute. repeat split. Qed.
Print Assumptions C05_ex_cart.

(** Map(f(Option('A'), Option('S.X'), Option('S.Y')), {'A': [1, 2], 'S.X': Option('L')}) on
    {'L': [3, 4], 'A': 9, 'S': {'X': 0, 'Y': 7}}: the hypotheses of [C05_map_spec_wellformed]
    hold, its right-hand side is the four pairs in product order, and the dictionary of the
    second assignment answers A and S.X with the assigned values and S.Y, L as the caller does *)
Definition kSX : key := [SName 20; SName 21]%N.
Definition kSY : key := [SName 20; SName 22]%N.
Definition ex_its : list (key * expr) :=
  [(kA, cst (JList [JInt 1; JInt 2])); (kSX, EOption [SName 30]%N None None)].
Definition ex_o : dict :=
  [(SName 30, JList [JInt 3; JInt 4]); (SName 10, JInt 9);
   (SName 20, JObj [(SName 21, JInt 0); (SName 22, JInt 7)])]%N.
Definition ex_body : expr := body 200 [EOption kA None None; EOption kSX None None; EOption kSY None None].
Definition ex_xss : list (list value) := [[VJ (JInt 1); VJ (JInt 2)]; [VJ (JInt 3); VJ (JInt 4)]].

Example C05_ex_map_spec_wellformed :
  let rows := assignments (map fst ex_its) ex_xss in
  let pair a b := VT T_TUPLE [VT T_DICT [VT T_PAIR [VJ (JStr [TRef kA]); VJ (JInt a)];
                                         VT T_PAIR [VJ (JStr [TRef kSX]); VJ (JInt b)]];
                              VT 200 [VJ (JInt a); VJ (JInt b); VJ (JInt 7)]] in
  Forall2 (iterates u0 10 ex_o) ex_its ex_xss /\
  forallb name_key (map fst ex_its) = true /\ pairwise_diverge (map fst ex_its) = true /\
  forallb (fun xs => forallb scalar_value xs) ex_xss = true /\
  forallb (fun row => modelled (sem u0 10 ex_body (assignment_dict ex_o row))) rows = true /\
  map map_elem (upto_first_bad outcome_ok
                  (map (fun row => (row, sem u0 10 ex_body (assignment_dict ex_o row))) rows))
    = [pair 1 3; pair 1 4; pair 2 3; pair 2 4]%Z /\
  sem u0 10 (EMap ex_body ex_its) ex_o = Ok (VT T_ITER [pair 1 3; pair 1 4; pair 2 3; pair 2 4]%Z) /\
  (let d := assignment_dict ex_o (nth 1 rows []) in
   lookup kA (JObj d) = Found (JInt 1) /\ lookup kSX (JObj d) = Found (JInt 4) /\
   lookup kSY (JObj d) = Found (JInt 7) /\ lookup [SName 30]%N (JObj d) = lookup [SName 30]%N (JObj ex_o)).
Proof.
  split.
  { constructor; [exists (VJ (JList [JInt 1; JInt 2])); split; vm_compute; reflexivity|].
    constructor; [exists (VJ (JList [JInt 3; JInt 4])); split; vm_compute; reflexivity|]. constructor. }
  vm_compute. repeat split.
Qed.
Print Assumptions C05_ex_map_spec_wellformed.

(** laziness: Map(switch(Option('A'), {1: 'x'}), {'A': [1, 2, 1]}) — the body fails at the second
    assignment (SwitchError): the Map evaluates to the first pair followed by the deferred
    failure, the third assignment is never evaluated, and consuming the result raises there *)
Example C05_ex_map_lazy_failure :
  let e := ESwitch (EOption kA None None) [(VJ (JInt 1), cst (jstr 120))] None in
  let its := [(kA, cst (JList [JInt 1; JInt 2; JInt 1]))] in
  let xss := [[VJ (JInt 1); VJ (JInt 2); VJ (JInt 1)]] in
  let rows := assignments (map fst its) xss in
  rows = [[(kA, VJ (JInt 1))]] ++ [(kA, VJ (JInt 2))] :: [[(kA, VJ (JInt 1))]] /\
  forallb (fun r => outcome_ok (r, sem u0 10 e (assignment_dict [] r))) [[(kA, VJ (JInt 1))]] = true /\
  sem u0 10 e (assignment_dict [] [(kA, VJ (JInt 2))]) = Err CSwitch true /\
  sem u0 10 (EMap e its) [] =
    Ok (VT T_ITER [VT T_TUPLE [VT T_DICT [VT T_PAIR [VJ (JStr [TRef kA]); VJ (JInt 1)]]; VJ (jstr 120)];
                   VErr CSwitch]) /\
  consumed (sem u0 10 (EMap e its) []) = Err CSwitch true.
Proof. vm_compute. repeat split. Qed.
Print Assumptions C05_ex_map_lazy_failure.

(** coalesce as a find over outcomes.  Coalesce(Option('A'), Option('B').bind(raising), 5) on
    {'B': 2}: the first member is passed over (EvaluationError: missing key), the second is NOT
    (its bind function raises: not an EvaluationError) and decides — the D23 shape; without it the
    constant is found; with only missing Options the last failure is returned *)
Example C05_ex_coalesce_find :
  let o := [(SName 11, JInt 2)]%N in
  let m1 := EOption kA None None in
  let m2 := EBind (EOption kB None None) [] None in
  let m3 := cst (JInt 5) in
  map (attempt u0 10 o) [m1; m2; m3] = [Err (CKey kA) true; Err (CUser 0) false; Ok (VJ (JInt 5))] /\
  map (fun r => negb (passed r)) (map (attempt u0 10 o) [m1; m2; m3]) = [false; true; true] /\
  sem u0 10 (ECoalesce [m1; m2; m3]) o = Err (CUser 0) true /\
  sem u0 10 (ECoalesce [m1; m3]) o = Ok (VJ (JInt 5)) /\
  sem u0 10 (ECoalesce [m1; EOption [SName 12]%N None None]) o = Err (CKey [SName 12]%N) true.
Proof. vm_compute. repeat split. Qed.
Print Assumptions C05_ex_coalesce_find.

(** case-when as a find: conditions (== 1), (truthy) on the dispatch value 5 — the first is
    plainly false, the second decides; a condition that is not callable decides by failing *)
Example C05_ex_case_find :
  let o := [(SName 10, JInt 5)]%N in
  let cases := [(EValue (VF 101 [] []), cst (jstr 102)); (EValue (VF 102 [] []), cst (jstr 115))] in
  map (case_decides u0 10 o (VJ (JInt 5))) cases = [false; true] /\
  sem u0 10 (ECase (EOption kA None None) cases None) o = Ok (VJ (jstr 115)) /\
  case_test u0 10 o (VJ (JInt 5)) (cst (JInt 3), cst JNull) = Err CType false /\
  sem u0 10 (ECase (EOption kA None None) ((cst (JInt 3), cst JNull) :: cases) None) o = Err CType true.
Proof. vm_compute. repeat split. Qed.
Print Assumptions C05_ex_case_find.

(** an iterable that cannot be evaluated (Option('L') missing) or is not a collection (L = 5):
    the Map fails at once with that failure, whatever the earlier iterables and the body *)
Example C05_ex_map_iterable_fails :
  let its := [(kA, cst (JList [JInt 1])); (kB, EOption [SName 30]%N None None)] in
  Forall2 (iterates u0 10 []) [(kA, cst (JList [JInt 1]))] [[VJ (JInt 1)]] /\
  sem u0 10 (EOption [SName 30]%N None None) [] = Err (CKey [SName 30]%N) true /\
  sem u0 10 (EMap (cst JNull) its) [] = Err (CKey [SName 30]%N) true /\
  sforce (VJ (JInt 5)) = Err CType false /\
  sem u0 10 (EMap (cst JNull) its) [(SName 30, JInt 5)]%N = Err CType true.
Proof.
  split; [constructor; [exists (VJ (JList [JInt 1])); split; vm_compute; reflexivity|constructor]|].
  vm_compute. repeat split.
Qed.
Print Assumptions C05_ex_map_iterable_fails.
