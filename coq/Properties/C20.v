(** C20 — datasets survive a pickle round trip with identical behaviour (level: PARTIAL).

    Proved here, about Model/Pickle.v: what [Overloaded.__getstate__/__setstate__] and default
    instance pickling do to the *structural state* of a graph, and that the model's
    evaluate/keys/validate read nothing else.  NOT a theorem (CPython, checked at run time by
    harness/props/c20.py): that [pickle.dumps/loads] reconstructs exactly that attribute state
    (all protocols, same or fresh interpreter); that functions are importable by name; sharing
    of one object by several parents (pickle's memo).  MemoryCache contents ARE part of the
    pickled state: cached values travel with the dataset ([C20_dataset_fields_preserved]).
    Only statements closed by [exact], each followed by [Print Assumptions]. *)
From Coq Require Import List NArith ZArith Bool String.
Import ListNotations.
From LV Require Import Model.Base Model.Pickle Model.PickleRun Proofs.PickleProofs.
Local Open Scope N_scope.

(** evaluate / keys / validate of two graphs whose states are equal except for lock slots are
    equal — for all user functions, every options dictionary, every amount of fuel.  (No
    evaluation clause consults the lock.) *)
Theorem C20_behaviour_is_structural :
  forall body cbf eff t u, erase t = erase u ->
  forall fuel o,
    eval body cbf eff fuel t o = eval body cbf eff fuel u o /\
    keys body cbf eff fuel t o = keys body cbf eff fuel u o /\
    valid body cbf eff fuel t o = valid body cbf eff fuel u o.
Proof. exact behaviour_is_structural. Qed.
Print Assumptions C20_behaviour_is_structural.

(** [setstate (getstate t)] equals [t] on every field but the lock, for every graph (nested
    overload tables included) and every unpickling process: fresh table, the pickling process'
    own table, or a table where the old id is taken by an unrelated object. *)
Theorem C20_getstate_setstate_id : forall P t, erase (roundtrip P t) = erase t.
Proof. exact getstate_setstate_id. Qed.
Print Assumptions C20_getstate_setstate_id.

(** in particular every alias registered before pickling is still there, in table order … *)
Theorem C20_overload_tables_preserved : forall P t, aliases (roundtrip P t) = aliases t.
Proof. exact aliases_roundtrip. Qed.
Print Assumptions C20_overload_tables_preserved.

(** … and the cache (its entries included), pre-set and default options, callback, effects,
    effects switch and function metadata of the dataset are literally the same. *)
Theorem C20_dataset_fields_preserved : forall P ov effs c po dpo cb dis m,
  exists ov', roundtrip P (NDataset ov effs c po dpo cb dis m) = NDataset ov' effs c po dpo cb dis m
              /\ erase ov' = erase ov.
Proof. exact dataset_fields_roundtrip. Qed.
Print Assumptions C20_dataset_fields_preserved.

(** Corollary: same values, same failures, same keys, same validation after the round trip. *)
Theorem C20_roundtrip_behaves_identically :
  forall body cbf eff P t fuel o,
    eval body cbf eff fuel (roundtrip P t) o = eval body cbf eff fuel t o /\
    keys body cbf eff fuel (roundtrip P t) o = keys body cbf eff fuel t o /\
    valid body cbf eff fuel (roundtrip P t) o = valid body cbf eff fuel t o.
Proof. exact roundtrip_behaves_identically. Qed.
Print Assumptions C20_roundtrip_behaves_identically.

(** The property says "both the decorator form and the explicit dataset(f) form".  For the
    decorator form the full statement is FALSE of the faithful model (and of the code): the
    function is not importable under its own name, [pickle.dumps] raises (finding D18). *)
Theorem C20_decorator_form_refuted :
  exists imp t, decorator_form imp t = true /\ pickle imp t = None.
Proof.
  exists [], (NDataset (NOverloaded NMissingV [] (Some (NApply 10 [(20, NOption [SName 30] None)])) (Live 1 1))
                [] (CMemory []) [] [] [] false (Meta (Some 10) (Some 10))).
  vm_compute. split; reflexivity.
Qed.
Print Assumptions C20_decorator_form_refuted.

Theorem C20_decorator_form_never_picklable :
  forall imp t, decorator_form imp t = true -> pickle imp t = None.
Proof. exact decorator_form_unpicklable. Qed.
Print Assumptions C20_decorator_form_never_picklable.

(** What holds: under the explicit boolean side condition [picklable imp t] (every function
    of the graph resolves to itself), whatever [pickle] produced behaves like the original
    once unpickled, in any process. *)
Theorem C20_roundtrip_partial :
  forall body cbf eff imp t s, pickle imp t = Some s ->
  forall P fuel o,
    eval body cbf eff fuel (fst (setstate P s)) o = eval body cbf eff fuel t o /\
    keys body cbf eff fuel (fst (setstate P s)) o = keys body cbf eff fuel t o /\
    valid body cbf eff fuel (fst (setstate P s)) o = valid body cbf eff fuel t o.
Proof. exact pickle_roundtrip_partial. Qed.
Print Assumptions C20_roundtrip_partial.

(** Every lock slot is a lock object again after the round trip ([register] can enter
    [with self._lock:]) … *)
Theorem C20_locks_restored : forall P t, all_live (roundtrip P t) = true.
Proof. exact locks_restored. Qed.
Print Assumptions C20_locks_restored.

(** … namely the one [_LOCKS] holds under the OLD id afterwards: *)
Theorem C20_lock_keyed_by_old_id : forall P d lk df oid l,
  exists d' lk' df' nid l' P',
    setstate P (getstate (NOverloaded d lk df (Live oid l))) = (NOverloaded d' lk' df' (Live nid l'), P')
    /\ assoc oid P'.(locks) = Some l'.
Proof. exact top_lock_after_roundtrip. Qed.
Print Assumptions C20_lock_keyed_by_old_id.

(** in the pickling process (or wherever the old id is a key already) the copy SHARES that
    lock; in a process that does not know the id it gets a new one. *)
Theorem C20_same_process_shares_lock : forall P j lk0 oid l,
  assoc oid P.(locks) = Some lk0 ->
  fst (setstate P (getstate (NOverloaded (NValue j) [] None (Live oid l))))
  = NOverloaded (NValue j) [] None (Live P.(next_id) lk0).
Proof. exact leaf_lock_same_process. Qed.
Print Assumptions C20_same_process_shares_lock.

Theorem C20_fresh_process_new_lock : forall P j oid l,
  assoc oid P.(locks) = None ->
  fst (setstate P (getstate (NOverloaded (NValue j) [] None (Live oid l))))
  = NOverloaded (NValue j) [] None (Live P.(next_id) P.(next_lock)).
Proof. exact leaf_lock_fresh_process. Qed.
Print Assumptions C20_fresh_process_new_lock.

(** A shared or reused lock only over-synchronises: for any two assignments of locks to
    tables (injective or not) and any sequence of registrations started while none of those
    locks is held, every registration completes and the resulting tables are the same. *)
Theorem C20_lock_key_reuse_is_harmless : forall la la' held ops,
  (forall i, memN (la i) held = false) -> (forall i, memN (la' i) held = false) ->
  forall tbls,
    run_registers la held tbls ops = run_registers la' held tbls ops
    /\ exists r, run_registers la held tbls ops = Some r.
Proof. exact lock_key_reuse_is_harmless. Qed.
Print Assumptions C20_lock_key_reuse_is_harmless.

(** [register k v]: the new alias dispatches to [v]; every other dispatch value and a failing
    dispatch behave as before. *)
Theorem C20_registered_alias_dispatches : forall body cbf eff f d lk df oid l k v o,
  let ov := NOverloaded d lk df (Live oid l) in
  exists ov', register_ov k v ov = Some ov' /\
    (forall dv, eval body cbf eff f d o = Ok dv -> to_hkey dv = Some k ->
                eval body cbf eff (S f) ov' o = eval body cbf eff f v o) /\
    (forall dv, eval body cbf eff f d o = Ok dv -> to_hkey dv <> Some k ->
                eval body cbf eff (S f) ov' o = eval body cbf eff (S f) ov o) /\
    (forall e, eval body cbf eff f d o = Fail e ->
               eval body cbf eff (S f) ov' o = eval body cbf eff (S f) ov o).
Proof. exact register_dispatch. Qed.
Print Assumptions C20_registered_alias_dispatches.

(** The unpickled dataset accepts a further registration — whatever the lock slot of the
    original was — and then behaves exactly as the original does after the same registration. *)
Theorem C20_unpickled_accepts_registration : forall body cbf eff P t k v,
  dataset_with_table t = true ->
  exists t', register k v (roundtrip P t) = Some t' /\
    forall t0, register k v t = Some t0 ->
      forall fuel o,
        eval body cbf eff fuel t' o = eval body cbf eff fuel t0 o /\
        keys body cbf eff fuel t' o = keys body cbf eff fuel t0 o /\
        valid body cbf eff fuel t' o = valid body cbf eff fuel t0 o.
Proof. exact unpickled_accepts_registration. Qed.
Print Assumptions C20_unpickled_accepts_registration.

(** The theorems above hold for every amount of fuel; with [fuel_for t] (what the correspondence
    runs use) no run ends for lack of fuel, so they speak about actual values and failures. *)
Theorem C20_model_runs_never_out_of_fuel : forall body cbf eff t o,
  eval body cbf eff (fuel_for t) t o <> Fail FFuel /\
  keys body cbf eff (fuel_for t) t o <> Fail FFuel /\
  valid body cbf eff (fuel_for t) t o <> Fail FFuel.
Proof. exact fuel_for_is_enough. Qed.
Print Assumptions C20_model_runs_never_out_of_fuel.

(** ** Non-vacuity: a concrete graph (explicit form) with a nested overload table, pre-set and
    default options, a callback, an effect and a warm cache; a process whose [_LOCKS] already
    holds the outer id (same process) but not the inner one. *)
Definition ex_inner : node :=
  NDataset (NOverloaded (NOption [SName 40] None)
                        [(HInt 1, NValue (JInt 11))] (Some (NApply 12 [(21, NOption [SName 31] None)]))
                        (Live 8 80))
           [] CNoCache [] [] [] false (Meta (Some 12) (Some 12)).
Definition ex_graph : node :=
  NDataset (NOverloaded (NOption [SName 41] (Some (NValue (JInt 0))))
                        [(HInt 7, ex_inner)]
                        (Some (NApply 10 [(20, NOption [SName 30] None); (22, NOption [SName 32; SName 33] (Some (NValue (JInt 5))))]))
                        (Live 9 90))
           [15] (CMemory [([([SName 30], JInt 99); ([SName 32; SName 33], JInt 6)], VJ (JInt 1234))])
           [(SName 32, JObj [(SName 33, JInt 6)])] [(SName 30, JInt 3)] [14] false
           (Meta (Some 10) (Some 10)).
Definition ex_proc : proc := {| locks := [(9, 90)]%N; next_lock := 500; next_id := 700 |}.
Definition ex_tb : ftable := [].

Example C20_nonvacuous :
  (* picklable when the functions resolve to themselves, not otherwise *)
  pickle [10; 12; 14; 15]%N ex_graph = Some (getstate ex_graph) /\
  pickle [12; 14; 15]%N ex_graph = None /\
  (* the round trip changes the object (new addresses; the inner table gets a NEW lock, the
     outer one shares the original's) … *)
  roundtrip ex_proc ex_graph <> ex_graph /\
  show_locks ex_proc ex_graph = "[o90,new]"%string /\
  (* … evaluation is non-trivial: default implementation with pre-set and default options and
     the callback; the nested overload under alias 7; a cached value served from the pickled
     cache; a missing option … *)
  observe ex_tb ex_graph [] = "ok:t14(t10(i3,i6))|ok:[]|ok:"%string /\
  observe ex_tb ex_graph [(SName 41, JInt 7); (SName 40, JInt 1)] = "ok:t14(i11)|ok:[n40,n41]|ok:"%string /\
  observe ex_tb ex_graph [(SName 30, JInt 99)] = "ok:i1234|ok:[n30]|ok:"%string /\
  observe ex_tb ex_graph [(SName 41, JInt 7)] = "fail:missing|fail:missing|fail:missing"%string /\
  (* … and identical on the unpickled copy, which then accepts a registration *)
  observe ex_tb (roundtrip ex_proc ex_graph) [(SName 41, JInt 7); (SName 40, JInt 1)] = "ok:t14(i11)|ok:[n40,n41]|ok:"%string /\
  observe_registered ex_tb ex_proc ex_graph (HInt 8) (NValue (JInt 88)) [(SName 41, JInt 8)] = "ok:t14(i88)|ok:[n41]|ok:"%string /\
  observe_registered ex_tb ex_proc ex_graph (HInt 8) (NValue (JInt 88)) [(SName 41, JInt 7); (SName 40, JInt 1)] = "ok:t14(i11)|ok:[n40,n41]|ok:"%string.
Proof. vm_compute. repeat split; try reflexivity. discriminate. Qed.

(** the state handed to pickle has integers in the lock slots; registering on it without
    [__setstate__] having run is impossible (what mutation "setstate forgets the lock" does) *)
Example C20_state_without_setstate_rejects_register :
  register (HInt 8) (NValue (JInt 88)) (getstate ex_graph) = None /\
  all_live (getstate ex_graph) = false.
Proof. vm_compute. split; reflexivity. Qed.
