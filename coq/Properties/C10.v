(** C10 — validate, keys and evaluate agree about whether options suffice.
    Statements about the cache-free reference instance of the interpreters transcribed from the
    labrea classes ([validate_nc], [keys_nc], [explain_nc], [eval_nc] of Model/EvalRun.v: what the
    methods compute under [labrea.cache.disabled()], the evaluation result with every lazily
    evaluated iterable consumed), for ALL expressions of stated boolean fragments, ALL
    dictionaries (under stated side conditions), ALL user code.  Only [exact]-closed statements +
    [Print Assumptions]; proofs in Proofs/AgreeProofs.v and Proofs/C11Proofs.v (Part G).

    Fragments ([fragP p], Proofs/AgreeProofs.v; never in: Map):
      [pA]  function positions hold callables by syntax; an Option's domain is a constant and only
            on Options without default (finding D4); no effects (D9), no Template (D13), no
            pre-set dictionaries, no bare lazy Iter (list()/tuple() of an Iter is in);
      [pG]  everything except Coalesce (D20), Template (D13) and an Option with both a default
            and a domain (D4).
    Warm caches: [C10_warm_agreement] composes C01's history theorem with the agreement on [pA]
    (inside C01's coverage [hist_ok]); outside it the harness covers cold/warm caches (PARTIAL). *)
From Coq Require Import List NArith ZArith Bool.
Import ListNotations.
From LV Require Import Model.Base Model.Template Model.Eval Model.Derived Model.EvalRun
  Proofs.TemplateFrame Proofs.CleanProofs Proofs.AgreeProofs Proofs.C11Proofs Proofs.CacheSim Proofs.C10C01.

(** ** "For any expression whose dataset bodies are total and whose option values lie in their
    declared domains, validate(o), keys(o) and evaluate(o) succeed or fail together."
    Bodies total: [total_u] (user code never raises) and [clean_u] (it fabricates no deferred
    failure).  Values in their domains: evaluate does not fail with a domain error.  Dictionary:
    unique keys, every value resolves (templated values included), no option name of the range the
    model reserves for Template parameters ([no_par]: names >= 10^6, never generated). *)
Theorem C10_agree_total : forall u fuel e o,
  total_u u -> clean_u u -> fragP pA e = true -> wf_dict o = true -> resolves fuel o -> no_par o = true ->
  (forall ee, fst (eval_nc u fuel e o) <> Err CDomain ee) ->
  okb (fst (validate_nc u fuel e o)) = okb (fst (eval_nc u fuel e o)) /\
  okb (fst (keys_nc u fuel e o)) = okb (fst (eval_nc u fuel e o)).
Proof. exact agree_total_nc. Qed.
Print Assumptions C10_agree_total.

(** the same without the premise on domains: validate and evaluate always agree; keys fails only
    if evaluate does; evaluate failing for any reason but a domain error makes keys fail *)
Theorem C10_agree : forall u fuel e o,
  total_u u -> clean_u u -> fragP pA e = true -> wf_dict o = true -> resolves fuel o -> no_par o = true ->
  okb (fst (validate_nc u fuel e o)) = okb (fst (eval_nc u fuel e o)) /\
  (okb (fst (keys_nc u fuel e o)) = false -> okb (fst (eval_nc u fuel e o)) = false) /\
  (forall c ee, fst (eval_nc u fuel e o) = Err c ee -> c <> CDomain -> okb (fst (keys_nc u fuel e o)) = false).
Proof. exact agree_nc. Qed.
Print Assumptions C10_agree.

(** The same at the level of CAUSES: validate fails with the cause evaluate fails with; keys fails
    with the cause (and EvaluationError-ness) evaluate and validate fail with — unless evaluate
    fails on a value outside its declared domain (keys does not look at domains). *)
Theorem C10_same_cause : forall u fuel e o,
  total_u u -> clean_u u -> fragP pA e = true -> wf_dict o = true -> resolves fuel o -> no_par o = true ->
  (forall c ee, rs (validate unit nc_find nc_store cfg_nc u fuel (fun _ _ => true) e o) = Err c ee ->
     rs (eval unit nc_find nc_store cfg_nc u fuel (fun _ _ => true) e o) = Err c true) /\
  (forall c ee, rs (keys unit nc_find nc_store cfg_nc u fuel (fun _ _ => true) e o) = Err c ee ->
     (rs (eval unit nc_find nc_store cfg_nc u fuel (fun _ _ => true) e o) = Err c true /\
      rs (validate unit nc_find nc_store cfg_nc u fuel (fun _ _ => true) e o) = Err c ee) \/
     exists ee', rs (eval unit nc_find nc_store cfg_nc u fuel (fun _ _ => true) e o) = Err CDomain ee').
Proof. exact cause_agreement. Qed.
Print Assumptions C10_same_cause.

(** the premise on domains is needed for the causes: f(Option('A', domain=[1,2]), Option('B')) on
    {'A': 5} — keys fails for the missing B, evaluate fails earlier on A's value *)
Theorem C10_same_cause_refuted_domains :
  fragP pA dom_expr = true /\
  rs (keys unit nc_find nc_store cfg_nc u_total 40 (fun _ _ => true) dom_expr o_A5) = Err (CKey kB) true /\
  rs (eval unit nc_find nc_store cfg_nc u_total 40 (fun _ _ => true) dom_expr o_A5) = Err CDomain true.
Proof. exact same_cause_needs_domains. Qed.
Print Assumptions C10_same_cause_refuted_domains.

(** ** Warm caches.  C01's history theorem (Proofs/CacheSim.v) ASSUMES, per cache site and
    dictionary, the agreement Cached relies on ([agree_at]).  On C10's fragment it is a theorem: *)
Theorem C10_discharges_C01_agreement : forall u fuel b o,
  total_u u -> clean_u u -> fragP pA b = true -> wf_dict o = true -> resolves fuel o -> no_par o = true ->
  (forall ee, rs (eval unit nc_find nc_store cfg_nc u fuel (fun _ _ => true) b o) <> Err CDomain ee) ->
  agree_at u fuel b o.
Proof. exact agree_at_of_C10. Qed.
Print Assumptions C10_discharges_C01_agreement.

(** … so the history theorem holds with [okd10] in place of [okd] at the cache sites: the cached
    expressions are in [pA], every value resolves, no cached expression fails on a value outside
    its domain, and what [okd] asks besides the agreement ([clean_at], no stored generator, stable
    effects switch).  [scohP P] is [scoh] with [P] for [okd]. *)
Theorem C10_history_transparent_without_agreement : forall u fuel sites esw,
  total_u u -> clean_u u -> forall cfg site_ok h,
  hist_ok10 u fuel sites esw h -> run_hist u fuel cfg site_ok h [] = map (ref_op u fuel) h.
Proof. exact history_transparent_C10. Qed.
Print Assumptions C10_history_transparent_without_agreement.

(** … and C10's agreement holds on the long-lived cached graph: after ANY covered history (any
    sound store), validate, keys and evaluate asked of a [pA] expression ON THE CACHED GRAPH answer
    what the cache-free graph answers, hence agree *)
Theorem C10_warm_agreement : forall u fuel sites esw,
  total_u u -> clean_u u -> forall cfg site_ok h s e o,
  Sound u fuel sites esw s ->
  hist_ok u fuel sites esw (h ++ [HValidate e o; HKeys e o; HEval e o]) ->
  fragP pA e = true -> wf_dict o = true -> resolves fuel o -> no_par o = true ->
  exists rv rk re,
    run_hist u fuel cfg site_ok (h ++ [HValidate e o; HKeys e o; HEval e o]) s =
      map (ref_op u fuel) h ++ [OValidate rv; OKeys rk; OEval re] /\
    okb rv = okb re /\ (okb rk = false -> okb re = false) /\
    (forall c ee, re = Err c ee -> c <> CDomain -> okb rk = false) /\
    ((forall ee, re <> Err CDomain ee) -> okb rk = okb re).
Proof. exact warm_agreement. Qed.
Print Assumptions C10_warm_agreement.

(** non-vacuity: a cached switch asked along a history (validate, evaluate, keys, validate,
    evaluate on one long-lived graph) satisfies [hist_ok10]; the cached run answers: *)
Example C10_ex_history_covered :
  okd10 u_total 40 site50 false o_Q1 /\ hist_ok10 u_total 40 site50 false hist_demo /\
  run_hist u_total 40 cfg0 (fun _ _ => true) hist_demo [] =
    [OValidate (Ok tt); OEval (Ok (VJ JNull)); OKeys (Ok [kQ]); OValidate (Ok tt); OEval (Ok (VJ JNull))].
Proof. exact (conj okd10_demo (conj hist_demo_ok hist_demo_runs)). Qed.
Print Assumptions C10_ex_history_covered.

(** ** "when bodies may raise, a passing validate(o) still guarantees that evaluate(o) cannot
    fail because of a missing option" — user code arbitrary (it may raise anywhere); it only must
    not fabricate deferred missing-option failures. *)
Theorem C10_validate_guards_missing : forall u fuel e o,
  no_fabricated_missing u -> fragP pG e = true ->
  fst (validate_nc u fuel e o) = Ok tt ->
  forall c ee, fst (eval_nc u fuel e o) = Err c ee -> is_key c = false.
Proof. exact validate_guards_missing_nc. Qed.
Print Assumptions C10_validate_guards_missing.

(** ** "Validation and key inspection do not run dataset bodies other than those whose value is
    needed to choose a branch" — for EVERY expression (no fragment), dictionary and user code:
    every user-code call logged by validate, keys (and explain) of [e] under [o] happens inside
    the EVALUATION of a sub-expression in chooser position (bind source, switch/overload dispatch,
    case dispatch or condition, map iterable, an Option that declares a domain) UNDER THE
    DICTIONARY THAT REACHES IT ([reaches]: [o] itself, overlaid by the pre-set dictionaries of the
    WithOptions nodes above it, and by the option combination of the current row below a Map), or
    is the application of a case condition (evaluated under that dictionary) to the dispatch value
    (evaluated under that dictionary) ([allowed e o evt], Proofs/AgreeProofs.v Part 9). *)
Theorem C10_validate_keys_run_only_choosers : forall u fuel e o evt,
  is_call evt = true ->
  In evt (snd (validate_nc u fuel e o)) \/ In evt (snd (keys_nc u fuel e o)) \/ In evt (snd (explain_nc u fuel e o)) ->
  allowed u fuel e o evt.
Proof. exact runs_only_choosers_nc. Qed.
Print Assumptions C10_validate_keys_run_only_choosers.

(** … in particular an expression none of whose sub-expressions has a chooser runs no user code *)
Theorem C10_chooser_free_runs_nothing : forall u fuel e o evt,
  (forall e', reach e e' -> choosers e' = []) ->
  In evt (snd (validate_nc u fuel e o)) \/ In evt (snd (keys_nc u fuel e o)) \/ In evt (snd (explain_nc u fuel e o)) ->
  is_call evt = false.
Proof. exact chooser_free_runs_nothing_nc. Qed.
Print Assumptions C10_chooser_free_runs_nothing.

(** ** where the code violates the sentences (recorded findings; closed witnesses) *)
(** D20: a coalesce member validates, raises at evaluation, the NEXT member's missing-option
    failure surfaces *)
Theorem C10_validate_guards_missing_refuted_D20 :
  no_fabricated_missing u_partial /\
  fst (validate_nc u_partial 40 d20_expr d20_opts) = Ok tt /\
  fst (eval_nc u_partial 40 d20_expr d20_opts) = Err (CKey kQ) true.
Proof. exact (conj u_partial_no_fabrication (conj eq_refl eq_refl)). Qed.
Print Assumptions C10_validate_guards_missing_refuted_D20.

(** D4: a domain expression reads an option validate never looks at (key absent, default) *)
Theorem C10_validate_guards_missing_refuted_D4 :
  no_fabricated_missing u_total /\
  fst (validate_nc u_total 40 d4_expr []) = Ok tt /\
  fst (eval_nc u_total 40 d4_expr []) = Err (CKey kP) true.
Proof. exact (conj u_total_no_fabrication (conj eq_refl eq_refl)). Qed.
Print Assumptions C10_validate_guards_missing_refuted_D4.

(** D9: an effect's callback reads an option: total bodies, no domains, keys succeeds while
    validate and evaluate fail *)
Theorem C10_agree_total_refuted_D9 :
  total_u u_total /\ wf_dict o_A1 = true /\ resolves 40 o_A1 /\ no_par o_A1 = true /\
  fst (keys_nc u_total 40 d9_expr o_A1) = Ok [kA] /\
  fst (validate_nc u_total 40 d9_expr o_A1) = Err (CKey kP) true /\
  fst (eval_nc u_total 40 d9_expr o_A1) = Err (CKey kP) true.
Proof.
  exact (conj u_total_total (conj eq_refl (conj resolves_o_A1 (conj eq_refl (conj eq_refl (conj eq_refl eq_refl)))))).
Qed.
Print Assumptions C10_agree_total_refuted_D9.

(** D1: a templated string inside a container value: keys succeeds, evaluate fails *)
Theorem C10_agree_total_refuted_D1 :
  total_u u_total /\ fst (keys_nc u_total 40 (EOption kA None None) d1_opts) = Ok [kA] /\
  fst (eval_nc u_total 40 (EOption kA None None) d1_opts) = Err (CKey kB) true.
Proof. exact (conj u_total_total (conj eq_refl eq_refl)). Qed.
Print Assumptions C10_agree_total_refuted_D1.

(** the side condition [no_par] is needed (a model artefact: the reserved parameter names) *)
Theorem C10_agree_refuted_without_no_par :
  no_par o_par = false /\
  fst (keys_nc u_total 40 (EOption kA None None) o_par) = Err CUnmodelled false /\
  fst (eval_nc u_total 40 (EOption kA None None) o_par) = Ok (VJ (JInt 5)).
Proof. exact no_par_needed. Qed.
Print Assumptions C10_agree_refuted_without_no_par.

(** ** non-vacuity *)
Example C10_ex_fragments : fragP pA sw_expr = true /\ fragP pG sw_expr = true /\ fragP pA disp_expr = true.
Proof. repeat split; reflexivity. Qed.
Print Assumptions C10_ex_fragments.
Example C10_ex_side_conditions :
  total_u u_total /\ clean_u u_total /\ wf_dict o_Q1 = true /\ resolves 40 o_Q1 /\ no_par o_Q1 = true /\ no_par [] = true.
Proof.
  exact (conj u_total_total (conj u_total_clean (conj eq_refl (conj resolves_o_Q1 (conj eq_refl eq_refl))))).
Qed.
Print Assumptions C10_ex_side_conditions.
Example C10_ex_all_succeed :
  fst (validate_nc u_total 40 sw_expr o_Q1) = Ok tt /\ fst (keys_nc u_total 40 sw_expr o_Q1) = Ok [kQ] /\
  fst (eval_nc u_total 40 sw_expr o_Q1) = Ok (VJ JNull).
Proof. repeat split; reflexivity. Qed.
Print Assumptions C10_ex_all_succeed.
(** … also on a dictionary with a templated value: {'A': '{B}', 'B': 1} takes branch 1 (Option('B')) *)
Example C10_ex_templated_dictionary :
  wf_dict o_T = true /\ resolves 40 o_T /\ no_par o_T = true /\
  fst (validate_nc u_total 40 sw_expr o_T) = Ok tt /\ fst (keys_nc u_total 40 sw_expr o_T) = Ok [kB; kA; kB] /\
  fst (eval_nc u_total 40 sw_expr o_T) = Ok (VJ (JInt 1)).
Proof. exact (conj eq_refl (conj resolves_o_T (conj eq_refl (conj eq_refl (conj eq_refl eq_refl))))). Qed.
Print Assumptions C10_ex_templated_dictionary.
Example C10_ex_all_fail :
  fst (validate_nc u_total 40 sw_expr o_A1) = Err (CKey kB) true /\ fst (keys_nc u_total 40 sw_expr o_A1) = Err (CKey kB) true /\
  fst (eval_nc u_total 40 sw_expr o_A1) = Err (CKey kB) true.
Proof. repeat split; reflexivity. Qed.
Print Assumptions C10_ex_all_fail.
(** validate runs the dispatch body (101) and not the chosen implementation's body (102);
    evaluate runs both *)
(** below a WithOptions the dispatch body sees the OVERLAID dictionary: the pre-set A = 7 wins
    over the caller's A = 1 *)
Example C10_ex_dispatch_under_overlaid_dictionary :
  snd (validate_nc u_total 40 (EWith true [(SName 10, JInt 7)] (ESwitch (body 101 [EOption kA None None]) [] (Some (EValue (VJ JNull))))) o_A1)
    = [EvRead kA true; EvCall 101 [VJ (JInt 7)]].
Proof. reflexivity. Qed.
Print Assumptions C10_ex_dispatch_under_overlaid_dictionary.
Example C10_ex_dispatch_body_runs :
  snd (validate_nc u_total 40 disp_expr o_A1) = [EvCall 101 []; EvRead kA true; EvRead kA true] /\
  snd (eval_nc u_total 40 disp_expr o_A1) = [EvCall 101 []; EvRead kA true; EvCall 102 [VJ (JInt 1)]].
Proof. split; reflexivity. Qed.
Print Assumptions C10_ex_dispatch_body_runs.
