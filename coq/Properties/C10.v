(** C10 — validate, keys and evaluate agree about whether options suffice.
    Statements about the cache-free reference instance of the interpreters transcribed from the
    labrea classes ([validate_nc], [keys_nc], [explain_nc], [eval_nc] of Model/EvalRun.v: what the
    methods compute under [labrea.cache.disabled()], the evaluation result with every lazily
    evaluated iterable consumed), for ALL expressions of stated boolean fragments, ALL
    dictionaries (under stated side conditions), ALL user code.  Only [exact]-closed statements +
    [Print Assumptions]; proofs in Proofs/AgreeProofs.v and Proofs/C11Proofs.v (Part G).

    Fragments ([fragP p], Proofs/AgreeProofs.v; never in: Map):
      [pA]  function positions hold callables by syntax; an Option's domain is a constant and only
            on Options without default (finding D4); no effects (D9), no Template (D13), no
            pre-set dictionaries, no bare lazy Iter (list()/tuple() of an Iter is in);
      [pG]  everything except Coalesce (D20), Template (D13) and an Option with both a default
            and a domain (D4).
    Cold/warm caches are NOT covered by these theorems (reference instance = caching disabled);
    the harness covers them (PARTIAL). *)
From Coq Require Import List NArith ZArith Bool.
Import ListNotations.
From LV Require Import Model.Base Model.Template Model.Eval Model.Derived Model.EvalRun
  Proofs.AgreeProofs Proofs.C11Proofs.

(** ** "For any expression whose dataset bodies are total and whose option values lie in their
    declared domains, validate(o), keys(o) and evaluate(o) succeed or fail together."
    Bodies total: [total_u] (user code never raises) and [clean_u] (it fabricates no deferred
    failure).  Values in their domains: evaluate does not fail with a domain error.  Dictionary:
    unique keys, every value resolves, no templated string values. *)
Theorem C10_agree_total : forall u fuel e o,
  total_u u -> clean_u u -> fragP pA e = true -> wf_dict o = true -> resolves fuel o -> untemplated o ->
  (forall ee, fst (eval_nc u fuel e o) <> Err CDomain ee) ->
  okb (fst (validate_nc u fuel e o)) = okb (fst (eval_nc u fuel e o)) /\
  okb (fst (keys_nc u fuel e o)) = okb (fst (eval_nc u fuel e o)).
Proof. exact agree_total_nc. Qed.
Print Assumptions C10_agree_total.

(** the same without the premise on domains: validate and evaluate always agree; keys fails only
    if evaluate does; evaluate failing for any reason but a domain error makes keys fail *)
Theorem C10_agree : forall u fuel e o,
  total_u u -> clean_u u -> fragP pA e = true -> wf_dict o = true -> resolves fuel o -> untemplated o ->
  okb (fst (validate_nc u fuel e o)) = okb (fst (eval_nc u fuel e o)) /\
  (okb (fst (keys_nc u fuel e o)) = false -> okb (fst (eval_nc u fuel e o)) = false) /\
  (forall c ee, fst (eval_nc u fuel e o) = Err c ee -> c <> CDomain -> okb (fst (keys_nc u fuel e o)) = false).
Proof. exact agree_nc. Qed.
Print Assumptions C10_agree.

(** ** "when bodies may raise, a passing validate(o) still guarantees that evaluate(o) cannot
    fail because of a missing option" — user code arbitrary (it may raise anywhere); it only must
    not fabricate deferred missing-option failures. *)
Theorem C10_validate_guards_missing : forall u fuel e o,
  no_fabricated_missing u -> fragP pG e = true ->
  fst (validate_nc u fuel e o) = Ok tt ->
  forall c ee, fst (eval_nc u fuel e o) = Err c ee -> is_key c = false.
Proof. exact validate_guards_missing_nc. Qed.
Print Assumptions C10_validate_guards_missing.

(** ** "Validation and key inspection do not run dataset bodies other than those whose value is
    needed to choose a branch" — for EVERY expression (no fragment), dictionary and user code:
    every user-code call logged by validate, keys (and explain) of [e] under [o] happens inside
    the EVALUATION of a sub-expression in chooser position (bind source, switch/overload dispatch,
    case dispatch or condition, map iterable, an Option that declares a domain) UNDER THE
    DICTIONARY THAT REACHES IT ([reaches]: [o] itself, overlaid by the pre-set dictionaries of the
    WithOptions nodes above it, and by the option combination of the current row below a Map), or
    is the application of a case condition (evaluated under that dictionary) to the dispatch value
    (evaluated under that dictionary) ([allowed e o evt], Proofs/AgreeProofs.v Part 9). *)
Theorem C10_validate_keys_run_only_choosers : forall u fuel e o evt,
  is_call evt = true ->
  In evt (snd (validate_nc u fuel e o)) \/ In evt (snd (keys_nc u fuel e o)) \/ In evt (snd (explain_nc u fuel e o)) ->
  allowed u fuel e o evt.
Proof. exact runs_only_choosers_nc. Qed.
Print Assumptions C10_validate_keys_run_only_choosers.

(** … in particular an expression none of whose sub-expressions has a chooser runs no user code *)
Theorem C10_chooser_free_runs_nothing : forall u fuel e o evt,
  (forall e', reach e e' -> choosers e' = []) ->
  In evt (snd (validate_nc u fuel e o)) \/ In evt (snd (keys_nc u fuel e o)) \/ In evt (snd (explain_nc u fuel e o)) ->
  is_call evt = false.
Proof. exact chooser_free_runs_nothing_nc. Qed.
Print Assumptions C10_chooser_free_runs_nothing.

(** ** where the code violates the sentences (recorded findings; closed witnesses) *)
(** D20: a coalesce member validates, raises at evaluation, the NEXT member's missing-option
    failure surfaces *)
Theorem C10_validate_guards_missing_refuted_D20 :
  no_fabricated_missing u_partial /\
  fst (validate_nc u_partial 40 d20_expr d20_opts) = Ok tt /\
  fst (eval_nc u_partial 40 d20_expr d20_opts) = Err (CKey kQ) true.
Proof. exact (conj u_partial_no_fabrication (conj eq_refl eq_refl)). Qed.
Print Assumptions C10_validate_guards_missing_refuted_D20.

(** D4: a domain expression reads an option validate never looks at (key absent, default) *)
Theorem C10_validate_guards_missing_refuted_D4 :
  no_fabricated_missing u_total /\
  fst (validate_nc u_total 40 d4_expr []) = Ok tt /\
  fst (eval_nc u_total 40 d4_expr []) = Err (CKey kP) true.
Proof. exact (conj u_total_no_fabrication (conj eq_refl eq_refl)). Qed.
Print Assumptions C10_validate_guards_missing_refuted_D4.

(** D9: an effect's callback reads an option: total bodies, no domains, keys succeeds while
    validate and evaluate fail *)
Theorem C10_agree_total_refuted_D9 :
  total_u u_total /\ wf_dict o_A1 = true /\ resolves 40 o_A1 /\ untemplated o_A1 /\
  fst (keys_nc u_total 40 d9_expr o_A1) = Ok [kA] /\
  fst (validate_nc u_total 40 d9_expr o_A1) = Err (CKey kP) true /\
  fst (eval_nc u_total 40 d9_expr o_A1) = Err (CKey kP) true.
Proof.
  exact (conj u_total_total (conj eq_refl (conj resolves_o_A1 (conj (untemplated_single 10 1) (conj eq_refl (conj eq_refl eq_refl)))))).
Qed.
Print Assumptions C10_agree_total_refuted_D9.

(** D1: a templated string inside a container value: keys succeeds, evaluate fails *)
Theorem C10_agree_total_refuted_D1 :
  total_u u_total /\ fst (keys_nc u_total 40 (EOption kA None None) d1_opts) = Ok [kA] /\
  fst (eval_nc u_total 40 (EOption kA None None) d1_opts) = Err (CKey kB) true.
Proof. exact (conj u_total_total (conj eq_refl eq_refl)). Qed.
Print Assumptions C10_agree_total_refuted_D1.

(** ** non-vacuity *)
Example C10_ex_fragments : fragP pA sw_expr = true /\ fragP pG sw_expr = true /\ fragP pA disp_expr = true.
Proof. repeat split; reflexivity. Qed.
Print Assumptions C10_ex_fragments.
Example C10_ex_side_conditions :
  total_u u_total /\ clean_u u_total /\ wf_dict o_Q1 = true /\ resolves 40 o_Q1 /\ untemplated o_Q1 /\ untemplated [].
Proof.
  exact (conj u_total_total (conj u_total_clean (conj eq_refl (conj resolves_o_Q1 (conj (untemplated_single 14 1) untemplated_nil))))).
Qed.
Print Assumptions C10_ex_side_conditions.
Example C10_ex_all_succeed :
  fst (validate_nc u_total 40 sw_expr o_Q1) = Ok tt /\ fst (keys_nc u_total 40 sw_expr o_Q1) = Ok [kQ] /\
  fst (eval_nc u_total 40 sw_expr o_Q1) = Ok (VJ JNull).
Proof. repeat split; reflexivity. Qed.
Print Assumptions C10_ex_all_succeed.
Example C10_ex_all_fail :
  fst (validate_nc u_total 40 sw_expr o_A1) = Err (CKey kB) true /\ fst (keys_nc u_total 40 sw_expr o_A1) = Err (CKey kB) true /\
  fst (eval_nc u_total 40 sw_expr o_A1) = Err (CKey kB) true.
Proof. repeat split; reflexivity. Qed.
Print Assumptions C10_ex_all_fail.
(** validate runs the dispatch body (101) and not the chosen implementation's body (102);
    evaluate runs both *)
(** below a WithOptions the dispatch body sees the OVERLAID dictionary: the pre-set A = 7 wins
    over the caller's A = 1 *)
Example C10_ex_dispatch_under_overlaid_dictionary :
  snd (validate_nc u_total 40 (EWith true [(SName 10, JInt 7)] (ESwitch (body 101 [EOption kA None None]) [] (Some (EValue (VJ JNull))))) o_A1)
    = [EvRead kA true; EvCall 101 [VJ (JInt 7)]].
Proof. reflexivity. Qed.
Print Assumptions C10_ex_dispatch_under_overlaid_dictionary.
Example C10_ex_dispatch_body_runs :
  snd (validate_nc u_total 40 disp_expr o_A1) = [EvCall 101 []; EvRead kA true; EvRead kA true] /\
  snd (eval_nc u_total 40 disp_expr o_A1) = [EvCall 101 []; EvRead kA true; EvCall 102 [VJ (JInt 1)]].
Proof. split; reflexivity. Qed.
Print Assumptions C10_ex_dispatch_body_runs.
