(** C15 — threads: handler contexts are thread-local; inherit(); concurrent register and
    concurrent cached evaluation are safe.
    Statements about Model/Threads.v for ALL schedules, ALL programs, ANY number of threads
    (thread ids are arbitrary N), closed by [exact]; each followed by [Print Assumptions].
    The atomicity facts of the source are boolean hypotheses ([… fl = true]); the check scans
    /repo on every run and discharges them in a generated Obligations_C15.v. *)
From Coq Require Import List NArith Bool String.
Import ListNotations.
From LV Require Import Model.Threads Model.ThreadsRun Proofs.ThreadsProofs.

(** The invariant behind isolation: an action of thread u writes neither the local state of
    another thread t, nor slot t of _RUNTIMES, nor stack t of _PREVIOUS — whatever the flags. *)
Theorem C15_slots_written_by_owner_only : forall fpf valf fl u t s, u <> t ->
  tl (step fpf valf fl u s) t = tl s t /\
  runtimes (step fpf valf fl u s) t = runtimes s t /\
  previous (step fpf valf fl u s) t = previous s t.
Proof. exact step_other. Qed.
Print Assumptions C15_slots_written_by_owner_only.

(** Runtime handler tables and the defaults are never written by any action. *)
Theorem C15_handler_tables_immutable : forall fpf valf fl sched s,
  heap (run fpf valf fl sched s) = heap s /\ defaults (run fpf valf fl sched s) = defaults s.
Proof. exact run_const. Qed.
Print Assumptions C15_handler_tables_immutable.

(** Thread isolation.  For every schedule, every set of other threads and programs, every
    value of the atomicity flags: the handler tags thread t has observed (and its remaining
    program, its current runtime, its saved stack) are exactly those it has after running ALONE
    for the same number of its own actions.  (Programs of t without Inherit, which by design
    reads another thread's slot: see C15_inherit_snapshot.) *)
Theorem C15_thread_isolation : forall fpf valf fl t sched s0,
  no_inherit (prog (tl s0 t)) = true ->
  let s := run fpf valf fl sched s0 in
  let s' := solo fpf valf fl t (count_thread t sched) s0 in
  tags (tl s t) = tags (tl s' t) /\ prog (tl s t) = prog (tl s' t) /\
  runtimes s t = runtimes s' t /\ previous s t = previous s' t.
Proof. exact thread_isolation. Qed.
Print Assumptions C15_thread_isolation.

(** inherit(): after [Inherit p] thread t holds the runtime p had current at that action (a fresh
    default runtime if p had none) and is served by it whatever the other threads — p included —
    do afterwards (any schedule of the other threads). *)
Theorem C15_inherit_snapshot : forall fpf valf fl,
  inherit_atomic fl = true ->
  forall s t p rest, prog (tl s t) = Inherit p :: rest ->
  forall sched, ~ In t sched ->
  let r := slot_or_fresh (runtimes s p) in
  let s' := run fpf valf fl sched (step fpf valf fl t s) in
  runtimes s' t = Some r /\ prog (tl s' t) = rest /\
  forall q, serving s' t q = serve (heap s) (defaults s) r q.
Proof. exact inherit_snapshot. Qed.
Print Assumptions C15_inherit_snapshot.

(** A request of thread t is answered by the handler of t's current runtime. *)
Theorem C15_request_served_by_own_runtime : forall fpf valf fl,
  current_atomic fl = true ->
  forall s t q rest, prog (tl s t) = Run q :: rest ->
  tags (tl (step fpf valf fl t s) t) = tags (tl s t) ++ [serving s t q] /\
  prog (tl (step fpf valf fl t s) t) = rest.
Proof. exact run_observes. Qed.
Print Assumptions C15_request_served_by_own_runtime.

(** with r: …  — entering installs r for this thread only and leaving restores exactly the runtime
    the thread had before, whatever the other threads did in between (same runtime object
    included). *)
Theorem C15_enter_exit_restores : forall fpf valf fl,
  enter_atomic fl = true -> exit_atomic fl = true ->
  forall s t r rest, prog (tl s t) = Enter r :: Exit :: rest ->
  forall sched, ~ In t sched ->
  let s1 := run fpf valf fl sched (step fpf valf fl t s) in
  runtimes s1 t = Some r /\
  runtimes (step fpf valf fl t s1) t = runtimes s t /\
  previous (step fpf valf fl t s1) t = previous s t.
Proof. exact enter_exit_restores. Qed.
Print Assumptions C15_enter_exit_restores.

(** Concurrent register: if the read-modify-write of the table is atomic then, once all programs
    have finished, every alias any thread registered is present, and the table is the replay of
    the register writes in the order they took effect: each alias maps to its LAST writer. *)
Theorem C15_register_all_present : forall fpf valf fl,
  register_rmw_atomic fl = true ->
  forall sched s0, reglog s0 = [] ->
  let sf := run fpf valf fl sched s0 in
  (forall t, prog (tl sf t) = []) ->
  (forall t a i, In (Register a i) (prog (tl s0 t)) -> exists j, assoc a (table sf) = Some j) /\
  table sf = replay (reglog sf) (table s0) /\
  (forall a, assoc a (table sf) =
     match assoc a (rev (reglog sf)) with Some i => Some i | None => assoc a (table s0) end).
Proof. exact register_all_present. Qed.
Print Assumptions C15_register_all_present.

(** The converse: without that atomicity there are programs and a schedule that lose an alias.
    The witness ([ThreadsRun.lost_progs], [lost_sched]) is what the check replays on labrea. *)
Theorem C15_register_lost_update : forall fpf valf fl,
  register_rmw_atomic fl = false ->
  exists progs sched,
    let sf := run fpf valf fl sched (init_state [] [] progs) in
    (forall t, prog (tl sf t) = []) /\
    exists t a i, In (Register a i) (match assoc t progs with Some p => p | None => [] end) /\
                  assoc a (table sf) = None.
Proof. exact register_lost_update. Qed.
Print Assumptions C15_register_lost_update.

(** Concurrent cached evaluation: every [EvalCached o] returns the value of ITS OWN options under
    every interleaving and all flags, provided equal fingerprints imply equal values (which is
    what keying by the options the dataset reads gives); every cache entry keeps that meaning. *)
Theorem C15_concurrent_eval_own_value : forall fpf valf fl,
  (forall o o', fpf o = fpf o' -> valf o = valf o') ->
  forall sched s0, cache_inv fpf valf (cache s0) ->
  (forall t, vreg (tl s0 t) = None /\ evals (tl s0 t) = []) ->
  forall t o v, In (o, v) (evals (tl (run fpf valf fl sched s0) t)) -> v = valf o.
Proof. exact concurrent_eval_own_value. Qed.
Print Assumptions C15_concurrent_eval_own_value.

Theorem C15_cache_entries_own_value : forall fpf valf fl,
  (forall o o', fpf o = fpf o' -> valf o = valf o') ->
  forall sched s0, cache_inv fpf valf (cache s0) ->
  (forall t, vreg (tl s0 t) = None /\ evals (tl s0 t) = []) ->
  cache_inv fpf valf (cache (run fpf valf fl sched s0)).
Proof. exact cache_entries_own_value. Qed.
Print Assumptions C15_cache_entries_own_value.

(** ------------------------------------------------------------------ non-vacuity *)
Open Scope N_scope.
Definition ex_heap : list (rt * htable) := [(1, [(1, 11)]); (2, [(1, 12); (2, 22)])].
Definition ex_dflt : htable := [(1, 1); (2, 2)].
Definition ex_progs : list (thread * list op) :=
  [(1, [Enter 1; Run 1; Run 2; Exit; Run 1]);
   (2, [Enter 2; Run 1; Enter 1; Run 2; Exit; Run 2; Exit; Run 1])].
Definition ex_s0 := init_state ex_heap ex_dflt ex_progs.
Definition ex_sched : list thread := [2; 1; 2; 2; 1; 1; 2; 1; 2; 2; 1; 2; 2].

(** isolation: hypothesis satisfied; both threads inside the SAME runtime object 1 at once;
    the observations are non-trivial and equal to the solo ones. *)
Example C15_isolation_nonvacuous :
  no_inherit (prog (tl ex_s0 2)) = true /\
  tags (tl (run c_fp c_val all_atomic ex_sched ex_s0) 2) =
    [Some 12; Some 2; Some 22; Some 1] /\
  tags (tl (run c_fp c_val all_atomic ex_sched ex_s0) 1) = [Some 11; Some 2; Some 1] /\
  tags (tl (solo c_fp c_val all_atomic 2 (count_thread 2 ex_sched) ex_s0) 2) =
    [Some 12; Some 2; Some 22; Some 1].
Proof. vm_compute. repeat split. Qed.
Print Assumptions C15_isolation_nonvacuous.

(** inherit: the parent (thread 1) is inside runtime 1 when thread 2 inherits, then leaves it and
    enters runtime 2; thread 2 is still served by runtime 1's handler. *)
Definition ex_inh_progs : list (thread * list op) :=
  [(1, [Enter 1; Exit; Enter 2; Run 1]); (2, [Inherit 1; Run 1])].
Example C15_inherit_nonvacuous :
  let s := step c_fp c_val all_atomic 1 (init_state ex_heap ex_dflt ex_inh_progs) in
  prog (tl s 2) = [Inherit 1; Run 1] /\ runtimes s 1 = Some 1 /\
  let s' := run c_fp c_val all_atomic [1; 1; 1] (step c_fp c_val all_atomic 2 s) in
  runtimes s' 1 = Some 2 /\ runtimes s' 2 = Some 1 /\
  tags (tl (step c_fp c_val all_atomic 2 s') 2) = [Some 11] /\
  tags (tl (step c_fp c_val all_atomic 1 s') 1) = [Some 12].
Proof. vm_compute. repeat split. Qed.
Print Assumptions C15_inherit_nonvacuous.

(** register: three threads, one alias written twice; everything finished, all aliases present,
    alias 1 holds its last writer. *)
Definition ex_reg_progs : list (thread * list op) :=
  [(1, [Register 1 10; Register 2 20]); (2, [Register 3 30; Register 1 11]); (3, [Register 4 40])].
Example C15_register_nonvacuous :
  let sf := run c_fp c_val all_atomic [1; 2; 3; 2; 1] (init_state [] [] ex_reg_progs) in
  all_done [1; 2; 3] sf = true /\
  sort_kv (table sf) = [(1, 11); (2, 20); (3, 30); (4, 40)].
Proof. vm_compute. repeat split. Qed.
Print Assumptions C15_register_nonvacuous.

(** the lost update, computed: flag off, schedule read-read-write-write. *)
Theorem C15_register_all_present_without_atomicity_refuted :
  let nf := {| enter_atomic := true; exit_atomic := true; current_atomic := true;
               inherit_atomic := true; register_default_atomic := true;
               register_rmw_atomic := false |} in
  let sf := run c_fp c_val nf lost_sched (init_state [] [] lost_progs) in
  all_done [1; 2] sf = true /\ table sf = [(2, 20)] /\
  table (run c_fp c_val all_atomic lost_sched (init_state [] [] lost_progs)) = [(1, 10); (2, 20)].
Proof. vm_compute. repeat split. Qed.
Print Assumptions C15_register_all_present_without_atomicity_refuted.

(** cached evaluation: the concrete fingerprint/value functions of the correspondence runs meet
    the hypothesis (trivially: there the value IS the fingerprint, see the non-degenerate instance
    below); threads 1
    and 2 (same fingerprint, options differing in an unread key) BOTH compute and BOTH store;
    thread 3 has another fingerprint; each gets the value of its own options. *)
Example C15_eval_hypothesis_holds : forall o o', c_fp o = c_fp o' -> c_val o = c_val o'.
Proof. intros o o' H. exact H. Qed.
Print Assumptions C15_eval_hypothesis_holds.

Definition ex_ev_progs : list (thread * list op) :=
  [(1, [EvalCached 31; EvalCached 41]); (2, [EvalCached 32]); (3, [EvalCached 41])].
Example C15_eval_nonvacuous :
  let sf := run c_fp c_val all_atomic
              [1; 2; 1; 2; 1; 2; 3; 3; 1; 2; 3; 3; 1; 1; 1; 1] (init_state [] [] ex_ev_progs) in
  all_done [1; 2; 3] sf = true /\
  evals (tl sf 1) = [(31, 3); (41, 4)] /\ evals (tl sf 2) = [(32, 3)] /\
  evals (tl sf 3) = [(41, 4)] /\ cache sf = [(3, 3); (4, 4)].
Proof. vm_compute. repeat split. Qed.
Print Assumptions C15_eval_nonvacuous.

(** A NON-DEGENERATE instance of the soundness hypothesis [fpf o = fpf o' -> valf o = valf o']:
    the value function is not the fingerprint function but a non-injective function of it
    (parity of the tens digit): different fingerprints may carry equal values, and the value of
    an option set is in general not its fingerprint.  Threads 1 and 2 have the same fingerprint
    (options differing in an unread digit), thread 3 another fingerprint WITH THE SAME value,
    thread 1's second evaluation a third fingerprint with another value; under an interleaving
    where 1 and 2 both compute and both store, each evaluation gets the value of its own options
    and the cache ends with one entry per fingerprint. *)
Definition c_val2 (o : opts) : value := N.modulo (N.div o 10) 2.

Example C15_eval_hypothesis_holds_nondegenerate :
  (forall o o', c_fp o = c_fp o' -> c_val2 o = c_val2 o') /\
  (exists o o', c_fp o <> c_fp o' /\ c_val2 o = c_val2 o') /\
  (exists o, c_val2 o <> c_fp o).
Proof.
  split; [|split].
  - intros o o' H. unfold c_val2. unfold c_fp in H. now rewrite H.
  - exists 31, 51. split; [vm_compute; discriminate|vm_compute; reflexivity].
  - exists 31. vm_compute. discriminate.
Qed.
Print Assumptions C15_eval_hypothesis_holds_nondegenerate.

Definition ex_ev_progs2 : list (thread * list op) :=
  [(1, [EvalCached 31; EvalCached 41]); (2, [EvalCached 32]); (3, [EvalCached 51])].
Example C15_eval_nonvacuous_nondegenerate :
  let sf := run c_fp c_val2 all_atomic
              [1; 2; 1; 2; 1; 2; 3; 3; 1; 2; 3; 3; 1; 1; 1; 1] (init_state [] [] ex_ev_progs2) in
  all_done [1; 2; 3] sf = true /\
  evals (tl sf 1) = [(31, 1); (41, 0)] /\ evals (tl sf 2) = [(32, 1)] /\
  evals (tl sf 3) = [(51, 1)] /\ sort_kv (cache sf) = [(3, 1); (4, 0); (5, 1)].
Proof. vm_compute. repeat split. Qed.
Print Assumptions C15_eval_nonvacuous_nondegenerate.
