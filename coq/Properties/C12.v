(** C12 — failures surface as EvaluationError with source and cause; a failed evaluation stores
    nothing.  Only statements closed by [exact], each followed by [Print Assumptions], and
    non-vacuity [Example]s closed by computation.

    What the model carries (Model/Eval.v): an error is [Err c ee] — the CAUSE [c] (which
    primitive raise it was: [CKey k] a missing option with its key, [CSwitch], [CCase],
    [CUser n] the n-th exception class of user code, …) and [ee] (is it an EvaluationError:
    that alone decides which handlers catch it).  The chain of EvaluationError OBJECTS that
    Python builds with `raise … from e` (one per nested node, each with its own [.source]) is
    not represented; identity of [.source] and of the exception object at the end of
    [__cause__] is decided on the implementation by harness/props/c12.py.

    Everything below is for ALL expressions, option dictionaries, user code ([ucall]), memo
    stores ([S], [mem_find], [mem_store]), context switches, resolution budgets. *)
From Coq Require Import List NArith ZArith Bool String.
Import ListNotations.
From LV Require Import Model.Base Model.Template Model.Eval Model.Derived Model.EvalRun
  Proofs.BaseProofs Proofs.EvalProofs Proofs.TraceProofs Proofs.C12Proofs.
Open Scope list_scope.

Section C12.
  Variable S : Type.
  Variable mem_find : N -> fp -> S -> option value.
  Variable mem_store : N -> fp -> value -> S -> S.
  Variable cfg : config.
  Variable ucall : N -> list value -> cres.
  Variable rfuel : nat.
  Variable site_ok : expr -> dict -> bool.
  Notation eval := (eval S mem_find mem_store cfg ucall rfuel site_ok).
  Notation validate := (validate S mem_find mem_store cfg ucall rfuel site_ok).
  Notation keys := (keys S mem_find mem_store cfg ucall rfuel site_ok).
  Notation fingerprint := (fingerprint S mem_find mem_store cfg ucall rfuel site_ok).
  Notation strict_pos := (strict_pos S mem_find mem_store cfg ucall rfuel site_ok).
  Notation strict_path := (strict_path S mem_find mem_store cfg ucall rfuel site_ok).
  Notation skipped := (skipped S mem_find mem_store cfg ucall rfuel site_ok).
  Notation conds_false := (conds_false S mem_find mem_store cfg ucall rfuel site_ok).
  Notation elems_ok := (elems_ok S mem_find mem_store cfg ucall rfuel site_ok).
  Notation attempt := (attempt S mem_find mem_store cfg ucall rfuel site_ok).
  Notation stored_successes := (stored_successes S mem_find mem_store cfg ucall rfuel site_ok).
  Notation produced := (produced S mem_find mem_store cfg ucall rfuel site_ok).

  (** ** 1. Every failure surfaces as an EvaluationError, with the original cause *)

  (** whatever goes wrong inside, the error leaving [evaluate] is an EvaluationError *)
  Theorem C12_error_is_evaluation_error : forall e o s c ee s' l,
    eval e o s = (Err c ee, s', l) -> ee = true.
  Proof. exact (eval_error_is_evaluation_error S mem_find mem_store cfg ucall rfuel site_ok). Qed.

  (** ONE LEVEL: a failure of a sub-evaluation in strict position (every sub-evaluation that
      [evaluate] performs except the handler positions: the dispatch of a switch with a default,
      coalesce members other than the last, elements of Iter / the body of Map) reaches the
      node's caller with the same cause, the same store, the events in order *)
  Theorem C12_failure_propagates : forall e o s x o' s' lpre c ee s'' l,
    strict_pos e o s x o' s' lpre -> eval x o' s' = (Err c ee, s'', l) ->
    eval e o s = (Err c true, s'', lpre ++ l).
  Proof. exact (strict_pos_propagates S mem_find mem_store cfg ucall rfuel site_ok). Qed.

  (** ANY DEPTH: the cause reported at the top is the cause raised at the failing node *)
  Theorem C12_cause_is_original : forall e o s x ox sx lpre c ee s'' l,
    strict_path e o s x ox sx lpre -> eval x ox sx = (Err c ee, s'', l) ->
    eval e o s = (Err c true, s'', lpre ++ l).
  Proof. exact (cause_is_original S mem_find mem_store cfg ucall rfuel site_ok). Qed.

  (** a missing option is reported with ITS key … *)
  Theorem C12_missing_option_reports_its_key : forall e o s k dom ox sx lpre,
    strict_path e o s (EOption k None dom) ox sx lpre -> lookup k (JObj ox) = Absent ->
    eval e o s = (Err (CKey k) true, sx, lpre ++ [EvRead k false]).
  Proof. exact (missing_option_reports_its_key S mem_find mem_store cfg ucall rfuel site_ok). Qed.

  (** … and a present option whose templated value references an absent key, with THAT key
      (the repaired defect D5) *)
  Theorem C12_missing_reference_reports_its_key : forall e o s k dflt dom raw k' ox sx lpre,
    strict_path e o s (EOption k dflt dom) ox sx lpre ->
    lookup k (JObj ox) = Found raw -> resolve rfuel ox raw = RMissing k' ->
    exists l, eval e o s = (Err (CKey k') true, sx, lpre ++ l).
  Proof. exact (missing_reference_reports_its_key S mem_find mem_store cfg ucall rfuel site_ok). Qed.

  (** an exception raised by user code in a body: the body ran (last event), its exception is
      the cause the top reports *)
  Theorem C12_user_exception_reaches_the_top :
    forall e o s fe args kwargs ox sx lpre fid pre post s1 l1 av s2 l2 kv s3 l3 n,
    strict_path e o s (ECall false fe args kwargs) ox sx lpre ->
    eval fe ox sx = (Ok (VF fid pre post), s1, l1) ->
    mapM S (fun y => eval y ox) args s1 = (Ok av, s2, l2) ->
    mapM S (fun y => eval y ox) kwargs s2 = (Ok kv, s3, l3) ->
    N.eqb fid B_COMPOSE = false -> user_fun fid = true ->
    deep_err_list (pre ++ (av ++ kv) ++ post) = None ->
    ucall fid (map listify (pre ++ (av ++ kv) ++ post)) = CRaise n ->
    eval e o s = (Err (CUser n) true, s3,
                  lpre ++ l1 ++ l2 ++ l3 ++ [EvCall fid (map listify (pre ++ (av ++ kv) ++ post))]).
  Proof. exact (user_exception_reaches_the_top S mem_find mem_store cfg ucall rfuel site_ok). Qed.

  (** an unmatched switch / case-when *)
  Theorem C12_unmatched_switch_reaches_the_top : forall e o s disp tbl ox sx lpre k s1 l1,
    strict_path e o s (ESwitch disp tbl None) ox sx lpre ->
    eval disp ox sx = (Ok k, s1, l1) -> hashable k = true -> assoc_v k tbl = None ->
    eval e o s = (Err CSwitch true, s1, lpre ++ l1).
  Proof. exact (unmatched_switch_reaches_the_top S mem_find mem_store cfg ucall rfuel site_ok). Qed.

  Theorem C12_unmatched_case_reaches_the_top : forall e o s disp cases ox sx lpre x s1 l1 s2 l2,
    strict_path e o s (ECase disp cases None) ox sx lpre ->
    eval disp ox sx = (Ok x, s1, l1) -> conds_false ox x cases s1 s2 l2 ->
    eval e o s = (Err CCase true, s2, lpre ++ l1 ++ l2).
  Proof. exact (unmatched_case_reaches_the_top S mem_find mem_store cfg ucall rfuel site_ok). Qed.

  (** ** 2. What the handlers do with failures *)

  (** Switch uses the default when — and only when — the DISPATCH raises an EvaluationError … *)
  Theorem C12_switch_falls_back_on_dispatch_failure : forall disp tbl d o s c s1 l1,
    eval disp o s = (Err c true, s1, l1) -> c <> CUnmodelled ->
    eval (ESwitch disp tbl (Some d)) o s = after S l1 (eval d o s1).
  Proof. exact (switch_falls_back_on_dispatch_failure S mem_find mem_store cfg ucall rfuel site_ok). Qed.

  (** … its try/except lets every other exception through, default or not … *)
  Theorem C12_switch_handler_lets_raw_errors_through : forall (m : M S value) b s c s1 l1,
    m s = (Err c false, s1, l1) -> dispatch_value S m b s = (Err c false, s1, l1).
  Proof. exact (dispatch_handler_lets_raw_errors_through S). Qed.

  (** … a dispatch value that cannot be looked up fails the switch (TypeError, wrapped) … *)
  Theorem C12_switch_unhashable_dispatch_fails : forall disp tbl dflt o s k s1 l1,
    eval disp o s = (Ok k, s1, l1) -> hashable k = false ->
    eval (ESwitch disp tbl dflt) o s = (Err CType true, s1, l1).
  Proof. exact (switch_unhashable_dispatch_fails S mem_find mem_store cfg ucall rfuel site_ok). Qed.

  (** … and so does the failure of the chosen BRANCH: the default is not a handler for it *)
  Theorem C12_switch_branch_failure_is_not_caught : forall disp tbl dflt o s k s1 l1 b c ee s2 l2,
    eval disp o s = (Ok k, s1, l1) -> hashable k = true -> assoc_v k tbl = Some b ->
    eval b o s1 = (Err c ee, s2, l2) ->
    eval (ESwitch disp tbl dflt) o s = (Err c true, s2, l1 ++ l2).
  Proof. exact (switch_branch_failure_is_not_caught S mem_find mem_store cfg ucall rfuel site_ok). Qed.

  (** Coalesce: the first member whose attempt (validate, then evaluate) succeeds gives the
      value; the members before it were passed over because their attempts raised
      EvaluationErrors ([skipped] requires [ee = true] of each) *)
  Theorem C12_coalesce_first_success : forall o pre m post s s1 l1 v s2 l2,
    skipped o pre s s1 l1 -> attempt o m s1 = (Ok v, s2, l2) ->
    eval (ECoalesce (pre ++ m :: post)) o s = (Ok v, s2, l1 ++ l2).
  Proof. exact (coalesce_first_success S mem_find mem_store cfg ucall rfuel site_ok). Qed.

  (** an exception that is not an EvaluationError (validate() re-raises whatever it meets)
      ends the coalesce with that cause: the members after it are not tried *)
  Theorem C12_coalesce_raw_error_propagates : forall o pre m post s s1 l1 c s2 l2,
    skipped o pre s s1 l1 -> attempt o m s1 = (Err c false, s2, l2) ->
    eval (ECoalesce (pre ++ m :: post)) o s = (Err c true, s2, l1 ++ l2).
  Proof. exact (coalesce_raw_error_propagates S mem_find mem_store cfg ucall rfuel site_ok). Qed.

  (** when every member fails, the failure of the LAST member is the one that surfaces
      (the partial statement that holds of coalesce; see the refuted one below) *)
  Theorem C12_coalesce_cause_partial : forall o pre m s s1 l1 c ee s2 l2,
    skipped o pre s s1 l1 -> attempt o m s1 = (Err c ee, s2, l2) ->
    eval (ECoalesce (pre ++ [m])) o s = (Err c true, s2, l1 ++ l2).
  Proof. exact (coalesce_reports_last_member S mem_find mem_store cfg ucall rfuel site_ok). Qed.

  (** Iter (and Map) are lazy: the failure of an element does not fail the evaluation of the
      iterable — it is kept in it, the elements after it are never evaluated … *)
  Theorem C12_iter_element_failure_is_deferred : forall o pre x post s vs s1 l1 c ee s2 l2,
    elems_ok o pre s vs s1 l1 -> eval x o s1 = (Err c ee, s2, l2) -> c <> CUnmodelled ->
    eval (EIter (pre ++ x :: post)) o s = (Ok (VT T_ITER (vs ++ [VErr c])), s2, l1 ++ l2).
  Proof. exact (iter_element_failure_is_deferred S mem_find mem_store cfg ucall rfuel site_ok). Qed.

  (** … and surfaces at whoever consumes the iterable, as an EvaluationError with the
      element's cause (here the consumer is [list(...)], i.e. labrea's evaluatable_list) *)
  Theorem C12_consumer_gets_the_element_failure : forall o pre x post s vs s1 l1 c ee s2 l2,
    elems_ok o pre s vs s1 l1 -> eval x o s1 = (Err c ee, s2, l2) -> c <> CUnmodelled ->
    eval (elist (pre ++ x :: post)) o s = (Err c true, s2, l1 ++ l2).
  Proof. exact (consumer_gets_the_element_failure S mem_find mem_store cfg ucall rfuel site_ok). Qed.

  (** ** 3. A failed evaluation stores nothing *)

  (** the ONLY stores any run performs — of evaluate, validate or keys, failing or not — are of
      the value that the evaluation of a cached expression just RETURNED, at that expression's
      fingerprint.  [R] is any reflexive-transitive relation between stores that such stores
      respect (into the caches [allowed]); then every run of an expression mentioning only those
      caches relates its initial to its final store. *)
  Theorem C12_only_successes_are_stored :
    forall (R : S -> S -> Prop),
    (forall s, R s s) -> (forall a b c, R a b -> R b c -> R a c) ->
    forall allowed : N -> bool,
    (forall cid e o s1 v s2 l1 f s3 lf,
       allowed cid = true ->
       eval e o s1 = (Ok v, s2, l1) -> fingerprint e o s2 = (Ok f, s3, lf) ->
       R s3 (mem_store cid f (exhaust v) s3)) ->
    forall e, caches_allowed allowed e = true ->
    forall o,
      (forall s r s' l, eval e o s = (r, s', l) -> R s s') /\
      (forall s r s' l, validate e o s = (r, s', l) -> R s s') /\
      (forall s r s' l, keys e o s = (r, s', l) -> R s s').
  Proof. exact (only_successes_are_stored S mem_find mem_store cfg ucall rfuel site_ok). Qed.

  (** in particular with the smallest such relation, for every expression *)
  Theorem C12_every_store_is_of_a_success : forall e o,
    (forall s r s' l, eval e o s = (r, s', l) -> stored_successes s s') /\
    (forall s r s' l, validate e o s = (r, s', l) -> stored_successes s s') /\
    (forall s r s' l, keys e o s = (r, s', l) -> stored_successes s s').
  Proof. exact (every_store_is_of_a_success S mem_find mem_store cfg ucall rfuel site_ok). Qed.

  (** A FAILED EVALUATION IS FORGOTTEN: after it, every entry of every cache was there before
      or is a value that a successful evaluation of a cached expression returned during the run
      (for every store in which a lookup after a store finds the stored value or what was there) *)
  Theorem C12_failure_is_forgotten :
    (forall c f v s c' f' w,
       mem_find c' f' (mem_store c f v s) = Some w -> w = v \/ mem_find c' f' s = Some w) ->
    forall e o s c ee s' l,
    eval e o s = (Err c ee, s', l) ->
    forall cid f w, mem_find cid f s' = Some w -> mem_find cid f s = Some w \/ produced w.
  Proof. exact (failure_is_forgotten S mem_find mem_store cfg ucall rfuel site_ok). Qed.

  (** the failing node itself: a Cached node (cache on, miss) whose expression fails to
      evaluate fails with THAT cause and its run performs no store into its own cache: [R] need
      only be respected by stores into the other caches *)
  Theorem C12_failing_body_is_not_stored :
    forall (R : S -> S -> Prop) (allowed : N -> bool) cid e o s f s1 l1 c ee s2 l2,
    (forall s, R s s) -> (forall a b c, R a b -> R b c -> R a c) ->
    (forall c f v s, allowed c = true -> R s (mem_store c f v s)) ->
    caches_allowed allowed e = true ->
    cache_off cfg o = false -> fingerprint e o s = (Ok f, s1, l1) -> mem_find cid f s1 = None ->
    eval e o s1 = (Err c ee, s2, l2) ->
    eval (ECached (CMem cid) e) o s =
      (Err c true, s2, (dirty_evs site_ok cid e o ++ l1 ++ [EvCacheExists cid false]) ++ l2) /\ R s s2.
  Proof. exact (failing_body_is_not_stored S mem_find mem_store cfg ucall rfuel site_ok). Qed.
End C12.
Print Assumptions C12_error_is_evaluation_error.
Print Assumptions C12_failure_propagates.
Print Assumptions C12_cause_is_original.
Print Assumptions C12_missing_option_reports_its_key.
Print Assumptions C12_missing_reference_reports_its_key.
Print Assumptions C12_user_exception_reaches_the_top.
Print Assumptions C12_unmatched_switch_reaches_the_top.
Print Assumptions C12_unmatched_case_reaches_the_top.
Print Assumptions C12_switch_falls_back_on_dispatch_failure.
Print Assumptions C12_switch_handler_lets_raw_errors_through.
Print Assumptions C12_switch_unhashable_dispatch_fails.
Print Assumptions C12_switch_branch_failure_is_not_caught.
Print Assumptions C12_coalesce_first_success.
Print Assumptions C12_coalesce_raw_error_propagates.
Print Assumptions C12_coalesce_cause_partial.
Print Assumptions C12_iter_element_failure_is_deferred.
Print Assumptions C12_consumer_gets_the_element_failure.
Print Assumptions C12_only_successes_are_stored.
Print Assumptions C12_every_store_is_of_a_success.
Print Assumptions C12_failure_is_forgotten.
Print Assumptions C12_failing_body_is_not_stored.

(** ** The real memo store (one association list per MemoryCache object, Model/EvalRun.v) *)
Theorem C12_real_failure_is_forgotten : forall cfg ucall rfuel site_ok e o s c ee s' l,
  eval store mem_find mem_store cfg ucall rfuel site_ok e o s = (Err c ee, s', l) ->
  forall cid f w, mem_find cid f s' = Some w ->
    mem_find cid f s = Some w \/ produced store mem_find mem_store cfg ucall rfuel site_ok w.
Proof. exact real_failure_is_forgotten. Qed.
Print Assumptions C12_real_failure_is_forgotten.

(** a Cached node whose expression fails leaves the WHOLE content of its cache as it was (no
    other node inside its expression shares its cache object) *)
Theorem C12_real_failed_cached_eval_stores_nothing :
  forall cfg ucall rfuel site_ok cid e o s f s1 l1 c ee s2 l2,
  caches_allowed (fun c => negb (N.eqb c cid)) e = true ->
  cache_off cfg o = false ->
  fingerprint store mem_find mem_store cfg ucall rfuel site_ok e o s = (Ok f, s1, l1) ->
  mem_find cid f s1 = None ->
  eval store mem_find mem_store cfg ucall rfuel site_ok e o s1 = (Err c ee, s2, l2) ->
  eval store mem_find mem_store cfg ucall rfuel site_ok (ECached (CMem cid) e) o s =
    (Err c true, s2, (dirty_evs site_ok cid e o ++ l1 ++ [EvCacheExists cid false]) ++ l2)
  /\ st_get cid s2 = st_get cid s.
Proof. exact real_failed_cached_eval_stores_nothing. Qed.
Print Assumptions C12_real_failed_cached_eval_stores_nothing.

(** ** The sentence that is FALSE of coalesce (finding D20).  "The cause chain leads to the
    original exception": a member that passes validate() and then raises at evaluation is passed
    over like any other; when the members after it fail too, the LAST member's error surfaces
    ([C12_coalesce_cause_partial]) and the exception raised by the user code is nowhere in it.
    Witness: Coalesce(body100(a=Option('K10')), Option('K17')) under {'K10': 5}, the body raising
    its exception 3 on the argument 5. *)
Open Scope N_scope.
Definition d20_table : ftable := [(100, FTagRaiseOn (VJ (JInt 5)) 3)].
Definition d20_member : expr := body 100 [EOption [SName 10] None None].
Definition d20_last : expr := EOption [SName 17] None None.
Definition d20_options : dict := [(SName 10, JInt 5)].

Example C12_coalesce_cause_refuted :
  exists t m1 m2 o n k,
    fst (validate_nc (ucall_of t) default_fuel m1 o) = Ok tt /\
    eval_nc (ucall_of t) default_fuel m1 o = (Err (CUser n) true, [EvRead [SName 10] true; EvCall 100 [VJ (JInt 5)]]) /\
    fst (eval_nc (ucall_of t) default_fuel (ECoalesce [m1; m2]) o) = Err (CKey k) true /\
    In (EvCall 100 [VJ (JInt 5)]) (snd (eval_nc (ucall_of t) default_fuel (ECoalesce [m1; m2]) o)).
Proof. exists d20_table, d20_member, d20_last, d20_options, 3, [SName 17]. vm_compute. intuition. Qed.
Print Assumptions C12_coalesce_cause_refuted.

(** ** Non-vacuity *)
(** strict paths exist through every wrapper a dataset puts around its body, and the theorems'
    hypotheses are satisfiable: the missing option of a body's argument, four nodes down *)
Example C12_strict_path_exists :
  let e := EWith false [] (ECached CNone (ELogged (body 100 [EOption [SName 10] None None]))) in
  exists lpre, strict_path store mem_find mem_store cfg0 (ucall_of []) default_fuel (fun _ _ => true)
                 e [] [] (EOption [SName 10] None None) [] [] lpre.
Proof.
  cbv [body]. eexists.
  eapply path_step; [apply sp_with|]. eapply path_step; [apply sp_cached_none|].
  eapply path_step; [apply sp_logged|].
  eapply path_step; [eapply sp_call_kwarg with (pre := []) (post := []); reflexivity|]. apply path_here.
Qed.

(** a history on one long-lived graph (real store): a failing evaluation (missing option), a
    failing one (the body raises), a succeeding one (stored), the failing one again (still
    fails, nothing of it was stored), the succeeding one again (hit); then a graph with an inner
    cached node: the failing outer evaluation stores the inner SUCCESS (set52) and nothing in
    its own cache (no set51), and supplying a good option afterwards succeeds and stores *)
Definition c12_op (i : nat) (o : dict) : op := {| op_meth := MEval; op_expr := i; op_cfg := cfg0; op_opts := o |}.
Example C12_history :
  run_scenario d20_table
    [ECached (CMem 50) d20_member;
     ECached (CMem 51) (EApply (ECached (CMem 52) (EOption [SName 11] None None))
                               (ECached CNone (pstep 100 [EOption [SName 10] None None])))]
    [c12_op 0 []; c12_op 0 d20_options; c12_op 0 [(SName 10, JInt 1)]; c12_op 0 d20_options;
     c12_op 0 [(SName 10, JInt 1)];
     c12_op 1 [(SName 11, JInt 7)]; c12_op 1 [(SName 11, JInt 5); (SName 10, JInt 0)];
     c12_op 1 [(SName 11, JInt 7); (SName 10, JInt 0)]]
  = ("err:key(K10):T| ## err:user(3):T|ex50F c100(5) ## ok:t100(1)|ex50F c100(1) set50 get50T ## "
     ++ "err:user(3):T|ex50F c100(5) ## ok:t100(1)|ex50T get50T ## err:key(K10):T| ## "
     ++ "err:user(3):T|ex51F ex52F set52 get52T c100(5,0) ## ok:t100(7,0)|ex51F ex52F set52 get52T c100(7,0) set51 get51T")%string.
Proof. vm_compute. reflexivity. Qed.

(** the handlers, computed: the default of a switch is used for a dispatch that cannot be
    evaluated, NOT for a branch that fails; a deferred element failure surfaces at the consumer *)
Example C12_handlers_computed :
  let u := ucall_of d20_table in
  let ev e o := fst (eval_nc u default_fuel e o) in
  ev (ESwitch (EOption [SName 11] None None) [(VJ (JInt 1), d20_member)] (Some (EValue (VJ (JInt 9))))) [] = Ok (VJ (JInt 9)) /\
  ev (ESwitch (EOption [SName 11] None None) [(VJ (JInt 1), d20_member)] (Some (EValue (VJ (JInt 9)))))
     [(SName 11, JInt 1); (SName 10, JInt 5)] = Err (CUser 3) true /\
  ev (elist [EValue (VJ (JInt 0)); d20_member; d20_last]) d20_options = Err (CUser 3) true /\
  fst (fst (eval unit nc_find nc_store cfg_nc u default_fuel (fun _ _ => true)
              (EIter [EValue (VJ (JInt 0)); d20_member; d20_last]) d20_options tt))
    = Ok (VT T_ITER [VJ (JInt 0); VErr (CUser 3)]).
Proof. vm_compute. intuition. Qed.
