(** C12 — failures surface as EvaluationError with source and cause; a failed evaluation stores
    nothing.  Only statements closed by [exact], each followed by [Print Assumptions], and
    non-vacuity [Example]s closed by computation.

    What the model carries (Model/Eval.v): an error is [Err c ee] — the CAUSE [c] (which
    primitive raise it was: [CKey k] a missing option with its key, [CSwitch], [CCase],
    [CUser n] the n-th exception class of user code, …) and [ee] (is it an EvaluationError:
    that alone decides which handlers catch it).  The chain of EvaluationError OBJECTS that
    Python builds with `raise … from e` (one per nested node, each with its own [.source]) is
    not represented; identity of [.source] and of the exception object at the end of
    [__cause__] is decided on the implementation by harness/props/c12.py.

    Everything below is for ALL expressions, option dictionaries, user code ([ucall]), memo
    stores ([S], [mem_find], [mem_store]), context switches, resolution budgets. *)
From Coq Require Import List NArith ZArith Bool String.
Import ListNotations.
From LV Require Import Model.Base Model.Template Model.Eval Model.Derived Model.EvalRun
  Proofs.BaseProofs Proofs.EvalProofs Proofs.TraceProofs Proofs.CoveredDefs Proofs.CacheSim Proofs.CoveredProofs
  Proofs.C12Proofs Proofs.C12History.
Close Scope string_scope.
Open Scope list_scope.

Section C12.
  Variable S : Type.
  Variable mem_find : N -> fp -> S -> option value.
  Variable mem_store : N -> fp -> value -> S -> S.
  Variable cfg : config.
  Variable ucall : N -> list value -> cres.
  Variable rfuel : nat.
  Variable site_ok : expr -> dict -> bool.
  Notation eval := (eval S mem_find mem_store cfg ucall rfuel site_ok).
  Notation validate := (validate S mem_find mem_store cfg ucall rfuel site_ok).
  Notation keys := (keys S mem_find mem_store cfg ucall rfuel site_ok).
  Notation explain := (explain S mem_find mem_store cfg ucall rfuel site_ok).
  Notation fingerprint := (fingerprint S mem_find mem_store cfg ucall rfuel site_ok).
  Notation strict_pos := (strict_pos S mem_find mem_store cfg ucall rfuel site_ok).
  Notation strict_path := (strict_path S mem_find mem_store cfg ucall rfuel site_ok).
  Notation skipped := (skipped S mem_find mem_store cfg ucall rfuel site_ok).
  Notation conds_false := (conds_false S mem_find mem_store cfg ucall rfuel site_ok).
  Notation elems_ok := (elems_ok S mem_find mem_store cfg ucall rfuel site_ok).
  Notation attempt := (attempt S mem_find mem_store cfg ucall rfuel site_ok).
  Notation site_run := (site_run S mem_find mem_store cfg ucall rfuel site_ok).

  (** ** 1. Every failure surfaces as an EvaluationError, with the original cause *)

  (** whatever goes wrong inside, the error leaving [evaluate] is an EvaluationError *)
  Theorem C12_error_is_evaluation_error : forall e o s c ee s' l,
    eval e o s = (Err c ee, s', l) -> ee = true.
  Proof. exact (eval_error_is_evaluation_error S mem_find mem_store cfg ucall rfuel site_ok). Qed.

  (** ONE LEVEL: a failure of a sub-evaluation in strict position (every sub-evaluation that
      [evaluate] performs except the handler positions: the dispatch of a switch with a default,
      coalesce members other than the last, elements of Iter / the body of Map) reaches the
      node's caller with the same cause, the same store, the events in order *)
  Theorem C12_failure_propagates : forall e o s x o' s' lpre c ee s'' l,
    strict_pos e o s x o' s' lpre -> eval x o' s' = (Err c ee, s'', l) ->
    eval e o s = (Err c true, s'', lpre ++ l).
  Proof. exact (strict_pos_propagates S mem_find mem_store cfg ucall rfuel site_ok). Qed.

  (** ANY DEPTH: the cause reported at the top is the cause raised at the failing node *)
  Theorem C12_cause_is_original : forall e o s x ox sx lpre c ee s'' l,
    strict_path e o s x ox sx lpre -> eval x ox sx = (Err c ee, s'', l) ->
    eval e o s = (Err c true, s'', lpre ++ l).
  Proof. exact (cause_is_original S mem_find mem_store cfg ucall rfuel site_ok). Qed.

  (** a missing option is reported with ITS key … *)
  Theorem C12_missing_option_reports_its_key : forall e o s k dom ox sx lpre,
    strict_path e o s (EOption k None dom) ox sx lpre -> lookup k (JObj ox) = Absent ->
    eval e o s = (Err (CKey k) true, sx, lpre ++ [EvRead k false]).
  Proof. exact (missing_option_reports_its_key S mem_find mem_store cfg ucall rfuel site_ok). Qed.

  (** … and a present option whose templated value references an absent key, with THAT key
      (the repaired defect D5) *)
  Theorem C12_missing_reference_reports_its_key : forall e o s k dflt dom raw k' ox sx lpre,
    strict_path e o s (EOption k dflt dom) ox sx lpre ->
    lookup k (JObj ox) = Found raw -> resolve rfuel ox raw = RMissing k' ->
    exists l, eval e o s = (Err (CKey k') true, sx, lpre ++ l).
  Proof. exact (missing_reference_reports_its_key S mem_find mem_store cfg ucall rfuel site_ok). Qed.

  (** an exception raised by user code in a body: the body ran (last event), its exception is
      the cause the top reports *)
  Theorem C12_user_exception_reaches_the_top :
    forall e o s fe args kwargs ox sx lpre fid pre post s1 l1 av s2 l2 kv s3 l3 n,
    strict_path e o s (ECall false fe args kwargs) ox sx lpre ->
    eval fe ox sx = (Ok (VF fid pre post), s1, l1) ->
    mapM S (fun y => eval y ox) args s1 = (Ok av, s2, l2) ->
    mapM S (fun y => eval y ox) kwargs s2 = (Ok kv, s3, l3) ->
    N.eqb fid B_COMPOSE = false -> user_fun fid = true ->
    deep_err_list (pre ++ (av ++ kv) ++ post) = None ->
    ucall fid (map listify (pre ++ (av ++ kv) ++ post)) = CRaise n ->
    eval e o s = (Err (CUser n) true, s3,
                  lpre ++ l1 ++ l2 ++ l3 ++ [EvCall fid (map listify (pre ++ (av ++ kv) ++ post))]).
  Proof. exact (user_exception_reaches_the_top S mem_find mem_store cfg ucall rfuel site_ok). Qed.

  (** an unmatched switch / case-when *)
  Theorem C12_unmatched_switch_reaches_the_top : forall e o s disp tbl ox sx lpre k s1 l1,
    strict_path e o s (ESwitch disp tbl None) ox sx lpre ->
    eval disp ox sx = (Ok k, s1, l1) -> hashable k = true -> assoc_v k tbl = None ->
    eval e o s = (Err CSwitch true, s1, lpre ++ l1).
  Proof. exact (unmatched_switch_reaches_the_top S mem_find mem_store cfg ucall rfuel site_ok). Qed.

  Theorem C12_unmatched_case_reaches_the_top : forall e o s disp cases ox sx lpre x s1 l1 s2 l2,
    strict_path e o s (ECase disp cases None) ox sx lpre ->
    eval disp ox sx = (Ok x, s1, l1) -> conds_false ox x cases s1 s2 l2 ->
    eval e o s = (Err CCase true, s2, lpre ++ l1 ++ l2).
  Proof. exact (unmatched_case_reaches_the_top S mem_find mem_store cfg ucall rfuel site_ok). Qed.

  (** ** 2. What the handlers do with failures *)

  (** Switch uses the default when — and only when — the DISPATCH raises an EvaluationError … *)
  Theorem C12_switch_falls_back_on_dispatch_failure : forall disp tbl d o s c s1 l1,
    eval disp o s = (Err c true, s1, l1) -> c <> CUnmodelled ->
    eval (ESwitch disp tbl (Some d)) o s = after S l1 (eval d o s1).
  Proof. exact (switch_falls_back_on_dispatch_failure S mem_find mem_store cfg ucall rfuel site_ok). Qed.

  (** … its try/except lets every other exception through, default or not … *)
  Theorem C12_switch_handler_lets_raw_errors_through : forall (m : M S value) b s c s1 l1,
    m s = (Err c false, s1, l1) -> dispatch_value S m b s = (Err c false, s1, l1).
  Proof. exact (dispatch_handler_lets_raw_errors_through S). Qed.

  (** … a dispatch value that cannot be looked up fails the switch (TypeError, wrapped) … *)
  Theorem C12_switch_unhashable_dispatch_fails : forall disp tbl dflt o s k s1 l1,
    eval disp o s = (Ok k, s1, l1) -> hashable k = false ->
    eval (ESwitch disp tbl dflt) o s = (Err CType true, s1, l1).
  Proof. exact (switch_unhashable_dispatch_fails S mem_find mem_store cfg ucall rfuel site_ok). Qed.

  (** … and so does the failure of the chosen BRANCH: the default is not a handler for it *)
  Theorem C12_switch_branch_failure_is_not_caught : forall disp tbl dflt o s k s1 l1 b c ee s2 l2,
    eval disp o s = (Ok k, s1, l1) -> hashable k = true -> assoc_v k tbl = Some b ->
    eval b o s1 = (Err c ee, s2, l2) ->
    eval (ESwitch disp tbl dflt) o s = (Err c true, s2, l1 ++ l2).
  Proof. exact (switch_branch_failure_is_not_caught S mem_find mem_store cfg ucall rfuel site_ok). Qed.

  (** Coalesce: the first member whose attempt (validate, then evaluate) succeeds gives the
      value; the members before it were passed over because their attempts raised
      EvaluationErrors ([skipped] requires [ee = true] of each) *)
  Theorem C12_coalesce_first_success : forall o pre m post s s1 l1 v s2 l2,
    skipped o pre s s1 l1 -> attempt o m s1 = (Ok v, s2, l2) ->
    eval (ECoalesce (pre ++ m :: post)) o s = (Ok v, s2, l1 ++ l2).
  Proof. exact (coalesce_first_success S mem_find mem_store cfg ucall rfuel site_ok). Qed.

  (** an exception that is not an EvaluationError (validate() re-raises whatever it meets)
      ends the coalesce with that cause: the members after it are not tried *)
  Theorem C12_coalesce_raw_error_propagates : forall o pre m post s s1 l1 c s2 l2,
    skipped o pre s s1 l1 -> attempt o m s1 = (Err c false, s2, l2) ->
    eval (ECoalesce (pre ++ m :: post)) o s = (Err c true, s2, l1 ++ l2).
  Proof. exact (coalesce_raw_error_propagates S mem_find mem_store cfg ucall rfuel site_ok). Qed.

  (** when every member fails, the failure of the LAST member is the one that surfaces
      (the partial statement that holds of coalesce; see the refuted one below) *)
  Theorem C12_coalesce_cause_partial : forall o pre m s s1 l1 c ee s2 l2,
    skipped o pre s s1 l1 -> attempt o m s1 = (Err c ee, s2, l2) ->
    eval (ECoalesce (pre ++ [m])) o s = (Err c true, s2, l1 ++ l2).
  Proof. exact (coalesce_reports_last_member S mem_find mem_store cfg ucall rfuel site_ok). Qed.

  (** Iter (and Map) are lazy: the failure of an element does not fail the evaluation of the
      iterable — it is kept in it, the elements after it are never evaluated … *)
  Theorem C12_iter_element_failure_is_deferred : forall o pre x post s vs s1 l1 c ee s2 l2,
    elems_ok o pre s vs s1 l1 -> eval x o s1 = (Err c ee, s2, l2) -> c <> CUnmodelled ->
    eval (EIter (pre ++ x :: post)) o s = (Ok (VT T_ITER (vs ++ [VErr c])), s2, l1 ++ l2).
  Proof. exact (iter_element_failure_is_deferred S mem_find mem_store cfg ucall rfuel site_ok). Qed.

  (** … and surfaces at whoever consumes the iterable, as an EvaluationError with the
      element's cause (here the consumer is [list(...)], i.e. labrea's evaluatable_list) *)
  Theorem C12_consumer_gets_the_element_failure : forall o pre x post s vs s1 l1 c ee s2 l2,
    elems_ok o pre s vs s1 l1 -> eval x o s1 = (Err c ee, s2, l2) -> c <> CUnmodelled ->
    eval (elist (pre ++ x :: post)) o s = (Err c true, s2, l1 ++ l2).
  Proof. exact (consumer_gets_the_element_failure S mem_find mem_store cfg ucall rfuel site_ok). Qed.

  (** ** 3. A failed evaluation stores nothing; what is stored is the value its own cache site
      just returned *)

  (** THE PATH OF STORES.  [site_run sl a b] (Proofs/C12Proofs.v) is the inductive relation
      generated by reflexivity, transitivity and ONE rule that changes the store:
        [In (cid, e) sl], [eval e o s1 = (Ok v, s2, l1)], [fingerprint e o s2 = (Ok f, s3, lf)]
        (and the two sub-runs are [site_run]s themselves)
        give [site_run sl s1 (mem_store cid f (exhaust v) s3)]
      — the evaluation of the cached expression [e] of a cache site [(cid, e)], started in [s1]
      under some dictionary [o], RETURNED [v]; Cached computed the fingerprint [f] of [e] under
      that same [o]; then [v] was stored at [f] in that site's cache [cid].  The segment spans
      the successful sub-evaluation, so that sub-evaluation is part of the run.

      THE THEOREM: every run — evaluate, validate, keys or explain; successful or FAILED — of every
      expression [e_top], under every dictionary, from every store, goes through the store only
      along a [site_run] of [e_top]'s own cache sites ([sites_of e_top]: every
      [ECached (CMem cid) e] occurring in it).  A failed sub-evaluation is followed by no store;
      there is no store that is not of the value the site's own expression just returned, at the
      fingerprint of that expression under the dictionary that reached the site. *)
  Theorem C12_every_run_is_a_site_run : forall e_top o,
    (forall s r s' l, eval e_top o s = (r, s', l) -> site_run (sites_of e_top) s s') /\
    (forall s r s' l, validate e_top o s = (r, s', l) -> site_run (sites_of e_top) s s') /\
    (forall s r s' l, keys e_top o s = (r, s', l) -> site_run (sites_of e_top) s s') /\
    (forall s r s' l, explain e_top o s = (r, s', l) -> site_run (sites_of e_top) s s').
  Proof. exact (every_run_is_a_site_run S mem_find mem_store cfg ucall rfuel site_ok). Qed.

  (** ENTRY BY ENTRY (for every store in which a lookup after a store finds exactly the stored
      entry or what was there before; proved of the real store below): whatever is in the store
      after a run — successful or failed — and was not there before, was put there by the
      success of ITS OWN cache site during this run: [cid] is the cache of a site [(cid, e)] of
      [e_top]; from a store [sa] the run reached, that very [e] was evaluated under a dictionary
      [o'] and returned [v]; [f] is the fingerprint Cached then computed for [e] under [o']; [w]
      is [v] (generators exhausted, as every reader sees them) *)
  Theorem C12_new_entries_are_site_successes :
    (forall c f v s c' f' w,
       mem_find c' f' (mem_store c f v s) = Some w ->
       (c' = c /\ f' = f /\ w = v) \/ mem_find c' f' s = Some w) ->
    forall e_top o s r s' l, eval e_top o s = (r, s', l) ->
    forall cid f w, mem_find cid f s' = Some w ->
      mem_find cid f s = Some w \/
      exists e o' sa v sb la sc lf,
        In (cid, e) (sites_of e_top) /\ site_run (sites_of e_top) s sa /\
        eval e o' sa = (Ok v, sb, la) /\ fingerprint e o' sb = (Ok f, sc, lf) /\ w = exhaust v.
  Proof.
    exact (fun law e_top o =>
             proj1 (new_entries_are_site_successes S mem_find mem_store cfg ucall rfuel site_ok law e_top o)).
  Qed.

  (** the failing node itself: a Cached node (cache on, miss) whose expression fails to evaluate
      fails with THAT cause, and the whole run went through the store along a [site_run] of the
      sites strictly INSIDE its expression — its own site [(cid, e)] is not one of them: nothing
      was stored for the failing node *)
  Theorem C12_failed_cached_expr_stores_only_inner_successes : forall cid e o s f s1 l1 c ee s2 l2,
    cache_off cfg o = false -> fingerprint e o s = (Ok f, s1, l1) -> mem_find cid f s1 = None ->
    eval e o s1 = (Err c ee, s2, l2) ->
    eval (ECached (CMem cid) e) o s =
      (Err c true, s2, (dirty_evs site_ok cid e o ++ l1 ++ [EvCacheExists cid false]) ++ l2) /\
    site_run (sites_of e) s s2 /\ ~ In (cid, e) (sites_of e).
  Proof. exact (failed_cached_expr_stores_only_inner_successes S mem_find mem_store cfg ucall rfuel site_ok). Qed.

  (** the same node, as a frame statement about cache OBJECTS: its run performs no store into its
      own cache: [R] need only be respected by stores into the other caches ([allowed]) *)
  Theorem C12_failing_body_is_not_stored :
    forall (R : S -> S -> Prop) (allowed : N -> bool) cid e o s f s1 l1 c ee s2 l2,
    (forall s, R s s) -> (forall a b c, R a b -> R b c -> R a c) ->
    (forall c f v s, allowed c = true -> R s (mem_store c f v s)) ->
    caches_allowed allowed e = true ->
    cache_off cfg o = false -> fingerprint e o s = (Ok f, s1, l1) -> mem_find cid f s1 = None ->
    eval e o s1 = (Err c ee, s2, l2) ->
    eval (ECached (CMem cid) e) o s =
      (Err c true, s2, (dirty_evs site_ok cid e o ++ l1 ++ [EvCacheExists cid false]) ++ l2) /\ R s s2.
  Proof. exact (failing_body_is_not_stored S mem_find mem_store cfg ucall rfuel site_ok). Qed.
End C12.
Print Assumptions C12_error_is_evaluation_error.
Print Assumptions C12_failure_propagates.
Print Assumptions C12_cause_is_original.
Print Assumptions C12_missing_option_reports_its_key.
Print Assumptions C12_missing_reference_reports_its_key.
Print Assumptions C12_user_exception_reaches_the_top.
Print Assumptions C12_unmatched_switch_reaches_the_top.
Print Assumptions C12_unmatched_case_reaches_the_top.
Print Assumptions C12_switch_falls_back_on_dispatch_failure.
Print Assumptions C12_switch_handler_lets_raw_errors_through.
Print Assumptions C12_switch_unhashable_dispatch_fails.
Print Assumptions C12_switch_branch_failure_is_not_caught.
Print Assumptions C12_coalesce_first_success.
Print Assumptions C12_coalesce_raw_error_propagates.
Print Assumptions C12_coalesce_cause_partial.
Print Assumptions C12_iter_element_failure_is_deferred.
Print Assumptions C12_consumer_gets_the_element_failure.
Print Assumptions C12_every_run_is_a_site_run.
Print Assumptions C12_new_entries_are_site_successes.
Print Assumptions C12_failed_cached_expr_stores_only_inner_successes.
Print Assumptions C12_failing_body_is_not_stored.

(** ** The real memo store (one association list per MemoryCache object, Model/EvalRun.v), whose
    find-after-store law is proved *)

(** after ANY evaluation — successful or FAILED — of any expression [e_top] from any store [s]:
    every entry [(cid, f, w)] of the new store that was not already in [s] belongs to a cache
    site [ECached (CMem cid) e] occurring in [e_top]; that very [e] was evaluated during this run
    (from a store [sa] the run reached) under a dictionary [o'] and RETURNED [v]; [w] is [v]; and
    [f] is the fingerprint Cached computed for [e] under [o'].  So a failure is never stored, a
    value is never stored for another expression than the one that returned it, nor at another
    fingerprint than that of the dictionary it was computed under *)
Theorem C12_real_stored_entry_is_its_sites_success : forall cfg ucall rfuel site_ok e_top o s r s' l,
  eval store mem_find mem_store cfg ucall rfuel site_ok e_top o s = (r, s', l) ->
  forall cid f w, mem_find cid f s' = Some w ->
    mem_find cid f s = Some w \/
    exists e o' sa v sb la sc lf,
      In (cid, e) (sites_of e_top) /\
      site_run store mem_find mem_store cfg ucall rfuel site_ok (sites_of e_top) s sa /\
      eval store mem_find mem_store cfg ucall rfuel site_ok e o' sa = (Ok v, sb, la) /\
      fingerprint store mem_find mem_store cfg ucall rfuel site_ok e o' sb = (Ok f, sc, lf) /\
      w = exhaust v.
Proof. exact real_stored_entry_is_its_sites_success. Qed.
Print Assumptions C12_real_stored_entry_is_its_sites_success.

(** the same of validate(), keys() and explain() (all three evaluate sub-expressions, so all can store) *)
Theorem C12_real_new_entries_are_site_successes : forall cfg ucall rfuel site_ok e_top o,
  (forall s r s' l, eval store mem_find mem_store cfg ucall rfuel site_ok e_top o s = (r, s', l) ->
     forall cid f w, mem_find cid f s' = Some w ->
       mem_find cid f s = Some w \/
       site_success store mem_find mem_store cfg ucall rfuel site_ok (sites_of e_top) s cid f w) /\
  (forall s r s' l, validate store mem_find mem_store cfg ucall rfuel site_ok e_top o s = (r, s', l) ->
     forall cid f w, mem_find cid f s' = Some w ->
       mem_find cid f s = Some w \/
       site_success store mem_find mem_store cfg ucall rfuel site_ok (sites_of e_top) s cid f w) /\
  (forall s r s' l, keys store mem_find mem_store cfg ucall rfuel site_ok e_top o s = (r, s', l) ->
     forall cid f w, mem_find cid f s' = Some w ->
       mem_find cid f s = Some w \/
       site_success store mem_find mem_store cfg ucall rfuel site_ok (sites_of e_top) s cid f w) /\
  (forall s r s' l, explain store mem_find mem_store cfg ucall rfuel site_ok e_top o s = (r, s', l) ->
     forall cid f w, mem_find cid f s' = Some w ->
       mem_find cid f s = Some w \/
       site_success store mem_find mem_store cfg ucall rfuel site_ok (sites_of e_top) s cid f w).
Proof. exact real_new_entries_are_site_successes. Qed.
Print Assumptions C12_real_new_entries_are_site_successes.

(** a Cached node (cache on, miss) whose expression FAILS: an entry found afterwards at the
    node's own cache and fingerprint can only be the success of a site strictly inside its
    expression that shares its cache object — never something stored for the failed node; when
    no site inside shares the cache object there is no entry *)
Theorem C12_real_failed_cached_expr_own_entry : forall cfg ucall rfuel site_ok cid e o s f s1 l1 c ee s2 l2,
  cache_off cfg o = false ->
  fingerprint store mem_find mem_store cfg ucall rfuel site_ok e o s = (Ok f, s1, l1) ->
  mem_find cid f s1 = None ->
  eval store mem_find mem_store cfg ucall rfuel site_ok e o s1 = (Err c ee, s2, l2) ->
  (forall w, mem_find cid f s2 = Some w ->
     site_success store mem_find mem_store cfg ucall rfuel site_ok (sites_of e) s1 cid f w) /\
  ((forall x, ~ In (cid, x) (sites_of e)) -> mem_find cid f s2 = None).
Proof. exact real_failed_cached_expr_own_entry. Qed.
Print Assumptions C12_real_failed_cached_expr_own_entry.

(** a Cached node whose expression fails leaves the WHOLE content of its cache as it was (no
    other node inside its expression shares its cache object) *)
Theorem C12_real_failed_cached_eval_stores_nothing :
  forall cfg ucall rfuel site_ok cid e o s f s1 l1 c ee s2 l2,
  caches_allowed (fun c => negb (N.eqb c cid)) e = true ->
  cache_off cfg o = false ->
  fingerprint store mem_find mem_store cfg ucall rfuel site_ok e o s = (Ok f, s1, l1) ->
  mem_find cid f s1 = None ->
  eval store mem_find mem_store cfg ucall rfuel site_ok e o s1 = (Err c ee, s2, l2) ->
  eval store mem_find mem_store cfg ucall rfuel site_ok (ECached (CMem cid) e) o s =
    (Err c true, s2, (dirty_evs site_ok cid e o ++ l1 ++ [EvCacheExists cid false]) ++ l2)
  /\ st_get cid s2 = st_get cid s.
Proof. exact real_failed_cached_eval_stores_nothing. Qed.
Print Assumptions C12_real_failed_cached_eval_stores_nothing.

(** ** 4. … it does not change the outcome of any later evaluation, and supplying the missing
    option afterwards succeeds.  At the level of OUTCOMES, for histories on one long-lived graph
    with the real store, inside the hypotheses of C01's transparency theorem (Proofs/CacheSim.v):
    [Sound s] — every entry of the initial store is correct (the empty store is: [Sound_empty]);
    [hist_ok h] — every operation's expression is covered from the operation's dictionary
    ([scoh]: cached expressions in [frag], every dictionary reaching a cache site [okd], one
    expression per cache id; no Map / AllOptions) — the zones of D1 D3 D4 D9 D19 D21 D24, where a
    SUCCESSFUL evaluation can change a later outcome, are outside. *)

(** deleting (read right to left: inserting) ONE operation [p] — any method, failing or
    succeeding — anywhere in a history leaves the answer of every other operation unchanged:
    each equals the cache-free reference [ref_op] *)
Theorem C12_deleting_an_operation_changes_no_other_outcome : forall u fuel cfg site_ok sites esw h1 p h2 s,
  Sound u fuel sites esw s -> hist_ok u fuel sites esw (h1 ++ [p] ++ h2) ->
  run_hist u fuel cfg site_ok (h1 ++ [p] ++ h2) s = map (ref_op u fuel) h1 ++ [ref_op u fuel p] ++ map (ref_op u fuel) h2 /\
  run_hist u fuel cfg site_ok (h1 ++ h2) s = map (ref_op u fuel) h1 ++ map (ref_op u fuel) h2.
Proof. exact deleting_an_operation_changes_no_other_outcome. Qed.
Print Assumptions C12_deleting_an_operation_changes_no_other_outcome.

(** as one equation between the two runs: the observations of the history without [p] are those
    of the history with [p], the one of [p] taken out *)
Theorem C12_deleting_an_operation_deletes_its_observation : forall u fuel cfg site_ok sites esw h1 p h2 s,
  Sound u fuel sites esw s -> hist_ok u fuel sites esw (h1 ++ [p] ++ h2) ->
  run_hist u fuel cfg site_ok (h1 ++ h2) s =
    firstn (List.length h1) (run_hist u fuel cfg site_ok (h1 ++ [p] ++ h2) s) ++
    skipn (Datatypes.S (List.length h1)) (run_hist u fuel cfg site_ok (h1 ++ [p] ++ h2) s).
Proof. exact deleting_an_operation_deletes_its_observation. Qed.
Print Assumptions C12_deleting_an_operation_deletes_its_observation.

(** whatever is asked after an evaluation (failed or not) is answered the same from the store
    the evaluation left behind as from the store before it *)
Theorem C12_an_evaluation_changes_no_later_outcome : forall u fuel cfg site_ok sites esw e o h s,
  Sound u fuel sites esw s -> hist_ok u fuel sites esw (HEval e o :: h) ->
  run_hist u fuel cfg site_ok h (stC (eval store mem_find mem_store cfg u fuel site_ok e o) s) =
  run_hist u fuel cfg site_ok h s.
Proof. exact an_evaluation_changes_no_later_outcome. Qed.
Print Assumptions C12_an_evaluation_changes_no_later_outcome.

(** A FAILED EVALUATION, spelled out: it fails as the cache-free reference fails (same cause,
    same EvaluationError flag), and everything after it is answered as if it had never happened *)
Theorem C12_a_failed_evaluation_is_forgotten : forall u fuel cfg site_ok sites esw e o h s c ee,
  Sound u fuel sites esw s -> hist_ok u fuel sites esw (HEval e o :: h) ->
  resC (eval store mem_find mem_store cfg u fuel site_ok e o) s = Err c ee ->
  resN (eval unit nc_find nc_store cfg_nc u fuel (fun _ _ => true) e o) = Err c ee /\
  run_hist u fuel cfg site_ok (HEval e o :: h) s = OEval (Err c ee) :: run_hist u fuel cfg site_ok h s.
Proof. exact a_failed_evaluation_is_forgotten. Qed.
Print Assumptions C12_a_failed_evaluation_is_forgotten.

(** SUPPLYING THE OPTION AFTERWARDS SUCCEEDS: after an evaluation under [o] (in particular one
    that failed for a missing option) and any further operations [h], the evaluation under a
    dictionary [o'] for which the cache-free reference evaluates to [v] returns [v] *)
Theorem C12_supplying_the_option_afterwards_succeeds : forall u fuel cfg site_ok sites esw e o h o' v s,
  Sound u fuel sites esw s -> hist_ok u fuel sites esw (HEval e o :: h ++ [HEval e o']) ->
  resN (eval unit nc_find nc_store cfg_nc u fuel (fun _ _ => true) e o') = Ok v ->
  run_hist u fuel cfg site_ok (HEval e o :: h ++ [HEval e o']) s =
    OEval (resN (eval unit nc_find nc_store cfg_nc u fuel (fun _ _ => true) e o)) ::
    map (ref_op u fuel) h ++ [OEval (Ok v)].
Proof. exact supplying_the_option_afterwards_succeeds. Qed.
Print Assumptions C12_supplying_the_option_afterwards_succeeds.

(** the two evaluations alone: the first FAILED, the second — in the store the failure left
    behind — returns [v] *)
Theorem C12_after_a_failure_the_supplied_option_succeeds : forall u fuel cfg site_ok sites esw e o o' v s c ee,
  Sound u fuel sites esw s -> hist_ok u fuel sites esw [HEval e o; HEval e o'] ->
  resC (eval store mem_find mem_store cfg u fuel site_ok e o) s = Err c ee ->
  resN (eval unit nc_find nc_store cfg_nc u fuel (fun _ _ => true) e o') = Ok v ->
  resC (eval store mem_find mem_store cfg u fuel site_ok e o')
       (stC (eval store mem_find mem_store cfg u fuel site_ok e o) s) = Ok v.
Proof. exact after_a_failure_the_supplied_option_succeeds. Qed.
Print Assumptions C12_after_a_failure_the_supplied_option_succeeds.

(** ** The sentence that is FALSE of coalesce (finding D20).  "The cause chain leads to the
    original exception": a member that passes validate() and then raises at evaluation is passed
    over like any other; when the members after it fail too, the LAST member's error surfaces
    ([C12_coalesce_cause_partial]) and the exception raised by the user code is nowhere in it.
    Witness: Coalesce(body100(a=Option('K10')), Option('K17')) under {'K10': 5}, the body raising
    its exception 3 on the argument 5. *)
Open Scope N_scope.
Definition d20_table : ftable := [(100, FTagRaiseOn (VJ (JInt 5)) 3)].
Definition d20_member : expr := body 100 [EOption [SName 10] None None].
Definition d20_last : expr := EOption [SName 17] None None.
Definition d20_options : dict := [(SName 10, JInt 5)].

Theorem C12_coalesce_cause_refuted :
  exists t m1 m2 o n k,
    fst (validate_nc (ucall_of t) default_fuel m1 o) = Ok tt /\
    eval_nc (ucall_of t) default_fuel m1 o = (Err (CUser n) true, [EvRead [SName 10] true; EvCall 100 [VJ (JInt 5)]]) /\
    fst (eval_nc (ucall_of t) default_fuel (ECoalesce [m1; m2]) o) = Err (CKey k) true /\
    In (EvCall 100 [VJ (JInt 5)]) (snd (eval_nc (ucall_of t) default_fuel (ECoalesce [m1; m2]) o)).
Proof. exists d20_table, d20_member, d20_last, d20_options, 3, [SName 17]. vm_compute. intuition. Qed.
Print Assumptions C12_coalesce_cause_refuted.

(** ** Non-vacuity *)
(** strict paths exist through every wrapper a dataset puts around its body, and the theorems'
    hypotheses are satisfiable: the missing option of a body's argument, four nodes down *)
Example C12_strict_path_exists :
  let e := EWith false [] (ECached CNone (ELogged (body 100 [EOption [SName 10] None None]))) in
  exists lpre, strict_path store mem_find mem_store cfg0 (ucall_of []) default_fuel (fun _ _ => true)
                 e [] [] (EOption [SName 10] None None) [] [] lpre.
Proof.
  cbv [body]. eexists.
  eapply path_step; [apply sp_with|]. eapply path_step; [apply sp_cached_none|].
  eapply path_step; [apply sp_logged|].
  eapply path_step; [eapply sp_call_kwarg with (pre := []) (post := []); reflexivity|]. apply path_here.
Qed.
Print Assumptions C12_strict_path_exists.

(** a history on one long-lived graph (real store): a failing evaluation (missing option), a
    failing one (the body raises), a succeeding one (stored), the failing one again (still
    fails, nothing of it was stored), the succeeding one again (hit); then a graph with an inner
    cached node: the failing outer evaluation stores the inner SUCCESS (set52) and nothing in
    its own cache (no set51), and supplying a good option afterwards succeeds and stores *)
Definition c12_op (i : nat) (o : dict) : op := {| op_meth := MEval; op_expr := i; op_cfg := cfg0; op_opts := o |}.
Example C12_history :
  run_scenario d20_table
    [ECached (CMem 50) d20_member;
     ECached (CMem 51) (EApply (ECached (CMem 52) (EOption [SName 11] None None))
                               (ECached CNone (pstep 100 [EOption [SName 10] None None])))]
    [c12_op 0 []; c12_op 0 d20_options; c12_op 0 [(SName 10, JInt 1)]; c12_op 0 d20_options;
     c12_op 0 [(SName 10, JInt 1)];
     c12_op 1 [(SName 11, JInt 7)]; c12_op 1 [(SName 11, JInt 5); (SName 10, JInt 0)];
     c12_op 1 [(SName 11, JInt 7); (SName 10, JInt 0)]]
  = ("err:key(K10):T| ## err:user(3):T|ex50F c100(5) ## ok:t100(1)|ex50F c100(1) set50 get50T ## "
     ++ "err:user(3):T|ex50F c100(5) ## ok:t100(1)|ex50T get50T ## err:key(K10):T| ## "
     ++ "err:user(3):T|ex51F ex52F set52 get52T c100(5,0) ## ok:t100(7,0)|ex51F ex52F set52 get52T c100(7,0) set51 get51T")%string.
Proof. vm_compute. reflexivity. Qed.
Print Assumptions C12_history.

(** the store theorems on a FAILING run that stores: the outer node (cache 51) evaluates its
    inner cached option (cache 52: success, stored) and then its step raises.  The run fails;
    the store it leaves has ONE entry, in cache 52, and that entry is the success of its own
    site: the witnesses [C12_real_stored_entry_is_its_sites_success] promises, exhibited *)
Definition c12_inner_expr : expr := EOption [SName 11] None None.
Definition c12_outer_body : expr :=
  EApply (ECached (CMem 52) c12_inner_expr) (ECached CNone (pstep 100 [EOption [SName 10] None None])).
Definition c12_outer : expr := ECached (CMem 51) c12_outer_body.
Definition c12_bad : dict := [(SName 11, JInt 5); (SName 10, JInt 0)].
Definition c12_ev := eval store mem_find mem_store cfg0 (ucall_of d20_table) default_fuel (fun _ _ => true).
Definition c12_fp := fingerprint store mem_find mem_store cfg0 (ucall_of d20_table) default_fuel (fun _ _ => true).

Example C12_failed_run_stores_the_inner_success_only :
  fst (fst (c12_ev c12_outer c12_bad [])) = Err (CUser 3) true /\
  snd (fst (c12_ev c12_outer c12_bad [])) = [(52, [([([SName 11], JInt 5)], VJ (JInt 5))])] /\
  sites_of c12_outer = [(51, c12_outer_body); (52, c12_inner_expr)] /\
  (exists o' v sb la sc lf,
     c12_ev c12_inner_expr o' [] = (Ok v, sb, la) /\
     c12_fp c12_inner_expr o' sb = (Ok [([SName 11], JInt 5)], sc, lf) /\ VJ (JInt 5) = exhaust v) /\
  (* nothing at the failed node's own cache *)
  st_get 51 (snd (fst (c12_ev c12_outer c12_bad []))) = [].
Proof.
  split; [vm_compute; reflexivity|]. split; [vm_compute; reflexivity|]. split; [vm_compute; reflexivity|].
  split; [|vm_compute; reflexivity].
  exists c12_bad, (VJ (JInt 5)), [], [EvRead [SName 11] true], [], [EvRead [SName 11] true].
  vm_compute. repeat split; reflexivity.
Qed.
Print Assumptions C12_failed_run_stores_the_inner_success_only.

(** the outcome theorems: the history of [C12_history] is inside [hist_ok] (by the boolean
    checker [scohb], sound by Proofs/CoveredProofs.v), it contains five failing evaluations
    (missing option, raising body, raising step after an inner success) — and deleting all five
    leaves the three other answers as they were *)
Definition c12_e1 : expr := ECached (CMem 50) d20_member.
Definition c12_sites (c : N) : option expr :=
  if N.eqb c 50 then Some d20_member else if N.eqb c 51 then Some c12_outer_body
  else if N.eqb c 52 then Some c12_inner_expr else None.
Definition c12_h : list hop :=
  [HEval c12_e1 []; HEval c12_e1 d20_options; HEval c12_e1 [(SName 10, JInt 1)]; HEval c12_e1 d20_options;
   HEval c12_e1 [(SName 10, JInt 1)];
   HEval c12_outer [(SName 11, JInt 7)]; HEval c12_outer c12_bad;
   HEval c12_outer [(SName 11, JInt 7); (SName 10, JInt 0)]].
Definition c12_h_without_failures : list hop :=
  [HEval c12_e1 [(SName 10, JInt 1)]; HEval c12_e1 [(SName 10, JInt 1)];
   HEval c12_outer [(SName 11, JInt 7); (SName 10, JInt 0)]].

Example C12_history_hypotheses_satisfiable :
  hist_ok (ucall_of d20_table) default_fuel c12_sites false c12_h /\
  Sound (ucall_of d20_table) default_fuel c12_sites false [] /\
  run_hist (ucall_of d20_table) default_fuel cfg0 (fun _ _ => true) c12_h [] =
    [OEval (Err (CKey [SName 10]) true); OEval (Err (CUser 3) true); OEval (Ok (VT 100 [VJ (JInt 1)]));
     OEval (Err (CUser 3) true); OEval (Ok (VT 100 [VJ (JInt 1)]));
     OEval (Err (CKey [SName 10]) true); OEval (Err (CUser 3) true);
     OEval (Ok (VT 100 [VJ (JInt 7); VJ (JInt 0)]))] /\
  run_hist (ucall_of d20_table) default_fuel cfg0 (fun _ _ => true) c12_h_without_failures [] =
    [OEval (Ok (VT 100 [VJ (JInt 1)])); OEval (Ok (VT 100 [VJ (JInt 1)]));
     OEval (Ok (VT 100 [VJ (JInt 7); VJ (JInt 0)]))].
Proof.
  split; [|split; [apply Sound_empty|split; vm_compute; reflexivity]].
  apply (covered_hist_ok (ucall_of d20_table) default_fuel c12_sites false [c12_e1; c12_outer] c12_h).
  - intros c b H. unfold c12_sites in H.
    destruct (N.eqb c 50) eqn:E1; [apply N.eqb_eq in E1; inversion H; subst; cbn; tauto|].
    destruct (N.eqb c 51) eqn:E2; [apply N.eqb_eq in E2; inversion H; subst; cbn; tauto|].
    destruct (N.eqb c 52) eqn:E3; [apply N.eqb_eq in E3; inversion H; subst; cbn; tauto|discriminate].
  - intros cb Hcb. cbn in Hcb. repeat (destruct Hcb as [<-|Hcb]; [reflexivity|]). destruct Hcb.
  - intros p Hp. unfold c12_h in Hp.
    repeat (destruct Hp as [<-|Hp]; [split; [cbn; tauto|vm_compute; reflexivity]|]). destruct Hp.
Qed.
Print Assumptions C12_history_hypotheses_satisfiable.

(** the handlers, computed: the default of a switch is used for a dispatch that cannot be
    evaluated, NOT for a branch that fails; a deferred element failure surfaces at the consumer *)
Example C12_handlers_computed :
  let u := ucall_of d20_table in
  let ev e o := fst (eval_nc u default_fuel e o) in
  ev (ESwitch (EOption [SName 11] None None) [(VJ (JInt 1), d20_member)] (Some (EValue (VJ (JInt 9))))) [] = Ok (VJ (JInt 9)) /\
  ev (ESwitch (EOption [SName 11] None None) [(VJ (JInt 1), d20_member)] (Some (EValue (VJ (JInt 9)))))
     [(SName 11, JInt 1); (SName 10, JInt 5)] = Err (CUser 3) true /\
  ev (elist [EValue (VJ (JInt 0)); d20_member; d20_last]) d20_options = Err (CUser 3) true /\
  fst (fst (eval unit nc_find nc_store cfg_nc u default_fuel (fun _ _ => true)
              (EIter [EValue (VJ (JInt 0)); d20_member; d20_last]) d20_options tt))
    = Ok (VT T_ITER [VJ (JInt 0); VErr (CUser 3)]).
Proof. vm_compute. intuition. Qed.
Print Assumptions C12_handlers_computed.
