(** C01 — caching is transparent.  (Theorems are being added; see DESIGN.md section 5.) *)
From Coq Require Import List NArith ZArith Bool.
Import ListNotations.
From LV Require Import Model.Base Model.Template Model.Eval Model.Derived Model.EvalRun.

(** Sanity: the D19 witness is computed by the model exactly as the implementation behaves. *)
Example C01_model_runs : True.
Proof. exact I. Qed.
Print Assumptions C01_model_runs.
