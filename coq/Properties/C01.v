(** C01 — caching is transparent.

    Statements only; proofs in Proofs/{FrameTheorem,SufficientProofs,CleanProofs,CacheSim}.v.
    [evalN] is the cache-free reference instance of the interpreter of Model/Eval.v (what labrea
    computes inside [labrea.cache.disabled()]); the cached instance uses the real memo store of
    Model/EvalRun.v (one association list per MemoryCache object).  All theorems hold for ALL
    user code [u], ALL resolution budgets, ALL well-formed dictionaries and ALL expressions of
    the boolean fragment [frag] (see Properties/C03.v); the rest of the expression language is
    covered by the correspondence and the transparency oracle of harness/props/c01.py. *)
From Coq Require Import List NArith ZArith Bool.
Import ListNotations.
From LV Require Import Model.Base Model.Template Model.Eval Model.Derived Model.EvalRun
  Proofs.FrameProofs Proofs.FrameTheorem Proofs.RestrictProofs Proofs.SufficientProofs
  Proofs.CleanProofs Proofs.FingerprintProofs.

Notation evalN u fuel := (eval unit nc_find nc_store cfg_nc u fuel (fun _ _ => true)).
Notation keysN u fuel := (keys unit nc_find nc_store cfg_nc u fuel (fun _ _ => true)).

(** Second sentence of the property.  A stored value can only be served for a dictionary with
    the same fingerprint as the one it was computed under; then the cache-free outcomes of the
    two dictionaries coincide: nothing the result depends on differs.  Side condition: both
    dictionaries are clean for the cached expression (computed predicate [clean_at]: every
    present option the evaluation reads is reported by keys(); false exactly in the zones of the
    known findings D1/D3/D4/D9/D19, refuted below). *)
Theorem C01_equal_fingerprint_equal_outcome : forall u fuel e o o' f,
  frag e = true -> wf_dict o = true -> wf_dict o' = true ->
  clean_at u fuel e o = true -> clean_at u fuel e o' = true ->
  fingerprintN u fuel e o = Ok f -> fingerprintN u fuel e o' = Ok f ->
  fst (fst (evalN u fuel e o' tt)) = fst (fst (evalN u fuel e o tt)).
Proof. exact equal_fingerprint_equal_outcome. Qed.
Print Assumptions C01_equal_fingerprint_equal_outcome.

(** The same, on the level of what is read: two dictionaries that agree on a key set that
    (i) is present in one of them and (ii) covers every present option either evaluation reads,
    evaluate alike. *)
Theorem C01_same_reported_same_outcome : forall u fuel e o o' K,
  frag e = true -> wf_dict o = true -> wf_dict o' = true ->
  good_keys K -> all_present K o ->
  (forall k, In k K -> lookup k (JObj o') = lookup k (JObj o)) ->
  RR K o (snd (evalN u fuel e o tt)) -> RR K o' (snd (evalN u fuel e o' tt)) ->
  fst (fst (evalN u fuel e o' tt)) = fst (fst (evalN u fuel e o tt)).
Proof. exact same_reported_same_outcome. Qed.
Print Assumptions C01_same_reported_same_outcome.

(** ** Non-vacuity and the known finding D19 on the real store. *)
Definition kA : key := [SName 7].
Definition kB : key := [SName 8].
Definition u0 : N -> list value -> cres := fun f args => COk (VT f args).
Definition evalC := eval store mem_find mem_store cfg0 u0 10 (clean_at u0 10).

Definition e_ok : expr :=
  ESwitch (EOption kA None None)
          [(VJ (JInt 1), EOption kB None None); (VJ (JInt 2), EValue (VJ (JInt 5)))] None.
Definition o1 : dict := [(SName 7, JInt 1); (SName 8, JInt 9); (SName 9, JInt 0)].
Definition o2 : dict := [(SName 9, JInt 4); (SName 8, JInt 9); (SName 7, JInt 1)].

Example C01_hypotheses_satisfiable :
  frag e_ok = true /\ wf_dict o1 = true /\ wf_dict o2 = true /\
  clean_at u0 10 e_ok o1 = true /\ clean_at u0 10 e_ok o2 = true /\
  fingerprintN u0 10 e_ok o1 = Ok [(kA, JInt 1); (kB, JInt 9)] /\
  fingerprintN u0 10 e_ok o2 = Ok [(kA, JInt 1); (kB, JInt 9)] /\ o1 <> o2.
Proof. vm_compute. repeat split; congruence. Qed.

(** D19: the cached coalesce over a switch whose dispatch has a default.  {A:1}: member 1 reads
    A = 1, misses B, is passed over; 6 is stored under the EMPTY fingerprint.  {}: served 6 from
    the store although the cache-free evaluation yields 5. *)
Definition e_d19 : expr :=
  ECoalesce [ESwitch (EOption kA (Some (EValue (VJ (JInt 2)))) None)
                     [(VJ (JInt 1), EOption kB None None); (VJ (JInt 2), EValue (VJ (JInt 5)))] None;
             EValue (VJ (JInt 6))].

Theorem C01_transparency_refuted_D19 :
  exists e o o',
    frag e = true /\
    let '(r1, s1, _) := evalC (ECached (CMem 1) e) o [] in
    let '(r2, _, _) := evalC (ECached (CMem 1) e) o' s1 in
    r1 = Ok (VJ (JInt 6)) /\ r2 = Ok (VJ (JInt 6)) /\
    fst (fst (evalN u0 10 e o' tt)) = Ok (VJ (JInt 5)) /\
    clean_at u0 10 e o = false.
Proof.
  exists e_d19, [(SName 7, JInt 1)], []. vm_compute. repeat split; congruence.
Qed.
Print Assumptions C01_transparency_refuted_D19.
