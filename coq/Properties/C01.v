(** C01 — caching is transparent.

    Statements only; proofs in Proofs/{FrameTheorem,SufficientProofs,CleanProofs,CacheSim}.v.
    [evalN] is the cache-free reference instance of the interpreter of Model/Eval.v (what labrea
    computes inside [labrea.cache.disabled()]); the cached instance uses the real memo store of
    Model/EvalRun.v (one association list per MemoryCache object).  All theorems hold for ALL
    user code [u], ALL resolution budgets, ALL well-formed dictionaries and ALL expressions of
    the boolean fragment [frag] (see Properties/C03.v); the rest of the expression language is
    covered by the correspondence and the transparency oracle of harness/props/c01.py. *)
From Coq Require Import List NArith ZArith Bool.
Import ListNotations.
From LV Require Import Model.Base Model.Template Model.Eval Model.Derived Model.EvalRun
  Proofs.FrameProofs Proofs.TemplateFrame Proofs.FrameTheorem Proofs.RestrictProofs Proofs.SufficientProofs
  Proofs.CleanProofs Proofs.FingerprintProofs Proofs.CacheSim Proofs.CoveredDefs Proofs.CoveredProofs
  Proofs.AgreeProofs Proofs.C11Proofs Proofs.C10C01.

Notation evalN u fuel := (eval unit nc_find nc_store cfg_nc u fuel (fun _ _ => true)).
Notation keysN u fuel := (keys unit nc_find nc_store cfg_nc u fuel (fun _ _ => true)).

(** First sentence of the property: for any graph (of the covered expressions) and ANY finite
    sequence of operations evaluated against one long-lived instance of the graph — every cache
    shared along the sequence, whatever was evaluated earlier — each evaluation (and each
    validation, key inspection and explanation) returns the value, or fails, exactly as the same graph does
    with caching switched off for that dictionary.  [run_hist] threads the real memo store
    through the history; [ref_op] is the cache-free reference, each operation on its own.
    Hypothesis [hist_ok]: each operation's expression is covered for the operation's dictionary
    ([scoh], all about the cache-free semantics): every constructor except Map and
    AllOptions (Template nodes included); pre-set / default wrappers hand their sub-expression
    the overlaid dictionary; each cache id is used with one cached expression, which is in [frag];
    and every dictionary that reaches a cache site is [okd] — well formed, using no option name of the range the
    model reserves for Template parameters ([no_par]: names >= 10^6, a model artefact the harness
    never generates) and, for every cached
    expression, clean ([clean_at]: present options read are reported by keys(); the zones of
    D1/D3/D4/D9/D19 are excluded), free of stored generators (D21) and satisfying C10's agreement
    as far as Cached relies on it ([agree_at]); the effects switch LABREA.EFFECTS.DISABLED has one
    value [esw] along the history (it is consulted by every Computation without being part of any
    fingerprint: a value stored with effects off would otherwise be served where a raising effect
    should fail the evaluation).  Holds for every switch configuration [cfg] and every ghost oracle. *)
Theorem C01_history_transparent : forall u fuel cfg site_ok sites esw h,
  hist_ok u fuel sites esw h ->
  run_hist u fuel cfg site_ok h [] = map (ref_op u fuel) h.
Proof. exact history_transparent_from_empty. Qed.
Print Assumptions C01_history_transparent.

(** The same with C10's agreement PROVED instead of assumed ([agree_at] is one of the conjuncts of
    [okd]): when the cached expressions are in C10's fragment [pA] (Proofs/AgreeProofs.v), user code
    is total and fabricates no deferred failures, every option value resolves and no cached
    expression fails for a value outside its declared domain, the agreement follows from
    [C10_same_cause] (Proofs/C10C01.v) and the history theorem needs, per cache site, only: clean,
    no stored generator, stable effects switch ([hist_ok10]). *)
Theorem C01_history_transparent_C10 : forall u fuel sites esw, total_u u -> clean_u u ->
  forall cfg site_ok h, hist_ok10 u fuel sites esw h ->
  run_hist u fuel cfg site_ok h [] = map (ref_op u fuel) h.
Proof. exact history_transparent_C10. Qed.
Print Assumptions C01_history_transparent_C10.

(** The invariant behind it, for any starting store all of whose entries are correct, and the
    one-step simulation (evaluate, validate and keys at once) it is built from. *)
Theorem C01_history_transparent_from_sound_store : forall u fuel cfg site_ok sites esw h s,
  Sound u fuel sites esw s -> hist_ok u fuel sites esw h ->
  run_hist u fuel cfg site_ok h s = map (ref_op u fuel) h.
Proof. exact history_transparent. Qed.
Print Assumptions C01_history_transparent_from_sound_store.

Theorem C01_one_step_simulation : forall u fuel cfg site_ok sites esw e (D : dict -> Prop),
  scoh u fuel sites esw e D -> SimAll u fuel cfg site_ok sites esw e D.
Proof. exact sim_all. Qed.
Print Assumptions C01_one_step_simulation.

(** The hypotheses as a BOOLEAN checker ([scohb], Proofs/CoveredDefs.v): a history all of whose
    operations it accepts is transparent.  The harness evaluates it on every generated history
    (evidence: distribution.theorem_hypotheses) and applies this conclusion to the implementation
    as a strict oracle there.  [sites] is any function agreeing with the cache sites that occur in
    the expressions (each cache id with one cached expression). *)
Theorem C01_covered_history_transparent : forall u fuel cfg site_ok sites esw (es : list expr) (h : list hop),
  (forall c b, sites c = Some b -> In (c, b) (flat_map sites_of es)) ->
  (forall cb, In cb (flat_map sites_of es) -> sites (fst cb) = Some (snd cb)) ->
  (forall p, In p h -> In (hop_expr p) es /\
                       scohb u fuel esw (flat_map sites_of es) (hop_expr p) (hop_opts p) = true) ->
  run_hist u fuel cfg site_ok h [] = map (ref_op u fuel) h.
Proof. exact covered_history_transparent. Qed.
Print Assumptions C01_covered_history_transparent.

(** Consequently the switch configuration (labrea.cache.disabled(), labrea.logging.disabled()) and
    the ghost oracle do not enter any result of a covered history: with caching on or off, every
    operation answers alike (C16's value claim for the cache switch, at history level). *)
Theorem C01_history_independent_of_switches : forall u fuel cfg1 cfg2 so1 so2 sites esw h,
  hist_ok u fuel sites esw h ->
  run_hist u fuel cfg1 so1 h [] = run_hist u fuel cfg2 so2 h [].
Proof. exact history_independent_of_switches. Qed.
Print Assumptions C01_history_independent_of_switches.

(** Second sentence of the property.  A stored value can only be served for a dictionary with
    the same fingerprint as the one it was computed under; then the cache-free outcomes of the
    two dictionaries coincide: nothing the result depends on differs.  Side condition: both
    dictionaries are clean for the cached expression (computed predicate [clean_at]: every
    present option the evaluation reads is reported by keys(); false exactly in the zones of the
    known findings D1/D3/D4/D9/D19, refuted below). *)
Theorem C01_equal_fingerprint_equal_outcome : forall u fuel e o o' f,
  frag e = true -> wf_dict o = true -> wf_dict o' = true -> no_par o = true -> no_par o' = true ->
  clean_at u fuel e o = true -> clean_at u fuel e o' = true ->
  esw_stable u fuel e o -> esw_stable u fuel e o' -> effects_opt_off o' = effects_opt_off o ->
  fingerprintN u fuel e o = Ok f -> fingerprintN u fuel e o' = Ok f ->
  fst (fst (evalN u fuel e o' tt)) = fst (fst (evalN u fuel e o tt)).
Proof. exact equal_fingerprint_equal_outcome. Qed.
Print Assumptions C01_equal_fingerprint_equal_outcome.

(** The same, on the level of what is read: two dictionaries that agree on a key set that
    (i) is present in one of them and (ii) covers every present option either evaluation reads,
    evaluate alike. *)
Theorem C01_same_reported_same_outcome : forall u fuel e o o' K,
  frag e = true -> wf_dict o = true -> wf_dict o' = true -> no_par o = true -> no_par o' = true ->
  good_keys K -> all_present K o ->
  (forall k, In k K -> lookup k (JObj o') = lookup k (JObj o)) ->
  RR K o (snd (evalN u fuel e o tt)) -> RR K o' (snd (evalN u fuel e o' tt)) ->
  effects_opt_off (restrict o K) = effects_opt_off o ->
  effects_opt_off (restrict o' K) = effects_opt_off o' ->
  effects_opt_off o' = effects_opt_off o ->
  fst (fst (evalN u fuel e o' tt)) = fst (fst (evalN u fuel e o tt)).
Proof. exact same_reported_same_outcome. Qed.
Print Assumptions C01_same_reported_same_outcome.

(** ** Non-vacuity and the known finding D19 on the real store. *)
Definition kA : key := [SName 7].
Definition kB : key := [SName 8].
Definition u0 : N -> list value -> cres := fun f args => COk (VT f args).
Definition evalC := eval store mem_find mem_store cfg0 u0 10 (clean_at u0 10).

Definition e_ok : expr :=
  ESwitch (EOption kA None None)
          [(VJ (JInt 1), EOption kB None None); (VJ (JInt 2), EValue (VJ (JInt 5)))] None.
Definition o1 : dict := [(SName 7, JInt 1); (SName 8, JInt 9); (SName 9, JInt 0)].
Definition o2 : dict := [(SName 9, JInt 4); (SName 8, JInt 9); (SName 7, JInt 1)].

Example C01_hypotheses_satisfiable :
  frag e_ok = true /\ wf_dict o1 = true /\ wf_dict o2 = true /\
  clean_at u0 10 e_ok o1 = true /\ clean_at u0 10 e_ok o2 = true /\
  fingerprintN u0 10 e_ok o1 = Ok [(kA, JInt 1); (kB, JInt 9)] /\
  fingerprintN u0 10 e_ok o2 = Ok [(kA, JInt 1); (kB, JInt 9)] /\ o1 <> o2.
Proof. vm_compute. repeat split; congruence. Qed.


(** the same for a Template node with an option reference and a parameter: "x{A}{p}" with p = Option(B) *)
Definition e_tpl : expr := ETemplate [TLit 120; TRef kA; TPar 0] [(0%N, EOption kB None None)].
Example C01_template_hypotheses_satisfiable :
  frag e_tpl = true /\ wf_dict o1 = true /\ wf_dict o2 = true /\ no_par o1 = true /\ no_par o2 = true /\
  clean_at u0 10 e_tpl o1 = true /\ clean_at u0 10 e_tpl o2 = true /\
  fingerprintN u0 10 e_tpl o1 = Ok [(kA, JInt 1); (kB, JInt 9)] /\
  fingerprintN u0 10 e_tpl o2 = Ok [(kA, JInt 1); (kB, JInt 9)] /\ o1 <> o2 /\
  fst (fst (evalN u0 10 e_tpl o1 tt)) = Ok (VJ (JStr [TLit 120; TLit 49; TLit 57])).
Proof. vm_compute. repeat split; congruence. Qed.

(** a history on one long-lived dataset-shaped node — default options {B: 9} overlaid by the
    caller overlaid by pre-set options {Z: 1}, around the cache site — that satisfies the
    hypotheses: a miss, a hit under a dictionary that differs in an unrelated key and in key
    order, a miss for another dispatch value, a hit where B comes from the defaults, and validate
    / keys operations in between *)
Definition sites0 (c : N) : option expr := if N.eqb c 1 then Some e_ok else None.
Definition dflt0 : dict := [(SName 8, JInt 9)].
Definition pre0 : dict := [(SName 12, JInt 1)].
Definition ds0 : expr := EWith false dflt0 (EWith true pre0 (ECached (CMem 1) e_ok)).
Definition o3 : dict := [(SName 7, JInt 2)].
Definition o4 : dict := [(SName 7, JInt 1)].
Definition tops : list dict := [o1; o2; o3; o4].
Definition mid (o : dict) : dict := with_opts false dflt0 o.
Definition inner (o : dict) : dict := with_opts true pre0 (mid o).
Definition h0 : list hop :=
  [HEval ds0 o1; HEval ds0 o2; HKeys ds0 o2; HEval ds0 o3; HEval ds0 o4; HValidate ds0 o1; HExplain ds0 o4;
   HEval ds0 o1].

(** the dictionaries that reach the cache site are clean for the cached expression *)
Lemma okd0 o : In o (map inner tops) -> okd u0 10 sites0 false o.
Proof.
  intros Ho. split.
  - cbn in Ho. repeat (destruct Ho as [<-|Ho]; [reflexivity|]). destruct Ho.
  - split; [cbn in Ho; repeat (destruct Ho as [<-|Ho]; [reflexivity|]); destruct Ho|].
    split; [cbn in Ho; repeat (destruct Ho as [<-|Ho]; [reflexivity|]); destruct Ho|].
    intros c b Hs. unfold sites0 in Hs. destruct (N.eqb c 1); [|discriminate]. inversion Hs; subst b.
    cbn in Ho.
    repeat (destruct Ho as [<-|Ho]; [
        split; [vm_compute; reflexivity|];
        split; [split; [|split]; intros; match goal with H : _ = _ |- _ => vm_compute in H end;
                try discriminate; match goal with H : _ = _ |- _ => inversion H; subst end; vm_compute; reflexivity
               |split; [intros v H; vm_compute in H; try discriminate; inversion H; reflexivity
                       |intros K H; vm_compute in H; try discriminate; inversion H; subst; vm_compute; reflexivity]] |]).
    destruct Ho.
Qed.

Lemma scoh0 o : In o tops -> scoh u0 10 sites0 false ds0 (eq o).
Proof.
  intros Ho. cbn [ds0 scoh]. split; [reflexivity|]. split; [|split; [cbn; repeat split; reflexivity|reflexivity]].
  intros o' (o1' & (o0 & <- & ->) & ->). apply okd0. apply (in_map inner tops o Ho).
Qed.

Example C01_history_hypotheses_satisfiable :
  hist_ok u0 10 sites0 false h0 /\
  run_hist u0 10 cfg0 (clean_at u0 10) h0 [] =
    [OEval (Ok (VJ (JInt 9))); OEval (Ok (VJ (JInt 9))); OKeys (Ok [kB; kA]); OEval (Ok (VJ (JInt 5)));
     OEval (Ok (VJ (JInt 9))); OValidate (Ok tt); OExplain (Ok [kA]); OEval (Ok (VJ (JInt 9)))].
Proof.
  split; [|vm_compute; reflexivity].
  intros p Hp. unfold h0 in Hp.
  repeat (destruct Hp as [<-|Hp]; [apply scoh0; cbn; tauto|]). destruct Hp.
Qed.
Print Assumptions C01_history_hypotheses_satisfiable.

(** D19: the cached coalesce over a switch whose dispatch has a default.  {A:1}: member 1 reads
    A = 1, misses B, is passed over; 6 is stored under the EMPTY fingerprint.  {}: served 6 from
    the store although the cache-free evaluation yields 5. *)
Definition e_d19 : expr :=
  ECoalesce [ESwitch (EOption kA (Some (EValue (VJ (JInt 2)))) None)
                     [(VJ (JInt 1), EOption kB None None); (VJ (JInt 2), EValue (VJ (JInt 5)))] None;
             EValue (VJ (JInt 6))].

Theorem C01_transparency_refuted_D19 :
  exists e o o',
    frag e = true /\
    let '(r1, s1, _) := evalC (ECached (CMem 1) e) o [] in
    let '(r2, _, _) := evalC (ECached (CMem 1) e) o' s1 in
    r1 = Ok (VJ (JInt 6)) /\ r2 = Ok (VJ (JInt 6)) /\
    fst (fst (evalN u0 10 e o' tt)) = Ok (VJ (JInt 5)) /\
    clean_at u0 10 e o = false.
Proof.
  exists e_d19, [(SName 7, JInt 1)], []. vm_compute. repeat split; congruence.
Qed.
Print Assumptions C01_transparency_refuted_D19.

(** D4: an Option whose domain is itself an option.  The domain expression's key ALLOWED is read by
    the evaluation and reported by no keys(): {A:1, ALLOWED:[1,2]} stores 1 under the fingerprint
    {A:1}; {A:1, ALLOWED:[5]} is served 1 although the cache-free evaluation fails the domain
    check.  (The expression is inside [frag]; what excludes it from the theorems is [clean_at].) *)
Definition kL : key := [SName 13].
Definition e_d4 : expr := EOption kA None (Some (EOption kL None None)).

Theorem C01_transparency_refuted_D4 :
  exists e o o',
    frag e = true /\
    let '(r1, s1, _) := evalC (ECached (CMem 1) e) o [] in
    let '(r2, _, _) := evalC (ECached (CMem 1) e) o' s1 in
    r1 = Ok (VJ (JInt 1)) /\ r2 = Ok (VJ (JInt 1)) /\
    fst (fst (evalN u0 10 e o' tt)) = Err CDomain true /\
    clean_at u0 10 e o = false.
Proof.
  exists e_d4, [(SName 7, JInt 1); (SName 13, JList [JInt 1; JInt 2])], [(SName 7, JInt 1); (SName 13, JList [JInt 5])].
  vm_compute. repeat split; congruence.
Qed.
Print Assumptions C01_transparency_refuted_D4.

(** D24: the effects switch LABREA.EFFECTS.DISABLED is consulted by every Computation and is part
    of no fingerprint.  A dataset-shaped node whose effect raises: under {LABREA.EFFECTS.DISABLED:
    true} the effect is skipped and 1 is stored (fingerprint []); under {} the stored 1 is served
    although the cache-free evaluation fails in the effect.  Both dictionaries are clean
    ([clean_at]) — this is why the history theorem fixes one value [esw] of the switch along the
    history and the second-sentence theorems ask for [esw_stable] / equal switches. *)
Definition u_raise : N -> list value -> cres := fun f args => if N.eqb f 101 then CRaise 9 else COk (VT f args).
Definition e_d24 : expr := EComp (EValue (VJ (JInt 1))) [EValue (VF 101 [] [])].
Definition o_d24 : dict := [(SName A_LABREA, JObj [(SName A_EFFECTS, JObj [(SName A_DISABLED, JBool true)])])].

Theorem C01_transparency_refuted_effects_switch_D24 :
  exists u e o o',
    frag e = true /\ clean_at u 10 e o = true /\ clean_at u 10 e o' = true /\
    let '(r1, s1, _) := eval store mem_find mem_store cfg0 u 10 (clean_at u 10) (ECached (CMem 1) e) o [] in
    let '(r2, _, _) := eval store mem_find mem_store cfg0 u 10 (clean_at u 10) (ECached (CMem 1) e) o' s1 in
    r1 = Ok (VJ (JInt 1)) /\ r2 = Ok (VJ (JInt 1)) /\
    fst (fst (evalN u 10 e o' tt)) = Err (CUser 9) true /\
    effects_opt_off o = true /\ effects_opt_off o' = false.
Proof.
  exists u_raise, e_d24, o_d24, []. vm_compute. repeat split; congruence.
Qed.
Print Assumptions C01_transparency_refuted_effects_switch_D24.

(** D26: a pre-set dictionary INSIDE a cached expression (excluded from [frag]).  Default options
    {S: {X: 1}} around Option('S.X', default 9): under {S: []} the caller's list replaces the pre-set
    section, S.X is absent, the default 9 is the value and keys() = [] — the caller's entry S, on
    which the outcome depends, is reported nowhere; 9 is stored under the EMPTY fingerprint and served
    for {} although the cache-free evaluation yields the pre-set 1. *)
Definition kSX : key := [SName 20; SName 21].
Definition e_d26 : expr :=
  EWith false [(SName 20, JObj [(SName 21, JInt 1)])] (EOption kSX (Some (EValue (VJ (JInt 9)))) None).

Theorem C01_transparency_refuted_D26 :
  exists e o o',
    frag e = false /\
    let '(r1, s1, _) := evalC (ECached (CMem 1) e) o [] in
    let '(r2, _, _) := evalC (ECached (CMem 1) e) o' s1 in
    r1 = Ok (VJ (JInt 9)) /\ r2 = Ok (VJ (JInt 9)) /\
    fst (fst (evalN u0 10 e o' tt)) = Ok (VJ (JInt 1)) /\
    fst (fst (keysN u0 10 e o tt)) = Ok [] /\ fst (fst (keysN u0 10 e o' tt)) = Ok [].
Proof.
  exists e_d26, [(SName 20, JList [])], []. vm_compute. repeat split; congruence.
Qed.
Print Assumptions C01_transparency_refuted_D26.
