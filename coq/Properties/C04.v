(** C04 — Option resolution: present key wins (even falsy), else default, else error.
    Only statements closed by [exact], each followed by [Print Assumptions]. *)
From Coq Require Import List NArith ZArith Bool.
Import ListNotations.
From LV Require Import Model.Base Model.Template Model.Eval Model.Derived Model.EvalRun
  Proofs.BaseProofs Proofs.EvalProofs.

Section OptionResolution.
  Variable S : Type.
  Variable mem_find : N -> fp -> S -> option value.
  Variable mem_store : N -> fp -> value -> S -> S.
  Variable cfg : config.
  Variable ucall : N -> list value -> cres.
  Variable rfuel : nat.
  Variable site_ok : expr -> dict -> bool.
  Notation eval := (eval S mem_find mem_store cfg ucall rfuel site_ok).

  (** The key is present: the Option yields the value stored under it — whatever it is, falsy
      values included — with templated strings resolved against the same options. The default
      is not evaluated: the only events are option reads. *)
  Theorem C04_present_key_wins : forall k dflt raw j o s,
    lookup k (JObj o) = Found raw -> resolve rfuel o raw = ROk j ->
    exists l, eval (EOption k dflt None) o s = (Ok (VJ j), s, l) /\ forallb is_read l = true.
  Proof. exact (eval_option_present S mem_find mem_store cfg ucall rfuel site_ok). Qed.

  (** … and when the present value references an absent key, the error names THAT key; the
      default is not used (this was defect D5, repaired by fix 634ec72). *)
  Theorem C04_present_key_missing_reference : forall k dflt dom raw k' o s,
    lookup k (JObj o) = Found raw -> resolve rfuel o raw = RMissing k' ->
    exists l, eval (EOption k dflt dom) o s = (Err (CKey k') true, s, l) /\ forallb is_read l = true.
  Proof. exact (eval_option_missing_reference S mem_find mem_store cfg ucall rfuel site_ok). Qed.

  (** Only when the key is absent: the default (any evaluatable), evaluated under the same
      options … *)
  Theorem C04_absent_key_default : forall k d o s,
    lookup k (JObj o) = Absent ->
    eval (EOption k (Some d) None) o s =
      (let '(r, s', l) := eval d o s in (r, s', EvRead k false :: l)).
  Proof. exact (eval_option_absent_default S mem_find mem_store cfg ucall rfuel site_ok). Qed.

  (** … and with no default a missing-key error naming the key (an EvaluationError). *)
  Theorem C04_absent_key_no_default : forall k dom o s,
    lookup k (JObj o) = Absent ->
    eval (EOption k None dom) o s = (Err (CKey k) true, s, [EvRead k false]).
  Proof. exact (eval_option_absent_nodefault S mem_find mem_store cfg ucall rfuel site_ok). Qed.

  (** A value outside a declared domain is never returned. *)
  Theorem C04_domain_sound : forall k dflt de o s v s' l,
    eval (EOption k dflt (Some de)) o s = (Ok v, s', l) ->
    exists d s1 s2 l1, eval de o s1 = (Ok d, s2, l1) /\ accepts S ucall d v s2.
  Proof. exact (eval_option_domain_sound S mem_find mem_store cfg ucall rfuel site_ok). Qed.
End OptionResolution.
Print Assumptions C04_present_key_wins.
Print Assumptions C04_present_key_missing_reference.
Print Assumptions C04_absent_key_default.
Print Assumptions C04_absent_key_no_default.
Print Assumptions C04_domain_sound.

(** Option.set(options, value) = mix(options, {dotted key: value}): for a key of names and a
    non-mapping value the Option then finds exactly that value … *)
Theorem C04_set_then_get : forall k v o,
  k <> [] -> forallb is_name k = true -> wf_json v = true -> (forall m, v <> JObj m) ->
  lookup k (JObj (set_option k v o)) = Found v.
Proof. exact set_then_get. Qed.
Print Assumptions C04_set_then_get.

(** … every other key (neither a prefix nor an extension of it) keeps its value … *)
Theorem C04_set_keeps_other_keys : forall k k' v o w,
  diverge k k' = true -> forallb is_name k' = true ->
  lookup k' (JObj o) = Found w ->
  lookup k' (JObj (set_option k v o)) = Found w.
Proof. exact set_keeps_other_keys. Qed.
Print Assumptions C04_set_keeps_other_keys.

(** … and it is the dictionary [set_dotted_key] + [mix] build (the input being unmodified is a
    statement about Python object identity: decided by snapshots in the harness). *)
Theorem C04_set_is_mix_of_singleton : forall k v,
  k <> [] -> set_dotted k v [] = Some (as_dict (single k v)).
Proof. exact set_dotted_nil. Qed.
Print Assumptions C04_set_is_mix_of_singleton.

(** Non-vacuity: every falsy JSON value stored under a nested / list-indexed key is returned,
    not the default. *)
Example C04_falsy_values_win :
  let falsy := [JNull; JBool false; JInt 0; JStr []; JList []; JObj []] in
  let ev (k : key) (o : dict) :=
    fst (eval_nc (ucall_of []) 10 (EOption k (Some (EValue (VJ (JInt 99)))) None) o) in
  forallb (fun v =>
    match ev [SName 20; SName 21]%N [(SName 20, JObj [(SName 21, v)])]%N,
          ev [SName 30; SIdx 1]%N [(SName 30, JList [JInt 5; v])]%N with
    | Ok (VJ a), Ok (VJ b) => json_eqb a v && json_eqb b v
    | _, _ => false
    end) falsy = true.
Proof. vm_compute. reflexivity. Qed.

(** List-index keys cannot be *set* (finding D10): [set_dotted_key] writes the string '0'. *)
Example C04_set_list_index_refuted :
  let k := [SName 30; SIdx 0]%N in
  let o := [(SName 30, JList [JInt 1; JInt 2])]%N in
  lookup k (JObj (set_option k (JInt 9) o)) = Absent.
Proof. vm_compute. reflexivity. Qed.
