(** C04 — Option resolution: present key wins (even falsy), else default, else error.
    Only statements closed by [exact], each followed by [Print Assumptions]. *)
From Coq Require Import List NArith ZArith Bool.
Import ListNotations.
From LV Require Import Model.Base Model.Template Model.Eval Model.Derived Model.EvalRun
  Proofs.BaseProofs Proofs.EvalProofs Proofs.C09Proofs Proofs.C04Proofs.

Section OptionResolution.
  Variable S : Type.
  Variable mem_find : N -> fp -> S -> option value.
  Variable mem_store : N -> fp -> value -> S -> S.
  Variable cfg : config.
  Variable ucall : N -> list value -> cres.
  Variable rfuel : nat.
  Variable site_ok : expr -> dict -> bool.
  Notation eval := (eval S mem_find mem_store cfg ucall rfuel site_ok).

  (** The key is present: the Option yields the value stored under it — whatever it is, falsy
      values included — with templated strings resolved against the same options. The default
      is not evaluated: the only events are option reads. *)
  Theorem C04_present_key_wins : forall k dflt raw j o s,
    lookup k (JObj o) = Found raw -> resolve rfuel o raw = ROk j ->
    exists l, eval (EOption k dflt None) o s = (Ok (VJ j), s, l) /\ forallb is_read l = true.
  Proof. exact (eval_option_present S mem_find mem_store cfg ucall rfuel site_ok). Qed.

  (** … for a present value WITHOUT templated strings anywhere inside ([plain_json], the
      predicate of C09): the value as stored, only the escapes [\{] [\}] of its strings
      replaced ([unesc_json]); whatever the default; the exact log is the one read of [k].
      Every falsy value (None, False, 0, '', [], {}) is such a value. *)
  Theorem C04_present_plain_value_wins : forall k dflt raw o s,
    rfuel <> 0%nat -> lookup k (JObj o) = Found raw -> plain_json raw = true ->
    eval (EOption k dflt None) o s = (Ok (VJ (unesc_json raw)), s, [EvRead k true]).
  Proof. exact (present_plain_value_wins S mem_find mem_store cfg ucall rfuel site_ok). Qed.

  (** … which is the stored value itself when it holds no escape token *)
  Theorem C04_present_plain_escfree_value_wins : forall k dflt raw o s,
    rfuel <> 0%nat -> lookup k (JObj o) = Found raw -> plain_json raw = true -> esc_free raw = true ->
    eval (EOption k dflt None) o s = (Ok (VJ raw), s, [EvRead k true]).
  Proof. exact (present_plain_escfree_value_wins S mem_find mem_store cfg ucall rfuel site_ok). Qed.

  (** … and when the present value references an absent key, the error names THAT key; the
      default is not used (this was defect D5, repaired by fix 634ec72). *)
  Theorem C04_present_key_missing_reference : forall k dflt dom raw k' o s,
    lookup k (JObj o) = Found raw -> resolve rfuel o raw = RMissing k' ->
    exists l, eval (EOption k dflt dom) o s = (Err (CKey k') true, s, l) /\ forallb is_read l = true.
  Proof. exact (eval_option_missing_reference S mem_find mem_store cfg ucall rfuel site_ok). Qed.

  (** Only when the key is absent: the default (any evaluatable), evaluated under the same
      options … *)
  Theorem C04_absent_key_default : forall k d o s,
    lookup k (JObj o) = Absent ->
    eval (EOption k (Some d) None) o s =
      (let '(r, s', l) := eval d o s in (r, s', EvRead k false :: l)).
  Proof. exact (eval_option_absent_default S mem_find mem_store cfg ucall rfuel site_ok). Qed.

  (** … and with no default a missing-key error naming the key (an EvaluationError). *)
  Theorem C04_absent_key_no_default : forall k dom o s,
    lookup k (JObj o) = Absent ->
    eval (EOption k None dom) o s = (Err (CKey k) true, s, [EvRead k false]).
  Proof. exact (eval_option_absent_nodefault S mem_find mem_store cfg ucall rfuel site_ok). Qed.

  (** The domain.  An Option with a domain IS the Option without it (present key / default /
      missing-key error, above), THEN the domain expression evaluated under the same options in
      the state reached, THEN the membership check of the value; every failure is an
      EvaluationError. *)
  Theorem C04_domain_is_check_after_resolution : forall k dflt de o s,
    eval (EOption k dflt (Some de)) o s =
      match eval (EOption k dflt None) o s with
      | (Ok v, s0, l0) =>
          match eval de o s0 with
          | (Ok d, s1, l1) =>
              match in_domain S ucall d v s1 with
              | (Ok _, s2, l2) => (Ok v, s2, l0 ++ l1 ++ l2)
              | (Err c _, s2, l2) => (Err c true, s2, l0 ++ l1 ++ l2)
              end
          | (Err c _, s1, l1) => (Err c true, s1, l0 ++ l1)
          end
      | (Err c ee, s0, l0) => (Err c true, s0, l0)
      end.
  Proof. exact (domain_is_check_after_resolution S mem_find mem_store cfg ucall rfuel site_ok). Qed.

  (** the membership check, per kind of evaluated domain [d]:
      - a container (list / tuple / iterable value, JSON list): [v in d], else DomainError;
      - a predicate (function value): [bool(d(v))], DomainError when falsy, the predicate's own
        failure when it raises;
      - anything else is "not a valid domain": labrea warns and ACCEPTS the value. *)
  Theorem C04_in_domain_container : forall d els v s,
    is_fun d = false -> elements_of d = Some els ->
    in_domain S ucall d v s =
      (if existsb (fun x => value_eq v x) els then (Ok tt, s, []) else (Err CDomain false, s, [])).
  Proof. exact (in_domain_container S ucall). Qed.
  Theorem C04_in_domain_predicate : forall f pre post v s,
    in_domain S ucall (VF f pre post) v s =
      match call_value S ucall (VF f pre post) v s with
      | (Ok b, s1, l1) => if truthy b then (Ok tt, s1, l1) else (Err CDomain false, s1, l1)
      | (Err c ee, s1, l1) => (Err c ee, s1, l1)
      end.
  Proof. exact (in_domain_predicate S ucall). Qed.
  Theorem C04_in_domain_invalid : forall d v s,
    is_fun d = false -> elements_of d = None -> in_domain S ucall d v s = (Ok tt, s, []).
  Proof. exact (in_domain_invalid S ucall). Qed.

  (** [dom_accepts d v s s' l] spells the successful check out: predicate -> its call returns a
      truthy value (ending in [s'] with log [l]); container -> [v] is among its elements (store
      untouched, nothing logged); invalid domain -> accepted (store untouched, nothing logged) *)
  Theorem C04_dom_accepts_spec : forall d v s s' l,
    in_domain S ucall d v s = (Ok tt, s', l) <-> dom_accepts S ucall d v s s' l.
  Proof. exact (in_domain_ok_iff S ucall). Qed.

  (** "A value outside a declared domain is never returned" — and a value inside it is: the
      Option with a domain returns [v] IFF the Option without it returns [v], the domain
      evaluates (in the state reached, under the same options) to some [d], and [d] accepts [v];
      stores and logs chained. *)
  Theorem C04_domain_returns_iff : forall k dflt de o s v s' l,
    eval (EOption k dflt (Some de)) o s = (Ok v, s', l) <->
    exists s0 l0 d s1 l1 l2,
      eval (EOption k dflt None) o s = (Ok v, s0, l0) /\
      eval de o s0 = (Ok d, s1, l1) /\
      dom_accepts S ucall d v s1 s' l2 /\ l = l0 ++ l1 ++ l2.
  Proof. exact (domain_returns_iff S mem_find mem_store cfg ucall rfuel site_ok). Qed.

  Theorem C04_domain_sound : forall k dflt de o s v s' l,
    eval (EOption k dflt (Some de)) o s = (Ok v, s', l) ->
    exists s0 l0 d s1 l1 l2,
      eval (EOption k dflt None) o s = (Ok v, s0, l0) /\
      eval de o s0 = (Ok d, s1, l1) /\
      dom_accepts S ucall d v s1 s' l2 /\ l = l0 ++ l1 ++ l2.
  Proof.
    exact (fun k dflt de o s v s' l =>
             proj1 (domain_returns_iff S mem_find mem_store cfg ucall rfuel site_ok k dflt de o s v s' l)).
  Qed.

  (** closed forms: container domain — returned iff it is an element, else [Err CDomain] (an
      EvaluationError); predicate domain — returned iff the predicate's result is truthy *)
  Theorem C04_domain_container : forall k dflt de o s v s0 l0 d els s1 l1,
    eval (EOption k dflt None) o s = (Ok v, s0, l0) ->
    eval de o s0 = (Ok d, s1, l1) -> is_fun d = false -> elements_of d = Some els ->
    eval (EOption k dflt (Some de)) o s =
      (if existsb (fun x => value_eq v x) els then Ok v else Err CDomain true, s1, l0 ++ l1).
  Proof. exact (domain_container S mem_find mem_store cfg ucall rfuel site_ok). Qed.
  Theorem C04_domain_predicate : forall k dflt de o s v s0 l0 f pre post s1 l1,
    eval (EOption k dflt None) o s = (Ok v, s0, l0) ->
    eval de o s0 = (Ok (VF f pre post), s1, l1) ->
    eval (EOption k dflt (Some de)) o s =
      match call_value S ucall (VF f pre post) v s1 with
      | (Ok b, s2, l2) => (if truthy b then Ok v else Err CDomain true, s2, l0 ++ l1 ++ l2)
      | (Err c _, s2, l2) => (Err c true, s2, l0 ++ l1 ++ l2)
      end.
  Proof. exact (domain_predicate S mem_find mem_store cfg ucall rfuel site_ok). Qed.

  (** Option.set then evaluate: after [Option.set(options, v)] with a name-only key and a
      non-mapping, template-free value, the Option (no default, no domain) evaluates to [v] *)
  Theorem C04_set_then_evaluate : forall k v o s,
    rfuel <> 0%nat ->
    k <> [] -> forallb is_name k = true -> wf_json v = true -> (forall m, v <> JObj m) ->
    plain_json v = true ->
    eval (EOption k None None) (set_option k v o) s = (Ok (VJ (unesc_json v)), s, [EvRead k true]).
  Proof. exact (set_then_evaluate S mem_find mem_store cfg ucall rfuel site_ok). Qed.
End OptionResolution.
Print Assumptions C04_present_key_wins.
Print Assumptions C04_present_key_missing_reference.
Print Assumptions C04_absent_key_default.
Print Assumptions C04_absent_key_no_default.
Print Assumptions C04_present_plain_value_wins.
Print Assumptions C04_present_plain_escfree_value_wins.
Print Assumptions C04_domain_is_check_after_resolution.
Print Assumptions C04_in_domain_container.
Print Assumptions C04_in_domain_predicate.
Print Assumptions C04_in_domain_invalid.
Print Assumptions C04_dom_accepts_spec.
Print Assumptions C04_domain_returns_iff.
Print Assumptions C04_domain_sound.
Print Assumptions C04_domain_container.
Print Assumptions C04_domain_predicate.
Print Assumptions C04_set_then_evaluate.

(** Option.set(options, value) = mix(options, {dotted key: value}): for a key of names and a
    non-mapping value the Option then finds exactly that value … *)
Theorem C04_set_then_get : forall k v o,
  k <> [] -> forallb is_name k = true -> wf_json v = true -> (forall m, v <> JObj m) ->
  lookup k (JObj (set_option k v o)) = Found v.
Proof. exact set_then_get. Qed.
Print Assumptions C04_set_then_get.

(** … every other key (neither a prefix nor an extension of it) keeps its value … *)
Theorem C04_set_keeps_other_keys : forall k k' v o w,
  diverge k k' = true -> forallb is_name k' = true ->
  lookup k' (JObj o) = Found w ->
  lookup k' (JObj (set_option k v o)) = Found w.
Proof. exact set_keeps_other_keys. Qed.
Print Assumptions C04_set_keeps_other_keys.

(** … and it is the dictionary [set_dotted_key] + [mix] build (the input being unmodified is a
    statement about Python object identity: decided by snapshots in the harness). *)
Theorem C04_set_is_mix_of_singleton : forall k v,
  k <> [] -> set_dotted k v [] = Some (as_dict (BaseProofs.single k v)).
Proof. exact set_dotted_nil. Qed.
Print Assumptions C04_set_is_mix_of_singleton.

(** Non-vacuity: every falsy JSON value stored under a nested / list-indexed key is returned,
    not the default. *)
Example C04_falsy_values_win :
  let falsy := [JNull; JBool false; JInt 0; JStr []; JList []; JObj []] in
  let ev (k : key) (o : dict) :=
    fst (eval_nc (ucall_of []) 10 (EOption k (Some (EValue (VJ (JInt 99)))) None) o) in
  forallb (fun v =>
    match ev [SName 20; SName 21]%N [(SName 20, JObj [(SName 21, v)])]%N,
          ev [SName 30; SIdx 1]%N [(SName 30, JList [JInt 5; v])]%N with
    | Ok (VJ a), Ok (VJ b) => json_eqb a v && json_eqb b v
    | _, _ => false
    end) falsy = true.
Proof. vm_compute. reflexivity. Qed.
Print Assumptions C04_falsy_values_win.

(** every falsy value meets the hypotheses of [C04_present_plain_escfree_value_wins] *)
Example C04_falsy_values_are_plain :
  forallb (fun v => plain_json v && esc_free v)
          [JNull; JBool false; JInt 0; JStr []; JList []; JObj []; JList [JStr []; JObj []]] = true.
Proof. vm_compute. reflexivity. Qed.
Print Assumptions C04_falsy_values_are_plain.

(** domains, computed: container domain [0, 1] — the falsy member 0 is returned, 3 is refused
    with a domain error, and so is a DEFAULT outside the domain; predicate domain (== 1) — 1 is
    returned, 0 refused; the domain given as an Option is read from the same dictionary *)
Example C04_domain_instances :
  let ev (t : ftable) (e : expr) (o : dict) := fst (eval_nc (ucall_of t) 10 e o) in
  let K := [SName 20]%N in
  let dom01 := Some (EValue (VJ (JList [JInt 0; JInt 1]))) in
  let pred := Some (EValue (VF 100 [] [])) in
  let t := [(100%N, FEq (VJ (JInt 1)))] in
  ev [] (EOption K None dom01) [(SName 20, JInt 0)]%N = Ok (VJ (JInt 0)) /\
  ev [] (EOption K None dom01) [(SName 20, JInt 3)]%N = Err CDomain true /\
  ev [] (EOption K (Some (EValue (VJ (JInt 7)))) dom01) [] = Err CDomain true /\
  ev [] (EOption K (Some (EValue (VJ (JInt 1)))) dom01) [] = Ok (VJ (JInt 1)) /\
  ev t (EOption K None pred) [(SName 20, JInt 1)]%N = Ok (VJ (JInt 1)) /\
  ev t (EOption K None pred) [(SName 20, JInt 0)]%N = Err CDomain true /\
  ev [] (EOption K None (Some (EOption [SName 21]%N None None)))
        [(SName 20, JInt 5); (SName 21, JList [JInt 5])]%N = Ok (VJ (JInt 5)) /\
  ev [] (EOption K None (Some (EOption [SName 21]%N None None)))
        [(SName 20, JInt 5); (SName 21, JList [JInt 6])]%N = Err CDomain true.
Proof. vm_compute. repeat split; reflexivity. Qed.
Print Assumptions C04_domain_instances.

(** Option.set then evaluate, computed: nested name key, falsy value, other keys intact *)
Example C04_set_then_evaluate_instance :
  let k := [SName 20; SName 21]%N in
  let o := [(SName 20, JObj [(SName 22, JInt 4)]); (SName 23, JStr [])]%N in
  forallb (fun v =>
    match fst (eval_nc (ucall_of []) 10 (EOption k None None) (set_option k v o)),
          fst (eval_nc (ucall_of []) 10 (EOption [SName 20; SName 22]%N None None) (set_option k v o)) with
    | Ok (VJ a), Ok (VJ b) => json_eqb a v && json_eqb b (JInt 4)
    | _, _ => false
    end) [JNull; JBool false; JInt 0; JStr []; JList []] = true.
Proof. vm_compute. reflexivity. Qed.
Print Assumptions C04_set_then_evaluate_instance.

(** List-index keys cannot be *set* (finding D10): [set_dotted_key] writes the string '0'. *)
Theorem C04_set_list_index_refuted :
  let k := [SName 30; SIdx 0]%N in
  let o := [(SName 30, JList [JInt 1; JInt 2])]%N in
  lookup k (JObj (set_option k (JInt 9) o)) = Absent.
Proof. vm_compute. reflexivity. Qed.
Print Assumptions C04_set_list_index_refuted.
