(** C08 — pre-set options override, defaults yield, sections merge; inputs never mutated.
    Only statements closed by [exact], each followed by [Print Assumptions]. *)
From Coq Require Import List NArith ZArith Bool.
Import ListNotations.
From LV Require Import Model.Base Model.Template Model.Eval Model.Derived Proofs.BaseProofs Proofs.EvalProofs.

(** ** What "o overlaid by P" is: [mix o P], characterised by what a dotted-key lookup finds in
    it.  One step along the key: an index segment never addresses a dictionary; where P has
    nothing the caller's entry is used; where P has a section the two sections are merged
    (recursively); otherwise P's value wins. *)
Theorem C08_lookup_in_overlay : forall s k' o p,
  nodup_keys p = true ->
  lookup (s :: k') (JObj (mix o p)) =
    match s with
    | SIdx _ => Absent
    | SName _ =>
        match dget s p with
        | None => lookup (s :: k') (JObj o)
        | Some (JObj sub) =>
            lookup k' (JObj (mix (as_dict (match dget s o with Some d => d | None => JObj [] end)) sub))
        | Some v => lookup k' v
        end
    end.
Proof. exact lookup_mix_step. Qed.
Print Assumptions C08_lookup_in_overlay.

(** P wins: a key to which P gives a non-section value has that value in the overlay. *)
Theorem C08_preset_wins : forall k o p v,
  wf_json (JObj p) = true ->
  lookup k (JObj p) = Found v -> (forall m, v <> JObj m) -> k <> [] ->
  lookup k (JObj (mix o p)) = Found v.
Proof. exact lookup_mix_preset_wins. Qed.
Print Assumptions C08_preset_wins.

(** nested sections are merged key by key *)
Theorem C08_sections_merge : forall k o p so sp,
  wf_json (JObj p) = true -> forallb is_name k = true ->
  lookup k (JObj o) = Found (JObj so) -> lookup k (JObj p) = Found (JObj sp) ->
  lookup k (JObj (mix o p)) = Found (JObj (mix so sp)).
Proof. exact lookup_mix_sections_merge. Qed.
Print Assumptions C08_sections_merge.

(** what P does not mention is the caller's *)
Theorem C08_untouched_keys_are_the_callers : forall s k' o p,
  nodup_keys p = true -> dget s p = None ->
  lookup (s :: k') (JObj (mix o p)) = lookup (s :: k') (JObj o).
Proof. exact lookup_mix_untouched. Qed.
Print Assumptions C08_untouched_keys_are_the_callers.

Section Wrappers.
  (* for every store, store operations, switch configuration, user code, budget, ghost oracle *)
  Variable S : Type.
  Variable mem_find : N -> fp -> S -> option value.
  Variable mem_store : N -> fp -> value -> S -> S.
  Variable cfg : config.
  Variable ucall : N -> list value -> cres.
  Variable rfuel : nat.
  Variable site_ok : expr -> dict -> bool.
  Notation eval := (eval S mem_find mem_store cfg ucall rfuel site_ok).
  Notation validate := (validate S mem_find mem_store cfg ucall rfuel site_ok).
  Notation keys := (keys S mem_find mem_store cfg ucall rfuel site_ok).
  Notation explain := (explain S mem_find mem_store cfg ucall rfuel site_ok).

  (** forced: X under o overlaid by P (P wins); default: X under D overlaid by o (o wins) — as
      whole computations: same result, same store effects, same events, from every state *)
  Theorem C08_with_forced : forall p e o s, eval (EWith true p e) o s = eval e (mix o p) s.
  Proof. exact (fun p e o => eval_with S mem_find mem_store cfg ucall rfuel site_ok true p e o). Qed.

  Theorem C08_with_default : forall d e o s, eval (EWith false d e) o s = eval e (mix d o) s.
  Proof. exact (fun d e o => eval_with S mem_find mem_store cfg ucall rfuel site_ok false d e o). Qed.

  Theorem C08_validate_with : forall f p e o s,
    validate (EWith f p e) o s = validate e (with_opts f p o) s.
  Proof. exact (validate_with S mem_find mem_store cfg ucall rfuel site_ok). Qed.

  (** keys()/explain() of a wrapper: the wrapped object's under the overlay, minus the keys
      whose value the pre-set options fully determine *)
  Theorem C08_keys_with : forall f p e o s,
    keys (EWith f p e) o s =
      bind S (keys e (with_opts f p o)) (fun ks => filter_preset S f p o (with_opts f p o) ks) s.
  Proof. exact (keys_with S mem_find mem_store cfg ucall rfuel site_ok). Qed.

  Theorem C08_explain_with : forall f p e o s,
    explain (EWith f p e) o s =
      bind S (explain e (with_opts f p o)) (fun ks => filter_preset S f p o (with_opts f p o) ks) s.
  Proof. exact (explain_with S mem_find mem_store cfg ucall rfuel site_ok). Qed.

  (** the dataset decorator's options / default_options, whatever callback, effects, dispatch
      or cache the dataset has *)
  Theorem C08_dataset_options : forall d o s,
    eval (dataset_expr d) o s =
      eval (ECached d.(ds_cache) (ELogged (if d.(ds_effects_disabled)
                                             then EApply (ESwitch d.(ds_dispatch) d.(ds_table) d.(ds_default)) d.(ds_callback)
                                             else EComp (EApply (ESwitch d.(ds_dispatch) d.(ds_table) d.(ds_default)) d.(ds_callback)) d.(ds_effects))))
           (mix (mix d.(ds_default_options) o) d.(ds_options)) s.
  Proof. exact (eval_dataset S mem_find mem_store cfg ucall rfuel site_ok). Qed.

  (** with_options / with_default_options: the SAME body, callback, effects, dispatch, table and
      cache under the merged pre-set / default options *)
  Theorem C08_with_options_derivative : forall d p o s,
    d.(ds_effects_disabled) = false ->
    eval (dataset_expr (ds_with_options d p)) o s =
      eval (ECached d.(ds_cache) (ELogged (EComp (EApply (ESwitch d.(ds_dispatch) d.(ds_table) d.(ds_default)) d.(ds_callback)) d.(ds_effects))))
           (mix (mix d.(ds_default_options) o) (mix d.(ds_options) p)) s.
  Proof. exact (fun d p o s H => eval_with_options_derivative S mem_find mem_store cfg ucall rfuel site_ok d p o H s). Qed.

  Theorem C08_with_default_options_derivative : forall d p o s,
    eval (dataset_expr (ds_with_default_options d p)) o s =
      eval (ECached d.(ds_cache) (ELogged (EComp (EApply (ESwitch d.(ds_dispatch) d.(ds_table) d.(ds_default)) d.(ds_callback)) d.(ds_effects))))
           (mix (mix (mix d.(ds_default_options) p) o) d.(ds_options)) s.
  Proof. exact (eval_with_default_options_derivative S mem_find mem_store cfg ucall rfuel site_ok). Qed.

  (** nesting composes, to any depth *)
  Theorem C08_nesting_composes : forall ws e o s,
    eval (wrap_all ws e) o s = eval e (overlay_all ws o) s.
  Proof. exact (eval_wrap_all S mem_find mem_store cfg ucall rfuel site_ok). Qed.

  Theorem C08_nesting_composes_validate : forall ws e o s,
    validate (wrap_all ws e) o s = validate e (overlay_all ws o) s.
  Proof. exact (validate_wrap_all S mem_find mem_store cfg ucall rfuel site_ok). Qed.
End Wrappers.
Print Assumptions C08_with_forced.
Print Assumptions C08_with_default.
Print Assumptions C08_validate_with.
Print Assumptions C08_keys_with.
Print Assumptions C08_explain_with.
Print Assumptions C08_dataset_options.
Print Assumptions C08_with_options_derivative.
Print Assumptions C08_with_default_options_derivative.
Print Assumptions C08_nesting_composes.
Print Assumptions C08_nesting_composes_validate.

(** Non-vacuity: P, D and o overlapping inside one section. *)
Example C08_overlay_example :
  let o := [(SName 20, JObj [(SName 21, JInt 1); (SName 22, JInt 2)]); (SName 10, JInt 7)]%N in
  let p := [(SName 20, JObj [(SName 22, JInt 9); (SName 23, JInt 3)])]%N in
  wf_json (JObj p) = true /\
  lookup [SName 20; SName 21]%N (JObj (mix o p)) = Found (JInt 1) /\
  lookup [SName 20; SName 22]%N (JObj (mix o p)) = Found (JInt 9) /\
  lookup [SName 20; SName 23]%N (JObj (mix o p)) = Found (JInt 3) /\
  lookup [SName 10]%N (JObj (mix o p)) = Found (JInt 7) /\
  lookup [SName 20; SName 22]%N (JObj (mix p o)) = Found (JInt 2).
Proof. vm_compute. repeat split. Qed.

(** mix is NOT associative when a scalar meets a section, which is why the derivative theorems
    state the exact bracketing the code uses. *)
Example C08_mix_not_associative :
  let a := [(SName 20, JObj [(SName 21, JInt 1)])]%N in
  let b := [(SName 20, JInt 5)]%N in
  let c := [(SName 20, JObj [(SName 22, JInt 2)])]%N in
  mix (mix a b) c <> mix a (mix b c).
Proof. vm_compute. discriminate. Qed.
