(** C08 — pre-set options override, defaults yield, sections merge; inputs never mutated.
    Three groups of statements:
    (i)   what "o overlaid by P" is: the lookup theory of [mix] (induction on the key);
    (ii)  MODEL CLAUSES: the wrapper theorems [C08_with_forced] … [C08_nesting_composes_validate]
          restate (unfold) the model's clause [eval (EWith force p e) o = eval e (with_opts force p o)]
          and its siblings — they say which dictionary the model evaluates under, nothing more;
    (iii) EVALUATION-LEVEL theorems (Proofs/C08Eval.v), which combine (ii) with (i): what an Option,
          a whole section, a dataset with options=/default_options=, keys(), and any expression of
          the frame fragment yield under a wrapper, in terms of the pre-set dictionary and the
          caller's dictionary separately.
    Only statements closed by [exact], each followed by [Print Assumptions]. *)
From Coq Require Import List NArith ZArith Bool.
Import ListNotations.
From LV Require Import Model.Base Model.Template Model.Eval Model.Derived Model.EvalRun Model.Spec
  Proofs.BaseProofs Proofs.EvalProofs Proofs.FrameProofs Proofs.TemplateFrame Proofs.C08Overlay Proofs.C08Eval Proofs.C08Idem.

(** ** (i) What "o overlaid by P" is: [mix o P], characterised by what a dotted-key lookup finds in
    it.  One step along the key: an index segment never addresses a dictionary; where P has
    nothing the caller's entry is used; where P has a section the two sections are merged
    (recursively); otherwise P's value wins. *)
Theorem C08_lookup_in_overlay : forall s k' o p,
  nodup_keys p = true ->
  lookup (s :: k') (JObj (mix o p)) =
    match s with
    | SIdx _ => Absent
    | SName _ =>
        match dget s p with
        | None => lookup (s :: k') (JObj o)
        | Some (JObj sub) =>
            lookup k' (JObj (mix (as_dict (match dget s o with Some d => d | None => JObj [] end)) sub))
        | Some v => lookup k' v
        end
    end.
Proof. exact lookup_mix_step. Qed.
Print Assumptions C08_lookup_in_overlay.

(** P wins: a key to which P gives a non-section value has that value in the overlay. *)
Theorem C08_preset_wins : forall k o p v,
  wf_json (JObj p) = true ->
  lookup k (JObj p) = Found v -> (forall m, v <> JObj m) -> k <> [] ->
  lookup k (JObj (mix o p)) = Found v.
Proof. exact lookup_mix_preset_wins. Qed.
Print Assumptions C08_preset_wins.

(** nested sections are merged key by key *)
Theorem C08_sections_merge : forall k o p so sp,
  wf_json (JObj p) = true -> forallb is_name k = true ->
  lookup k (JObj o) = Found (JObj so) -> lookup k (JObj p) = Found (JObj sp) ->
  lookup k (JObj (mix o p)) = Found (JObj (mix so sp)).
Proof. exact lookup_mix_sections_merge. Qed.
Print Assumptions C08_sections_merge.

(** what P does not mention is the caller's *)
Theorem C08_untouched_keys_are_the_callers : forall s k' o p,
  nodup_keys p = true -> dget s p = None ->
  lookup (s :: k') (JObj (mix o p)) = lookup (s :: k') (JObj o).
Proof. exact lookup_mix_untouched. Qed.
Print Assumptions C08_untouched_keys_are_the_callers.

(** ** (ii) Model clauses: under which dictionary the model evaluates a wrapper (unfoldings of
    the clauses of Model/Eval.v and of [dataset_expr]; the content is in (i) and (iii)). *)
Section Wrappers.
  (* for every store, store operations, switch configuration, user code, budget, ghost oracle *)
  Variable S : Type.
  Variable mem_find : N -> fp -> S -> option value.
  Variable mem_store : N -> fp -> value -> S -> S.
  Variable cfg : config.
  Variable ucall : N -> list value -> cres.
  Variable rfuel : nat.
  Variable site_ok : expr -> dict -> bool.
  Notation eval := (eval S mem_find mem_store cfg ucall rfuel site_ok).
  Notation validate := (validate S mem_find mem_store cfg ucall rfuel site_ok).
  Notation keys := (keys S mem_find mem_store cfg ucall rfuel site_ok).
  Notation explain := (explain S mem_find mem_store cfg ucall rfuel site_ok).

  (** forced: X under o overlaid by P (P wins); default: X under D overlaid by o (o wins) — as
      whole computations: same result, same store effects, same events, from every state *)
  Theorem C08_with_forced : forall p e o s, eval (EWith true p e) o s = eval e (mix o p) s.
  Proof. exact (fun p e o => eval_with S mem_find mem_store cfg ucall rfuel site_ok true p e o). Qed.

  Theorem C08_with_default : forall d e o s, eval (EWith false d e) o s = eval e (mix d o) s.
  Proof. exact (fun d e o => eval_with S mem_find mem_store cfg ucall rfuel site_ok false d e o). Qed.

  Theorem C08_validate_with : forall f p e o s,
    validate (EWith f p e) o s = validate e (with_opts f p o) s.
  Proof. exact (validate_with S mem_find mem_store cfg ucall rfuel site_ok). Qed.

  (** keys()/explain() of a wrapper: the wrapped object's under the overlay, minus the keys
      whose value the pre-set options fully determine *)
  Theorem C08_keys_with : forall f p e o s,
    keys (EWith f p e) o s =
      bind S (keys e (with_opts f p o)) (fun ks => filter_preset S f p o (with_opts f p o) ks) s.
  Proof. exact (keys_with S mem_find mem_store cfg ucall rfuel site_ok). Qed.

  Theorem C08_explain_with : forall f p e o s,
    explain (EWith f p e) o s =
      bind S (explain e (with_opts f p o)) (fun ks => filter_preset S f p o (with_opts f p o) ks) s.
  Proof. exact (explain_with S mem_find mem_store cfg ucall rfuel site_ok). Qed.

  (** the dataset decorator's options / default_options, whatever callback, effects, dispatch
      or cache the dataset has *)
  Theorem C08_dataset_options : forall d o s,
    eval (dataset_expr d) o s =
      eval (ECached d.(ds_cache) (ELogged (if d.(ds_effects_disabled)
                                             then EApply (ESwitch d.(ds_dispatch) d.(ds_table) d.(ds_default)) d.(ds_callback)
                                             else EComp (EApply (ESwitch d.(ds_dispatch) d.(ds_table) d.(ds_default)) d.(ds_callback)) d.(ds_effects))))
           (mix (mix d.(ds_default_options) o) d.(ds_options)) s.
  Proof. exact (eval_dataset S mem_find mem_store cfg ucall rfuel site_ok). Qed.

  (** with_options / with_default_options: the SAME body, callback, effects, dispatch, table and
      cache under the merged pre-set / default options *)
  Theorem C08_with_options_derivative : forall d p o s,
    d.(ds_effects_disabled) = false ->
    eval (dataset_expr (ds_with_options d p)) o s =
      eval (ECached d.(ds_cache) (ELogged (EComp (EApply (ESwitch d.(ds_dispatch) d.(ds_table) d.(ds_default)) d.(ds_callback)) d.(ds_effects))))
           (mix (mix d.(ds_default_options) o) (mix d.(ds_options) p)) s.
  Proof. exact (fun d p o s H => eval_with_options_derivative S mem_find mem_store cfg ucall rfuel site_ok d p o H s). Qed.

  Theorem C08_with_default_options_derivative : forall d p o s,
    eval (dataset_expr (ds_with_default_options d p)) o s =
      eval (ECached d.(ds_cache) (ELogged (EComp (EApply (ESwitch d.(ds_dispatch) d.(ds_table) d.(ds_default)) d.(ds_callback)) d.(ds_effects))))
           (mix (mix (mix d.(ds_default_options) p) o) d.(ds_options)) s.
  Proof. exact (eval_with_default_options_derivative S mem_find mem_store cfg ucall rfuel site_ok). Qed.

  (** nesting composes, to any depth *)
  Theorem C08_nesting_composes : forall ws e o s,
    eval (wrap_all ws e) o s = eval e (overlay_all ws o) s.
  Proof. exact (eval_wrap_all S mem_find mem_store cfg ucall rfuel site_ok). Qed.

  Theorem C08_nesting_composes_validate : forall ws e o s,
    validate (wrap_all ws e) o s = validate e (overlay_all ws o) s.
  Proof. exact (validate_wrap_all S mem_find mem_store cfg ucall rfuel site_ok). Qed.

  (** re-wrapping in the forced options a graph is already wrapped in changes nothing: same result,
      same store effects, same events, from every state; likewise for validate *)
  Theorem C08_forced_twice_is_once : forall p e o s,
    wf_dict p = true -> eval (EWith true p (EWith true p e)) o s = eval (EWith true p e) o s.
  Proof. exact (eval_forced_twice S mem_find mem_store cfg ucall rfuel site_ok). Qed.

  Theorem C08_forced_twice_is_once_validate : forall p e o s,
    wf_dict p = true -> validate (EWith true p (EWith true p e)) o s = validate (EWith true p e) o s.
  Proof. exact (validate_forced_twice S mem_find mem_store cfg ucall rfuel site_ok). Qed.
End Wrappers.
Print Assumptions C08_forced_twice_is_once.
Print Assumptions C08_forced_twice_is_once_validate.
Print Assumptions C08_with_forced.
Print Assumptions C08_with_default.
Print Assumptions C08_validate_with.
Print Assumptions C08_keys_with.
Print Assumptions C08_explain_with.
Print Assumptions C08_dataset_options.
Print Assumptions C08_with_options_derivative.
Print Assumptions C08_with_default_options_derivative.
Print Assumptions C08_nesting_composes.
Print Assumptions C08_nesting_composes_validate.

(** ** (i, continued) keys an overlay leaves alone.  [untouched k p]: walking [k] through [p]
    meets sections only, until a name [p] lacks — [p] gives a value to no prefix and no extension
    of [k].  Such a key is answered by the overlay as by the caller (unless the caller has a SCALAR
    where [p] has a section: there the caller alone raises TypeError, the overlay KeyError). *)
Theorem C08_untouched_keys_are_the_callers_deep : forall k o p,
  wf_json (JObj p) = true -> forallb is_name k = true -> untouched k p = true ->
  lookup k (JObj o) <> TypeErr ->
  lookup k (JObj (mix o p)) = lookup k (JObj o).
Proof. exact lookup_mix_untouched_deep. Qed.
Print Assumptions C08_untouched_keys_are_the_callers_deep.

Theorem C08_overlay_well_formed : forall o p,
  wf_dict o = true -> wf_dict p = true -> wf_dict (mix o p) = true.
Proof. exact wf_mix. Qed.
Print Assumptions C08_overlay_well_formed.

(** overlaying the same pre-set dictionary twice is overlaying it once — the very same dictionary,
    entry for entry and in the same order, whatever the caller supplies and however deep P nests *)
Theorem C08_preset_twice_is_once : forall o p, wf_dict p = true -> mix (mix o p) p = mix o p.
Proof. exact mix_idem. Qed.
Print Assumptions C08_preset_twice_is_once.

(** pre-set options equal to the caller's own change nothing *)
Theorem C08_overlay_with_itself : forall o, wf_dict o = true -> mix o o = o.
Proof. exact mix_self. Qed.
Print Assumptions C08_overlay_with_itself.

(** a member of a section both sides have is looked up in the merge of the two sections *)
Theorem C08_section_member : forall k k2 a b sa sb,
  wf_json (JObj b) = true -> forallb is_name k = true ->
  lookup k (JObj a) = Found (JObj sa) -> lookup k (JObj b) = Found (JObj sb) ->
  lookup (k ++ k2) (JObj (mix a b)) = lookup k2 (JObj (mix sa sb)).
Proof. exact lookup_mix_section_member. Qed.
Print Assumptions C08_section_member.

(** the three layers of a dataset: default_options [D] yield to the caller [o], which yields to
    options [P] — a lookup in the dictionary of [C08_dataset_options] *)
Theorem C08_dataset_layers_lookup : forall k D o P,
  wf_dict P = true -> wf_dict o = true -> k <> [] ->
  (forall v, lookup k (JObj P) = Found v -> (forall m, v <> JObj m) ->
     lookup k (JObj (mix (mix D o) P)) = Found v) /\
  (forall v, forallb is_name k = true -> untouched k P = true ->
     lookup k (JObj o) = Found v -> (forall m, v <> JObj m) ->
     lookup k (JObj (mix (mix D o) P)) = Found v) /\
  (forall r, forallb is_name k = true -> untouched k P = true -> untouched k o = true ->
     lookup k (JObj D) = r -> r <> TypeErr ->
     lookup k (JObj (mix (mix D o) P)) = r).
Proof. exact dataset_layers_lookup. Qed.
Print Assumptions C08_dataset_layers_lookup.

(** ** (iii) Evaluation-level theorems.  [is_atom v]: None / bool / int / float (no template to
    resolve, no section to merge). *)
Section EvalLevel.
  (* for every store, store operations, switch configuration, user code, budget, ghost oracle *)
  Variable St : Type.
  Variable mem_find : N -> fp -> St -> option value.
  Variable mem_store : N -> fp -> value -> St -> St.
  Variable cfg : config.
  Variable ucall : N -> list value -> cres.
  Variable rfuel : nat.
  Variable site_ok : expr -> dict -> bool.
  Notation eval := (eval St mem_find mem_store cfg ucall rfuel site_ok).
  Notation keys := (keys St mem_find mem_store cfg ucall rfuel site_ok).
  Notation is_read := EvalProofs.is_read.

  (** (1) forced: a key to which P gives a non-section value evaluates to that value (resolved
      against the overlay), WHATEVER the caller says about it; for an atom, as a whole
      computation: the value, the store untouched, one read *)
  Theorem C08_eval_forced_preset_wins : forall p k dflt v j o s,
    wf_dict p = true -> k <> [] -> lookup k (JObj p) = Found v -> (forall m, v <> JObj m) ->
    resolve rfuel (mix o p) v = ROk j ->
    exists l, eval (EWith true p (EOption k dflt None)) o s = (Ok (VJ j), s, l) /\ forallb is_read l = true.
  Proof. exact (with_forced_option_preset St mem_find mem_store cfg ucall rfuel site_ok). Qed.

  Theorem C08_eval_forced_preset_wins_atom : forall p k dflt v o s f,
    rfuel = S f -> wf_dict p = true -> k <> [] -> lookup k (JObj p) = Found v -> is_atom v = true ->
    eval (EWith true p (EOption k dflt None)) o s = (Ok (VJ v), s, [EvRead k true]).
  Proof. exact (with_forced_option_preset_atom St mem_find mem_store cfg ucall rfuel site_ok). Qed.

  (** … a key of which P touches no prefix and no extension evaluates to the caller's value; for an
      atom the wrapped Option IS the bare Option (same result, state, events); missing stays missing *)
  Theorem C08_eval_forced_untouched_is_callers : forall p k dflt raw j o s,
    wf_dict p = true -> forallb is_name k = true -> untouched k p = true ->
    lookup k (JObj o) = Found raw -> resolve rfuel (mix o p) raw = ROk j ->
    exists l, eval (EWith true p (EOption k dflt None)) o s = (Ok (VJ j), s, l) /\ forallb is_read l = true.
  Proof. exact (with_forced_option_untouched St mem_find mem_store cfg ucall rfuel site_ok). Qed.

  Theorem C08_eval_forced_untouched_is_callers_atom : forall p k dflt v o s f,
    rfuel = S f -> wf_dict p = true -> forallb is_name k = true -> untouched k p = true ->
    lookup k (JObj o) = Found v -> is_atom v = true ->
    eval (EWith true p (EOption k dflt None)) o s = eval (EOption k dflt None) o s.
  Proof. exact (with_forced_option_untouched_atom St mem_find mem_store cfg ucall rfuel site_ok). Qed.

  Theorem C08_eval_forced_untouched_missing : forall p k dom o s,
    wf_dict p = true -> forallb is_name k = true -> untouched k p = true ->
    lookup k (JObj o) = Absent ->
    eval (EWith true p (EOption k None dom)) o s = (Err (CKey k) true, s, [EvRead k false]).
  Proof. exact (with_forced_option_untouched_missing St mem_find mem_store cfg ucall rfuel site_ok). Qed.

  (** (2) defaults: the caller wins where it has the key; the default options supply it where the
      caller lacks it; with neither the Option is missing *)
  Theorem C08_eval_default_caller_wins : forall p k dflt v j o s,
    wf_dict o = true -> k <> [] -> lookup k (JObj o) = Found v -> (forall m, v <> JObj m) ->
    resolve rfuel (mix p o) v = ROk j ->
    exists l, eval (EWith false p (EOption k dflt None)) o s = (Ok (VJ j), s, l) /\ forallb is_read l = true.
  Proof. exact (with_default_option_caller_wins St mem_find mem_store cfg ucall rfuel site_ok). Qed.

  Theorem C08_eval_default_caller_wins_atom : forall p k dflt v o s f,
    rfuel = S f -> wf_dict o = true -> k <> [] -> lookup k (JObj o) = Found v -> is_atom v = true ->
    eval (EWith false p (EOption k dflt None)) o s = (Ok (VJ v), s, [EvRead k true]).
  Proof. exact (with_default_option_caller_wins_atom St mem_find mem_store cfg ucall rfuel site_ok). Qed.

  Theorem C08_eval_default_supplies_missing : forall p k dflt raw j o s,
    wf_dict o = true -> forallb is_name k = true -> untouched k o = true ->
    lookup k (JObj p) = Found raw -> resolve rfuel (mix p o) raw = ROk j ->
    exists l, eval (EWith false p (EOption k dflt None)) o s = (Ok (VJ j), s, l) /\ forallb is_read l = true.
  Proof. exact (with_default_option_supplied St mem_find mem_store cfg ucall rfuel site_ok). Qed.

  Theorem C08_eval_default_supplies_missing_atom : forall p k dflt v o s f,
    rfuel = S f -> wf_dict o = true -> forallb is_name k = true -> untouched k o = true ->
    lookup k (JObj p) = Found v -> is_atom v = true ->
    eval (EWith false p (EOption k dflt None)) o s = (Ok (VJ v), s, [EvRead k true]).
  Proof. exact (with_default_option_supplied_atom St mem_find mem_store cfg ucall rfuel site_ok). Qed.

  Theorem C08_eval_default_neither_missing : forall p k dom o s,
    wf_dict o = true -> forallb is_name k = true -> untouched k o = true ->
    lookup k (JObj p) = Absent ->
    eval (EWith false p (EOption k None dom)) o s = (Err (CKey k) true, s, [EvRead k false]).
  Proof. exact (with_default_option_neither St mem_find mem_store cfg ucall rfuel site_ok). Qed.

  (** (3) sections merge: a section both sides have evaluates, as a whole, to the merged
      dictionary (pre-set entries win when forced, the caller's otherwise) … *)
  Theorem C08_eval_section_merged : forall force p k dflt so sp j o s,
    wf_dict p = true -> wf_dict o = true -> forallb is_name k = true ->
    lookup k (JObj o) = Found (JObj so) -> lookup k (JObj p) = Found (JObj sp) ->
    resolve rfuel (with_opts force p o) (JObj (if force then mix so sp else mix sp so)) = ROk j ->
    exists l, eval (EWith force p (EOption k dflt None)) o s = (Ok (VJ j), s, l) /\ forallb is_read l = true.
  Proof. exact (with_option_section_merged St mem_find mem_store cfg ucall rfuel site_ok). Qed.

  (** … and under EITHER wrapper a member only the pre-set section has ([x]) and a member only the
      caller's section has ([y]) are both visible *)
  Theorem C08_eval_section_members_visible : forall force p k dflt so sp x y vx vy o s f,
    rfuel = S f -> wf_dict p = true -> wf_dict o = true -> forallb is_name k = true ->
    lookup k (JObj o) = Found (JObj so) -> lookup k (JObj p) = Found (JObj sp) ->
    dget (SName x) sp = Some vx -> dget (SName x) so = None -> is_atom vx = true ->
    dget (SName y) so = Some vy -> dget (SName y) sp = None -> is_atom vy = true ->
    eval (EWith force p (EOption (k ++ [SName x]) dflt None)) o s = (Ok (VJ vx), s, [EvRead (k ++ [SName x]) true]) /\
    eval (EWith force p (EOption (k ++ [SName y]) dflt None)) o s = (Ok (VJ vy), s, [EvRead (k ++ [SName y]) true]).
  Proof. exact (with_section_members_visible St mem_find mem_store cfg ucall rfuel site_ok). Qed.

  (** (5) keys() of a wrapped Option (after fix f469561 = D2).  A key fully determined by a forced
      pre-set is NOT reported, whether or not the caller supplies it too … *)
  Theorem C08_keys_forced_preset_not_reported : forall p k dflt dom v o s,
    wf_dict p = true -> k <> [] -> lookup k (JObj p) = Found v -> is_atom v = true ->
    lookup k (JObj o) <> TypeErr ->
    keys (EWith true p (EOption k dflt dom)) o s = (Ok [], s, [EvRead k true]).
  Proof. exact (keys_forced_preset_not_reported St mem_find mem_store cfg ucall rfuel site_ok). Qed.

  (** … a pre-set SECTION the caller partly supplies (the merged section differs from the pre-set
      one) IS reported — what D2 was about … *)
  Theorem C08_keys_forced_section_partly_supplied_reported : forall p k dflt dom so sp o s,
    wf_dict p = true -> k <> [] -> forallb is_name k = true ->
    lookup k (JObj p) = Found (JObj sp) -> lookup k (JObj o) = Found (JObj so) ->
    json_eq (JObj (mix so sp)) (JObj sp) = false ->
    keys (EWith true p (EOption k dflt dom)) o s = (Ok [k], s, [EvRead k true]).
  Proof. exact (keys_forced_section_partly_supplied_reported St mem_find mem_store cfg ucall rfuel site_ok). Qed.

  (** … a key the pre-set does not touch is reported as without the wrapper … *)
  Theorem C08_keys_forced_untouched_reported : forall p k dflt dom v o s,
    wf_dict p = true -> forallb is_name k = true -> untouched k p = true ->
    lookup k (JObj o) = Found v -> (forall str, v <> JStr str) ->
    keys (EWith true p (EOption k dflt dom)) o s = (Ok [k], s, [EvRead k true]).
  Proof. exact (keys_forced_untouched_reported St mem_find mem_store cfg ucall rfuel site_ok). Qed.

  (** … under default options a key the caller supplies is reported, one only the defaults supply
      is not *)
  Theorem C08_keys_default_caller_supplied_reported : forall p k dflt dom v o s,
    wf_dict o = true -> k <> [] -> lookup k (JObj o) = Found v -> is_atom v = true ->
    lookup k (JObj p) <> TypeErr ->
    keys (EWith false p (EOption k dflt dom)) o s = (Ok [k], s, [EvRead k true]).
  Proof. exact (keys_default_caller_supplied_reported St mem_find mem_store cfg ucall rfuel site_ok). Qed.

  Theorem C08_keys_default_supplied_not_reported : forall p k dflt dom v o s,
    wf_dict o = true -> forallb is_name k = true -> untouched k o = true ->
    lookup k (JObj p) = Found v -> (forall str, v <> JStr str) ->
    keys (EWith false p (EOption k dflt dom)) o s = (Ok [], s, [EvRead k true]).
  Proof. exact (keys_default_supplied_not_reported St mem_find mem_store cfg ucall rfuel site_ok). Qed.
End EvalLevel.
Print Assumptions C08_eval_forced_preset_wins.
Print Assumptions C08_eval_forced_preset_wins_atom.
Print Assumptions C08_eval_forced_untouched_is_callers.
Print Assumptions C08_eval_forced_untouched_is_callers_atom.
Print Assumptions C08_eval_forced_untouched_missing.
Print Assumptions C08_eval_default_caller_wins.
Print Assumptions C08_eval_default_caller_wins_atom.
Print Assumptions C08_eval_default_supplies_missing.
Print Assumptions C08_eval_default_supplies_missing_atom.
Print Assumptions C08_eval_default_neither_missing.
Print Assumptions C08_eval_section_merged.
Print Assumptions C08_eval_section_members_visible.
Print Assumptions C08_keys_forced_preset_not_reported.
Print Assumptions C08_keys_forced_section_partly_supplied_reported.
Print Assumptions C08_keys_forced_untouched_reported.
Print Assumptions C08_keys_default_caller_supplied_reported.
Print Assumptions C08_keys_default_supplied_not_reported.

(** (4) the dataset decorator, on the cache-free reference instance ([evalN]: what labrea
    computes inside [labrea.cache.disabled()]).  A dataset without overloads, callback or
    effects ([plain_dataset body c P D]: body, cache, options=P, default_options=D) has the value
    of its body under (D overlaid by o) overlaid by P, whatever the body and the cache … *)
Notation evalN u fuel := (Eval.eval unit nc_find nc_store cfg_nc u fuel (fun _ _ => true)).
Notation validateN u fuel := (Eval.validate unit nc_find nc_store cfg_nc u fuel (fun _ _ => true)).

Theorem C08_plain_dataset_value : forall u fuel body c P D o,
  fst (fst (evalN u fuel (dataset_expr (plain_dataset body c P D)) o tt)) = sem u fuel body (mix (mix D o) P).
Proof. exact plain_dataset_value. Qed.
Print Assumptions C08_plain_dataset_value.

(** … so default_options yield to the caller, which yields to options: the dataset whose body
    reads Option k returns the options' value if they have one; else the caller's; else the
    default options'; else the key is missing *)
Theorem C08_dataset_default_options_yield_to_caller_yield_to_options : forall u fuel k c P D o f,
  fuel = S f -> wf_dict P = true -> wf_dict o = true -> k <> [] ->
  let run := fst (fst (evalN u fuel (dataset_expr (plain_dataset (EOption k None None) c P D)) o tt)) in
  (forall v, lookup k (JObj P) = Found v -> is_atom v = true -> run = Ok (VJ v)) /\
  (forall v, forallb is_name k = true -> untouched k P = true ->
     lookup k (JObj o) = Found v -> is_atom v = true -> run = Ok (VJ v)) /\
  (forall v, forallb is_name k = true -> untouched k P = true -> untouched k o = true ->
     lookup k (JObj D) = Found v -> is_atom v = true -> run = Ok (VJ v)) /\
  (forallb is_name k = true -> untouched k P = true -> untouched k o = true ->
     lookup k (JObj D) = Absent -> run = Err (CKey k) true).
Proof. exact dataset_option_layers. Qed.
Print Assumptions C08_dataset_default_options_yield_to_caller_yield_to_options.

(** Arbitrary expressions of the frame fragment ([frag], Proofs/FrameProofs.v; [obs]: result and
    option reads; [no_par]: no top-level name in the range the model reserves for template
    parameters).  Evaluation / validation under a wrapper depends on the caller's dictionary only
    through the keys the inner run looks up in the OVERLAID dictionary. *)
Theorem C08_wrapper_frame : forall u fuel force p e o o',
  frag e = true -> wf_dict p = true -> wf_dict o = true -> wf_dict o' = true ->
  no_par p = true -> no_par o = true -> no_par o' = true ->
  effects_opt_off (with_opts force p o') = effects_opt_off (with_opts force p o) ->
  (agree_keys (with_opts force p o) (with_opts force p o')
              (reads_of (snd (evalN u fuel e (with_opts force p o) tt))) ->
     obs (evalN u fuel (EWith force p e) o' tt) = obs (evalN u fuel (EWith force p e) o tt)) /\
  (agree_keys (with_opts force p o) (with_opts force p o')
              (reads_of (snd (validateN u fuel e (with_opts force p o) tt))) ->
     obs (validateN u fuel (EWith force p e) o' tt) = obs (validateN u fuel (EWith force p e) o tt)).
Proof. exact with_frame. Qed.
Print Assumptions C08_wrapper_frame.

(** forced options that give a (non-section) value to every key the inner evaluation reads hide
    the caller completely: every caller gets the same outcome *)
Theorem C08_forced_options_hide_the_caller : forall u fuel p e o o',
  frag e = true -> wf_dict p = true -> wf_dict o = true -> wf_dict o' = true ->
  no_par p = true -> no_par o = true -> no_par o' = true ->
  effects_opt_off (mix o' p) = effects_opt_off (mix o p) ->
  (forall k, In k (reads_of (snd (evalN u fuel e (mix o p) tt))) ->
     k <> [] /\ exists v, lookup k (JObj p) = Found v /\ forall m, v <> JObj m) ->
  obs (evalN u fuel (EWith true p e) o' tt) = obs (evalN u fuel (EWith true p e) o tt).
Proof. exact with_forced_hides_caller. Qed.
Print Assumptions C08_forced_options_hide_the_caller.

(** forced options that touch none of the keys the expression reads are invisible *)
Theorem C08_forced_options_untouched_invisible : forall u fuel p e o,
  frag e = true -> wf_dict p = true -> wf_dict o = true -> no_par p = true -> no_par o = true ->
  effects_opt_off (mix o p) = effects_opt_off o ->
  (forall k, In k (reads_of (snd (evalN u fuel e o tt))) ->
     forallb is_name k = true /\ untouched k p = true /\ lookup k (JObj o) <> TypeErr) ->
  obs (evalN u fuel (EWith true p e) o tt) = obs (evalN u fuel e o tt).
Proof. exact with_forced_untouched_invisible. Qed.
Print Assumptions C08_forced_options_untouched_invisible.

(** default options yield: where the caller gives a (non-section) value to every key the inner
    evaluation reads, the default options are irrelevant — any two give the same outcome *)
Theorem C08_default_options_yield_to_the_caller : forall u fuel p p' e o,
  frag e = true -> wf_dict p = true -> wf_dict p' = true -> wf_dict o = true ->
  no_par p = true -> no_par p' = true -> no_par o = true ->
  effects_opt_off (mix p' o) = effects_opt_off (mix p o) ->
  (forall k, In k (reads_of (snd (evalN u fuel e (mix p o) tt))) ->
     k <> [] /\ exists v, lookup k (JObj o) = Found v /\ forall m, v <> JObj m) ->
  obs (evalN u fuel (EWith false p' e) o tt) = obs (evalN u fuel (EWith false p e) o tt).
Proof. exact with_default_yields_to_caller. Qed.
Print Assumptions C08_default_options_yield_to_the_caller.

(** Non-vacuity: P, D and o overlapping inside one section. *)
Example C08_overlay_example :
  let o := [(SName 20, JObj [(SName 21, JInt 1); (SName 22, JInt 2)]); (SName 10, JInt 7)]%N in
  let p := [(SName 20, JObj [(SName 22, JInt 9); (SName 23, JInt 3)])]%N in
  wf_json (JObj p) = true /\
  lookup [SName 20; SName 21]%N (JObj (mix o p)) = Found (JInt 1) /\
  lookup [SName 20; SName 22]%N (JObj (mix o p)) = Found (JInt 9) /\
  lookup [SName 20; SName 23]%N (JObj (mix o p)) = Found (JInt 3) /\
  lookup [SName 10]%N (JObj (mix o p)) = Found (JInt 7) /\
  lookup [SName 20; SName 22]%N (JObj (mix p o)) = Found (JInt 2).
Proof. vm_compute. repeat split. Qed.
Print Assumptions C08_overlay_example.

(** mix is NOT associative when a scalar meets a section, which is why the derivative theorems
    state the exact bracketing the code uses. *)
Example C08_mix_not_associative :
  let a := [(SName 20, JObj [(SName 21, JInt 1)])]%N in
  let b := [(SName 20, JInt 5)]%N in
  let c := [(SName 20, JObj [(SName 22, JInt 2)])]%N in
  mix (mix a b) c <> mix a (mix b c).
Proof. vm_compute. discriminate. Qed.
Print Assumptions C08_mix_not_associative.

(** non-vacuity of [C08_preset_twice_is_once]: a nested pre-set that does change the caller's dictionary *)
Example C08_ex_preset_twice :
  let o := [(SName 20, JObj [(SName 22, JInt 2); (SName 21, JInt 7)]); (SName 10, JInt 3)]%N in
  let p := [(SName 20, JObj [(SName 21, JInt 1); (SName 23, JObj [(SName 24, JNull)])]); (SName 11, JInt 4)]%N in
  wf_dict p = true /\ mix o p <> o /\ mix (mix o p) p = mix o p.
Proof. exact mix_idem_example. Qed.
Print Assumptions C08_ex_preset_twice.

(** ** Non-vacuity at evaluation level (by computation on the reference instance and on the real
    store).  User code: f(args) returns the tagged tuple (f, args). *)
Definition u0 : N -> list value -> cres := fun f args => COk (VT f args).
Definition opt (k : key) : expr := EOption k None None.
Definition kA : key := [SName 10]%N.
Definition kB : key := [SName 11]%N.
Definition kC : key := [SName 12]%N.
Definition kS : key := [SName 20]%N.
Definition kSX : key := [SName 20; SName 21]%N.
Definition kSY : key := [SName 20; SName 22]%N.
Notation keysN u fuel := (Eval.keys unit nc_find nc_store cfg_nc u fuel (fun _ _ => true)).

(** P = {'S': {'X': 1}}, o = {'S': {'Y': 2}}: under the forced AND under the default wrapper both
    S.X and S.Y are visible and S evaluates to the merged section (the hypotheses of
    [C08_eval_section_members_visible] / [C08_eval_section_merged] hold of this instance); keys():
    S.X (fully pre-set) is not reported, S.Y (the caller's) and S (partly the caller's) are *)
Example C08_ex_sections_merge_at_eval_level :
  let p := [(SName 20, JObj [(SName 21, JInt 1)])]%N in
  let o := [(SName 20, JObj [(SName 22, JInt 2)])]%N in
  let run f k := fst (fst (evalN u0 10 (EWith f p (opt k)) o tt)) in
  let ks f k := fst (fst (keysN u0 10 (EWith f p (opt k)) o tt)) in
  wf_dict p = true /\ wf_dict o = true /\
  lookup kS (JObj o) = Found (JObj [(SName 22, JInt 2)])%N /\ lookup kS (JObj p) = Found (JObj [(SName 21, JInt 1)])%N /\
  run true kSX = Ok (VJ (JInt 1)) /\ run true kSY = Ok (VJ (JInt 2)) /\
  run false kSX = Ok (VJ (JInt 1)) /\ run false kSY = Ok (VJ (JInt 2)) /\
  run true kS = Ok (VJ (JObj [(SName 22, JInt 2); (SName 21, JInt 1)]))%N /\
  run false kS = Ok (VJ (JObj [(SName 21, JInt 1); (SName 22, JInt 2)]))%N /\
  ks true kSX = Ok [] /\ ks true kSY = Ok [kSY] /\ ks true kS = Ok [kS] /\
  ks false kSX = Ok [] /\ ks false kSY = Ok [kSY] /\
  json_eq (JObj (mix [(SName 22, JInt 2)] [(SName 21, JInt 1)]))%N (JObj [(SName 21, JInt 1)])%N = false.
Proof. vm_compute. repeat split. Qed.
Print Assumptions C08_ex_sections_merge_at_eval_level.

(** forced vs default on one key, caller present / absent, and a key the pre-set does not touch *)
Example C08_ex_override_and_yield :
  let p := [(SName 10, JInt 1)]%N in
  let run f k o := evalN u0 10 (EWith f p (opt k)) o tt in
  run true kA [(SName 10, JInt 9)]%N = (Ok (VJ (JInt 1)), tt, [EvRead kA true]) /\
  run true kA [] = (Ok (VJ (JInt 1)), tt, [EvRead kA true]) /\
  run false kA [(SName 10, JInt 9)]%N = (Ok (VJ (JInt 9)), tt, [EvRead kA true]) /\
  run false kA [] = (Ok (VJ (JInt 1)), tt, [EvRead kA true]) /\
  untouched kB p = true /\
  run true kB [(SName 11, JInt 7)]%N = evalN u0 10 (opt kB) [(SName 11, JInt 7)]%N tt /\
  run true kB [] = (Err (CKey kB) true, tt, [EvRead kB false]) /\
  run false kB [] = (Err (CKey kB) true, tt, [EvRead kB false]).
Proof. vm_compute. repeat split. Qed.
Print Assumptions C08_ex_override_and_yield.

(** @dataset(options={'A': 1, 'S': {'X': 1}}, default_options={'A': 0, 'B': 0, 'C': 0, 'S': {'X': 0, 'Y': 0}},
    callback=g) def f(A, B, C, S.X, S.Y) called with {'A': 5, 'B': 5, 'S': {'Y': 5}}, memory cache
    on: A and S.X are the options' (1), B and S.Y the caller's (5), C the default options' (0) —
    on the reference instance and on the real store alike; and the plain dataset of
    [C08_dataset_default_options_yield_to_caller_yield_to_options], layer by layer *)
Example C08_ex_dataset_three_layers :
  let ds := {| ds_dispatch := no_dispatch; ds_table := [];
               ds_default := Some (body 200 [opt kA; opt kB; opt kC; opt kSX; opt kSY]);
               ds_callback := EPipe [pstep 201 []]; ds_effects := []; ds_effects_disabled := false;
               ds_cache := CMem 1;
               ds_options := [(SName 10, JInt 1); (SName 20, JObj [(SName 21, JInt 1)])]%N;
               ds_default_options := [(SName 10, JInt 0); (SName 11, JInt 0); (SName 12, JInt 0);
                                      (SName 20, JObj [(SName 21, JInt 0); (SName 22, JInt 0)])]%N |} in
  let o := [(SName 10, JInt 5); (SName 11, JInt 5); (SName 20, JObj [(SName 22, JInt 5)])]%N in
  let expected := Ok (VT 201 [VT 200 [VJ (JInt 1); VJ (JInt 5); VJ (JInt 0); VJ (JInt 1); VJ (JInt 5)]]) in
  fst (fst (evalN u0 10 (dataset_expr ds) o tt)) = expected /\
  fst (fst (Eval.eval store mem_find mem_store {| cache_ctx_off := false; log_ctx_off := false |}
              u0 10 (fun _ _ => true) (dataset_expr ds) o [])) = expected /\
  (let P := [(SName 10, JInt 1)]%N in
   let D := [(SName 10, JInt 0); (SName 11, JInt 0); (SName 12, JInt 0)]%N in
   let c := [(SName 10, JInt 5); (SName 11, JInt 5)]%N in
   let run k := fst (fst (evalN u0 10 (dataset_expr (plain_dataset (opt k) (CMem 1) P D)) c tt)) in
   run kA = Ok (VJ (JInt 1)) /\ run kB = Ok (VJ (JInt 5)) /\ run kC = Ok (VJ (JInt 0)) /\
   run [SName 13]%N = Err (CKey [SName 13]%N) true /\
   untouched kB P = true /\ untouched kC P = true /\ untouched kC c = true).
Proof. vm_compute. repeat split. Qed.
Print Assumptions C08_ex_dataset_three_layers.

(** the hypotheses of [C08_forced_options_hide_the_caller] and
    [C08_forced_options_untouched_invisible] on a composite expression: a list of Option A and a
    switch on Option B choosing Option C; P = {A: 1, B: 1, C: 3} determines every key read, so two
    quite different callers get the same outcome; P' = {Z: 0} touches none, so it is invisible *)
Example C08_ex_frame_hypotheses :
  let e := elist [opt kA; ESwitch (opt kB) [(VJ (JInt 1), opt kC)] (Some (opt kA))] in
  let p := [(SName 10, JInt 1); (SName 11, JInt 1); (SName 12, JInt 3)]%N in
  let o := [(SName 10, JInt 9); (SName 11, JInt 2)]%N in
  let o' := [(SName 12, JObj [(SName 10, JInt 0)])]%N in
  let p' := [(SName 30, JInt 0)]%N in
  frag e = true /\ wf_dict p = true /\ wf_dict o = true /\ wf_dict o' = true /\
  no_par p = true /\ no_par o = true /\ no_par o' = true /\
  effects_opt_off (mix o' p) = effects_opt_off (mix o p) /\
  forallb (fun k => match lookup k (JObj p) with
                    | Found (JObj _) => false
                    | Found _ => negb (Nat.eqb (length k) 0)
                    | _ => false end) (reads_of (snd (evalN u0 10 e (mix o p) tt))) = true /\
  obs (evalN u0 10 (EWith true p e) o' tt) = obs (evalN u0 10 (EWith true p e) o tt) /\
  fst (fst (evalN u0 10 (EWith true p e) o tt)) = Ok (VT T_LIST [VJ (JInt 1); VJ (JInt 3)]) /\
  fst (fst (evalN u0 10 e o tt)) = Ok (VT T_LIST [VJ (JInt 9); VJ (JInt 9)]) /\
  forallb (fun k => forallb is_name k && untouched k p' &&
                    match lookup k (JObj o) with TypeErr => false | _ => true end)
          (reads_of (snd (evalN u0 10 e o tt))) = true /\
  obs (evalN u0 10 (EWith true p' e) o tt) = obs (evalN u0 10 e o tt).
Proof. vm_compute. repeat split. Qed.
Print Assumptions C08_ex_frame_hypotheses.

(** a templated pre-set value is resolved against the OVERLAY (the [resolve] hypothesis of
    [C08_eval_forced_preset_wins]): P = {'A': '{B}'} forced over o = {'A': 9, 'B': 7} gives 7 *)
Example C08_ex_templated_preset :
  let p := [(SName 10, JStr [TRef kB])]%N in
  let o := [(SName 10, JInt 9); (SName 11, JInt 7)]%N in
  lookup kA (JObj p) = Found (JStr [TRef kB]) /\
  resolve 10 (mix o p) (JStr [TRef kB]) = ROk (JInt 7) /\
  fst (fst (evalN u0 10 (EWith true p (opt kA)) o tt)) = Ok (VJ (JInt 7)) /\
  fst (fst (evalN u0 10 (EWith false p (opt kA)) o tt)) = Ok (VJ (JInt 9)).
Proof. vm_compute. repeat split. Qed.
Print Assumptions C08_ex_templated_preset.

(** the hypotheses of [C08_default_options_yield_to_the_caller] (and of [C08_wrapper_frame], of
    which it is an instance): the caller {A: 9, B: 1, C: 3} gives a value to every key the same
    expression reads, so the default dictionaries {A: 0, B: 0, C: 0} and {A: 7, Z: 1} (and none at
    all) are indistinguishable *)
Example C08_ex_defaults_yield_hypotheses :
  let e := elist [opt kA; ESwitch (opt kB) [(VJ (JInt 1), opt kC)] (Some (opt kA))] in
  let p := [(SName 10, JInt 0); (SName 11, JInt 0); (SName 12, JInt 0)]%N in
  let p' := [(SName 10, JInt 7); (SName 30, JInt 1)]%N in
  let o := [(SName 10, JInt 9); (SName 11, JInt 1); (SName 12, JInt 3)]%N in
  frag e = true /\ wf_dict p = true /\ wf_dict p' = true /\ wf_dict o = true /\
  no_par p = true /\ no_par p' = true /\ no_par o = true /\
  effects_opt_off (mix p' o) = effects_opt_off (mix p o) /\
  forallb (fun k => match lookup k (JObj o) with
                    | Found (JObj _) => false
                    | Found _ => negb (Nat.eqb (length k) 0)
                    | _ => false end) (reads_of (snd (evalN u0 10 e (mix p o) tt))) = true /\
  obs (evalN u0 10 (EWith false p' e) o tt) = obs (evalN u0 10 (EWith false p e) o tt) /\
  fst (fst (evalN u0 10 (EWith false p e) o tt)) = Ok (VT T_LIST [VJ (JInt 9); VJ (JInt 3)]) /\
  fst (fst (evalN u0 10 (EWith false p e) [] tt)) = Ok (VT T_LIST [VJ (JInt 0); VJ (JInt 0)]).
Proof. vm_compute. repeat split. Qed.
Print Assumptions C08_ex_defaults_yield_hypotheses.
