(** Proofs about Model/Runtime.v (property C14). *)
From Coq Require Import List NArith Bool Lia.
Import ListNotations.
From LV Require Import Model.Runtime.

(** * Association lists *)
Lemma lookup_app {A} k (a b : list (N * A)) :
  lookup k (a ++ b) = match lookup k a with Some v => Some v | None => lookup k b end.
Proof.
  induction a as [|[k' v] a IH]; simpl; [reflexivity|].
  destruct (N.eqb k k'); [reflexivity|exact IH].
Qed.

Lemma lookup_forallb {A} (f : A -> bool) k (l : list (N * A)) v :
  forallb (fun p => f (snd p)) l = true -> lookup k l = Some v -> f v = true.
Proof.
  induction l as [|[k' v'] l IH]; simpl; intros Hall Hl; [discriminate|].
  apply andb_true_iff in Hall. destruct Hall as [Hv Hall].
  destruct (N.eqb k k').
  - inversion Hl; subst. exact Hv.
  - exact (IH Hall Hl).
Qed.

Lemma lookup_In_fst {A} k (l : list (N * A)) v : lookup k l = Some v -> In k (map fst l).
Proof.
  induction l as [|[k' v'] l IH]; simpl; intros Hl; [discriminate|].
  destruct (N.eqb k k') eqn:E.
  - apply N.eqb_eq in E. left. symmetry. exact E.
  - right. exact (IH Hl).
Qed.

(** * Histories *)
Lemma run_app a b s :
  run (a ++ b) s =
    let (s1, o1) := run a s in let (s2, o2) := run b s1 in (s2, o1 ++ o2).
Proof.
  revert s; induction a as [|c a IH]; intros s; simpl.
  - destruct (run b s); reflexivity.
  - destruct (step c s) as [s1 o]. rewrite IH.
    destruct (run a s1) as [s2 os]. destruct (run b s2) as [s3 os']. reflexivity.
Qed.

Lemma run_app_fst a b s : fst (run (a ++ b) s) = fst (run b (fst (run a s))).
Proof.
  rewrite run_app. destruct (run a s) as [s1 o1]; simpl.
  destruct (run b s1); reflexivity.
Qed.

Lemma run_app_snd a b s :
  snd (run (a ++ b) s) = snd (run a s) ++ snd (run b (fst (run a s))).
Proof.
  rewrite run_app. destruct (run a s) as [s1 o1]; simpl.
  destruct (run b s1); reflexivity.
Qed.

Lemma run_cons c l s :
  run (c :: l) s = (fst (run l (fst (step c s))), snd (step c s) :: snd (run l (fst (step c s)))).
Proof.
  simpl. destruct (step c s) as [s1 o]; simpl. destruct (run l s1); reflexivity.
Qed.

Lemma arun_cons c l a :
  arun (c :: l) a =
    (fst (arun l (fst (astep c a))), snd (astep c a) :: snd (arun l (fst (astep c a)))).
Proof.
  simpl. destruct (astep c a) as [a1 o]; simpl. destruct (arun l a1); reflexivity.
Qed.

(** * The code's serve rule is the specification's *)
Lemma serve_aserve o r t : serve o r t = aserve o r t.
Proof. reflexivity. Qed.

(** * Refinement: abstraction function and one commuting lemma per operation *)
Lemma abs_eq s :
  abs s = mkA (ob s) (fst (abs_ctl (cur s) (saved s))) (snd (abs_ctl (cur s) (saved s))).
Proof. unfold abs. destruct (abs_ctl (cur s) (saved s)); reflexivity. Qed.

Lemma abs_with_ob s o : abs (with_ob s o) = awith_ob (abs s) o.
Proof. rewrite !abs_eq. reflexivity. Qed.

Lemma state_ok_with_ob s o : state_ok (with_ob s o) = state_ok s.
Proof. reflexivity. Qed.

Lemma atop_abs s : state_ok s = true -> atop (abs s) = cur s.
Proof.
  rewrite abs_eq. unfold state_ok, atop; simpl.
  destruct (saved s) as [|p rest]; simpl; [reflexivity|].
  destruct (abs_ctl p rest) as [e b]; simpl.
  destruct (cur s); simpl; [reflexivity|discriminate].
Qed.

Lemma current_commutes s r s1 :
  state_ok s = true -> current_runtime s = (r, s1) ->
  acurrent (abs s) = (r, abs s1) /\ state_ok s1 = true.
Proof.
  intros Hok Hc. unfold acurrent. rewrite (atop_abs s Hok).
  unfold current_runtime in Hc. destruct (cur s) as [c|] eqn:Ec.
  - inversion Hc; subst. auto.
  - simpl in Hc. inversion Hc; subst; clear Hc.
    assert (Hsv : saved s = []).
    { unfold state_ok in Hok. rewrite Ec in Hok. destruct (saved s); [reflexivity|discriminate]. }
    split.
    + rewrite !abs_eq. simpl. unfold saved in *. simpl. rewrite Ec.
      destruct (prev s) as [l|]; simpl in *; subst; reflexivity.
    + unfold state_ok, saved in *; simpl. destruct (prev s) as [l|]; simpl in *; subst; reflexivity.
Qed.

Lemma exit_commutes s :
  state_ok s = true ->
  match exit_ s with
  | Some s' => apop (abs s) = Some (abs s') /\ state_ok s' = true /\ ob s' = ob s
  | None => apop (abs s) = None
  end.
Proof.
  intros Hok. unfold exit_. rewrite abs_eq. unfold state_ok, saved in *.
  destruct (prev s) as [[|p rest]|] eqn:Ep; simpl in *; try reflexivity.
  destruct (cur s) as [c|]; simpl in Hok; [|discriminate].
  unfold apop; simpl.
  destruct p as [r|]; rewrite abs_eq; unfold saved; simpl;
    destruct (abs_ctl _ rest) as [e b] eqn:Ea; simpl; auto.
Qed.

Theorem step_commutes c s :
  state_ok s = true ->
  abs (fst (step c s)) = fst (astep c (abs s)) /\
  snd (step c s) = snd (astep c (abs s)) /\
  state_ok (fst (step c s)) = true.
Proof.
  intros Hok.
  assert (Hob : aob (abs s) = ob s) by (rewrite abs_eq; reflexivity).
  destruct c as [ov|[|r] ov|[|r]| |r| | |t h|t]; simpl in *.
  - (* New *)
    rewrite Hob. repeat split; try exact Hok. apply abs_with_ob.
  - (* Derive SCur *)
    destruct (current_runtime s) as [r s1] eqn:Ec.
    destruct (current_commutes s r s1 Hok Ec) as (Ha & Hok1). rewrite Ha.
    assert (Hob1 : aob (abs s1) = ob s1) by (rewrite abs_eq; reflexivity).
    simpl. rewrite Hob1. repeat split; try exact Hok1. apply abs_with_ob.
  - (* Derive (SObj r) *)
    rewrite Hob. repeat split; try exact Hok. apply abs_with_ob.
  - (* DeriveBad SCur *)
    destruct (current_runtime s) as [r s1] eqn:Ec.
    destruct (current_commutes s r s1 Hok Ec) as (Ha & Hok1). rewrite Ha. simpl. auto.
  - (* DeriveBad (SObj r) *) auto.
  - (* GetCur *)
    destruct (current_runtime s) as [r s1] eqn:Ec.
    destruct (current_commutes s r s1 Hok Ec) as (Ha & Hok1). rewrite Ha. simpl. auto.
  - (* Enter *)
    repeat split.
    + rewrite !abs_eq. unfold saved; simpl. fold (saved s).
      destruct (abs_ctl (cur s) (saved s)); reflexivity.
    + unfold state_ok, saved; simpl. fold (saved s). exact Hok.
  - (* Exit *)
    pose proof (exit_commutes s Hok) as He.
    destruct (exit_ s) as [s'|].
    + destruct He as (Hp & Hok' & Hob'). rewrite Hp. simpl. auto.
    + rewrite He. simpl. auto.
  - (* ExitExc *)
    pose proof (exit_commutes s Hok) as He.
    destruct (exit_ s) as [s'|].
    + destruct He as (Hp & Hok' & Hob'). rewrite Hp. simpl. auto.
    + rewrite He. simpl. auto.
  - (* RegisterDefault *)
    rewrite Hob. repeat split; try exact Hok. apply abs_with_ob.
  - (* Run *)
    destruct (current_runtime s) as [r s1] eqn:Ec.
    destruct (current_commutes s r s1 Hok Ec) as (Ha & Hok1). rewrite Ha. simpl.
    assert (Hob1 : aob (abs s1) = ob s1) by (rewrite abs_eq; reflexivity).
    rewrite Hob1. repeat split; auto.
Qed.

(** Lifted over histories of any length. *)
Theorem refines_stack ops : forall s,
  state_ok s = true ->
  snd (run ops s) = snd (arun ops (abs s)) /\
  abs (fst (run ops s)) = fst (arun ops (abs s)) /\
  state_ok (fst (run ops s)) = true.
Proof.
  induction ops as [|c ops IH]; intros s Hok.
  - simpl. auto.
  - destruct (step_commutes c s Hok) as (Ha & Ho & Hok1).
    rewrite run_cons, arun_cons. simpl.
    destruct (IH (fst (step c s)) Hok1) as (I1 & I2 & I3).
    rewrite <- Ha, <- Ho, I1, I2. auto.
Qed.

Lemma fresh_thread_ok o : state_ok (fresh_thread o) = true.
Proof. reflexivity. Qed.
Lemma thread_with_ok r o : state_ok (thread_with r o) = true.
Proof. reflexivity. Qed.
Lemma abs_fresh_thread o : abs (fresh_thread o) = mkA o [] None.
Proof. reflexivity. Qed.
Lemma abs_thread_with r o : abs (thread_with r o) = mkA o [] (Some r).
Proof. reflexivity. Qed.

(** * Leaving a block restores the thread state *)
Definition chain (s : state) : list (option rid) := cur s :: saved s.
Definition is_some {A} (x : option A) : bool := match x with Some _ => true | None => false end.
Definition is_scope (c : op) : bool :=
  match c with Enter _ | Exit | ExitExc => true | _ => false end.

Lemma current_some s r : cur s = Some r -> current_runtime s = (r, s).
Proof. unfold current_runtime. intros H; rewrite H. reflexivity. Qed.

Lemma step_nonscope c s r :
  is_scope c = false -> cur s = Some r ->
  cur (fst (step c s)) = Some r /\ prev (fst (step c s)) = prev s.
Proof.
  intros Hc Hr.
  destruct c as [ov|[|r'] ov|[|r']| |r'| | |t h|t]; simpl in *; try discriminate;
    try rewrite (current_some s r Hr); simpl; auto.
Qed.

Lemma exit_chain s p rest :
  saved s = p :: rest ->
  exists s', exit_ s = Some s' /\ cur s' = p /\ saved s' = rest /\ ob s' = ob s.
Proof.
  unfold saved, exit_. intros H.
  destruct (prev s) as [l|]; [|discriminate]. subst l.
  destruct p as [r|]; eexists; repeat split.
Qed.

Lemma step_exit c s p rest :
  is_exit c = true -> saved s = p :: rest ->
  cur (fst (step c s)) = p /\ saved (fst (step c s)) = rest /\
  ob (fst (step c s)) = ob s /\ snd (step c s) <> OUnmatchedExit.
Proof.
  intros Hc Hs. destruct (exit_chain s p rest Hs) as (s' & He & H1 & H2 & H3).
  destruct c; simpl in *; try discriminate; rewrite He; simpl; repeat split; auto; discriminate.
Qed.

Lemma walk ops : forall d d' s top r bot,
  nest d ops = Some d' ->
  chain s = top ++ Some r :: bot -> length top = d -> forallb is_some top = true ->
  exists top', chain (fst (run ops s)) = top' ++ Some r :: bot /\ length top' = d' /\
               forallb is_some top' = true.
Proof.
  induction ops as [|c ops IH]; intros d d' s top r bot Hn Hch Hlen Htop.
  - simpl in *. inversion Hn; subst. exists top. auto.
  - rewrite run_cons; simpl fst.
    destruct (is_scope c) eqn:Esc.
    + destruct c; simpl in Esc; try discriminate.
      * (* Enter *)
        simpl in Hn. apply (IH (S d) d' _ (Some r0 :: top) r bot Hn).
        -- unfold chain in *.
           change (Some r0 :: cur s :: saved s = Some r0 :: (top ++ Some r :: bot)).
           f_equal. exact Hch.
        -- simpl; lia.
        -- simpl. exact Htop.
      * (* Exit *)
        simpl in Hn. destruct d as [|d0]; [discriminate|].
        destruct top as [|t0 top0]; [discriminate|]. simpl in Hlen, Htop, Hch.
        apply andb_true_iff in Htop. destruct Htop as [_ Htop0].
        unfold chain in Hch. inversion Hch as [[Hc Hs]].
        destruct (top0 ++ Some r :: bot) as [|p rest] eqn:El.
        { destruct top0; discriminate. }
        destruct (step_exit Exit s p rest eq_refl Hs) as (H1 & H2 & _ & _).
        apply (IH d0 d' _ top0 r bot Hn); [|lia|exact Htop0].
        unfold chain. rewrite H1, H2, El. reflexivity.
      * (* ExitExc *)
        simpl in Hn. destruct d as [|d0]; [discriminate|].
        destruct top as [|t0 top0]; [discriminate|]. simpl in Hlen, Htop, Hch.
        apply andb_true_iff in Htop. destruct Htop as [_ Htop0].
        unfold chain in Hch. inversion Hch as [[Hc Hs]].
        destruct (top0 ++ Some r :: bot) as [|p rest] eqn:El.
        { destruct top0; discriminate. }
        destruct (step_exit ExitExc s p rest eq_refl Hs) as (H1 & H2 & _ & _).
        apply (IH d0 d' _ top0 r bot Hn); [|lia|exact Htop0].
        unfold chain. rewrite H1, H2, El. reflexivity.
    + assert (Hn' : nest d ops = Some d').
      { destruct c; simpl in Esc; try discriminate; exact Hn. }
      assert (Hcur : exists x, cur s = Some x).
      { unfold chain in Hch. destruct top as [|t0 top0]; simpl in *.
        - inversion Hch. eauto.
        - inversion Hch as [[Hc Hs]]. apply andb_true_iff in Htop. destruct Htop as [Ht0 _].
          destruct t0; [eauto|discriminate]. }
      destruct Hcur as [x Hx].
      destruct (step_nonscope c s x Esc Hx) as (H1 & H2).
      apply (IH d d' _ top r bot Hn'); [|exact Hlen|exact Htop].
      unfold chain, saved in *. rewrite H1, H2, <- Hx. exact Hch.
Qed.

Lemma balanced_nest body : balanced body = true -> nest 0 body = Some 0%nat.
Proof.
  unfold balanced. destruct (nest 0 body) as [[|n]|]; intros H; try discriminate. reflexivity.
Qed.

(** A balanced sequence run while the thread has a current runtime leaves slot and stack as
    they were. *)
Theorem balanced_preserves body s r :
  balanced body = true -> cur s = Some r ->
  cur (fst (run body s)) = Some r /\ saved (fst (run body s)) = saved s.
Proof.
  intros Hb Hr.
  destruct (walk body 0 0 s [] r (saved s) (balanced_nest body Hb)) as (top' & Hch & Hlen & _).
  - unfold chain. rewrite Hr. reflexivity.
  - reflexivity.
  - reflexivity.
  - destruct top'; [|discriminate]. unfold chain in Hch. simpl in Hch.
    inversion Hch. auto.
Qed.

(** [with r: body] -- left normally or by exception -- restores exactly what was there. *)
Theorem exit_restores r body x s :
  balanced body = true -> is_exit x = true ->
  let s' := fst (run (Enter r :: body ++ [x]) s) in
  cur s' = cur s /\ saved s' = saved s /\ ob s' = ob (fst (run body (enter r s))) /\
  last (snd (run (Enter r :: body ++ [x]) s)) ODone <> OUnmatchedExit.
Proof.
  intros Hb Hx. cbv zeta. rewrite run_cons. simpl fst. simpl snd.
  rewrite run_app_fst, run_app_snd.
  assert (Hr : cur (enter r s) = Some r) by reflexivity.
  destruct (balanced_preserves body (enter r s) r Hb Hr) as (Hc & Hs).
  set (s2 := fst (run body (enter r s))) in *.
  assert (Hs2 : saved s2 = cur s :: saved s) by (rewrite Hs; reflexivity).
  destruct (step_exit x s2 (cur s) (saved s) Hx Hs2) as (H1 & H2 & H3 & H4).
  rewrite run_cons. simpl fst. simpl snd. repeat split; auto.
  change (ORet r :: snd (run body (enter r s)) ++ [snd (step x s2)])
    with ((ORet r :: snd (run body (enter r s))) ++ [snd (step x s2)]).
  rewrite last_last. exact H4.
Qed.

Corollary exit_restores_no_runtime r body x s :
  balanced body = true -> is_exit x = true -> cur s = None ->
  cur (fst (run (Enter r :: body ++ [x]) s)) = None.
Proof.
  intros Hb Hx Hn. destruct (exit_restores r body x s Hb Hx) as (H & _). rewrite H. exact Hn.
Qed.

(** Inside the block, at depth 0 of the body, the current runtime is the entered one. *)
Theorem entered_is_current r pre s :
  balanced pre = true -> cur (fst (run (Enter r :: pre) s)) = Some r.
Proof.
  intros Hb. rewrite run_cons. simpl fst.
  exact (proj1 (balanced_preserves pre (enter r s) r Hb eq_refl)).
Qed.

(** * Runtime objects are immutable: no operation changes an existing handler table *)
Definition ext (o o' : objs) : Prop :=
  heap_fresh o' = true /\
  forall r t, lookup r (heap o) = Some t -> lookup r (heap o') = Some t.

Lemma ext_refl o : heap_fresh o = true -> ext o o.
Proof. intros H; split; auto. Qed.

Lemma ext_trans a b c : ext a b -> ext b c -> ext a c.
Proof. intros [_ H1] [F2 H2]. split; auto. Qed.

Lemma fresh_lt_gen n (l : list (rid * table)) r t :
  forallb (fun c => N.ltb (fst c) n) l = true -> lookup r l = Some t -> (r < n)%N.
Proof.
  induction l as [|[k v] l IH]; simpl; intros Hf Hl; [discriminate|].
  apply andb_true_iff in Hf. destruct Hf as [Hk Hf].
  destruct (N.eqb r k) eqn:E.
  - apply N.eqb_eq in E. subst. apply N.ltb_lt. exact Hk.
  - exact (IH Hf Hl).
Qed.

Lemma ext_new ov o : heap_fresh o = true -> ext o (snd (new_runtime ov o)).
Proof.
  intros Hf. split.
  - unfold heap_fresh in *. simpl. apply andb_true_iff. split.
    + apply N.ltb_lt. lia.
    + rewrite forallb_forall in *. intros c Hc. specialize (Hf c Hc).
      apply N.ltb_lt in Hf. apply N.ltb_lt. lia.
  - intros r t Hl. simpl.
    pose proof (fresh_lt_gen (next o) (heap o) r t Hf Hl) as Hlt.
    destruct (N.eqb r (next o)) eqn:E; [|exact Hl].
    apply N.eqb_eq in E. lia.
Qed.

Lemma ext_derive r ov o : heap_fresh o = true -> ext o (snd (derive r ov o)).
Proof. intros Hf. unfold derive. apply ext_new. exact Hf. Qed.

Lemma ext_register t h o : heap_fresh o = true -> ext o (register_default t h o).
Proof. intros Hf. split; [exact Hf|auto]. Qed.

Lemma ext_current s : heap_fresh (ob s) = true -> ext (ob s) (ob (snd (current_runtime s))).
Proof.
  intros Hf. unfold current_runtime. destruct (cur s); simpl.
  - apply ext_refl; exact Hf.
  - exact (ext_new [] (ob s) Hf).
Qed.

Lemma ext_step c s : heap_fresh (ob s) = true -> ext (ob s) (ob (fst (step c s))).
Proof.
  intros Hf.
  destruct c as [ov|[|r] ov|[|r]| |r| | |t h|t]; simpl.
  - exact (ext_new ov (ob s) Hf).
  - pose proof (ext_current s Hf) as H1.
    destruct (current_runtime s) as [r s1]; simpl in *.
    exact (ext_trans _ _ _ H1 (ext_derive r ov (ob s1) (proj1 H1))).
  - exact (ext_derive r ov (ob s) Hf).
  - exact (ext_current s Hf).
  - exact (ext_refl _ Hf).
  - pose proof (ext_current s Hf) as H1. destruct (current_runtime s); exact H1.
  - exact (ext_refl _ Hf).
  - destruct (exit_ s) as [s'|] eqn:E; simpl; [|exact (ext_refl _ Hf)].
    unfold exit_ in E. destruct (prev s) as [[|[p|] rest]|]; inversion E; subst; simpl;
      exact (ext_refl _ Hf).
  - destruct (exit_ s) as [s'|] eqn:E; simpl; [|exact (ext_refl _ Hf)].
    unfold exit_ in E. destruct (prev s) as [[|[p|] rest]|]; inversion E; subst; simpl;
      exact (ext_refl _ Hf).
  - exact (ext_register t h (ob s) Hf).
  - pose proof (ext_current s Hf) as H1. destruct (current_runtime s); exact H1.
Qed.

Lemma ext_run ops : forall s, heap_fresh (ob s) = true -> ext (ob s) (ob (fst (run ops s))).
Proof.
  induction ops as [|c ops IH]; intros s Hf.
  - exact (ext_refl _ Hf).
  - rewrite run_cons. simpl fst.
    pose proof (ext_step c s Hf) as H1.
    exact (ext_trans _ _ _ H1 (IH _ (proj1 H1))).
Qed.

Theorem tables_immutable ops s r t :
  heap_fresh (ob s) = true -> lookup r (heap (ob s)) = Some t ->
  lookup r (heap (ob (fst (run ops s)))) = Some t.
Proof. intros Hf Hl. exact (proj2 (ext_run ops s Hf) r t Hl). Qed.

Theorem derive_pure sr ov s r t :
  heap_fresh (ob s) = true -> lookup r (heap (ob s)) = Some t ->
  lookup r (heap (ob (fst (step (Derive sr ov) s)))) = Some t /\
  defaults (ob (fst (step (Derive sr ov) s))) = defaults (ob s) /\
  prev (fst (step (Derive sr ov) s)) = prev s.
Proof.
  intros Hf Hl. split; [exact (proj2 (ext_step (Derive sr ov) s Hf) r t Hl)|].
  destruct sr as [|r']; simpl; [|auto].
  unfold current_runtime. destruct (cur s); simpl; auto.
Qed.

(** What a derived runtime holds: its overrides, else what its source held, else the
    defaults of the moment of derivation. *)
Theorem derived_holds r ov o t :
  let (n, o') := derive r ov o in
  lookup t (handlers_of o' n) =
    match lookup t ov with
    | Some h => Some h
    | None => match lookup t (handlers_of o r) with
              | Some h => Some h
              | None => lookup t (defaults o)
              end
    end.
Proof.
  simpl. unfold handlers_of at 1. simpl. rewrite N.eqb_refl.
  rewrite !lookup_app. destruct (lookup t ov); reflexivity.
Qed.

(** * The serve rule *)
Theorem serve_rule s r t :
  cur s = Some r ->
  step (Run t) s =
    (s, match lookup t (handlers_of (ob s) r) with
        | Some h => OServed h
        | None => match lookup t (defaults (ob s)) with
                  | Some d => OServed d
                  | None => OTypeError
                  end
        end).
Proof.
  intros Hr. simpl. rewrite (current_some s r Hr). reflexivity.
Qed.

Theorem serve_rule_no_runtime s t :
  cur s = None ->
  snd (step (Run t) s) =
    match lookup t (defaults (ob s)) with Some d => OServed d | None => OTypeError end /\
  cur (fst (step (Run t) s)) = Some (next (ob s)) /\ prev (fst (step (Run t) s)) = prev s.
Proof.
  intros Hn. simpl. unfold current_runtime. rewrite Hn. simpl.
  unfold serve, handlers_of. simpl. rewrite N.eqb_refl. simpl.
  destruct (lookup t (defaults (ob s))) as [h|]; auto.
Qed.

(** * Late defaults *)
Lemma defaults_step c s t :
  registers t [c] = false ->
  lookup t (defaults (ob (fst (step c s)))) = lookup t (defaults (ob s)).
Proof.
  intros Hc.
  destruct c as [ov|[|r] ov|[|r]| |r| | |t' h|t']; simpl in *; try reflexivity.
  - unfold current_runtime. destruct (cur s); reflexivity.
  - unfold current_runtime. destruct (cur s); reflexivity.
  - unfold current_runtime. destruct (cur s); reflexivity.
  - destruct (exit_ s) as [s'|] eqn:E; simpl; [|reflexivity].
    unfold exit_ in E. destruct (prev s) as [[|[p|] rest]|]; inversion E; reflexivity.
  - destruct (exit_ s) as [s'|] eqn:E; simpl; [|reflexivity].
    unfold exit_ in E. destruct (prev s) as [[|[p|] rest]|]; inversion E; reflexivity.
  - rewrite orb_false_r in Hc. rewrite Hc. reflexivity.
  - unfold current_runtime. destruct (cur s); reflexivity.
Qed.

Lemma registers_cons t c l : registers t (c :: l) = registers t [c] || registers t l.
Proof. destruct c; simpl; try reflexivity. rewrite orb_false_r. reflexivity. Qed.

Lemma defaults_run ops : forall s t,
  registers t ops = false ->
  lookup t (defaults (ob (fst (run ops s)))) = lookup t (defaults (ob s)).
Proof.
  induction ops as [|c ops IH]; intros s t Hr; [reflexivity|].
  rewrite registers_cons in Hr. apply orb_false_iff in Hr. destruct Hr as [Hc Hr].
  rewrite run_cons. simpl fst. rewrite (IH _ t Hr). exact (defaults_step c s t Hc).
Qed.

(** A default registered after runtime r was created -- whatever happens in between, short of
    registering the type again -- is served by r for a type r holds no handler for. *)
Theorem late_default_served s r tb t h mid :
  heap_fresh (ob s) = true ->
  lookup r (heap (ob s)) = Some tb -> lookup t tb = None ->
  registers t mid = false ->
  let s2 := fst (run (RegisterDefault t h :: mid) s) in
  snd (run [Enter r; Run t] s2) = [ORet r; OServed h].
Proof.
  intros Hf Hl Hn Hm. cbv zeta.
  set (s2 := fst (run (RegisterDefault t h :: mid) s)).
  assert (Hh : lookup r (heap (ob s2)) = Some tb).
  { exact (tables_immutable (RegisterDefault t h :: mid) s r tb Hf Hl). }
  assert (Hd : lookup t (defaults (ob s2)) = Some h).
  { unfold s2. rewrite run_cons. simpl fst. rewrite (defaults_run mid _ t Hm).
    simpl. rewrite N.eqb_refl. reflexivity. }
  simpl. unfold serve, handlers_of. simpl. rewrite Hh, Hn, Hd. reflexivity.
Qed.

(** * Refutations (concrete witnesses, by computation) *)

(** The OLD [or] fallback of Runtime.run (before fix: 8a7cb3b; NOT the current code): a held
    handler whose truth value is False ([falsy_tag]) was skipped in favour of the default. *)
Definition falsy_witness : list op :=
  [RegisterDefault 1 2; New [(1, falsy_tag)]; Enter 0; Run 1]%N.

Theorem old_or_fallback_refuted :
  exists ops s,
    state_ok s = true /\
    (* old code: the default (handler 2) answers *)
    last (snd (run_or_old ops s)) ODone = OServed 2%N /\
    (* the stack specification: the held handler answers *)
    last (snd (arun ops (abs s))) ODone = OServed falsy_tag /\
    (* and so does the current code *)
    snd (run ops s) = snd (arun ops (abs s)).
Proof.
  exists falsy_witness, (fresh_thread (mkObjs [] 0%N [])). vm_compute. repeat split.
Qed.

(** The OLD code (restore pointer on the runtime object, before fix: 93f0f4c). *)
Definition old_objs : objs := mkObjs [(0, [(1, 2)])]%N 1%N [(1, 2)]%N.
Definition old_reentry_witness : list op :=
  [Derive SCur [(1, 1)]; Enter 1; Enter 1; Run 1; Exit; Run 1; Exit; Run 1]%N.

Theorem old_code_refuted_reentry :
  exists ops o,
    (* old code: the last request crashes on a None runtime *)
    last (snd (run_old ops (old_thread_with 0%N o))) (OO ODone) = OAttributeError /\
    (* the stack specification serves it by the thread's own runtime (default handler 2) *)
    last (snd (arun ops (abs (thread_with 0%N o)))) ODone = OServed 2%N /\
    (* and so does the current code *)
    snd (run ops (thread_with 0%N o)) = snd (arun ops (abs (thread_with 0%N o))).
Proof.
  exists old_reentry_witness, old_objs. vm_compute. repeat split.
Qed.

Definition old_fresh_objs : objs := mkObjs [] 0%N [(1, 2)]%N.
Definition old_no_runtime_witness : list op :=
  [New [(1, 1)]; Enter 0; Run 1; Exit; Run 1]%N.

Theorem old_code_refuted_no_runtime :
  exists ops o,
    last (snd (run_old ops (old_fresh_thread o))) (OO ODone) = OAttributeError /\
    last (snd (arun ops (abs (fresh_thread o)))) ODone = OServed 2%N /\
    snd (run ops (fresh_thread o)) = snd (arun ops (abs (fresh_thread o))).
Proof.
  exists old_no_runtime_witness, old_fresh_objs. vm_compute. repeat split.
Qed.
