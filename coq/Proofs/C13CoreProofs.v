(** C13 on the CORE model (Model/Eval.v + Model/Derived.v): [e >> p], the composition an
    evaluated pipeline denotes, and the parameters of pipeline steps.  (Model/Pipeline.v is the
    separate model of the Pipeline object structure; here the pipeline is the expression
    [EPipe rsteps] of the core model, its steps listed TAIL FIRST as labrea evaluates them.)
    Generic in the store type, store operations, switches, user code, budget and ghost oracle. *)
From Coq Require Import List NArith ZArith Bool.
Import ListNotations.
From LV Require Import Model.Base Model.Template Model.Eval Model.Derived
  Proofs.EvalProofs Proofs.TraceProofs Proofs.EvalUnfold.

Section C13Core.
  Variable S : Type.
  Variable mem_find : N -> fp -> S -> option value.
  Variable mem_store : N -> fp -> value -> S -> S.
  Variable cfg : config.
  Variable ucall : N -> list value -> cres.
  Variable rfuel : nat.
  Variable site_ok : expr -> dict -> bool.

  Notation eval := (eval S mem_find mem_store cfg ucall rfuel site_ok).
  Notation keys := (keys S mem_find mem_store cfg ucall rfuel site_ok).
  Notation explain := (explain S mem_find mem_store cfg ucall rfuel site_ok).
  Notation M := (M S).
  Notation bind := (bind S).
  Notation ret := (ret S).
  Notation wrap_eval := (wrap_eval S).
  Notation mapM := (mapM S).
  Notation unionM := (unionM S).
  Notation call_value := (call_value S ucall).
  Notation call_fun := (call_fun S ucall).

  (** [p.transform(x, o)] once the steps are evaluated: apply the step functions in order, each
      to the result of the previous one; the first failure ends the run *)
  Fixpoint compose_run (fs : list value) (x : value) : M value :=
    match fs with
    | [] => ret x
    | g :: fs' => bind (call_value g x) (fun y => compose_run fs' y)
    end.

  Lemma call_compose_nil post x : call_value (VF B_COMPOSE [] post) x = ret x.
  Proof. reflexivity. Qed.

  Lemma call_compose_cons g fs post x :
    call_value (VF B_COMPOSE (g :: fs) post) x =
      bind (call_value g x) (fun y => call_value (VF B_COMPOSE fs post) y).
  Proof. reflexivity. Qed.

  Lemma call_compose fs post x s : call_value (VF B_COMPOSE fs post) x s = compose_run fs x s.
  Proof.
    revert x s. induction fs as [|g fs IH]; intros x s.
    - reflexivity.
    - rewrite call_compose_cons. cbn [compose_run]. unfold Eval.bind.
      destruct (call_value g x s) as [[[y|c ee] s1] l1]; [|reflexivity]. now rewrite IH.
  Qed.

  (** a step that is a plain function [f] with evaluated parameters [pv] (what a
      [@pipeline_step] evaluates to) is called as [f(x, *pv)] *)
  Lemma call_step f pre post x :
    N.eqb f B_COMPOSE = false -> call_value (VF f pre post) x = call_fun f (pre ++ [x] ++ post).
  Proof. intros H. cbn [Eval.call_value]. now rewrite H. Qed.

  Lemma compose_run_app fs gs x s :
    compose_run (fs ++ gs) x s = bind (compose_run fs x) (fun y => compose_run gs y) s.
  Proof.
    revert x s. induction fs as [|g fs IH]; intros x s.
    - cbn. destruct (compose_run gs x s) as [[r s1] l1]. reflexivity.
    - cbn [app compose_run]. unfold Eval.bind at 1 2 3.
      destruct (call_value g x s) as [[[y|c ee] s1] l1]; [|reflexivity].
      rewrite IH. unfold Eval.bind.
      destruct (compose_run fs y s1) as [[[z|c ee] s2] l2]; [|reflexivity].
      destruct (compose_run gs z s2) as [[r s3] l3]. now rewrite app_assoc.
  Qed.

  (** ** [e >> p]: the source and the steps are evaluated under the SAME dictionary [o] (source
      first, then the steps in the order labrea evaluates them, tail first), and the result is
      the evaluated steps applied to the source's value in application order *)
  Theorem eval_apply_pipe e rsteps o s :
    eval (EApply e (EPipe rsteps)) o s =
      wrap_eval (bind (eval e o) (fun x =>
                 bind (mapM (fun st => eval st o) rsteps) (fun fs =>
                 compose_run (rev fs) x))) s.
  Proof.
    rewrite eval_apply_E, eval_pipe_E. unfold Eval.wrap_eval, Eval.bind.
    destruct (eval e o s) as [[[x|c ee] s1] l1]; [|reflexivity].
    destruct (mapM (fun st => eval st o) rsteps s1) as [[[fs|c ee] s2] l2]; [|reflexivity].
    cbn [Eval.ret]. rewrite app_nil_r, call_compose.
    destruct (compose_run (rev fs) x s2) as [[[y|c ee] s3] l3]; reflexivity.
  Qed.

  (** the same, as outcomes: if the source yields [x] and the steps evaluate to [fs] (listed tail
      first), the outcome is that of running the steps in application order on [x], behind the
      EvaluateRequest wrapper, logs concatenated *)
  Corollary eval_apply_pipe_ok e rsteps o s x s1 l1 fs s2 l2 :
    eval e o s = (Ok x, s1, l1) ->
    mapM (fun st => eval st o) rsteps s1 = (Ok fs, s2, l2) ->
    eval (EApply e (EPipe rsteps)) o s =
      wrap_out S (after S (l1 ++ l2) (compose_run (rev fs) x s2)).
  Proof.
    intros He Hs. rewrite eval_apply_pipe, wrap_eval_out.
    rewrite (bind_okE _ _ _ _ _ _ _ He), (bind_okE _ _ _ _ _ _ _ Hs).
    now rewrite after_after.
  Qed.

  (** ** step parameters: a [@pipeline_step] evaluates its parameters under the same dictionary
      and yields the function closed over their values … *)
  Theorem eval_pstep f ps o s :
    eval (pstep f ps) o s =
      wrap_eval (bind (mapM (fun p => eval p o) ps) (fun pv => ret (VF f [] pv))) s.
  Proof.
    unfold pstep. rewrite eval_call_E, eval_value_E. unfold Eval.wrap_eval, Eval.bind. cbn [Eval.ret Eval.mapM].
    cbn [app].
    destruct (mapM (fun p => eval p o) ps s) as [[[pv|c ee] s1] l1]; reflexivity.
  Qed.

  (** … and keys()/explain() of the step are the unions of its parameters' keys()/explain()
      under the same dictionary *)
  Lemma bind_ret_r {A} (m : M A) s : bind m (fun a => ret a) s = m s.
  Proof. unfold Eval.bind, Eval.ret. destruct (m s) as [[[a|c ee] s1] l1]; [now rewrite app_nil_r|reflexivity]. Qed.

  Theorem keys_pstep f ps o s :
    keys (pstep f ps) o s = unionM (fun p => keys p o) ps s.
  Proof.
    unfold pstep. rewrite keys_ECall, keys_EValue. unfold Eval.bind. cbn [Eval.ret Eval.unionM app].
    destruct (unionM (fun p => keys p o) ps s) as [[[a|c ee] s1] l1]; [now rewrite app_nil_r|reflexivity].
  Qed.

  Theorem explain_pstep f ps o s :
    explain (pstep f ps) o s = unionM (fun p => explain p o) ps s.
  Proof.
    unfold pstep. rewrite explain_ECall, explain_EValue. unfold Eval.bind. cbn [Eval.ret Eval.unionM app].
    destruct (unionM (fun p => explain p o) ps s) as [[[a|c ee] s1] l1]; [now rewrite app_nil_r|reflexivity].
  Qed.

  (** keys()/explain() of [e >> p]: the source's, then the union over the steps, same [o] *)
  Theorem keys_apply_pipe e rsteps o :
    keys (EApply e (EPipe rsteps)) o =
      bind (keys e o) (fun a => bind (unionM (fun st => keys st o) rsteps) (fun b => ret (a ++ b))).
  Proof. reflexivity. Qed.

  Theorem explain_apply_pipe e rsteps o :
    explain (EApply e (EPipe rsteps)) o =
      bind (explain e o) (fun a => bind (unionM (fun st => explain st o) rsteps) (fun b => ret (a ++ b))).
  Proof. reflexivity. Qed.
End C13Core.
