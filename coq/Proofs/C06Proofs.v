(** C06 — laziness: only bodies on the selected path run, and only when evaluated.

    The model logs every execution of user code (dataset bodies, overload implementations,
    callbacks, pipeline steps, predicates, effects) as an [EvCall f args] event, in order of
    occurrence (Model/Eval.v, [call_fun]).  This file proves, for ALL expressions, options,
    user code, stores, switches and resolution budgets:

    1. exact outcome equations for the choosers: the outcome (result, store, event log) of a
       switch / overload / bind is the dispatch's followed by the selected branch's ONLY; of a
       case-when the dispatch's, the conditions' up to the first true one, and that result's
       only; of a coalesce the attempts' up to the first success only; of an Option whose key is
       present, independent of the default expression.  Stated as INDEPENDENCE (replace every
       unselected branch / later member / the default by anything — the outcome is the same)
       and as log decompositions.
    2. order: a body's [EvCall] comes after all events of its function / positional / keyword
       argument expressions; in [EApply] (>> / apply / pipeline application) all events of the
       source precede all events of the function expression, which precede the step's run.
    3. containment: every [EvCall f] in the log of evaluate / validate / keys / explain of [e]
       under [o] is by a function atom occurring on a path of [e] that is SELECTABLE under [o]
       ([path_in], defined by structural recursion, consulting the evaluator only for the values
       the choosers can take), closed under what user code returns. *)
From Coq Require Import List NArith ZArith Bool Lia.
Import ListNotations.
From LV Require Import Model.Base Model.Template Model.Eval Model.Derived
  Proofs.BaseProofs Proofs.EvalProofs Proofs.EvalInd Proofs.EvalUnfold Proofs.TraceProofs.

Section C06.
  Variable S : Type.
  Variable mem_find : N -> fp -> S -> option value.
  Variable mem_store : N -> fp -> value -> S -> S.
  Variable cfg : config.
  Variable ucall : N -> list value -> cres.
  Variable rfuel : nat.
  Variable site_ok : expr -> dict -> bool.

  Notation eval := (eval S mem_find mem_store cfg ucall rfuel site_ok).
  Notation validate := (validate S mem_find mem_store cfg ucall rfuel site_ok).
  Notation keys := (keys S mem_find mem_store cfg ucall rfuel site_ok).
  Notation explain := (explain S mem_find mem_store cfg ucall rfuel site_ok).
  Notation M := (M S).
  Notation bind := (bind S).
  Notation ret := (ret S).
  Notation fail := (fail S).
  Notation emit := (emit S).
  Notation catch := (catch S).
  Notation wrap_eval := (wrap_eval S).
  Notation call_value := (call_value S ucall).
  Notation after := (after S).
  Notation wrap_out := (wrap_out S).
  Notation case_loop := (case_loop S mem_find mem_store cfg ucall rfuel site_ok).
  Notation coal_loop := (coal_loop S mem_find mem_store cfg ucall rfuel site_ok).
  Notation dflt_or := (dflt_or S).

  Ltac bok H := rewrite (bind_okE S _ _ _ _ _ _ H); cbv beta.
  Ltac berr H := rewrite (bind_errE S _ _ _ _ _ _ _ H).
  Ltac fin :=
    rewrite ?wrap_after, ?after_after; unfold TraceProofs.after, TraceProofs.wrap_out;
    cbn [fst snd app]; repeat (rewrite <- app_assoc; cbn [app]); rewrite ?app_nil_r; try reflexivity.

  Definition log_of {A} (x : outcome S A) : list event := snd x.

  Lemma log_after {A} l1 (x : outcome S A) : log_of (after l1 x) = l1 ++ log_of x.
  Proof. reflexivity. Qed.

  Lemma wrap_out_eval' e o s : wrap_out (eval e o s) = eval e o s.
  Proof. apply wrap_out_eval. Qed.

  (** ** 1a. Switch / Overloaded / Bind: the dispatch, then the registered branch only *)
  Lemma dispatch_ok (m : M value) b s k s1 l1 :
    m s = (Ok k, s1, l1) -> dispatch_value S m b s = (Ok (Some k), s1, l1).
  Proof.
    intros H. unfold dispatch_value. erewrite catch_okE; [reflexivity|].
    bok H. unfold TraceProofs.after. cbn. now rewrite app_nil_r.
  Qed.
  Lemma dispatch_fallback (m : M value) s c s1 l1 :
    m s = (Err c true, s1, l1) -> c <> CUnmodelled -> dispatch_value S m true s = (Ok None, s1, l1).
  Proof.
    intros H Hne. unfold dispatch_value.
    assert (Hb : bind m (fun k => ret (Some k)) s = (Err c true, s1, l1)) by (now berr H).
    rewrite (catch_errE S _ _ _ _ _ _ _ Hb Hne). unfold TraceProofs.after. cbn. now rewrite app_nil_r.
  Qed.

  Theorem switch_selected_only disp tbl dflt o s k s1 l1 b :
    eval disp o s = (Ok k, s1, l1) -> hashable k = true -> assoc_v k tbl = Some b ->
    eval (ESwitch disp tbl dflt) o s = after l1 (eval b o s1).
  Proof.
    intros H Hh Ha. rewrite eval_switch_E, wrap_eval_out.
    bok (dispatch_ok _ (is_some dflt) _ _ _ _ H).
    rewrite Hh. cbn [negb]. rewrite pick_assoc, Ha. now rewrite wrap_after, wrap_out_eval.
  Qed.

  (** the same statement as an independence: whatever else is registered, whatever the default *)
  Corollary switch_unselected_irrelevant disp tbl dflt tbl' dflt' o s k s1 l1 b :
    eval disp o s = (Ok k, s1, l1) -> hashable k = true ->
    assoc_v k tbl = Some b -> assoc_v k tbl' = Some b ->
    eval (ESwitch disp tbl dflt) o s = eval (ESwitch disp tbl' dflt') o s.
  Proof.
    intros H Hh Ha Ha'.
    rewrite (switch_selected_only _ _ dflt _ _ _ _ _ _ H Hh Ha).
    now rewrite (switch_selected_only _ _ dflt' _ _ _ _ _ _ H Hh Ha').
  Qed.

  Corollary switch_log disp tbl dflt o s k s1 l1 b :
    eval disp o s = (Ok k, s1, l1) -> hashable k = true -> assoc_v k tbl = Some b ->
    log_of (eval (ESwitch disp tbl dflt) o s) = l1 ++ log_of (eval b o s1).
  Proof. intros H Hh Ha. now rewrite (switch_selected_only _ _ _ _ _ _ _ _ _ H Hh Ha). Qed.

  (** unregistered value: the default only (no registered branch runs) *)
  Theorem switch_default_only disp tbl d o s k s1 l1 :
    eval disp o s = (Ok k, s1, l1) -> hashable k = true -> assoc_v k tbl = None ->
    eval (ESwitch disp tbl (Some d)) o s = after l1 (eval d o s1).
  Proof.
    intros H Hh Ha. rewrite eval_switch_E, wrap_eval_out.
    bok (dispatch_ok _ (is_some (Some d)) _ _ _ _ H).
    rewrite Hh. cbn [negb]. rewrite pick_assoc, Ha. cbn [TraceProofs.dflt_or].
    now rewrite wrap_after, wrap_out_eval.
  Qed.
  (** the dispatch cannot be evaluated: the default only *)
  Theorem switch_fallback_only disp tbl d o s c s1 l1 :
    eval disp o s = (Err c true, s1, l1) -> c <> CUnmodelled ->
    eval (ESwitch disp tbl (Some d)) o s = after l1 (eval d o s1).
  Proof.
    intros H Hc. rewrite eval_switch_E, wrap_eval_out.
    cbn [is_some]. bok (dispatch_fallback _ _ _ _ _ H Hc). cbn [TraceProofs.dflt_or].
    now rewrite wrap_after, wrap_out_eval.
  Qed.

  (** validate / keys of a switch walk the same single branch *)
  Theorem switch_validate_selected_only disp tbl dflt o s k s1 l1 b :
    eval disp o s = (Ok k, s1, l1) -> hashable k = true -> assoc_v k tbl = Some b ->
    validate (ESwitch disp tbl dflt) o s = after l1 (validate b o s1).
  Proof.
    intros H Hh Ha. rewrite validate_switch_E.
    bok (dispatch_ok _ (is_some dflt) _ _ _ _ H).
    rewrite Hh. cbn [negb]. now rewrite pick_assoc, Ha.
  Qed.
  Theorem switch_keys_selected_only disp tbl dflt o s k s1 l1 b :
    eval disp o s = (Ok k, s1, l1) -> hashable k = true -> assoc_v k tbl = Some b ->
    keys (ESwitch disp tbl dflt) o s =
      after l1 (bind (keys b o) (fun a => bind (keys disp o) (fun b' => ret (a ++ b'))) s1).
  Proof.
    intros H Hh Ha. rewrite keys_switch_E.
    bok (dispatch_ok _ (is_some dflt) _ _ _ _ H).
    rewrite Hh. cbn [negb]. now rewrite pick_assoc, Ha.
  Qed.

  Theorem bind_selected_only src tbl dflt o s x s1 l1 b :
    eval src o s = (Ok x, s1, l1) -> assoc_v x tbl = Some b ->
    eval (EBind src tbl dflt) o s = after l1 (eval b o s1).
  Proof.
    intros H Ha. rewrite eval_bind_E, wrap_eval_out. bok H.
    rewrite pick_assoc, Ha. now rewrite wrap_after, wrap_out_eval.
  Qed.
  Corollary bind_unselected_irrelevant src tbl dflt tbl' dflt' o s x s1 l1 b :
    eval src o s = (Ok x, s1, l1) -> assoc_v x tbl = Some b -> assoc_v x tbl' = Some b ->
    eval (EBind src tbl dflt) o s = eval (EBind src tbl' dflt') o s.
  Proof.
    intros H Ha Ha'. rewrite (bind_selected_only _ _ dflt _ _ _ _ _ _ H Ha).
    now rewrite (bind_selected_only _ _ dflt' _ _ _ _ _ _ H Ha').
  Qed.

  (** a dataset with overloads (Dataset._composed): under the wrappers, the overload switch
      runs the dispatch and the registered implementation only — the default body (the
      decorated function) and every other implementation are not evaluated *)
  Theorem overload_selected_only d o s k s1 l1 b :
    eval d.(ds_dispatch) o s = (Ok k, s1, l1) -> hashable k = true ->
    assoc_v k d.(ds_table) = Some b ->
    eval (ESwitch d.(ds_dispatch) d.(ds_table) d.(ds_default)) o s = after l1 (eval b o s1).
  Proof. apply switch_selected_only. Qed.

  (** ** 1b. CaseWhen: dispatch, conditions up to and including the first true one, that result *)
  Inductive conds_false (o : dict) (x : value) : list (expr * expr) -> S -> S -> list event -> Prop :=
  | cf_nil s : conds_false o x [] s s []
  | cf_cons c r rest s p s1 l1 b s2 l2 s3 l3 :
      eval c o s = (Ok p, s1, l1) -> call_value p x s1 = (Ok b, s2, l2) -> truthy b = false ->
      conds_false o x rest s2 s3 l3 ->
      conds_false o x ((c, r) :: rest) s s3 (l1 ++ l2 ++ l3).

  Lemma case_loop_skip {A} o x (fin : M A) sel pre rest s s1 l1 :
    conds_false o x pre s s1 l1 ->
    case_loop o x fin sel (pre ++ rest) s = after l1 (case_loop o x fin sel rest s1).
  Proof.
    induction 1 as [s|c r pre s p s1 l1 b s2 l2 s3 l3 Hc Hp Hb Hrest IH].
    - cbn [app]. now rewrite after_nil.
    - cbn [app TraceProofs.case_loop]. bok Hc. bok Hp. rewrite Hb.
      fold (case_loop o x fin sel (pre ++ rest)). rewrite IH. rewrite !after_after.
      now rewrite <- !app_assoc.
  Qed.

  (** the conditions' results [map snd pre] never appear on the right-hand side: they are not
      evaluated; nor is anything of [post] or of the default *)
  Theorem case_first_true_only disp pre c r post dflt o s x s0 l0 s1 l1 p s2 l2 b s3 l3 :
    eval disp o s = (Ok x, s0, l0) ->
    conds_false o x pre s0 s1 l1 ->
    eval c o s1 = (Ok p, s2, l2) -> call_value p x s2 = (Ok b, s3, l3) -> truthy b = true ->
    eval (ECase disp (pre ++ (c, r) :: post) dflt) o s = after (l0 ++ l1 ++ l2 ++ l3) (eval r o s3).
  Proof.
    intros Hd Hpre Hc Hp Hb. rewrite eval_case_E, wrap_eval_out. bok Hd.
    rewrite (case_loop_skip _ _ _ _ _ _ _ _ _ Hpre). cbn [TraceProofs.case_loop].
    bok Hc. bok Hp. rewrite Hb. rewrite !after_after, wrap_after, wrap_out_eval.
    now rewrite <- !app_assoc.
  Qed.

  (** independence: the results of the false conditions, every later case and the default can
      be replaced by anything *)
  Definition same_conds (a b : list (expr * expr)) : Prop := map fst a = map fst b.

  Lemma conds_false_same o x pre pre' s s1 l1 :
    same_conds pre pre' -> conds_false o x pre s s1 l1 -> conds_false o x pre' s s1 l1.
  Proof.
    intros Hs H. revert pre' Hs.
    induction H as [s|c r pre s p s1 l1 b s2 l2 s3 l3 Hc Hp Hb Hrest IH]; intros pre' Hs.
    - destruct pre'; [constructor|discriminate].
    - destruct pre' as [|[c' r'] pre']; [discriminate|]. unfold same_conds in Hs. cbn in Hs.
      inversion Hs; subst. econstructor; eauto.
  Qed.

  Corollary case_unselected_irrelevant disp pre pre' c r post post' dflt dflt' o s x s0 l0 s1 l1 p s2 l2 b s3 l3 :
    eval disp o s = (Ok x, s0, l0) ->
    conds_false o x pre s0 s1 l1 -> same_conds pre pre' ->
    eval c o s1 = (Ok p, s2, l2) -> call_value p x s2 = (Ok b, s3, l3) -> truthy b = true ->
    eval (ECase disp (pre ++ (c, r) :: post) dflt) o s =
    eval (ECase disp (pre' ++ (c, r) :: post') dflt') o s.
  Proof.
    intros Hd Hpre Hs Hc Hp Hb.
    rewrite (case_first_true_only _ _ _ _ post dflt _ _ _ _ _ _ _ _ _ _ _ _ _ Hd Hpre Hc Hp Hb).
    now rewrite (case_first_true_only _ _ _ _ post' dflt' _ _ _ _ _ _ _ _ _ _ _ _ _ Hd
                   (conds_false_same _ _ _ _ _ _ _ Hs Hpre) Hc Hp Hb).
  Qed.

  (** no condition holds: the default only, no result expression runs *)
  Theorem case_default_only disp cases d o s x s0 l0 s1 l1 :
    eval disp o s = (Ok x, s0, l0) -> conds_false o x cases s0 s1 l1 ->
    eval (ECase disp cases (Some d)) o s = after (l0 ++ l1) (eval d o s1).
  Proof.
    intros Hd Hc. rewrite eval_case_E, wrap_eval_out. bok Hd.
    rewrite <- (app_nil_r cases). rewrite (case_loop_skip _ _ _ _ _ [] _ _ _ Hc).
    cbn [TraceProofs.case_loop TraceProofs.dflt_or].
    now rewrite !after_after, wrap_after, wrap_out_eval.
  Qed.

  (** ** 1c. Coalesce: attempts up to and including the first success; nothing of later members *)
  Inductive skipped (o : dict) : list expr -> S -> S -> list event -> Prop :=
  | sk_nil s : skipped o [] s s []
  | sk_cons m rest s c s1 l1 s2 l2 :
      bind (validate m o) (fun _ => eval m o) s = (Err c true, s1, l1) -> c <> CUnmodelled ->
      skipped o rest s1 s2 l2 ->
      skipped o (m :: rest) s s2 (l1 ++ l2).

  Lemma coal_loop_skip o pre rest s s1 l1 :
    skipped o pre s s1 l1 ->
    forall last, exists last',
      coal_loop o (fun m => eval m o) (pre ++ rest) last s =
        after l1 (coal_loop o (fun m => eval m o) rest last' s1).
  Proof.
    induction 1 as [s|m pre s c s1 l1 s2 l2 Hm Hc Hrest IH]; intros last.
    - exists last. cbn [app]. now rewrite after_nil.
    - destruct (IH (Some (c, true))) as [last' E]. exists last'.
      cbn [app TraceProofs.coal_loop]. rewrite (catch_errE S _ _ _ _ _ _ _ Hm Hc). cbv beta iota.
      fold (coal_loop o (fun m => eval m o) (pre ++ rest)). rewrite E. now rewrite after_after.
  Qed.

  (** [post] does not occur on the right-hand side *)
  Theorem coalesce_first_success_only pre m post o s s1 l1 v s2 l2 :
    skipped o pre s s1 l1 ->
    bind (validate m o) (fun _ => eval m o) s1 = (Ok v, s2, l2) ->
    eval (ECoalesce (pre ++ m :: post)) o s = (Ok v, s2, l1 ++ l2).
  Proof.
    intros Hpre Hm. rewrite eval_coalesce_E, wrap_eval_out.
    destruct (coal_loop_skip _ _ (m :: post) _ _ _ Hpre None) as [last' E]. rewrite E.
    cbn [TraceProofs.coal_loop]. rewrite (catch_okE S _ _ _ _ _ _ Hm). fin.
  Qed.
  Corollary coalesce_later_irrelevant pre m post post' o s s1 l1 v s2 l2 :
    skipped o pre s s1 l1 ->
    bind (validate m o) (fun _ => eval m o) s1 = (Ok v, s2, l2) ->
    eval (ECoalesce (pre ++ m :: post)) o s = eval (ECoalesce (pre ++ m :: post')) o s.
  Proof.
    intros Hpre Hm. rewrite (coalesce_first_success_only _ _ post _ _ _ _ _ _ _ Hpre Hm).
    now rewrite (coalesce_first_success_only _ _ post' _ _ _ _ _ _ _ Hpre Hm).
  Qed.
  (** the first member succeeds: the log is exactly its validation followed by its evaluation *)
  Corollary coalesce_head_success m post o s v s2 l2 :
    bind (validate m o) (fun _ => eval m o) s = (Ok v, s2, l2) ->
    eval (ECoalesce (m :: post)) o s = (Ok v, s2, l2).
  Proof. intros Hm. exact (coalesce_first_success_only [] m post o s s [] v s2 l2 (sk_nil o s) Hm). Qed.

  (** ** 1d. Option: key present => the default expression is not evaluated *)
  Lemma emit_reads_log ks o s :
    exists l, emit_reads S ks o s = (Ok tt, s, l) /\ forallb is_read l = true.
  Proof. apply emit_reads_spec. Qed.

  Theorem option_present_default_irrelevant k dflt dflt' dom o raw :
    lookup k (JObj o) = Found raw ->
    forall s, eval (EOption k dflt dom) o s = eval (EOption k dflt' dom) o s.
  Proof.
    intros Hl s. rewrite !eval_option_unfold, !wrap_eval_out, !option_eval_E.
    rewrite !(bind_okE S _ _ _ _ _ _ (rd_E S k o s)). cbv beta. now rewrite Hl.
  Qed.

  (** … and without a domain nothing but option reads is logged: no body of any kind runs *)
  Theorem option_present_only_reads k dflt o raw s :
    lookup k (JObj o) = Found raw ->
    forallb is_read (log_of (eval (EOption k dflt None) o s)) = true.
  Proof.
    intros Hl. rewrite eval_option_unfold, wrap_eval_out, option_eval_E.
    rewrite (bind_okE S _ _ _ _ _ _ (rd_E S k o s)). cbv beta. rewrite Hl.
    destruct (emit_reads_log (resolve_reads rfuel o raw) o s) as [l [E Hrd]].
    unfold Eval.bind at 1. unfold Eval.bind at 1. rewrite E.
    destruct (resolve rfuel o raw); cbn; rewrite ?app_nil_r, Hrd; reflexivity.
  Qed.

  (** absent key: the default is what runs (so the clause above is not vacuous) *)
  Theorem option_absent_runs_default k d o s :
    lookup k (JObj o) = Absent ->
    eval (EOption k (Some d) None) o s = after [EvRead k false] (eval d o s).
  Proof.
    intros Hl. rewrite (eval_option_absent_default _ _ _ _ _ _ _ k d o s Hl).
    destruct (eval d o s) as [[r s'] l]. reflexivity.
  Qed.

  (** ** 2. Order *)
  (** a body runs only after ALL its argument expressions: function expression, positional,
      keyword arguments, in that order; then the call *)
  Theorem call_args_before_body fe args kwargs o s fv s1 l1 av s2 l2 kv s3 l3 :
    eval fe o s = (Ok fv, s1, l1) ->
    mapM S (fun y => eval y o) args s1 = (Ok av, s2, l2) ->
    mapM S (fun y => eval y o) kwargs s2 = (Ok kv, s3, l3) ->
    eval (ECall false fe args kwargs) o s =
      wrap_out (after (l1 ++ l2 ++ l3) (call_value_n S ucall fv (av ++ kv) s3)).
  Proof.
    intros H1 H2 H3. rewrite eval_call_E, wrap_eval_out. bok H1. bok H2. bok H3.
    rewrite !after_after. now rewrite <- !app_assoc.
  Qed.

  (** the call itself logs at most ONE event: the body's [EvCall], with the evaluated arguments *)
  Lemma call_fun_log f args s :
    log_of (call_fun S ucall f args s) = [] \/
    log_of (call_fun S ucall f args s) = [EvCall f (map listify args)].
  Proof.
    unfold call_fun.
    destruct (N.eqb f B_LIST).
    { destruct args as [|x [|y t]]; try (now left). unfold force_elems.
      destruct (elements_of x) as [els|]; [|now left]. destruct (first_err els); now left. }
    destruct (N.eqb f B_TUPLE).
    { destruct args as [|x [|y t]]; try (now left). unfold force_elems.
      destruct (elements_of x) as [els|]; [|now left]. destruct (first_err els); now left. }
    destruct (N.eqb f B_DICT).
    { destruct args as [|x [|y t]]; try (now left). unfold force_elems.
      destruct (elements_of x) as [els|]; [|now left]. destruct (first_err els); [now left|].
      cbn. destruct (first_err _); [now left|]. destruct (dict_of_pairs els []); now left. }
    destruct (deep_err_list args); [now left|].
    destruct (ucall f (map listify args)); now right.
  Qed.

  Corollary call_log_shape fe args kwargs o s fid pre post s1 l1 av s2 l2 kv s3 l3 :
    eval fe o s = (Ok (VF fid pre post), s1, l1) ->
    mapM S (fun y => eval y o) args s1 = (Ok av, s2, l2) ->
    mapM S (fun y => eval y o) kwargs s2 = (Ok kv, s3, l3) ->
    let l := log_of (eval (ECall false fe args kwargs) o s) in
    l = l1 ++ l2 ++ l3 \/
    l = (l1 ++ l2 ++ l3) ++ [EvCall fid (map listify (pre ++ (av ++ kv) ++ post))].
  Proof.
    intros H1 H2 H3. cbv zeta. rewrite (call_args_before_body _ _ _ _ _ _ _ _ _ _ _ _ _ _ H1 H2 H3).
    unfold call_value_n. destruct (N.eqb fid B_COMPOSE).
    - left. cbn. now rewrite app_nil_r.
    - destruct (call_fun_log fid (pre ++ (av ++ kv) ++ post) s3) as [E|E];
        [left|right]; unfold log_of in *;
        destruct (call_fun S ucall fid (pre ++ (av ++ kv) ++ post) s3) as [[[r|c ee] s4] l4];
        cbn in *; subst; now rewrite ?app_nil_r.
  Qed.

  (** an argument that fails: the body does not run at all (log = the arguments' so far) *)
  Theorem call_arg_fails_no_body fe pre x post kwargs o s fv s1 l1 vs s2 l2 c ee s3 l3 :
    eval fe o s = (Ok fv, s1, l1) ->
    mapM S (fun y => eval y o) pre s1 = (Ok vs, s2, l2) ->
    eval x o s2 = (Err c ee, s3, l3) ->
    eval (ECall false fe (pre ++ x :: post) kwargs) o s = (Err c true, s3, l1 ++ l2 ++ l3).
  Proof.
    intros H1 H2 H3. rewrite eval_call_E, wrap_eval_out. bok H1.
    berr (mapM_app_err S _ _ _ post _ _ _ _ _ _ _ _ H2 H3). fin.
  Qed.

  (** >> / apply / pipeline application: source, then the function expression, then the step *)
  Theorem apply_source_before_step src fn o s x s1 l1 f s2 l2 :
    eval src o s = (Ok x, s1, l1) -> eval fn o s1 = (Ok f, s2, l2) ->
    eval (EApply src fn) o s = wrap_out (after (l1 ++ l2) (call_value f x s2)).
  Proof.
    intros H1 H2. rewrite eval_apply_E, wrap_eval_out. bok H1. bok H2. now rewrite after_after.
  Qed.
  (** the source fails: neither the function expression nor the step runs *)
  Theorem apply_source_fails_no_step src fn o s c ee s1 l1 :
    eval src o s = (Err c ee, s1, l1) -> eval (EApply src fn) o s = (Err c true, s1, l1).
  Proof. intros H. rewrite eval_apply_E, wrap_eval_out. berr H. reflexivity. Qed.
  (** the function expression is evaluated under the store the source left *)
  Theorem apply_fn_fails_no_step src fn o s x s1 l1 c ee s2 l2 :
    eval src o s = (Ok x, s1, l1) -> eval fn o s1 = (Err c ee, s2, l2) ->
    eval (EApply src fn) o s = (Err c true, s2, l1 ++ l2).
  Proof. intros H1 H2. rewrite eval_apply_E, wrap_eval_out. bok H1. berr H2. fin. Qed.

  (** >> into a plain step: the step's own event, if any, is the LAST one *)
  Corollary apply_log_shape src fn o s x s1 l1 fid pre post s2 l2 :
    eval src o s = (Ok x, s1, l1) -> eval fn o s1 = (Ok (VF fid pre post), s2, l2) ->
    N.eqb fid B_COMPOSE = false ->
    let l := log_of (eval (EApply src fn) o s) in
    l = l1 ++ l2 \/ l = (l1 ++ l2) ++ [EvCall fid (map listify (pre ++ [x] ++ post))].
  Proof.
    intros H1 H2 Hc. cbv zeta. rewrite (apply_source_before_step _ _ _ _ _ _ _ _ _ _ H1 H2).
    rewrite call_value_VF, Hc.
    destruct (call_fun_log fid (pre ++ [x] ++ post) s2) as [E|E]; [left|right]; unfold log_of in *;
      destruct (call_fun S ucall fid (pre ++ [x] ++ post) s2) as [[[r|c ee] s4] l4];
      cbn in *; subst; now rewrite ?app_nil_r.
  Qed.

  (** ** 3. Containment *)
  Section Contain.
    (** [F]: a set of function atoms; [Inv]: an invariant of the memo store under which every
        stored value mentions only functions of [F] *)
    Variable F : N -> Prop.

    (** atoms of the built-in callables (list / tuple / dict / composition): not user code *)
    Definition builtin (f : N) : bool :=
      N.eqb f B_LIST || N.eqb f B_TUPLE || N.eqb f B_DICT || N.eqb f B_COMPOSE.
    Definition okf (f : N) : Prop := builtin f = true \/ F f.

    (** every function atom inside the value is built in or belongs to [F] *)
    Fixpoint vin (v : value) : Prop :=
      match v with
      | VT _ args =>
          (fix go (l : list value) : Prop := match l with [] => True | x :: l' => vin x /\ go l' end) args
      | VF f pre post =>
          okf f
          /\ (fix go (l : list value) : Prop := match l with [] => True | x :: l' => vin x /\ go l' end) pre
          /\ (fix go (l : list value) : Prop := match l with [] => True | x :: l' => vin x /\ go l' end) post
      | _ => True
      end.

    Lemma vins_Forall l :
      (fix go (l : list value) : Prop := match l with [] => True | x :: l' => vin x /\ go l' end) l
      <-> Forall vin l.
    Proof.
      induction l as [|x l IH].
      - split; intros _; [constructor|exact I].
      - split; intros H.
        + destruct H as [H1 H2]. constructor; [exact H1|]. now apply IH.
        + inversion H; subst. split; [assumption|]. now apply IH.
    Qed.
    Lemma vin_VT t args : vin (VT t args) <-> Forall vin args.
    Proof. cbn [vin]. apply vins_Forall. Qed.
    Lemma vin_VF f pre post : vin (VF f pre post) <-> okf f /\ Forall vin pre /\ Forall vin post.
    Proof. cbn [vin]. rewrite !vins_Forall. reflexivity. Qed.
    Lemma vin_VJ j : vin (VJ j).
    Proof. exact I. Qed.

    Lemma listify_VT t args :
      listify (VT t args) = VT (if N.eqb t T_ITER then T_LIST else t) (map listify args).
    Proof.
      reflexivity.
    Qed.
    Lemma vin_listify v : vin v -> vin (listify v).
    Proof.
      induction v using value_ind'; intros Hv; try exact Hv.
      rewrite listify_VT. apply vin_VT. apply vin_VT in Hv.
      rewrite Forall_forall in *. intros y Hy. apply in_map_iff in Hy as (x & <- & Hx). auto.
    Qed.
    Lemma exhaust_VT t args :
      exhaust (VT t args) = if N.eqb t T_ITER then VT T_ITER [] else VT t (map exhaust args).
    Proof.
      cbn [exhaust]. destruct (N.eqb t T_ITER); reflexivity.
    Qed.
    Lemma vin_exhaust v : vin v -> vin (exhaust v).
    Proof.
      induction v using value_ind'; intros Hv; try exact Hv.
      rewrite exhaust_VT. destruct (N.eqb t T_ITER); [exact I|]. apply vin_VT. apply vin_VT in Hv.
      rewrite Forall_forall in *. intros y Hy. apply in_map_iff in Hy as (x & <- & Hx). auto.
    Qed.
    Lemma vin_elements v els : vin v -> elements_of v = Some els -> Forall vin els.
    Proof.
      destruct v as [j|t args| | |]; cbn [elements_of]; intros Hv H; try discriminate.
      - destruct j; try discriminate. inversion H; subst. apply Forall_forall.
        intros y Hy. apply in_map_iff in Hy as (x & <- & _). exact I.
      - destruct (N.eqb t T_ITER || N.eqb t T_LIST || N.eqb t T_TUPLE); [|discriminate].
        inversion H; subst. exact (proj1 (vin_VT _ _) Hv).
    Qed.
    Lemma vin_dict_put k v d : vin k -> vin v -> Forall vin d -> Forall vin (dict_put k v d).
    Proof.
      intros Hk Hv. induction d as [|x d IH]; intros Hd; cbn [dict_put].
      - constructor; [|constructor]. apply vin_VT. repeat constructor; assumption.
      - inversion Hd as [|? ? Hx Hd']; subst.
        destruct x as [j|t args| | |]; try (constructor; [assumption|now apply IH]).
        destruct args as [|k' [|v' [|w args]]]; try (constructor; [assumption|now apply IH]).
        destruct (value_eq k k').
        + constructor; [|assumption]. apply vin_VT. repeat constructor; assumption.
        + constructor; [assumption|now apply IH].
    Qed.
    Lemma vin_dict_of_pairs ps : forall acc d,
      Forall vin ps -> Forall vin acc -> dict_of_pairs ps acc = Some d -> Forall vin d.
    Proof.
      induction ps as [|p ps IH]; intros acc d Hps Hacc H; cbn [dict_of_pairs] in H.
      - now inversion H; subst.
      - inversion Hps as [|? ? Hp Hps']; subst.
        destruct (elements_of p) as [els|] eqn:E; [|discriminate].
        pose proof (vin_elements _ _ Hp E) as Hels.
        destruct els as [|k [|v [|w els]]]; try discriminate.
        destruct (hashable k); [|discriminate].
        inversion Hels as [|? ? Hk Hr]; subst. inversion Hr as [|? ? Hv _]; subst.
        eapply IH; [exact Hps'| |exact H]. now apply vin_dict_put.
    Qed.

    Definition okev (ev : event) : Prop := match ev with EvCall f _ => F f | _ => True end.

    Variable Inv : S -> Prop.
    Hypothesis Inv_find : forall c f s v, Inv s -> mem_find c f s = Some v -> vin v.
    Hypothesis Inv_store : forall c f v s, Inv s -> vin v -> Inv (mem_store c f v s).
    (** user code returns only functions it was given or that belong to [F] *)
    Hypothesis ucall_closed : forall f args v, F f -> Forall vin args -> ucall f args = COk v -> vin v.

    (** the triple: from a store satisfying the invariant, the computation logs only permitted
        events, leaves a store satisfying the invariant, and its result satisfies [Q] *)
    Definition lg {A} (Q : A -> Prop) (m : M A) : Prop :=
      forall s r s' l, Inv s -> m s = (r, s', l) ->
        Inv s' /\ Forall okev l /\ (forall a, r = Ok a -> Q a).
    Definition TT {A} : A -> Prop := fun _ => True.

    Lemma lg_weaken {A} (P Q : A -> Prop) m : (forall a, P a -> Q a) -> lg P m -> lg Q m.
    Proof. intros HPQ H s r s' l Hi E. destruct (H s r s' l Hi E) as (I1 & I2 & I3). repeat split; auto. Qed.
    Lemma lg_T {A} (P : A -> Prop) m : lg P m -> lg TT m.
    Proof. apply lg_weaken. intros; exact I. Qed.
    Lemma lg_ret {A} (Q : A -> Prop) a : Q a -> lg Q (ret a).
    Proof. intros Hq s r s' l Hi E. inversion E; subst. repeat split; auto. intros b Hb. now inversion Hb; subst. Qed.
    Lemma lg_fail {A} (Q : A -> Prop) c ee : lg Q (@Eval.fail S A c ee).
    Proof. intros s r s' l Hi E. inversion E; subst. repeat split; auto. intros b Hb. discriminate. Qed.
    Lemma lg_emit ev : okev ev -> lg TT (emit ev).
    Proof. intros Hq s r s' l Hi E. inversion E; subst. repeat split; auto. Qed.
    Lemma lg_get_store : lg Inv (get_store S).
    Proof. intros s r s' l Hi E. inversion E; subst. repeat split; auto. intros b Hb. now inversion Hb; subst. Qed.
    Lemma lg_put_store c f v : vin v -> lg TT (put_store S (mem_store c f v)).
    Proof. intros Hv s r s' l Hi E. inversion E; subst. repeat split; auto. Qed.

    (** sequencing; the continuation may use that its argument is an actual result of [m] *)
    Definition reach {A} (m : M A) (a : A) : Prop := exists s s' l, m s = (Ok a, s', l).
    Definition reach_err {A} (m : M A) (c : cause) (ee : bool) : Prop :=
      exists s s' l, m s = (Err c ee, s', l).

    Lemma lg_bind_r {A B} (P : A -> Prop) (Q : B -> Prop) (m : M A) (f : A -> M B) :
      lg P m -> (forall a, P a -> reach m a -> lg Q (f a)) -> lg Q (bind m f).
    Proof.
      intros Hm Hf s r s' l Hi E. unfold Eval.bind in E.
      destruct (m s) as [[[a|c ee] s1] l1] eqn:Em.
      - destruct (Hm _ _ _ _ Hi Em) as (I1 & I2 & I3).
        destruct (f a s1) as [[r2 s2] l2] eqn:Ef. inversion E; subst.
        assert (Hr : reach m a) by (now exists s, s1, l1).
        destruct (Hf a (I3 a eq_refl) Hr _ _ _ _ I1 Ef) as (J1 & J2 & J3).
        repeat split; auto. apply Forall_app; auto.
      - destruct (Hm _ _ _ _ Hi Em) as (I1 & I2 & I3). inversion E; subst.
        repeat split; auto. intros b Hb; discriminate.
    Qed.
    Lemma lg_bind {A B} (P : A -> Prop) (Q : B -> Prop) (m : M A) (f : A -> M B) :
      lg P m -> (forall a, P a -> lg Q (f a)) -> lg Q (bind m f).
    Proof. intros Hm Hf. apply (lg_bind_r P); auto. Qed.
    Lemma lg_bindT {A B} (P : A -> Prop) (Q : B -> Prop) (m : M A) (f : A -> M B) :
      lg P m -> (forall a, lg Q (f a)) -> lg Q (bind m f).
    Proof. intros Hm Hf. apply (lg_bind P); auto. Qed.

    Lemma lg_catch_r {A} (Q : A -> Prop) (m : M A) h :
      lg Q m -> (forall c ee, reach_err m c ee -> c <> CUnmodelled -> lg Q (h c ee)) -> lg Q (catch m h).
    Proof.
      intros Hm Hh s r s' l Hi E. unfold Eval.catch in E.
      destruct (m s) as [[[a|c ee] s1] l1] eqn:Em.
      - inversion E; subst. exact (Hm _ _ _ _ Hi Em).
      - destruct (Hm _ _ _ _ Hi Em) as (I1 & I2 & I3).
        assert (Hr : reach_err m c ee) by (now exists s, s1, l1).
        destruct (h c ee s1) as [[r2 s2] l2] eqn:Eh.
        assert (Hc : c = CUnmodelled \/ c <> CUnmodelled)
          by (destruct c; first [now left|right; discriminate]).
        destruct Hc as [->|Hne].
        + inversion E; subst. repeat split; auto.
        + destruct (Hh c ee Hr Hne _ _ _ _ I1 Eh) as (J1 & J2 & J3).
          assert (E' : (r2, s2, l1 ++ l2) = (r, s', l)) by (destruct c; try exact E; now elim Hne).
          inversion E'; subst. repeat split; auto. apply Forall_app; auto.
    Qed.
    Lemma lg_catch {A} (Q : A -> Prop) (m : M A) h :
      lg Q m -> (forall c ee, lg Q (h c ee)) -> lg Q (catch m h).
    Proof. intros Hm Hh. apply lg_catch_r; auto. Qed.
    Lemma lg_wrap {A} (Q : A -> Prop) (m : M A) : lg Q m -> lg Q (wrap_eval m).
    Proof.
      intros Hm s r s' l Hi E. unfold Eval.wrap_eval in E.
      destruct (m s) as [[[a|c ee] s1] l1] eqn:Em; inversion E; subst;
        destruct (Hm _ _ _ _ Hi Em) as (I1 & I2 & I3); repeat split; auto. intros b Hb; discriminate.
    Qed.

    Lemma lg_mapM {A B} (Q : B -> Prop) (f : A -> M B) l :
      (forall a, In a l -> lg Q (f a)) -> lg (Forall Q) (mapM S f l).
    Proof.
      induction l as [|a l IH]; intros H; [now apply lg_ret|]. rewrite mapM_cons.
      apply (lg_bind Q); [apply H; now left|]. intros b Hb.
      apply (lg_bind (Forall Q)); [apply IH; intros x Hx; apply H; now right|].
      intros bs Hbs. apply lg_ret. now constructor.
    Qed.
    Lemma lg_iterM {A} (f : A -> M unit) l : (forall a, In a l -> lg TT (f a)) -> lg TT (iterM S f l).
    Proof.
      induction l as [|a l IH]; intros H; [now apply lg_ret|]. rewrite iterM_cons.
      apply (lg_bindT TT); [apply H; now left|]. intros _. apply IH. intros x Hx. apply H. now right.
    Qed.
    Lemma lg_unionM {A} (f : A -> M (list key)) l : (forall a, In a l -> lg TT (f a)) -> lg TT (unionM S f l).
    Proof.
      induction l as [|a l IH]; intros H; [now apply lg_ret|]. rewrite unionM_cons.
      apply (lg_bindT TT); [apply H; now left|]. intros b.
      apply (lg_bindT TT); [apply IH; intros x Hx; apply H; now right|]. intros; now apply lg_ret.
    Qed.

    (** the primitives *)
    Lemma lg_force_elems v : vin v -> lg (Forall vin) (force_elems S v).
    Proof.
      intros Hv. unfold force_elems. destruct (elements_of v) as [els|] eqn:E; [|apply lg_fail].
      destruct (first_err els); [apply lg_fail|]. apply lg_ret. eapply vin_elements; eauto.
    Qed.
    Lemma lg_call_fun f args :
      okf f -> N.eqb f B_COMPOSE = false -> Forall vin args -> lg vin (call_fun S ucall f args).
    Proof.
      intros Hf Hc Ha. unfold call_fun.
      destruct (N.eqb f B_LIST) eqn:E1.
      { destruct args as [|x [|y t]]; try apply lg_fail. inversion Ha; subst.
        apply (lg_bind (Forall vin)); [now apply lg_force_elems|]. intros els He. apply lg_ret. now apply vin_VT. }
      destruct (N.eqb f B_TUPLE) eqn:E2.
      { destruct args as [|x [|y t]]; try apply lg_fail. inversion Ha; subst.
        apply (lg_bind (Forall vin)); [now apply lg_force_elems|]. intros els He. apply lg_ret. now apply vin_VT. }
      destruct (N.eqb f B_DICT) eqn:E3.
      { destruct args as [|x [|y t]]; try apply lg_fail. inversion Ha; subst.
        apply (lg_bind (Forall vin)); [now apply lg_force_elems|]. intros els He.
        destruct (first_err _); [apply lg_fail|].
        destruct (dict_of_pairs els []) as [d|] eqn:Ed; [|apply lg_fail].
        apply lg_ret. apply vin_VT. eapply vin_dict_of_pairs; [exact He|constructor|exact Ed]. }
      assert (HF : F f).
      { destruct Hf as [Hb|Hf]; [|exact Hf]. unfold builtin in Hb. rewrite E1, E2, E3, Hc in Hb. discriminate. }
      destruct (deep_err_list args); [apply lg_fail|].
      assert (Ha' : Forall vin (map listify args)).
      { rewrite Forall_forall in *. intros y Hy. apply in_map_iff in Hy as (x & <- & Hx). apply vin_listify; auto. }
      destruct (ucall f (map listify args)) as [v|n] eqn:Eu.
      - apply (lg_bindT TT); [now apply lg_emit|]. intros _. apply lg_ret. eapply ucall_closed; eauto.
      - apply (lg_bindT TT); [now apply lg_emit|]. intros _. apply lg_fail.
    Qed.
    Lemma lg_call_value f : vin f -> forall x, vin x -> lg vin (call_value f x).
    Proof.
      induction f using value_ind'; intros Hf x Hx; try (cbn; apply lg_fail).
      rewrite call_value_VF. apply vin_VF in Hf as (Hff & Hpre & Hpost).
      destruct (N.eqb f B_COMPOSE) eqn:Ec.
      - clear H0 Hpost. revert x Hx. induction H as [|g pre Hg Hrest IH]; intros x Hx; cbn [compose_loop].
        + now apply lg_ret.
        + inversion Hpre; subst. apply (lg_bind vin); [now apply Hg|]. intros y Hy. now apply IH.
      - apply lg_call_fun; [assumption|assumption|]. apply Forall_app. split; [assumption|].
        apply Forall_app. split; [now repeat constructor|assumption].
    Qed.
    Lemma lg_call_value_n f args : vin f -> Forall vin args -> lg vin (call_value_n S ucall f args).
    Proof.
      intros Hf Ha. unfold call_value_n. destruct f; try apply lg_fail.
      apply vin_VF in Hf as (Hff & Hpre & Hpost). destruct (N.eqb f B_COMPOSE) eqn:Ec; [apply lg_fail|].
      apply lg_call_fun; [assumption|assumption|]. apply Forall_app. split; [assumption|].
      apply Forall_app. split; assumption.
    Qed.
    Lemma lg_rd k o : lg TT (rd S k o).
    Proof. unfold rd. apply (lg_bindT TT); [now apply lg_emit|]. intros; now apply lg_ret. Qed.
    Lemma lg_of_rres r : lg TT (of_rres S r).
    Proof. destruct r; cbn; first [now apply lg_ret|apply lg_fail]. Qed.
    Lemma lg_emit_reads ks o : lg TT (emit_reads S ks o).
    Proof. unfold emit_reads. apply lg_iterM. intros. now apply lg_emit. Qed.
    Lemma lg_ref_keys fuel strict o : forall k, lg TT (ref_keys S fuel strict o k).
    Proof.
      induction fuel as [|fuel IH]; intros k; [apply lg_fail|].
      rewrite ref_keys_S. apply (lg_bindT TT); [apply lg_rd|]. intros r.
      destruct r as [[]| |]; try (now apply lg_ret); try apply lg_fail.
      - destruct (has_par s); [apply lg_fail|]. apply (lg_bindT TT); [|intros; now apply lg_ret].
        apply lg_unionM. intros; apply IH.
      - destruct strict; [apply lg_fail|now apply lg_ret].
    Qed.
    Lemma lg_in_domain d v : vin d -> vin v -> lg TT (in_domain S ucall d v).
    Proof.
      intros Hd Hv. unfold in_domain.
      destruct d; try (destruct (elements_of _); [destruct (existsb _ _)|]; first [now apply lg_ret|apply lg_fail]).
      apply (lg_bindT vin); [now apply lg_call_value|]. intros b.
      destruct (truthy b); [now apply lg_ret|apply lg_fail].
    Qed.
    Lemma lg_filter_preset force p o mixed ks : lg TT (filter_preset S force p o mixed ks).
    Proof.
      induction ks as [|k ks IH]; cbn [filter_preset]; [now apply lg_ret|].
      destruct (preset_drops force p o mixed k); [|apply lg_fail].
      apply (lg_bindT TT); [exact IH|intros; now apply lg_ret].
    Qed.
    Lemma lg_fingerprint_of ks o : lg TT (fingerprint_of S ks o).
    Proof.
      unfold fingerprint_of. eapply lg_T. apply (lg_mapM TT). intros k _.
      destruct (lookup k (JObj o)); first [now apply lg_ret|apply lg_fail].
    Qed.
    Lemma lg_row_options row : lg TT (row_options S row).
    Proof.
      unfold row_options. destruct (option_set _ _); [|apply lg_fail].
      destruct (_ && _); [apply lg_fail|now apply lg_ret].
    Qed.
    Lemma lg_all_options_eval o : lg vin (all_options_eval S rfuel o).
    Proof.
      unfold all_options_eval. apply (lg_bindT TT); [now apply lg_emit|]. intros _.
      apply (lg_bindT TT); [apply lg_of_rres|]. intros j. now apply lg_ret.
    Qed.

    (** ** The selectable paths of an expression under given options.
        The choosers are consulted through the evaluator itself: a switch branch is on a path
        only if the dispatch CAN evaluate (from some store) to a value registered to it; a
        case-when result only if its condition CAN hold and every earlier one CAN fail to hold;
        a coalesce member only if every earlier member CAN fail; an Option's default only if
        the key is absent; a Map body only under the option sets of the rows the iterables CAN
        produce; effects only when they are not switched off. *)
    Definition can_eval (e : expr) (o : dict) (v : value) : Prop := reach (eval e o) v.
    Definition can_fail (e : expr) (o : dict) : Prop := exists c, reach_err (eval e o) c true.
    Definition cond_can (c : expr) (o : dict) (x : value) (b : bool) : Prop :=
      exists p v, reach (eval c o) p /\ reach (call_value p x) v /\ truthy v = b.
    Definition attempt_can_fail (m : expr) (o : dict) : Prop :=
      exists c,
        reach_err (bind (validate m o) (fun _ => eval m o)) c true \/
        reach_err (bind (validate m o) (fun _ => validate m o)) c true \/
        reach_err (bind (validate m o) (fun _ => keys m o)) c true \/
        reach_err (bind (validate m o) (fun _ => explain m o)) c true.
    Definition map_os (its : list (key * expr)) (o : dict) (os : dict) : Prop :=
      exists rows row, reach (map_rows S (fun x => eval x o) its) rows /\ In row rows /\
                       reach (row_options S row) os.
    Definition map_explain_block (e : expr) (its : list (key * expr)) (o : dict) : M (list key) :=
      bind (map_rows S (fun x => eval x o) its) (fun rows =>
      bind (unionM S (fun row => bind (row_options S row) (fun os =>
                        bind (explain e (with_opts true os o)) (fun ks =>
                        filter_preset S true os o (with_opts true os o) ks))) rows) (fun a =>
      bind (unionM S (fun kv => explain (snd kv) o) its) (fun b => ret (a ++ b)))).

    Definition opt_path (P : expr -> Prop) (x : option expr) : Prop :=
      match x with Some d => P d | None => True end.
    Definition all_path (P : expr -> Prop) : list expr -> Prop :=
      fix go (l : list expr) : Prop := match l with [] => True | x :: l' => P x /\ go l' end.
    Definition all_snd {K} (P : expr -> Prop) : list (K * expr) -> Prop :=
      fix go (l : list (K * expr)) : Prop := match l with [] => True | kx :: l' => P (snd kx) /\ go l' end.
    Definition case_path (P : expr -> Prop) (o : dict) (x : value) (Pd : Prop) : list (expr * expr) -> Prop :=
      fix go (cs : list (expr * expr)) : Prop :=
        match cs with
        | [] => Pd
        | cr :: cs' =>
            P (fst cr) /\ (cond_can (fst cr) o x true -> P (snd cr)) /\ (cond_can (fst cr) o x false -> go cs')
        end.
    Definition coal_path (P : expr -> Prop) (o : dict) : list expr -> Prop :=
      fix go (ms : list expr) : Prop :=
        match ms with [] => True | m :: ms' => P m /\ (attempt_can_fail m o -> go ms') end.

    Fixpoint path_in (e : expr) (o : dict) {struct e} : Prop :=
      match e with
      | EValue v => vin v
      | EOption k dflt dom =>
          (lookup k (JObj o) = Absent -> opt_path (fun d => path_in d o) dflt)
          /\ opt_path (fun d => path_in d o) dom
      | EApply src fn => path_in src o /\ path_in fn o
      | EBind src tbl dflt =>
          path_in src o /\
          (forall x, can_eval src o x ->
             pick x (fun b => path_in b o) (opt_path (fun d => path_in d o) dflt) tbl)
      | ESwitch disp tbl dflt =>
          path_in disp o /\
          (forall k, can_eval disp o k -> hashable k = true ->
             pick k (fun b => path_in b o) (opt_path (fun d => path_in d o) dflt) tbl) /\
          (can_fail disp o -> opt_path (fun d => path_in d o) dflt)
      | ECase disp cases dflt =>
          path_in disp o /\
          (forall x, can_eval disp o x ->
             case_path (fun c => path_in c o) o x (opt_path (fun d => path_in d o) dflt) cases)
      | ECoalesce ms => coal_path (fun m => path_in m o) o ms
      | EIter es => all_path (fun x => path_in x o) es
      | EMap e its =>
          all_snd (fun x => path_in x o) its /\
          (forall os, map_os its o os -> path_in e (with_opts true os o)) /\
          ((exists c, reach_err (map_explain_block e its o) c true) -> path_in e o)
      | EWith force p e => path_in e (with_opts force p o)
      | ECached _ e => path_in e o
      | ECall _ f args kwargs =>
          path_in f o /\ all_path (fun x => path_in x o) args /\ all_path (fun x => path_in x o) kwargs
      | ETemplate _ ps => all_snd (fun x => path_in x o) ps
      | EComp e effects =>
          path_in e o /\ (effects_opt_off o = false -> all_path (fun x => path_in x o) effects)
      | ELogged e => path_in e o
      | EPipe steps => all_path (fun x => path_in x o) steps
      | EAllOptions => True
      end.

    Definition lg4 (e : expr) (o : dict) : Prop :=
      lg vin (eval e o) /\ lg TT (validate e o) /\ lg TT (keys e o) /\ lg TT (explain e o).
    Definition PP (e : expr) : Prop := forall o, path_in e o -> lg4 e o.
    Lemma l4e e o : lg4 e o -> lg vin (eval e o).  Proof. intros H; apply H. Qed.
    Lemma l4v e o : lg4 e o -> lg TT (validate e o).  Proof. intros H; apply H. Qed.
    Lemma l4k e o : lg4 e o -> lg TT (keys e o).  Proof. intros H; apply H. Qed.
    Lemma l4x e o : lg4 e o -> lg TT (explain e o).  Proof. intros H; apply H. Qed.

    Lemma opt_use dflt o :
      Popt PP dflt -> opt_path (fun d => path_in d o) dflt -> forall d, dflt = Some d -> lg4 d o.
    Proof. intros H1 H2 d ->. cbn in *. auto. Qed.
    Lemma all_use l o :
      Forall PP l -> all_path (fun x => path_in x o) l -> forall x, In x l -> lg4 x o.
    Proof.
      induction 1 as [|y l Hy Hl IH]; intros Hp x Hx; [destruct Hx|].
      cbn [all_path] in Hp. destruct Hp as [P1 P2].
      destruct Hx as [<-|Hx]; [now apply Hy|now apply IH].
    Qed.
    Lemma snd_use {K} (l : list (K * expr)) o :
      Forall (fun ve => PP (snd ve)) l -> all_snd (fun x => path_in x o) l ->
      forall ve, In ve l -> lg4 (snd ve) o.
    Proof.
      induction 1 as [|y l Hy Hl IH]; intros Hp x Hx; [destruct Hx|].
      cbn [all_snd] in Hp. destruct Hp as [P1 P2].
      destruct Hx as [<-|Hx]; [now apply Hy|now apply IH].
    Qed.

    Lemma lg_pick {A} (Q : A -> Prop) k (onhit : expr -> M A) onmiss (P : expr -> Prop) (Pm : Prop) tbl :
      pick k P Pm tbl ->
      (forall ve, In ve tbl -> P (snd ve) -> lg Q (onhit (snd ve))) -> (Pm -> lg Q onmiss) ->
      lg Q (pick k onhit onmiss tbl).
    Proof.
      induction tbl as [|[v b] tbl IH]; cbn [pick]; intros Hp Hh Hm; [auto|].
      destruct (value_eq k v).
      - apply (Hh (v, b)); [now left|exact Hp].
      - apply IH; auto. intros ve Hve. apply Hh. now right.
    Qed.
    Lemma lg_dflt_or {A} (Q : A -> Prop) dflt (f : expr -> M A) none :
      (forall d, dflt = Some d -> lg Q (f d)) -> lg Q none -> lg Q (dflt_or dflt f none).
    Proof. intros Hf Hn. destruct dflt as [d|]; cbn; [now apply Hf|exact Hn]. Qed.
    Lemma lg_rd_eq k o : lg (fun r => r = lookup k (JObj o)) (rd S k o).
    Proof.
      intros s r s' l Hi E. rewrite rd_E in E. inversion E; subst.
      split; [assumption|split; [repeat constructor|]]. intros a Ha. now inversion Ha.
    Qed.

    (** *** leaves *)
    Lemma C_EValue v : PP (EValue v).
    Proof.
      intros o Hp. cbn [path_in] in Hp. split; [|split; [|split]].
      - rewrite eval_value_E. now apply lg_wrap, lg_ret.
      - rewrite validate_value_E. now apply lg_ret.
      - rewrite keys_value_E. now apply lg_ret.
      - rewrite explain_EValue. now apply lg_ret.
    Qed.
    Lemma C_EAllOptions : PP EAllOptions.
    Proof.
      intros o _. split; [|split; [|split]].
      - rewrite eval_alloptions_E. apply lg_wrap, lg_all_options_eval.
      - rewrite validate_alloptions_E. apply (lg_bindT vin); [apply lg_wrap, lg_all_options_eval|].
        intros; now apply lg_ret.
      - rewrite keys_alloptions_E. apply (lg_bindT TT); [now apply lg_emit|]. intros; now apply lg_ret.
      - rewrite explain_EAllOptions. apply (lg_bindT TT); [now apply lg_emit|]. intros; now apply lg_ret.
    Qed.

    Lemma C_EOption k dflt dom : Popt PP dflt -> Popt PP dom -> PP (EOption k dflt dom).
    Proof.
      intros Hd Hm o Hp. cbn [path_in] in Hp. destruct Hp as [P1 P2].
      pose proof (opt_use _ o Hm P2) as Um.
      assert (Ud : lookup k (JObj o) = Absent -> forall d, dflt = Some d -> lg4 d o).
      { intros El. apply (opt_use _ o Hd (P1 El)). }
      assert (Hev : lg vin (option_eval S ucall rfuel (fun x => eval x o) k dflt dom o)).
      { rewrite option_eval_E. apply (lg_bind (fun r => r = lookup k (JObj o))); [apply lg_rd_eq|].
        intros r ->. apply (lg_bind vin).
        - destruct (lookup k (JObj o)) as [raw| |] eqn:El; [| |apply lg_fail].
          + apply (lg_bindT TT); [apply lg_emit_reads|]. intros _.
            apply (lg_bindT TT); [apply lg_of_rres|]. intros j. now apply lg_ret.
          + destruct dflt as [d|]; [|apply lg_fail]. apply l4e. now apply Ud.
        - intros v Hv. destruct dom as [de|]; [|now apply lg_ret].
          apply (lg_bind vin); [apply l4e, (Um de eq_refl)|]. intros d Hdv.
          apply (lg_bindT TT); [now apply lg_in_domain|]. intros _. now apply lg_ret. }
      split; [|split; [|split]].
      - rewrite eval_option_unfold. now apply lg_wrap.
      - rewrite validate_option_E. apply (lg_bind (fun r => r = lookup k (JObj o))); [apply lg_rd_eq|].
        intros r ->. destruct (lookup k (JObj o)) as [raw| |] eqn:El; [| |apply lg_fail].
        + apply (lg_bindT vin); [now apply lg_wrap|]. intros; now apply lg_ret.
        + apply lg_dflt_or; [|apply lg_fail]. intros d Ed. apply l4v. now apply Ud.
      - rewrite keys_option_E. apply (lg_bind (fun r => r = lookup k (JObj o))); [apply lg_rd_eq|].
        intros r ->. destruct (lookup k (JObj o)) as [[]| |] eqn:El;
          try (now apply lg_ret); try apply lg_fail.
        + destruct (has_par s); [apply lg_fail|]. apply (lg_bindT TT); [|intros; now apply lg_ret].
          apply lg_unionM. intros; apply lg_ref_keys.
        + apply lg_dflt_or; [|apply lg_fail]. intros d Ed. apply l4k. now apply Ud.
      - rewrite explain_EOption. apply (lg_bind (fun r => r = lookup k (JObj o))); [apply lg_rd_eq|].
        intros r ->. destruct (lookup k (JObj o)) as [[]| |] eqn:El;
          try (now apply lg_ret); try apply lg_fail.
        + destruct (existsb _ s); [apply lg_fail|]. apply (lg_bindT TT); [|intros; now apply lg_ret].
          apply lg_unionM. intros; apply lg_ref_keys.
        + destruct dflt as [d|]; [|now apply lg_ret]. apply l4x. now apply Ud.
    Qed.

    Lemma C_EApply src fn : PP src -> PP fn -> PP (EApply src fn).
    Proof.
      intros H1 H2 o Hp. cbn [path_in] in Hp. destruct Hp as [P1 P2].
      pose proof (H1 o P1) as U1. pose proof (H2 o P2) as U2. split; [|split; [|split]].
      - rewrite eval_apply_E. apply lg_wrap. apply (lg_bind vin); [now apply l4e|]. intros x Hx.
        apply (lg_bind vin); [now apply l4e|]. intros f Hf. now apply lg_call_value.
      - rewrite validate_apply_E. apply (lg_bindT TT); [now apply l4v|]. intros _. now apply l4v.
      - rewrite keys_apply_E. apply (lg_bindT TT); [now apply l4k|]. intros a.
        apply (lg_bindT TT); [now apply l4k|]. intros; now apply lg_ret.
      - rewrite explain_EApply. apply (lg_bindT TT); [now apply l4x|]. intros a.
        apply (lg_bindT TT); [now apply l4x|]. intros; now apply lg_ret.
    Qed.

    (** *** choosers *)
    Lemma explain_bind_E src tbl dflt o :
      explain (EBind src tbl dflt) o =
        catch (bind (explain src o) (fun a => bind (eval src o) (fun x =>
               bind (pick x (fun b => explain b o) (dflt_or dflt (fun d => explain d o) (fail (CUser 0) false)) tbl)
                    (fun b => ret (a ++ b)))))
              (fun c ee => if ee then fail CInsuff true else fail c ee).
    Proof. reflexivity. Qed.
    Lemma explain_switch_E disp tbl dflt o :
      explain (ESwitch disp tbl dflt) o =
        bind (catch (dispatch_value S (eval disp o) (is_some dflt))
                    (fun c ee => if ee then fail CInsuff true else fail c ee)) (fun dv =>
          match dv with
          | None => dflt_or dflt (fun d => explain d o) (fail CUnmodelled false)
          | Some k =>
              if negb (hashable k) then fail CType false
              else bind (pick k (fun b => explain b o) (dflt_or dflt (fun d => explain d o) (fail CInsuff true)) tbl)
                        (fun a => bind (explain disp o) (fun b => ret (a ++ b)))
          end).
    Proof. reflexivity. Qed.
    Lemma explain_case_E disp cases dflt o :
      explain (ECase disp cases dflt) o =
        catch (bind (explain disp o) (fun a => bind (eval disp o) (fun x =>
               bind (case_loop o x (dflt_or dflt (fun d => explain d o) (fail CCase true)) (fun r => explain r o) cases)
                    (fun b => ret (a ++ b)))))
              (fun c ee => if ee then fail CInsuff true else fail c ee).
    Proof. reflexivity. Qed.
    Definition last_explain (o : dict) : list expr -> M (list key) :=
      fix last (ms : list expr) : M (list key) :=
        match ms with
        | [] => fail CUnmodelled false
        | [m] => explain m o
        | _ :: ms' => last ms'
        end.
    Lemma explain_coalesce_E ms o :
      explain (ECoalesce ms) o =
        catch (coal_loop o (fun m => explain m o) ms None)
              (fun c ee => if ee then last_explain o ms else fail c ee).
    Proof. reflexivity. Qed.
    Lemma explain_map_E e its o :
      explain (EMap e its) o =
        catch (map_explain_block e its o)
              (fun c ee => if ee then
                   bind (explain e o) (fun a => bind (unionM S (fun kv => explain (snd kv) o) its) (fun b =>
                   ret (filter (fun k => negb (key_mem k (map fst its))) a ++ b)))
                 else fail c ee).
    Proof. reflexivity. Qed.

    Lemma reach_dispatch_some (m : M value) b k : reach (dispatch_value S m b) (Some k) -> reach m k.
    Proof.
      intros (s & s' & l & E). unfold dispatch_value, Eval.catch, Eval.bind in E.
      destruct (m s) as [[[a|c ee] s1] l1] eqn:Em.
      - cbn in E. inversion E; subst. now exists s, s', l1.
      - destruct c; cbn in E; try discriminate; destruct (ee && b); cbn in E; discriminate.
    Qed.
    Lemma reach_dispatch_none (m : M value) b : reach (dispatch_value S m b) None -> exists c, reach_err m c true.
    Proof.
      intros (s & s' & l & E). unfold dispatch_value, Eval.catch, Eval.bind in E.
      destruct (m s) as [[[a|c ee] s1] l1] eqn:Em.
      - cbn in E. discriminate.
      - exists c. destruct ee; [now exists s, s1, l1|].
        destruct c; cbn in E; discriminate.
    Qed.
    Lemma reach_catch_insuff {A} (m : M A) a :
      reach (catch m (fun c ee => if ee then fail CInsuff true else fail c ee)) a -> reach m a.
    Proof.
      intros (s & s' & l & E). unfold Eval.catch in E.
      destruct (m s) as [[[a0|c ee] s1] l1] eqn:Em.
      - inversion E; subst. now exists s, s', l.
      - destruct c; destruct ee; cbn in E; discriminate.
    Qed.
    Lemma lg_dispatch_value (m : M value) b : lg vin m -> lg TT (dispatch_value S m b).
    Proof.
      intros H. unfold dispatch_value. apply lg_catch.
      - apply (lg_bindT vin); [exact H|]. intros; now apply lg_ret.
      - intros c ee. destruct (ee && b); [now apply lg_ret|apply lg_fail].
    Qed.
    Lemma lg_insuff {A} (Q : A -> Prop) (m : M A) :
      lg Q m -> lg Q (catch m (fun c ee => if ee then fail CInsuff true else fail c ee)).
    Proof. intros H. apply lg_catch; [exact H|]. intros c ee. destruct ee; apply lg_fail. Qed.

    Lemma C_EBind src tbl dflt :
      PP src -> Forall (fun ve => PP (snd ve)) tbl -> Popt PP dflt -> PP (EBind src tbl dflt).
    Proof.
      intros H1 H2 H3 o Hp. cbn [path_in] in Hp. destruct Hp as (P1 & P2).
      pose proof (H1 o P1) as U1.
      assert (Ubr : forall ve, In ve tbl -> path_in (snd ve) o -> lg4 (snd ve) o).
      { intros ve Hve. rewrite Forall_forall in H2. apply (H2 ve Hve). }
      assert (Hpick : forall A (Q : A -> Prop) (sel : expr -> M A) (none : M A) x,
                 (forall y, lg4 y o -> lg Q (sel y)) -> lg Q none -> can_eval src o x ->
                 lg Q (pick x sel (dflt_or dflt sel none) tbl)).
      { intros A Q sel none x Hsel Hnone Hx.
        apply (lg_pick Q x sel _ _ _ tbl (P2 x Hx)).
        - intros ve Hve Hpv. apply Hsel. now apply Ubr.
        - intros Hq. apply lg_dflt_or; [|assumption]. intros d Ed. apply Hsel. now apply (opt_use _ o H3 Hq). }
      split; [|split; [|split]].
      - rewrite eval_bind_E. apply lg_wrap. apply (lg_bind_r vin); [now apply l4e|]. intros x _ Hr.
        apply Hpick; [intros y Hy; now apply l4e|apply lg_fail|exact Hr].
      - rewrite validate_bind_E. apply (lg_bindT TT); [now apply l4v|]. intros _.
        apply (lg_bind_r vin); [now apply l4e|]. intros x _ Hr.
        apply Hpick; [intros y Hy; now apply l4v|apply lg_fail|exact Hr].
      - rewrite keys_bind_E. apply (lg_bindT TT); [now apply l4k|]. intros a.
        apply (lg_bind_r vin); [now apply l4e|]. intros x _ Hr.
        apply (lg_bindT TT); [|intros; now apply lg_ret].
        apply Hpick; [intros y Hy; now apply l4k|apply lg_fail|exact Hr].
      - rewrite explain_bind_E. apply lg_insuff. apply (lg_bindT TT); [now apply l4x|]. intros a.
        apply (lg_bind_r vin); [now apply l4e|]. intros x _ Hr.
        apply (lg_bindT TT); [|intros; now apply lg_ret].
        apply Hpick; [intros y Hy; now apply l4x|apply lg_fail|exact Hr].
    Qed.

    Lemma C_ESwitch disp tbl dflt :
      PP disp -> Forall (fun ve => PP (snd ve)) tbl -> Popt PP dflt -> PP (ESwitch disp tbl dflt).
    Proof.
      intros H1 H2 H3 o Hp. cbn [path_in] in Hp. destruct Hp as (P1 & P2 & P3).
      pose proof (H1 o P1) as U1.
      assert (Ubr : forall ve, In ve tbl -> path_in (snd ve) o -> lg4 (snd ve) o).
      { intros ve Hve. rewrite Forall_forall in H2. apply (H2 ve Hve). }
      assert (Hpick : forall A (Q : A -> Prop) (sel : expr -> M A) (none : M A) k,
                 (forall y, lg4 y o -> lg Q (sel y)) -> lg Q none ->
                 reach (dispatch_value S (eval disp o) (is_some dflt)) (Some k) -> hashable k = true ->
                 lg Q (pick k sel (dflt_or dflt sel none) tbl)).
      { intros A Q sel none k Hsel Hnone Hk Hh. apply reach_dispatch_some in Hk.
        apply (lg_pick Q k sel _ _ _ tbl (P2 k Hk Hh)).
        - intros ve Hve Hpv. apply Hsel. now apply Ubr.
        - intros Hq. apply lg_dflt_or; [|assumption]. intros d Ed. apply Hsel. now apply (opt_use _ o H3 Hq). }
      assert (Hnone : forall A (Q : A -> Prop) (sel : expr -> M A) (none : M A),
                 (forall y, lg4 y o -> lg Q (sel y)) -> lg Q none ->
                 reach (dispatch_value S (eval disp o) (is_some dflt)) None ->
                 lg Q (dflt_or dflt sel none)).
      { intros A Q sel none Hsel Hn Hr. apply reach_dispatch_none in Hr.
        apply lg_dflt_or; [|assumption]. intros d Ed. apply Hsel. now apply (opt_use _ o H3 (P3 Hr)). }
      assert (Hdv : lg TT (dispatch_value S (eval disp o) (is_some dflt))).
      { apply lg_dispatch_value. now apply l4e. }
      split; [|split; [|split]].
      - rewrite eval_switch_E. apply lg_wrap. apply (lg_bind_r TT); [exact Hdv|]. intros [k|] _ Hr.
        + destruct (hashable k) eqn:Hh; cbn [negb]; [|apply lg_fail].
          apply Hpick; [intros y Hy; now apply l4e|apply lg_fail|exact Hr|exact Hh].
        + apply Hnone; [intros y Hy; now apply l4e|apply lg_fail|exact Hr].
      - rewrite validate_switch_E. apply (lg_bind_r TT); [exact Hdv|]. intros [k|] _ Hr.
        + destruct (hashable k) eqn:Hh; cbn [negb]; [|apply lg_fail].
          apply Hpick; [intros y Hy; now apply l4v|apply lg_fail|exact Hr|exact Hh].
        + apply Hnone; [intros y Hy; now apply l4v|apply lg_fail|exact Hr].
      - rewrite keys_switch_E. apply (lg_bind_r TT); [exact Hdv|]. intros [k|] _ Hr.
        + destruct (hashable k) eqn:Hh; cbn [negb]; [|apply lg_fail].
          apply (lg_bindT TT); [apply Hpick; [intros y Hy; now apply l4k|apply lg_fail|exact Hr|exact Hh]|]. intros a.
          apply (lg_bindT TT); [now apply l4k|]. intros; now apply lg_ret.
        + apply Hnone; [intros y Hy; now apply l4k|apply lg_fail|exact Hr].
      - rewrite explain_switch_E. apply (lg_bind_r TT); [now apply lg_insuff|]. intros dv _ Hr.
        apply reach_catch_insuff in Hr. destruct dv as [k|].
        + destruct (hashable k) eqn:Hh; cbn [negb]; [|apply lg_fail].
          apply (lg_bindT TT); [apply Hpick; [intros y Hy; now apply l4x|apply lg_fail|exact Hr|exact Hh]|]. intros a.
          apply (lg_bindT TT); [now apply l4x|]. intros; now apply lg_ret.
        + apply Hnone; [intros y Hy; now apply l4x|apply lg_fail|exact Hr].
    Qed.

    Lemma lg_case_loop {A} (Q : A -> Prop) o x (fin : M A) (sel : expr -> M A) Pd cases :
      vin x ->
      case_path (fun c => path_in c o) o x Pd cases ->
      (forall cr, In cr cases -> path_in (fst cr) o -> lg vin (eval (fst cr) o)) ->
      (forall cr, In cr cases -> path_in (snd cr) o -> lg Q (sel (snd cr))) ->
      (Pd -> lg Q fin) ->
      lg Q (case_loop o x fin sel cases).
    Proof.
      intros Hx. induction cases as [|[c r] cases IH]; intros Hp Hc Hr Hf; cbn [case_path] in Hp.
      - cbn [TraceProofs.case_loop]. auto.
      - cbn [fst snd] in Hp. destruct Hp as (Pc & Pr & Pn). cbn [TraceProofs.case_loop].
        apply (lg_bind_r vin); [apply (Hc (c, r)); [now left|exact Pc]|]. intros p Hpv Hrp.
        apply (lg_bind_r vin); [now apply lg_call_value|]. intros b Hbv Hrb.
        destruct (truthy b) eqn:Eb.
        + apply (Hr (c, r)); [now left|]. apply Pr. now exists p, b.
        + apply IH; [apply Pn; now exists p, b| | |assumption]; intros cr Hcr; [apply Hc|apply Hr]; now right.
    Qed.

    Lemma C_ECase disp cases dflt :
      PP disp -> Forall (fun cr => PP (fst cr) /\ PP (snd cr)) cases -> Popt PP dflt ->
      PP (ECase disp cases dflt).
    Proof.
      intros H1 H2 H3 o Hp. cbn [path_in] in Hp. destruct Hp as (P1 & P2).
      pose proof (H1 o P1) as U1. rewrite Forall_forall in H2.
      assert (Hloop : forall A (Q : A -> Prop) (sel : expr -> M A) (none : M A) x,
                 (forall y, lg4 y o -> lg Q (sel y)) -> lg Q none -> vin x -> can_eval disp o x ->
                 lg Q (case_loop o x (dflt_or dflt sel none) sel cases)).
      { intros A Q sel none x Hsel Hnone Hvx Hx.
        apply (lg_case_loop Q o x _ sel _ cases Hvx (P2 x Hx)).
        - intros cr Hcr Hpc. apply l4e. now apply (proj1 (H2 cr Hcr)).
        - intros cr Hcr Hpr. apply Hsel. now apply (proj2 (H2 cr Hcr)).
        - intros Hq. apply lg_dflt_or; [|assumption]. intros d Ed. apply Hsel. now apply (opt_use _ o H3 Hq). }
      split; [|split; [|split]].
      - rewrite eval_case_E. apply lg_wrap. apply (lg_bind_r vin); [now apply l4e|]. intros x Hx Hr.
        apply Hloop; [intros y Hy; now apply l4e|apply lg_fail|exact Hx|exact Hr].
      - rewrite validate_case_E. apply (lg_bindT TT); [now apply l4v|]. intros _.
        apply (lg_bind_r vin); [now apply l4e|]. intros x Hx Hr.
        apply Hloop; [intros y Hy; now apply l4v|apply lg_fail|exact Hx|exact Hr].
      - rewrite keys_case_E. apply (lg_bindT TT); [now apply l4k|]. intros a.
        apply (lg_bind_r vin); [now apply l4e|]. intros x Hx Hr.
        apply (lg_bindT TT); [|intros; now apply lg_ret].
        apply Hloop; [intros y Hy; now apply l4k|apply lg_fail|exact Hx|exact Hr].
      - rewrite explain_case_E. apply lg_insuff. apply (lg_bindT TT); [now apply l4x|]. intros a.
        apply (lg_bind_r vin); [now apply l4e|]. intros x Hx Hr.
        apply (lg_bindT TT); [|intros; now apply lg_ret].
        apply Hloop; [intros y Hy; now apply l4x|apply lg_fail|exact Hx|exact Hr].
    Qed.

    Lemma lg_coal_loop {A} (Q : A -> Prop) o (act : expr -> M A) ms :
      (forall m, In m ms -> path_in m o -> lg TT (validate m o) /\ lg Q (act m)) ->
      (forall m c, In m ms -> reach_err (bind (validate m o) (fun _ => act m)) c true -> attempt_can_fail m o) ->
      coal_path (fun m => path_in m o) o ms -> forall last, lg Q (coal_loop o act ms last).
    Proof.
      induction ms as [|m ms IH]; intros Hm Hf Hp last; cbn [TraceProofs.coal_loop].
      - destruct last as [[c ee]|]; apply lg_fail.
      - cbn [coal_path] in Hp. destruct Hp as [Pm Pn].
        destruct (Hm m (or_introl eq_refl) Pm) as [Hv Ha].
        apply lg_catch_r; [apply (lg_bindT TT); [exact Hv|intros; exact Ha]|].
        intros c ee Hr Hne. destruct ee; [|apply lg_fail].
        apply IH.
        + intros x Hx. apply Hm. now right.
        + intros x c' Hx. apply Hf. now right.
        + apply Pn. apply (Hf m c); [now left|exact Hr].
    Qed.
    (** when the whole coalesce fails with an EvaluationError, every member was attempted and failed *)
    Lemma coal_loop_err_all {A} o (act : expr -> M A) ms : forall last s c s' l,
      coal_loop o act ms last s = (Err c true, s', l) -> c <> CUnmodelled ->
      Forall (fun m => exists c0, reach_err (bind (validate m o) (fun _ => act m)) c0 true) ms.
    Proof.
      induction ms as [|m ms IH]; intros last s c s' l E Hne; [constructor|].
      cbn [TraceProofs.coal_loop] in E. unfold Eval.catch in E.
      destruct (bind (validate m o) (fun _ => act m) s) as [[[a|c0 ee0] s1] l1] eqn:Em; [discriminate|].
      assert (Hc : c0 = CUnmodelled \/ c0 <> CUnmodelled)
        by (destruct c0; first [now left|right; discriminate]).
      destruct Hc as [->|Hne0]; [inversion E; subst; now elim Hne|].
      destruct ee0.
      - fold (coal_loop o act ms) in E.
        destruct (coal_loop o act ms (Some (c0, true)) s1) as [[r2 s2] l2] eqn:E2.
        assert (E' : (r2, s2, l1 ++ l2) = (Err c true, s', l)) by (destruct c0; try exact E; now elim Hne0).
        inversion E'; subst. constructor.
        + exists c0. now exists s, s1, l1.
        + eapply IH; eauto.
      - exfalso. destruct c0; cbn in E; discriminate.
    Qed.
    Lemma coal_path_all o ms :
      coal_path (fun m => path_in m o) o ms -> Forall (fun m => attempt_can_fail m o) ms ->
      Forall (fun m => path_in m o) ms.
    Proof.
      induction ms as [|m ms IH]; intros Hp Hf; [constructor|].
      cbn [coal_path] in Hp. destruct Hp as [Pm Pn]. inversion Hf; subst. constructor; auto.
    Qed.

    Lemma C_ECoalesce ms : Forall PP ms -> PP (ECoalesce ms).
    Proof.
      intros H1 o Hp. cbn [path_in] in Hp. rewrite Forall_forall in H1.
      split; [|split; [|split]].
      - rewrite eval_coalesce_E. apply lg_wrap. apply lg_coal_loop; [| |exact Hp].
        + intros m Hm Pm. split; [apply l4v|apply l4e]; now apply H1.
        + intros m c _ Hr. exists c. now left.
      - rewrite validate_coalesce_E. apply lg_coal_loop; [| |exact Hp].
        + intros m Hm Pm. split; apply l4v; now apply H1.
        + intros m c _ Hr. exists c. right. now left.
      - rewrite keys_coalesce_E. apply lg_coal_loop; [| |exact Hp].
        + intros m Hm Pm. split; [apply l4v|apply l4k]; now apply H1.
        + intros m c _ Hr. exists c. right. right. now left.
      - rewrite explain_coalesce_E. apply lg_catch_r.
        + apply lg_coal_loop; [| |exact Hp].
          * intros m Hm Pm. split; [apply l4v|apply l4x]; now apply H1.
          * intros m c _ Hr. exists c. right. right. now right.
        + intros c ee (s & s' & l & E) Hne. destruct ee; [|apply lg_fail].
          pose proof (coal_loop_err_all _ _ _ _ _ _ _ _ E Hne) as Hall.
          assert (Hall' : Forall (fun m => attempt_can_fail m o) ms).
          { eapply Forall_impl; [|exact Hall]. intros m [c0 Hr]. exists c0. right. right. now right. }
          pose proof (coal_path_all _ _ Hp Hall') as Hpaths. clear - Hpaths H1.
          induction ms as [|m ms IH]; cbn [last_explain]; [apply lg_fail|].
          inversion Hpaths; subst. destruct ms as [|m2 ms].
          * apply l4x. apply H1; [now left|assumption].
          * apply IH; [intros x Hx; apply H1; now right|assumption].
    Qed.

    (** *** collections, Map *)
    Notation iter_loop := (iter_loop S mem_find mem_store cfg ucall rfuel site_ok).
    Notation map_loop := (map_loop S mem_find mem_store cfg ucall rfuel site_ok).
    Lemma lg_iter_loop o es : (forall x, In x es -> lg vin (eval x o)) -> lg (Forall vin) (iter_loop o es).
    Proof.
      induction es as [|x es IH]; intros H; cbn [TraceProofs.iter_loop]; [now apply lg_ret|].
      apply lg_catch; [|intros; apply lg_ret; now repeat constructor].
      apply (lg_bind vin); [apply H; now left|]. intros v Hv.
      destruct (is_some (deep_err v)); [apply lg_ret; now repeat constructor|].
      apply (lg_bind (Forall vin)); [apply IH; intros y Hy; apply H; now right|].
      intros vs Hvs. apply lg_ret. now constructor.
    Qed.
    Lemma C_EIter es : Forall PP es -> PP (EIter es).
    Proof.
      intros H1 o Hp. cbn [path_in] in Hp. pose proof (all_use _ o H1 Hp) as U.
      split; [|split; [|split]].
      - rewrite eval_iter_E. apply lg_wrap. apply (lg_bind (Forall vin)).
        + apply lg_iter_loop. intros x Hx. apply l4e. now apply U.
        + intros vs Hvs. apply lg_ret. now apply vin_VT.
      - rewrite validate_iter_E. apply lg_iterM. intros x Hx. apply l4v. now apply U.
      - rewrite keys_iter_E. apply lg_unionM. intros x Hx. apply l4k. now apply U.
      - rewrite explain_EIter. apply lg_unionM. intros x Hx. apply l4x. now apply U.
    Qed.

    Definition row_ok (row : list (key * value)) : Prop := Forall (fun kv => vin (snd kv)) row.
    Lemma product_ok (ls : list (list value)) :
      Forall (Forall vin) ls -> Forall (Forall vin) (product ls).
    Proof.
      induction 1 as [|l ls Hl Hls IH]; cbn [product]; [repeat constructor|].
      apply Forall_forall. intros r Hr. apply in_flat_map in Hr as (a & Ha & Hr).
      apply in_map_iff in Hr as (r' & <- & Hr'). constructor.
      - rewrite Forall_forall in Hl. now apply Hl.
      - rewrite Forall_forall in IH. now apply IH.
    Qed.
    Lemma combine_ok (ks : list key) (vs : list value) : Forall vin vs -> row_ok (combine ks vs).
    Proof.
      intros H. revert ks. induction H as [|v vs Hv Hvs IH]; intros ks0; destruct ks0 as [|k ks0]; cbn [combine];
        try constructor; [exact Hv|apply IH].
    Qed.
    Lemma lg_map_rows o its :
      (forall kv, In kv its -> lg vin (eval (snd kv) o)) ->
      lg (Forall row_ok) (map_rows S (fun x => eval x o) its).
    Proof.
      intros H. unfold map_rows. apply (lg_bind (Forall (Forall vin))).
      - apply lg_mapM. intros kv Hkv. apply (lg_bind vin); [now apply H|]. intros v Hv. now apply lg_force_elems.
      - intros vals Hvals. apply lg_ret. apply product_ok in Hvals.
        apply Forall_forall. intros row Hrow. apply in_map_iff in Hrow as (combo & <- & Hc).
        apply combine_ok. rewrite Forall_forall in Hvals. now apply Hvals.
    Qed.
    Lemma vin_row_dict row : row_ok row -> vin (row_dict row).
    Proof.
      intros H. unfold row_dict. apply vin_VT. apply Forall_forall. intros y Hy.
      apply in_map_iff in Hy as (kv & <- & Hkv). apply vin_VT.
      constructor; [exact I|constructor; [|constructor]]. unfold row_ok in H. rewrite Forall_forall in H. now apply H.
    Qed.
    Lemma lg_map_loop o e rowsos :
      (forall ro, In ro rowsos -> row_ok (fst ro) /\ lg vin (eval e (with_opts true (snd ro) o))) ->
      lg (Forall vin) (map_loop o e rowsos).
    Proof.
      induction rowsos as [|[row os] rows IH]; intros H; cbn [TraceProofs.map_loop]; [now apply lg_ret|].
      destruct (H (row, os) (or_introl eq_refl)) as [Hrow He]. cbn [fst snd] in *.
      assert (Hpair : forall r, vin r -> vin (VT T_TUPLE [row_dict row; r])).
      { intros r Hr. apply vin_VT. constructor; [now apply vin_row_dict|now repeat constructor]. }
      apply lg_catch; [|intros; apply lg_ret; now repeat constructor].
      apply (lg_bind vin); [exact He|]. intros r Hr.
      destruct (is_some (deep_err r)); [apply lg_ret; constructor; [now apply Hpair|constructor]|].
      apply (lg_bind (Forall vin)); [apply IH; intros ro Hro; apply H; now right|].
      intros rs Hrs. apply lg_ret. constructor; [now apply Hpair|assumption].
    Qed.
    (** mapM keeping track of where each result comes from *)
    Lemma lg_mapM_in {A B} (Q : A -> B -> Prop) (f : A -> M B) l :
      (forall a, In a l -> lg (Q a) (f a)) ->
      lg (Forall (fun b => exists a, In a l /\ Q a b)) (mapM S f l).
    Proof.
      induction l as [|a l IH]; intros H; [now apply lg_ret|]. rewrite mapM_cons.
      apply (lg_bind (Q a)); [apply H; now left|]. intros b Hb.
      apply (lg_bind (Forall (fun b => exists a, In a l /\ Q a b))); [apply IH; intros x Hx; apply H; now right|].
      intros bs Hbs. apply lg_ret. constructor.
      - exists a. split; [now left|assumption].
      - eapply Forall_impl; [|exact Hbs]. intros b' (a' & Ha' & Hq). exists a'. split; [now right|assumption].
    Qed.

    Lemma C_EMap e its : PP e -> Forall (fun ke => PP (snd ke)) its -> PP (EMap e its).
    Proof.
      intros H1 H2 o Hp. cbn [path_in] in Hp. destruct Hp as (P1 & P2 & P3).
      pose proof (snd_use _ o H2 P1) as Ui.
      assert (Hrows : lg (Forall row_ok) (map_rows S (fun x => eval x o) its)).
      { apply lg_map_rows. intros kv Hkv. apply l4e. now apply Ui. }
      assert (Hbody : forall rows row os, reach (map_rows S (fun x => eval x o) its) rows -> In row rows ->
                        reach (row_options S row) os -> lg4 e (with_opts true os o)).
      { intros rows row os Hr Hin Hos. apply H1. apply P2. now exists rows, row. }
      split; [|split; [|split]].
      - rewrite eval_map_E. apply lg_wrap. apply (lg_bind_r (Forall row_ok)); [exact Hrows|]. intros rows Hok Hr.
        apply (lg_bind (Forall (fun ro => exists row, In row rows /\ (fst ro = row /\ reach (row_options S row) (snd ro))))).
        + apply (lg_mapM_in (fun row ro => fst ro = row /\ reach (row_options S row) (snd ro))). intros row Hrow.
          apply (lg_bind_r TT); [apply lg_row_options|]. intros os _ Hos. now apply lg_ret.
        + intros rowsos Hros. apply (lg_bind (Forall vin)); [|intros rs Hrs; apply lg_ret; now apply vin_VT].
          apply lg_map_loop. intros ro Hro. rewrite Forall_forall in Hros.
          destruct (Hros ro Hro) as (row & Hin & Hfst & Hos). split.
          * rewrite Hfst. rewrite Forall_forall in Hok. now apply Hok.
          * apply l4e. now apply (Hbody rows row).
      - rewrite validate_map_E. apply (lg_bind_r (Forall row_ok)); [exact Hrows|]. intros rows Hok Hr.
        apply lg_iterM. intros row Hrow. apply (lg_bind_r TT); [apply lg_row_options|]. intros os _ Hos.
        apply l4v. now apply (Hbody rows row).
      - rewrite keys_map_E. apply (lg_bind_r (Forall row_ok)); [exact Hrows|]. intros rows Hok Hr.
        apply (lg_bindT TT).
        + apply lg_unionM. intros row Hrow. apply (lg_bind_r TT); [apply lg_row_options|]. intros os _ Hos.
          apply (lg_bindT TT); [apply l4k; now apply (Hbody rows row)|]. intros ks. apply lg_filter_preset.
        + intros a. apply (lg_bindT TT); [|intros; now apply lg_ret].
          apply lg_unionM. intros kv Hkv. apply l4k. now apply Ui.
      - rewrite explain_map_E. apply lg_catch_r.
        + unfold map_explain_block. apply (lg_bind_r (Forall row_ok)); [exact Hrows|]. intros rows Hok Hr.
          apply (lg_bindT TT).
          * apply lg_unionM. intros row Hrow. apply (lg_bind_r TT); [apply lg_row_options|]. intros os _ Hos.
            apply (lg_bindT TT); [apply l4x; now apply (Hbody rows row)|]. intros ks. apply lg_filter_preset.
          * intros a. apply (lg_bindT TT); [|intros; now apply lg_ret].
            apply lg_unionM. intros kv Hkv. apply l4x. now apply Ui.
        + intros c ee Hr Hne. destruct ee; [|apply lg_fail].
          assert (U : lg4 e o) by (apply H1, P3; now exists c).
          apply (lg_bindT TT); [now apply l4x|]. intros a.
          apply (lg_bindT TT); [|intros; now apply lg_ret].
          apply lg_unionM. intros kv Hkv. apply l4x. now apply Ui.
    Qed.

    (** *** wrappers *)
    Lemma C_EWith force p e : PP e -> PP (EWith force p e).
    Proof.
      intros H1 o Hp. cbn [path_in] in Hp. pose proof (H1 _ Hp) as U. split; [|split; [|split]].
      - rewrite eval_with_E. apply lg_wrap. now apply l4e.
      - rewrite validate_with_E. now apply l4v.
      - rewrite keys_with_E. apply (lg_bindT TT); [now apply l4k|]. intros; apply lg_filter_preset.
      - rewrite explain_EWith. cbv zeta. apply (lg_bindT TT); [now apply l4x|]. intros; apply lg_filter_preset.
    Qed.
    Lemma C_ELogged e : PP e -> PP (ELogged e).
    Proof.
      intros H1 o Hp. cbn [path_in] in Hp. pose proof (H1 _ Hp) as U. split; [|split; [|split]].
      - rewrite eval_logged_E. apply lg_wrap. apply (lg_bindT TT); [now apply lg_emit|]. intros _.
        apply (lg_bindT TT); [destruct (_ || _); [now apply lg_ret|now apply lg_emit]|]. intros _. now apply l4e.
      - rewrite validate_logged_E. now apply l4v.
      - rewrite keys_logged_E. now apply l4k.
      - rewrite explain_ELogged. now apply l4x.
    Qed.

    Notation fingerprint := (fingerprint S mem_find mem_store cfg ucall rfuel site_ok).
    Notation store_back := (store_back S mem_find mem_store cfg ucall rfuel site_ok).
    Notation miss_path := (miss_path S mem_find mem_store cfg ucall rfuel site_ok).
    Notation cached_on := (cached_on S mem_find mem_store cfg ucall rfuel site_ok).
    Lemma lg_fingerprint e o : lg4 e o -> lg TT (fingerprint e o).
    Proof.
      intros U. unfold TraceProofs.fingerprint. apply (lg_bindT TT); [now apply l4k|]. intros; apply lg_fingerprint_of.
    Qed.
    Lemma C_ECached c e : PP e -> PP (ECached c e).
    Proof.
      intros H1 o Hp. cbn [path_in] in Hp. pose proof (H1 _ Hp) as U. destruct c as [cid|].
      - assert (Hsb : forall v, vin v -> lg vin (store_back cid e o v)).
        { intros v Hv. unfold TraceProofs.store_back.
          apply (lg_bindT TT); [now apply lg_fingerprint|]. intros f.
          apply (lg_bindT TT); [apply lg_put_store; now apply vin_exhaust|]. intros _.
          apply (lg_bindT TT); [now apply lg_emit|]. intros _.
          apply (lg_bindT TT); [destruct (has_lazy v); [now apply lg_emit|now apply lg_ret]|]. intros _.
          apply (lg_bindT TT); [now apply lg_fingerprint|]. intros f'.
          apply (lg_bindT Inv); [apply lg_get_store|]. intros s.
          destruct (mem_find cid f' s); (apply (lg_bindT TT); [now apply lg_emit|]); intros _; now apply lg_ret. }
        assert (Hmiss : lg vin (miss_path cid e o)).
        { unfold TraceProofs.miss_path. apply (lg_bind vin); [now apply l4e|]. exact Hsb. }
        split; [|split; [|split]].
        + rewrite eval_cached_mem_E. apply lg_wrap. destruct (cache_off cfg o); [now apply l4e|].
          unfold TraceProofs.cached_on.
          apply (lg_bindT TT); [destruct (site_ok e o); [now apply lg_ret|now apply lg_emit]|]. intros _.
          apply (lg_bindT TT); [now apply lg_fingerprint|]. intros f.
          apply (lg_bindT Inv); [apply lg_get_store|]. intros s.
          destruct (mem_find cid f s) as [v0|].
          * apply (lg_bindT TT); [now apply lg_emit|]. intros _.
            apply (lg_bindT TT); [now apply lg_fingerprint|]. intros f2.
            apply (lg_bind Inv); [apply lg_get_store|]. intros s2 Hs2.
            destruct (mem_find cid f2 s2) as [v1|] eqn:Ef; (apply (lg_bindT TT); [now apply lg_emit|]); intros _.
            -- apply lg_ret. eapply Inv_find; eauto.
            -- exact Hmiss.
          * apply (lg_bindT TT); [now apply lg_emit|]. intros _. exact Hmiss.
        + rewrite validate_cached_mem_E. destruct (cache_off cfg o); [now apply l4v|].
          apply (lg_bindT TT); [now apply l4k|]. intros ks.
          apply (lg_bindT TT); [apply lg_fingerprint_of|]. intros f.
          apply (lg_bindT Inv); [apply lg_get_store|]. intros s.
          destruct (mem_find cid f s); (apply (lg_bindT TT); [now apply lg_emit|]); intros _;
            [now apply lg_ret|now apply l4v].
        + rewrite keys_cached_E. now apply l4k.
        + rewrite explain_ECached. now apply l4x.
      - split; [|split; [|split]].
        + rewrite eval_cached_none_E. apply lg_wrap. now apply l4e.
        + rewrite validate_cached_none_E. now apply l4v.
        + rewrite keys_cached_E. now apply l4k.
        + rewrite explain_ECached. now apply l4x.
    Qed.

    (** *** applications, templates, computations, pipelines *)
    Lemma C_ECall partial f args kwargs :
      PP f -> Forall PP args -> Forall PP kwargs -> PP (ECall partial f args kwargs).
    Proof.
      intros H1 H2 H3 o Hp. cbn [path_in] in Hp. destruct Hp as (P1 & P2 & P3).
      pose proof (H1 o P1) as U1. pose proof (all_use _ o H2 P2) as Ua. pose proof (all_use _ o H3 P3) as Uk.
      split; [|split; [|split]].
      - rewrite eval_call_E. apply lg_wrap. apply (lg_bind vin); [now apply l4e|]. intros fv Hfv.
        apply (lg_bind (Forall vin)); [apply lg_mapM; intros x Hx; apply l4e; now apply Ua|]. intros av Hav.
        apply (lg_bind (Forall vin)); [apply lg_mapM; intros x Hx; apply l4e; now apply Uk|]. intros kv Hkv.
        destruct partial.
        + destruct fv; try apply lg_fail. apply vin_VF in Hfv as (Hff & Hpre & Hpost).
          apply lg_ret. apply vin_VF. split; [assumption|]. split; apply Forall_app; now split.
        + apply lg_call_value_n; [assumption|]. apply Forall_app; now split.
      - rewrite validate_call_E. apply (lg_bindT TT); [now apply l4v|]. intros _.
        apply (lg_bindT TT); [apply lg_iterM; intros x Hx; apply l4v; now apply Ua|]. intros _.
        apply lg_iterM; intros x Hx; apply l4v; now apply Uk.
      - rewrite keys_call_E. apply (lg_bindT TT); [now apply l4k|]. intros a.
        apply (lg_bindT TT); [apply lg_unionM; intros x Hx; apply l4k; now apply Ua|]. intros b.
        apply (lg_bindT TT); [apply lg_unionM; intros x Hx; apply l4k; now apply Uk|]. intros; now apply lg_ret.
      - rewrite explain_ECall. apply (lg_bindT TT); [now apply l4x|]. intros a.
        apply (lg_bindT TT); [apply lg_unionM; intros x Hx; apply l4x; now apply Ua|]. intros b.
        apply (lg_bindT TT); [apply lg_unionM; intros x Hx; apply l4x; now apply Uk|]. intros; now apply lg_ret.
    Qed.

    Lemma lg_template_options o ps :
      (forall pe, In pe ps -> lg vin (eval (snd pe) o)) -> lg TT (template_options S (fun x => eval x o) ps o).
    Proof.
      intros H. unfold template_options. apply (lg_bindT (Forall (fun _ : N * value => True))).
      - apply lg_mapM. intros pe Hpe. apply (lg_bindT vin); [now apply H|]. intros; now apply lg_ret.
      - intros pvs. destruct (option_set _ _); [|apply lg_fail].
        destruct (negb _); [apply lg_fail|now apply lg_ret].
    Qed.
    Lemma C_ETemplate s ps : Forall (fun pe => PP (snd pe)) ps -> PP (ETemplate s ps).
    Proof.
      intros H1 o Hp. cbn [path_in] in Hp. pose proof (snd_use _ o H1 Hp) as U.
      split; [|split; [|split]].
      - rewrite eval_template_E. apply lg_wrap.
        apply (lg_bindT TT); [apply lg_template_options; intros pe Hpe; apply l4e; now apply U|]. intros o'.
        apply (lg_bindT TT); [apply lg_emit_reads|]. intros _.
        apply (lg_bindT TT); [apply lg_of_rres|]. intros j.
        destruct (to_str j); [now apply lg_ret|apply lg_fail].
      - rewrite validate_template_E.
        apply (lg_bindT TT); [apply lg_iterM; intros pe Hpe; apply l4v; now apply U|]. intros _.
        apply lg_iterM. intros k _. unfold validate_ref. apply (lg_bindT TT); [apply lg_rd|]. intros r.
        destruct r as [raw| |]; try apply lg_fail.
        apply (lg_bindT TT); [apply lg_emit_reads|]. intros _.
        apply (lg_bindT TT); [apply lg_wrap, lg_of_rres|intros; now apply lg_ret].
      - rewrite keys_template_E.
        apply (lg_bindT TT); [apply lg_unionM; intros pe Hpe; apply l4k; now apply U|]. intros a.
        apply (lg_bindT TT); [apply lg_unionM; intros; apply lg_ref_keys|intros; now apply lg_ret].
      - rewrite explain_ETemplate.
        apply (lg_bindT TT); [apply lg_unionM; intros pe Hpe; apply l4x; now apply U|]. intros a.
        apply (lg_bindT TT); [apply lg_unionM; intros; apply lg_ref_keys|intros; now apply lg_ret].
    Qed.

    Notation effect_run := (effect_run S mem_find mem_store cfg ucall rfuel site_ok).
    Lemma C_EComp e effects : PP e -> Forall PP effects -> PP (EComp e effects).
    Proof.
      intros H1 H2 o Hp. cbn [path_in] in Hp. destruct Hp as (P1 & P2).
      pose proof (H1 o P1) as U1.
      assert (U : effects_opt_off o = false -> forall x, In x effects -> lg4 x o).
      { intros Hoff. apply (all_use _ o H2 (P2 Hoff)). }
      split; [|split; [|split]].
      - rewrite eval_comp_E. apply lg_wrap. apply (lg_bind vin); [now apply l4e|]. intros v Hv.
        apply (lg_bindT TT); [|intros; now apply lg_ret].
        destruct (effects_opt_off o) eqn:Hoff; [now apply lg_ret|].
        apply lg_iterM. intros x Hx. unfold TraceProofs.effect_run.
        apply (lg_bind vin); [apply l4e; now apply U|]. intros f Hf.
        apply (lg_bindT vin); [now apply lg_call_value|intros; now apply lg_ret].
      - rewrite validate_comp_E. apply (lg_bindT TT); [now apply l4v|]. intros _.
        destruct (effects_opt_off o) eqn:Hoff; [now apply lg_ret|].
        apply lg_iterM. intros x Hx. apply l4v. now apply U.
      - rewrite keys_comp_E. now apply l4k.
      - rewrite explain_EComp. apply (lg_bindT TT); [now apply l4x|]. intros a.
        destruct (effects_opt_off o) eqn:Hoff; [now apply lg_ret|].
        apply (lg_bindT TT); [|intros; now apply lg_ret].
        apply lg_unionM. intros x Hx. apply l4x. now apply U.
    Qed.

    Lemma okf_compose : okf B_COMPOSE.
    Proof. left. reflexivity. Qed.
    Lemma C_EPipe steps : Forall PP steps -> PP (EPipe steps).
    Proof.
      intros H1 o Hp. cbn [path_in] in Hp. pose proof (all_use _ o H1 Hp) as U.
      split; [|split; [|split]].
      - rewrite eval_pipe_E. apply lg_wrap. apply (lg_bind (Forall vin)).
        + apply lg_mapM. intros x Hx. apply l4e. now apply U.
        + intros fs Hfs. apply lg_ret. apply vin_VF. split; [apply okf_compose|]. split; [|constructor].
          apply Forall_forall. intros y Hy. apply in_rev in Hy. rewrite Forall_forall in Hfs. now apply Hfs.
      - rewrite validate_pipe_E. apply lg_iterM. intros x Hx. apply l4v. now apply U.
      - rewrite keys_pipe_E. apply lg_unionM. intros x Hx. apply l4k. now apply U.
      - rewrite explain_EPipe. apply lg_unionM. intros x Hx. apply l4x. now apply U.
    Qed.

    (** THE CONTAINMENT THEOREM *)
    Theorem contained e : PP e.
    Proof.
      induction e using expr_ind'.
      - apply C_EValue.
      - now apply C_EOption.
      - now apply C_EApply.
      - now apply C_EBind.
      - now apply C_ESwitch.
      - now apply C_ECase.
      - now apply C_ECoalesce.
      - now apply C_EIter.
      - now apply C_EMap.
      - now apply C_EWith.
      - now apply C_ECached.
      - now apply C_ECall.
      - now apply C_ETemplate.
      - now apply C_EComp.
      - now apply C_ELogged.
      - now apply C_EPipe.
      - apply C_EAllOptions.
    Qed.

    Lemma lg_calls {A} (Q : A -> Prop) (m : M A) s :
      lg Q m -> Inv s -> forall f args, In (EvCall f args) (log_of (m s)) -> F f.
    Proof.
      intros H Hi f args Hin. destruct (m s) as [[r s'] l] eqn:E.
      destruct (H _ _ _ _ Hi E) as (_ & Hl & _). rewrite Forall_forall in Hl. exact (Hl _ Hin).
    Qed.

    (** every body that runs during evaluate / validate / keys / explain of [e] under [o] is
        by a function of [F], whenever the selectable paths of [e] under [o] mention only
        functions of [F] *)
    Theorem only_selected_bodies_run e o s f args :
      path_in e o -> Inv s -> In (EvCall f args) (log_of (eval e o s)) -> F f.
    Proof. intros Hp Hi. apply (lg_calls vin); [apply l4e; now apply contained|exact Hi]. Qed.
    Theorem only_selected_bodies_run_validate e o s f args :
      path_in e o -> Inv s -> In (EvCall f args) (log_of (validate e o s)) -> F f.
    Proof. intros Hp Hi. apply (lg_calls TT); [apply l4v; now apply contained|exact Hi]. Qed.
    Theorem only_selected_bodies_run_keys e o s f args :
      path_in e o -> Inv s -> In (EvCall f args) (log_of (keys e o s)) -> F f.
    Proof. intros Hp Hi. apply (lg_calls TT); [apply l4k; now apply contained|exact Hi]. Qed.
    Theorem only_selected_bodies_run_explain e o s f args :
      path_in e o -> Inv s -> In (EvCall f args) (log_of (explain e o s)) -> F f.
    Proof. intros Hp Hi. apply (lg_calls TT); [apply l4x; now apply contained|exact Hi]. Qed.
    (** … the result mentions only such functions, and the store invariant is kept *)
    Theorem eval_result_in e o s v s' l :
      path_in e o -> Inv s -> eval e o s = (Ok v, s', l) -> vin v /\ Inv s'.
    Proof.
      intros Hp Hi E. destruct (l4e _ _ (contained e o Hp) _ _ _ _ Hi E) as (I1 & _ & I3). split; auto.
    Qed.

    (** *** the static corollary: a syntactic sufficient condition for [path_in] under every
        dictionary — every function atom written anywhere in the expression is in [F] *)
    Definition all_cases (P : expr -> Prop) : list (expr * expr) -> Prop :=
      fix go (cs : list (expr * expr)) : Prop :=
        match cs with [] => True | cr :: cs' => P (fst cr) /\ P (snd cr) /\ go cs' end.
    Fixpoint all_in (e : expr) : Prop :=
      match e with
      | EValue v => vin v
      | EOption _ dflt dom => opt_path all_in dflt /\ opt_path all_in dom
      | EApply a b => all_in a /\ all_in b
      | EBind src tbl dflt | ESwitch src tbl dflt => all_in src /\ all_snd all_in tbl /\ opt_path all_in dflt
      | ECase disp cases dflt => all_in disp /\ all_cases all_in cases /\ opt_path all_in dflt
      | ECoalesce ms | EIter ms | EPipe ms => all_path all_in ms
      | EMap e its => all_in e /\ all_snd all_in its
      | EWith _ _ e | ELogged e | ECached _ e => all_in e
      | ECall _ f args kwargs => all_in f /\ all_path all_in args /\ all_path all_in kwargs
      | ETemplate _ ps => all_snd all_in ps
      | EComp e effects => all_in e /\ all_path all_in effects
      | EAllOptions => True
      end.

    Definition SP (e : expr) : Prop := all_in e -> forall o, path_in e o.
    Lemma sp_opt dflt o : Popt SP dflt -> opt_path all_in dflt -> opt_path (fun d => path_in d o) dflt.
    Proof. destruct dflt as [d|]; cbn; auto. Qed.
    Lemma sp_all l o : Forall SP l -> all_path all_in l -> all_path (fun x => path_in x o) l.
    Proof.
      induction 1 as [|y l Hy Hl IH]; cbn [all_path]; [auto|]. intros [A1 A2]. split; [now apply Hy|now apply IH].
    Qed.
    Lemma sp_snd {K} (l : list (K * expr)) o :
      Forall (fun ve => SP (snd ve)) l -> all_snd all_in l -> all_snd (fun x => path_in x o) l.
    Proof.
      induction 1 as [|y l Hy Hl IH]; cbn [all_snd]; [auto|]. intros [A1 A2]. split; [now apply Hy|now apply IH].
    Qed.
    Lemma sp_pick k (tbl : list (value * expr)) o (Pm : Prop) :
      Forall (fun ve => SP (snd ve)) tbl -> all_snd all_in tbl -> Pm ->
      pick k (fun b => path_in b o) Pm tbl.
    Proof.
      induction 1 as [|[v b] l Hy Hl IH]; cbn [all_snd pick]; [auto|]. intros [A1 A2] Hm.
      destruct (value_eq k v); [now apply Hy|now apply IH].
    Qed.
    Theorem all_in_path e : SP e.
    Proof.
      induction e using expr_ind'; intros Ha o; cbn [all_in] in Ha; cbn [path_in].
      - exact Ha.
      - destruct Ha as [A1 A2]. split; [intros _; now apply sp_opt|now apply sp_opt].
      - destruct Ha as [A1 A2]. split; [now apply IHe1|now apply IHe2].
      - destruct Ha as (A1 & A2 & A3). split; [now apply IHe|]. intros x _.
        apply sp_pick; auto. now apply sp_opt.
      - destruct Ha as (A1 & A2 & A3). split; [now apply IHe|]. split.
        + intros k _ _. apply sp_pick; auto. now apply sp_opt.
        + intros _. now apply sp_opt.
      - destruct Ha as (A1 & A2 & A3). split; [now apply IHe|]. intros x _.
        clear IHe A1. induction H as [|[c r] cases [Hc Hr] Hrest IH]; cbn [case_path]; [now apply sp_opt|].
        cbn [all_cases fst snd] in A2. destruct A2 as (B1 & B2 & B3).
        split; [now apply Hc|]. split; [intros _; now apply Hr|intros _; now apply IH].
      - induction H as [|m ms Hm Hrest IH]; cbn [coal_path]; [exact I|].
        cbn [all_path] in Ha. destruct Ha as [A1 A2]. split; [now apply Hm|intros _; now apply IH].
      - now apply sp_all.
      - destruct Ha as [A1 A2]. split; [now apply sp_snd|]. split; intros; now apply IHe.
      - now apply IHe.
      - now apply IHe.
      - destruct Ha as (A1 & A2 & A3). split; [now apply IHe|]. split; now apply sp_all.
      - now apply sp_snd.
      - destruct Ha as [A1 A2]. split; [now apply IHe|intros _; now apply sp_all].
      - now apply IHe.
      - now apply sp_all.
      - exact I.
    Qed.

    Corollary only_written_bodies_run e o s f args :
      all_in e -> Inv s -> In (EvCall f args) (log_of (eval e o s)) -> F f.
    Proof. intros Ha. apply only_selected_bodies_run. now apply all_in_path. Qed.
  End Contain.
End C06.

(** ** Instances *)
From LV Require Import Model.EvalRun.

(** user functions given by a table return what they are given, or a constant of the table *)
Definition table_in (F : N -> Prop) (t : ftable) : Prop :=
  forall f d, fassoc f t = Some d -> match d with FConst v => vin F v | _ => True end.

Lemma ucall_of_closed F t : table_in F t ->
  forall f args v, F f -> Forall (vin F) args -> ucall_of t f args = COk v -> vin F v.
Proof.
  intros Ht f args v Hf Ha. unfold ucall_of. destruct (fassoc f t) as [d|] eqn:E.
  - specialize (Ht f d E). destruct d; intros H; try discriminate.
    + inversion H; subst. now apply vin_VT.
    + destruct (existsb _ args); [discriminate|]. inversion H; subst. now apply vin_VT.
    + inversion H; subst. exact Ht.
    + destruct args as [|a args]; [discriminate|]. inversion H; subst. now inversion Ha.
    + destruct args as [|a args]; [discriminate|]. inversion H; subst. exact I.
    + destruct args as [|a args]; [discriminate|]. inversion H; subst. exact I.
    + destruct args as [|a args]; [discriminate|]. inversion H; subst. exact I.
    + destruct args as [|a [|b args]]; try discriminate. inversion H; subst. exact I.
  - intros H. inversion H; subst. now apply vin_VT.
Qed.

(** the cache-free reference run (what labrea.cache.disabled() computes) *)
Section NC.
  Variable F : N -> Prop.
  Variable t : ftable.
  Variable fuel : nat.
  Hypothesis Ht : table_in F t.

  Definition path_nc (e : expr) (o : dict) : Prop :=
    path_in unit nc_find nc_store cfg_nc (ucall_of t) fuel (fun _ _ => true) F e o.

  Theorem nc_only_selected_bodies_run e o f args :
    path_nc e o -> In (EvCall f args) (snd (eval_nc (ucall_of t) fuel e o)) -> F f.
  Proof.
    intros Hp Hin. unfold eval_nc in Hin.
    destruct (eval unit nc_find nc_store cfg_nc (ucall_of t) fuel (fun _ _ => true) e o tt) as [[r s'] l] eqn:E.
    cbn [snd] in Hin.
    apply (only_selected_bodies_run unit nc_find nc_store cfg_nc (ucall_of t) fuel (fun _ _ => true) F
             (fun _ => True)) with (e := e) (o := o) (s := tt) (args := args); auto.
    - intros c f0 s v _ H. discriminate.
    - now apply ucall_of_closed.
    - unfold log_of. now rewrite E.
  Qed.
End NC.

(** the real memo store: the invariant "every stored value mentions only functions of F" *)
Section RealStore.
  Variable F : N -> Prop.
  Definition list_in (l : list (fp * value)) : Prop := Forall (fun fv => vin F (snd fv)) l.
  Definition store_in (s : store) : Prop := Forall (fun cl => list_in (snd cl)) s.

  Lemma fp_find_in g l w : list_in l -> fp_find g l = Some w -> vin F w.
  Proof.
    induction 1 as [|[f' v'] l Hv Hl IH]; cbn [fp_find]; [discriminate|].
    destruct (fp_eqb g f'); [intros H; inversion H; subst; exact Hv|exact IH].
  Qed.
  Lemma fp_put_in f v l : list_in l -> vin F v -> list_in (fp_put f v l).
  Proof.
    intros Hl Hv. induction Hl as [|[f' v'] l Hv' Hl IH]; cbn [fp_put]; [now repeat constructor|].
    destruct (fp_eqb f f'); constructor; auto.
  Qed.
  Lemma st_get_in c s : store_in s -> list_in (st_get c s).
  Proof.
    induction 1 as [|[c' l] s Hl Hs IH]; cbn [st_get]; [constructor|].
    destruct (N.eqb c c'); [exact Hl|exact IH].
  Qed.
  Lemma st_put_in c l s : store_in s -> list_in l -> store_in (st_put c l s).
  Proof.
    intros Hs Hl. induction Hs as [|[c' l'] s Hl' Hs IH]; cbn [st_put]; [now repeat constructor|].
    destruct (N.eqb c c'); constructor; auto.
  Qed.
  Lemma store_in_empty : store_in [].
  Proof. constructor. Qed.
  Lemma store_in_find c f v s : store_in s -> mem_find c f s = Some v -> vin F v.
  Proof. intros Hs. unfold mem_find. apply fp_find_in. now apply st_get_in. Qed.
  Lemma store_in_store c f v s : store_in s -> vin F v -> store_in (mem_store c f v s).
  Proof.
    intros Hs Hv. unfold mem_store. apply st_put_in; [exact Hs|]. apply fp_put_in; [now apply st_get_in|exact Hv].
  Qed.

  Variable t : ftable.
  Variable cfg : config.
  Variable fuel : nat.
  Variable site_ok : expr -> dict -> bool.
  Hypothesis Ht : table_in F t.

  Theorem store_only_selected_bodies_run e o s f args :
    path_in store mem_find mem_store cfg (ucall_of t) fuel site_ok F e o -> store_in s ->
    In (EvCall f args) (log_of store (eval store mem_find mem_store cfg (ucall_of t) fuel site_ok e o s)) -> F f.
  Proof.
    apply (only_selected_bodies_run store mem_find mem_store cfg (ucall_of t) fuel site_ok F store_in).
    - intros c f0 s0 v Hs H. exact (store_in_find c f0 v s0 Hs H).
    - intros c f0 v s0. apply store_in_store.
    - now apply ucall_of_closed.
  Qed.
  (** and the invariant is kept, so the statement chains along a history from the empty store *)
  Theorem store_invariant_kept e o s v s' l :
    path_in store mem_find mem_store cfg (ucall_of t) fuel site_ok F e o -> store_in s ->
    eval store mem_find mem_store cfg (ucall_of t) fuel site_ok e o s = (Ok v, s', l) -> store_in s'.
  Proof.
    intros Hp Hs E.
    refine (proj2 (eval_result_in store mem_find mem_store cfg (ucall_of t) fuel site_ok F store_in
                     _ _ _ e o s v s' l Hp Hs E)).
    - intros c f0 s0 v0 Hs0 H. exact (store_in_find c f0 v0 s0 Hs0 H).
    - intros c f0 v0 s0. apply store_in_store.
    - now apply ucall_of_closed.
  Qed.
End RealStore.

Lemma store_invariant_both (F : N -> Prop) t cfg fuel so : table_in F t ->
  store_in F [] /\
  forall e o s v s' l,
  path_in store mem_find mem_store cfg (ucall_of t) fuel so F e o -> store_in F s ->
  eval store mem_find mem_store cfg (ucall_of t) fuel so e o s = (Ok v, s', l) -> store_in F s'.
Proof. intros Ht. split; [exact (store_in_empty F)|exact (store_invariant_kept F t cfg fuel so Ht)]. Qed.

(** ** Non-vacuity: concrete graphs with a tripwire body (666 / 667) in every unselected
    position; the hypotheses of the containment theorem hold with F = the functions on the
    selected path only, bodies DO run, and no tripwire is among them *)
Section Examples.
  Definition kA : key := [SName 10].
  Definition oA1 : dict := [(SName 10, JInt 1)].
  Definition ex_tbl : ftable := [(201%N, FEq (VJ (JInt 1))); (202%N, FTruthy)].
  Definition F_ex (f : N) : Prop := f = 100%N \/ f = 201%N.
  Definition run_log (e : expr) (o : dict) : list event := snd (eval_nc (ucall_of ex_tbl) 40 e o).
  Definition trip (l : list event) : bool :=
    existsb (fun ev => match ev with EvCall f _ => N.eqb f 666 || N.eqb f 667 | _ => false end) l.

  Lemma ex_table_in : table_in F_ex ex_tbl.
  Proof.
    intros f d H. unfold ex_tbl in H. cbn [fassoc] in H.
    destruct (N.eqb f 201); [inversion H; subst; exact I|].
    destruct (N.eqb f 202); [inversion H; subst; exact I|discriminate].
  Qed.
  Lemma vin_body100 : vin F_ex (VF 100 [] []).
  Proof. apply vin_VF. split; [right; now left|split; constructor]. Qed.
  Lemma vin_pred201 : vin F_ex (VF 201 [] []).
  Proof. apply vin_VF. split; [right; now right|split; constructor]. Qed.

  (** switch / overload: dispatch value 1 is registered to body 100; 666 is registered to 2,
      667 is the default *)
  Definition ex_switch : expr :=
    ESwitch (EOption kA None None)
      [(VJ (JInt 1), body 100 []); (VJ (JInt 2), body 666 [])] (Some (body 667 [])).
  Lemma ex_switch_path : path_nc F_ex ex_tbl 40 ex_switch oA1.
  Proof.
    unfold path_nc, ex_switch. cbn [path_in]. split; [split; [intros _; exact I|exact I]|]. split.
    - intros k (s & s' & l & E) _. destruct s. vm_compute in E. inversion E; subst.
      cbn. split; [exact vin_body100|split; exact I].
    - intros (c & s & s' & l & E). destruct s. vm_compute in E. discriminate.
  Qed.
  Lemma ex_switch_runs : run_log ex_switch oA1 = [EvRead kA true; EvCall 100 []].
  Proof. vm_compute. reflexivity. Qed.

  (** case-when: the first condition (== 1) holds; 666 is the second result, 667 the default *)
  Definition ex_case : expr :=
    ECase (EOption kA None None)
      [(EValue (VF 201 [] []), body 100 []); (EValue (VF 202 [] []), body 666 [])] (Some (body 667 [])).
  Lemma ex_case_path : path_nc F_ex ex_tbl 40 ex_case oA1.
  Proof.
    unfold path_nc, ex_case. cbn [path_in]. split; [split; [intros _; exact I|exact I]|].
    intros x (s & s' & l & E). destruct s. vm_compute in E. inversion E; subst. clear E.
    cbn [case_path fst snd]. split; [exact vin_pred201|]. split.
    - intros _. cbn [path_in]. unfold body. cbn [path_in all_path]. split; [exact vin_body100|split; exact I].
    - intros (p & v & (s1 & s1' & l1 & E1) & (s2 & s2' & l2 & E2) & Hb). exfalso.
      destruct s1, s2. vm_compute in E1. inversion E1; subst. vm_compute in E2. inversion E2; subst.
      discriminate.
  Qed.

  (** coalesce: the first member succeeds; 666 is the second member *)
  Definition ex_coalesce : expr := ECoalesce [EOption kA None None; body 666 []].
  Lemma ex_coalesce_path : path_nc F_ex ex_tbl 40 ex_coalesce oA1.
  Proof.
    unfold path_nc, ex_coalesce. cbn [path_in coal_path]. split; [split; [intros _; exact I|exact I]|].
    intros (c & [H|[H|[H|H]]]); exfalso; destruct H as (s & s' & l & E); destruct s;
      vm_compute in E; discriminate.
  Qed.

  (** Option with a default: the key is present; 666 is the default *)
  Definition ex_option : expr := EOption kA (Some (body 666 [])) None.
  Lemma ex_option_path : path_nc F_ex ex_tbl 40 ex_option oA1.
  Proof.
    unfold path_nc, ex_option. cbn [path_in]. split; [|exact I]. intros H. vm_compute in H. discriminate.
  Qed.

  (** all four together, as arguments of one body: the bodies that run are exactly the
      selected ones, in order, the outer body last *)
  Definition ex_all : expr := body 100 [ex_switch; ex_case; ex_coalesce; ex_option].
  Lemma ex_all_path : path_nc F_ex ex_tbl 40 ex_all oA1.
  Proof.
    unfold path_nc, ex_all, body. cbn [path_in all_path]. split; [exact vin_body100|]. split; [exact I|].
    split; [exact ex_switch_path|]. split; [exact ex_case_path|]. split; [exact ex_coalesce_path|].
    split; [exact ex_option_path|exact I].
  Qed.
  Lemma ex_all_calls :
    filter (fun ev => match ev with EvCall _ _ => true | _ => false end) (run_log ex_all oA1) =
      [EvCall 100 []; EvCall 201 [VJ (JInt 1)]; EvCall 100 [];
       EvCall 100 [VT 100 []; VT 100 []; VJ (JInt 1); VJ (JInt 1)]].
  Proof. vm_compute. reflexivity. Qed.
  Lemma ex_all_no_tripwire : forall f args, In (EvCall f args) (run_log ex_all oA1) -> F_ex f.
  Proof.
    intros f args. unfold run_log.
    apply (nc_only_selected_bodies_run F_ex ex_tbl 40 ex_table_in ex_all oA1 f args ex_all_path).
  Qed.
  (** under a dictionary selecting the other branches the tripwires DO run: they are live code *)
  Lemma ex_tripwires_live : trip (run_log ex_all []) = true /\ trip (run_log ex_all oA1) = false.
  Proof. split; vm_compute; reflexivity. Qed.

  (** order: arguments before the body; source before the step *)
  Lemma ex_args_before_body :
    run_log (body 100 [body 101 []; body 102 []]) [] =
      [EvCall 101 []; EvCall 102 []; EvCall 100 [VT 101 []; VT 102 []]].
  Proof. vm_compute. reflexivity. Qed.
  Lemma ex_source_before_step :
    run_log (EApply (body 101 []) (pstep 102 [body 103 []])) [] =
      [EvCall 101 []; EvCall 103 []; EvCall 102 [VT 101 []; VT 103 []]].
  Proof. vm_compute. reflexivity. Qed.
End Examples.
