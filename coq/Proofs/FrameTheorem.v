(** The frame theorem: on the fragment [frag], evaluation, validation and key inspection of the
    cache-free reference semantics depend on the options only through the keys they look up. *)
From Coq Require Import List NArith ZArith Bool Lia.
Import ListNotations.
From LV Require Import Model.Base Model.Template Model.Eval Model.Derived Model.EvalRun Proofs.BaseProofs Proofs.EvalProofs Proofs.EvalInd Proofs.EvalUnfold.
From LV Require Import Proofs.FrameProofs Proofs.TemplateFrame.

Section FrameTheorem.
  Variable u : N -> list value -> cres.
  Variable fuel : nat.

  Notation evalN := (eval unit nc_find nc_store cfg_nc u fuel (fun _ _ => true)).
  Notation validateN := (validate unit nc_find nc_store cfg_nc u fuel (fun _ _ => true)).
  Notation keysN := (keys unit nc_find nc_store cfg_nc u fuel (fun _ _ => true)).
  Notation M := (M unit).

  Ltac unf L := rewrite !(L unit nc_find nc_store cfg_nc u fuel (fun _ _ => true)).

  (** leaves that look options up *)
  Definition present (o : dict) (k : key) : bool :=
    match lookup k (JObj o) with Found _ => true | _ => false end.

  Lemma emit_reads_run ks o :
    emit_reads unit ks o tt = (Ok tt, tt, map (fun k => EvRead k (present o k)) ks).
  Proof.
    unfold emit_reads. induction ks as [|k ks IH]; [reflexivity|].
    rewrite iterM_cons. unfold bind. unfold emit at 1. cbv beta iota. rewrite IH. reflexivity.
  Qed.

  Lemma reads_of_map_read o ks : reads_of (map (fun k => EvRead k (present o k)) ks) = ks.
  Proof. unfold reads_of. induction ks as [|k ks IH]; [reflexivity|]. cbn [map flat_map app]. now rewrite IH. Qed.

  Lemma filter_read_map o ks :
    filter is_read (map (fun k => EvRead k (present o k)) ks) = map (fun k => EvRead k (present o k)) ks.
  Proof. induction ks as [|k ks IH]; [reflexivity|]. cbn [map filter is_read]. now rewrite IH. Qed.

  Lemma Fr_resolved o o' raw :
    Fr o o'
      (bind unit (emit_reads unit (resolve_reads fuel o raw) o)
         (fun _ => bind unit (of_rres unit (resolve fuel o raw)) (fun j => ret unit (VJ j))))
      (bind unit (emit_reads unit (resolve_reads fuel o' raw) o')
         (fun _ => bind unit (of_rres unit (resolve fuel o' raw)) (fun j => ret unit (VJ j)))).
  Proof.
    unfold Fr, obs, bind. rewrite !emit_reads_run. cbv beta iota.
    set (tail := fun d => match of_rres unit (resolve fuel d raw) tt with
                          | (Ok a, s', l) => match ret unit (VJ a) s' with (r, s'', l') => (r, s'', l ++ l') end
                          | (Err c ee, s', l) => (Err c ee, s', l) end).
    assert (Hlog : forall d, snd (tail d) = []).
    { intros d. unfold tail, of_rres, ret, fail. destruct (resolve fuel d raw); reflexivity. }
    change (match of_rres unit (resolve fuel o raw) tt with
            | (Ok a, s', l) => match ret unit (VJ a) s' with (r, s'', l') => (r, s'', l ++ l') end
            | (Err c ee, s', l) => (Err c ee, s', l) end) with (tail o).
    change (match of_rres unit (resolve fuel o' raw) tt with
            | (Ok a, s', l) => match ret unit (VJ a) s' with (r, s'', l') => (r, s'', l ++ l') end
            | (Err c ee, s', l) => (Err c ee, s', l) end) with (tail o').
    pose proof (Hlog o) as Ho. pose proof (Hlog o') as Ho'.
    destruct (tail o) as [[r []] l] eqn:Et. destruct (tail o') as [[r' []] l'] eqn:Et'.
    cbn [fst snd] in *. subst l l'. rewrite !app_nil_r.
    rewrite reads_of_map_read. intros Hag.
    destruct (resolve_frame o o' fuel raw Hag) as [E1 E2].
    assert (Er : r' = r).
    { assert (tail o' = tail o) by (unfold tail; now rewrite E2). congruence. }
    rewrite E1, Er. f_equal. rewrite !filter_read_map.
    apply map_ext_in. intros k Hk. unfold present. now rewrite (Hag k Hk).
  Qed.

  Lemma Fr_ref_keys o o' strict f : forall k, Fr o o' (ref_keys unit f strict o k) (ref_keys unit f strict o' k).
  Proof.
    induction f as [|f IH]; intros k; [apply Fr_refl|].
    cbn [ref_keys]. apply Fr_bind; [apply Fr_rd|].
    intros r. destruct r as [v| |]; try apply Fr_refl.
    destruct v; try apply Fr_refl.
    destruct (existsb _ s); [apply Fr_refl|].
    apply Fr_bind; [|intros; apply Fr_refl].
    apply Fr_unionM. intros; apply IH.
  Qed.

  Lemma Fr_pick {A} o o' k (onhit onhit' : expr -> M A) (onmiss onmiss' : M A) tbl :
    (forall b, In b (map snd tbl) -> Fr o o' (onhit b) (onhit' b)) -> Fr o o' onmiss onmiss' ->
    Fr o o' (pick k onhit onmiss tbl) (pick k onhit' onmiss' tbl).
  Proof.
    intros Hh Hm. induction tbl as [|[v b] tbl IH]; [exact Hm|].
    cbn [pick]. destruct (value_eq k v).
    - apply Hh. now left.
    - apply IH. intros b0 Hb. apply Hh. now right.
  Qed.

  Lemma filter_preset_nil force o mixed ks : filter_preset unit force [] o mixed ks = ret unit ks.
  Proof.
    induction ks as [|k ks IH]; [reflexivity|].
    cbn [filter_preset]. assert (Hk : preset_drops force [] o mixed k = Some false).
    { unfold preset_drops. destruct k as [|s k']; [reflexivity|].
      cbn [lookup]. destruct s; reflexivity. }
    rewrite Hk, IH. reflexivity.
  Qed.

  Lemma Fr_pure_unit o o' (m m' : M unit) :
    (exists l, m tt = (Ok tt, tt, l) /\ filter is_read l = []) ->
    (exists l, m' tt = (Ok tt, tt, l) /\ filter is_read l = []) -> Fr o o' m m'.
  Proof. intros [l [E H]] [l' [E' H']] _. unfold obs. rewrite E, E'. cbn [fst snd]. congruence. Qed.


  (** *** Template nodes *)
  Lemma Fr_ext {A} o o' (m n m' n' : M A) :
    m tt = n tt -> m' tt = n' tt -> Fr o o' n n' -> Fr o o' m m'.
  Proof. unfold Fr. intros E E'. now rewrite E, E'. Qed.

  Lemma bind_assoc_tt {A B C} (m : M A) (f : A -> M B) (g : B -> M C) :
    bind unit (bind unit m f) g tt = bind unit m (fun a => bind unit (f a) g) tt.
  Proof.
    unfold bind. destruct (m tt) as [[[a|c ee] []] l]; [|reflexivity].
    destruct (f a tt) as [[[b|c ee] []] l2]; [|reflexivity].
    destruct (g b tt) as [[r []] l3]. now rewrite app_assoc.
  Qed.

  Lemma bind_ret_tt {A B} (a : A) (f : A -> M B) : bind unit (ret unit a) f tt = f a tt.
  Proof. unfold bind, ret. destruct (f a tt) as [[r []] l]. reflexivity. Qed.

  Lemma bind_fail_tt {A B} c ee (f : A -> M B) : bind unit (fail unit c ee) f tt = fail unit c ee tt.
  Proof. reflexivity. Qed.

  (** reads emitted, then a silent computation: it suffices that, under agreement on the emitted
      reads, the same reads are emitted and the silent computation is the same *)
  Lemma Fr_emit_then {A} o o' ks ks' (t t' : M A) :
    snd (t tt) = [] ->
    (agree_keys o o' ks -> ks' = ks /\ t' tt = t tt) ->
    Fr o o' (bind unit (emit_reads unit ks o) (fun _ => t)) (bind unit (emit_reads unit ks' o') (fun _ => t')).
  Proof.
    intros Hlog H. unfold Fr, obs, bind. rewrite !emit_reads_run. cbv beta iota.
    destruct (t tt) as [[r []] l] eqn:Et. cbn [snd] in Hlog. subst l. cbn [fst snd].
    rewrite app_nil_r, reads_of_map_read. intros Hag.
    destruct (H Hag) as [-> Et']. rewrite Et'. cbn [fst snd]. rewrite !app_nil_r. f_equal.
    rewrite !filter_read_map. apply map_ext_in. intros k Hk. unfold present. now rewrite (Hag k Hk).
  Qed.

  Definition tcont (d o : dict) (s : str) : M value :=
    bind unit (emit_reads unit (filter (fun k => negb (is_par_key k)) (resolve_reads fuel d (JStr s))) o)
      (fun _ => bind unit (of_rres unit (resolve fuel d (JStr s)))
         (fun j => match to_str j with
                   | Some r => ret unit (VJ (JStr r))
                   | None => fail unit CUnmodelled false
                   end)).

  Lemma Fr_tcont o o' pd s :
    no_par o = true -> no_par o' = true -> only_par pd ->
    Fr o o' (tcont (mix o pd) o s) (tcont (mix o' pd) o' s).
  Proof.
    intros Ho Ho' Hpd. unfold tcont. apply Fr_emit_then.
    - unfold bind, of_rres, ret, fail. destruct (resolve fuel (mix o pd) (JStr s)) as [j| | | |]; try reflexivity.
      destruct (to_str j); reflexivity.
    - intros Hag.
      pose proof (agree_mix o o' pd Ho Ho' Hpd _ Hag) as Hd.
      destruct (resolve_frame (mix o pd) (mix o' pd) fuel (JStr s) Hd) as [E1 E2].
      now rewrite E1, E2.
  Qed.

  Lemma par_kvs_are_par (pvs : list (N * value)) k v :
    In (k, v) (flat_map (fun pv => match json_of_value (snd pv) with
                                   | Some j => [(par_key (fst pv), j)] | None => [] end) pvs) ->
    exists p, k = par_key p.
  Proof.
    intros H. apply in_flat_map in H as [[p x] [_ H]]. cbn [fst snd] in H.
    destruct (json_of_value x); [|destruct H]. destruct H as [H|[]]. inversion H. now exists p.
  Qed.

  Lemma Fr_template_eval o o' s (ps : list (N * expr)) :
    no_par o = true -> no_par o' = true ->
    (forall pe, In pe ps -> Fr o o' (evalN (snd pe) o) (evalN (snd pe) o')) ->
    Fr o o'
      (bind unit (template_options unit (fun x => evalN x o) ps o) (fun d => tcont d o s))
      (bind unit (template_options unit (fun x => evalN x o') ps o') (fun d => tcont d o' s)).
  Proof.
    intros Ho Ho' HP. unfold template_options.
    eapply Fr_ext; [apply bind_assoc_tt|apply bind_assoc_tt|].
    apply Fr_bind.
    - apply Fr_mapM. intros pe Hpe. apply Fr_bind; [apply HP; exact Hpe|intros; apply Fr_refl].
    - intros pvs.
      destruct (option_set _ []) as [pd|] eqn:Eos.
      + destruct (negb (Nat.eqb (length pd) (length ps))).
        * eapply Fr_ext; [apply bind_fail_tt|apply bind_fail_tt|apply Fr_refl].
        * eapply Fr_ext; [apply bind_ret_tt|apply bind_ret_tt|].
          apply Fr_tcont; [exact Ho|exact Ho'|].
          apply (option_set_only_par _ [] pd (par_kvs_are_par pvs) Eos only_par_nil).
      + eapply Fr_ext; [apply bind_fail_tt|apply bind_fail_tt|apply Fr_refl].
  Qed.

  Lemma Fr_ref_validate o o' k :
    Fr o o'
      (bind unit (rd unit k o) (fun r =>
         match r with
         | TypeErr => fail unit CType false
         | Absent => fail unit (CKey k) true
         | Found raw =>
             bind unit (emit_reads unit (resolve_reads fuel o raw) o) (fun _ =>
               bind unit (wrap_eval unit (of_rres unit (resolve fuel o raw))) (fun _ => ret unit tt))
         end))
      (bind unit (rd unit k o') (fun r =>
         match r with
         | TypeErr => fail unit CType false
         | Absent => fail unit (CKey k) true
         | Found raw =>
             bind unit (emit_reads unit (resolve_reads fuel o' raw) o') (fun _ =>
               bind unit (wrap_eval unit (of_rres unit (resolve fuel o' raw))) (fun _ => ret unit tt))
         end)).
  Proof.
    apply Fr_bind; [apply Fr_rd|]. intros r. destruct r as [raw| |]; try apply Fr_refl.
    apply Fr_emit_then.
    - unfold bind, wrap_eval, of_rres, ret, fail. destruct (resolve fuel o raw); reflexivity.
    - intros Hag. destruct (resolve_frame o o' fuel raw Hag) as [E1 E2]. now rewrite E1, E2.
  Qed.

  Lemma frag_ps_In (ps : list (N * expr)) :
    (fix go (l : list (N * expr)) : bool :=
       match l with [] => true | (_, x) :: l' => frag x && go l' end) ps = true ->
    forall pe, In pe ps -> frag (snd pe) = true.
  Proof.
    induction ps as [|[p x] ps IH]; intros H pe Hpe; [destruct Hpe|].
    apply andb_prop in H as [Hx Ht]. destruct Hpe as [<-|Hpe]; auto.
  Qed.

  Definition FrAll (e : expr) : Prop :=
    forall o o', wf_dict o = true -> wf_dict o' = true -> no_par o = true -> no_par o' = true ->
      effects_opt_off o' = effects_opt_off o ->
      Fr o o' (evalN e o) (evalN e o') /\
      Fr o o' (validateN e o) (validateN e o') /\
      Fr o o' (keysN e o) (keysN e o').

  Definition FrOpt (x : option expr) : Prop := match x with Some e => FrAll e | None => True end.

  Lemma frag_tbl_In (tbl : list (value * expr)) :
    (fix go (l : list (value * expr)) : bool :=
       match l with [] => true | (_, x) :: l' => frag x && go l' end) tbl = true ->
    forall b, In b (map snd tbl) -> frag b = true.
  Proof.
    induction tbl as [|[v x] tbl IH]; intros H b Hb; [destruct Hb|].
    apply andb_prop in H as [Hx Ht]. destruct Hb as [<-|Hb]; auto.
  Qed.

  Lemma Forall_tbl_In (P : expr -> Prop) (tbl : list (value * expr)) :
    Forall (fun ve => P (snd ve)) tbl -> forall b, In b (map snd tbl) -> P b.
  Proof.
    intros H b Hb. apply in_map_iff in Hb as [[v x] [<- Hin]].
    rewrite Forall_forall in H. apply (H (v, x) Hin).
  Qed.

  Ltac fr := repeat (first [ apply Fr_wrap | apply Fr_bind | apply Fr_refl | apply Fr_rd | intro ]).

  Theorem frame_all e : frag e = true -> FrAll e.
  Proof.
    induction e using expr_ind'; intros Hf; cbn [frag] in Hf; try discriminate;
      intros o o' Hw Hw' Hnp Hnp' Hsw.
    - (* EValue *)
      repeat split; apply Fr_refl.
    - (* EOption *)
      apply andb_prop in Hf as [Hd Hdom].
      assert (HD : FrOpt dflt) by (destruct dflt; [apply H; exact Hd|exact I]).
      assert (HM : FrOpt dom) by (destruct dom; [apply H0; exact Hdom|exact I]).
      assert (Hev : Fr o o' (option_eval unit u fuel (fun x => evalN x o) k dflt dom o)
                           (option_eval unit u fuel (fun x => evalN x o') k dflt dom o')).
      { unfold option_eval. apply Fr_bind; [apply Fr_rd|]. intros r.
        apply Fr_bind.
        - destruct r as [raw| |]; [apply Fr_resolved| |apply Fr_refl].
          destruct dflt as [d|]; [|apply Fr_refl]. apply (HD o o' Hw Hw' Hnp Hnp' Hsw).
        - intros v. destruct dom as [de|]; [|apply Fr_refl].
          apply Fr_bind; [apply (HM o o' Hw Hw' Hnp Hnp' Hsw)|]. intros; apply Fr_refl. }
      repeat split.
      + unf eval_EOption. apply Fr_wrap. exact Hev.
      + unf validate_EOption. apply Fr_bind; [apply Fr_rd|]. intros r.
        destruct r as [raw| |]; [|destruct dflt as [d|]; [apply (HD o o' Hw Hw' Hnp Hnp' Hsw)|apply Fr_refl]|apply Fr_refl].
        apply Fr_bind; [apply Fr_wrap; exact Hev|intros; apply Fr_refl].
      + unf keys_EOption. apply Fr_bind; [apply Fr_rd|]. intros r.
        destruct r as [v| |]; [|destruct dflt as [d|]; [apply (HD o o' Hw Hw' Hnp Hnp' Hsw)|apply Fr_refl]|apply Fr_refl].
        destruct v; try apply Fr_refl.
        destruct (existsb _ s); [apply Fr_refl|].
        apply Fr_bind; [|intros; apply Fr_refl].
        apply Fr_unionM. intros; apply Fr_ref_keys.
    - (* EApply *)
      apply andb_prop in Hf as [Ha Hb].
      destruct (IHe1 Ha o o' Hw Hw' Hnp Hnp' Hsw) as (E1 & V1 & K1).
      destruct (IHe2 Hb o o' Hw Hw' Hnp Hnp' Hsw) as (E2 & V2 & K2).
      repeat split.
      + unf eval_EApply. apply Fr_wrap. apply Fr_bind; [exact E1|]. intros x.
        apply Fr_bind; [exact E2|]. intros; apply Fr_refl.
      + unf validate_EApply. apply Fr_bind; [exact V1|]. intros; exact V2.
      + unf keys_EApply. apply Fr_bind; [exact K1|]. intros a.
        apply Fr_bind; [exact K2|]. intros; apply Fr_refl.
    - (* EBind *)
      apply andb_prop in Hf as [Hf Hdf]. apply andb_prop in Hf as [Hs Ht].
      destruct (IHe Hs o o' Hw Hw' Hnp Hnp' Hsw) as (E1 & V1 & K1).
      assert (HT : forall b, In b (map snd tbl) -> FrAll b).
      { intros b Hb. apply (Forall_tbl_In (fun x => frag x = true -> FrAll x) _ H b Hb). apply (frag_tbl_In _ Ht b Hb). }
      assert (HD : FrOpt dflt) by (destruct dflt; [apply H0; exact Hdf|exact I]).
      repeat split.
      + unf eval_EBind. apply Fr_wrap. apply Fr_bind; [exact E1|]. intros x.
        apply Fr_pick.
        * intros b Hb. apply (HT b Hb o o' Hw Hw' Hnp Hnp' Hsw).
        * destruct dflt as [d|]; [apply (HD o o' Hw Hw' Hnp Hnp' Hsw)|apply Fr_refl].
      + unf validate_EBind. apply Fr_bind; [exact V1|]. intros _.
        apply Fr_bind; [exact E1|]. intros x. apply Fr_pick.
        * intros b Hb. apply (HT b Hb o o' Hw Hw' Hnp Hnp' Hsw).
        * destruct dflt as [d|]; [apply (HD o o' Hw Hw' Hnp Hnp' Hsw)|apply Fr_refl].
      + unf keys_EBind. apply Fr_bind; [exact K1|]. intros a.
        apply Fr_bind; [exact E1|]. intros x.
        apply Fr_bind; [|intros; apply Fr_refl]. apply Fr_pick.
        * intros b Hb. apply (HT b Hb o o' Hw Hw' Hnp Hnp' Hsw).
        * destruct dflt as [d|]; [apply (HD o o' Hw Hw' Hnp Hnp' Hsw)|apply Fr_refl].
    - (* ESwitch *)
      apply andb_prop in Hf as [Hf Hdf]. apply andb_prop in Hf as [Hs Ht].
      destruct (IHe Hs o o' Hw Hw' Hnp Hnp' Hsw) as (E1 & V1 & K1).
      assert (HT : forall b, In b (map snd tbl) -> FrAll b).
      { intros b Hb. apply (Forall_tbl_In (fun x => frag x = true -> FrAll x) _ H b Hb). apply (frag_tbl_In _ Ht b Hb). }
      assert (HD : FrOpt dflt) by (destruct dflt; [apply H0; exact Hdf|exact I]).
      assert (Hdisp : Fr o o' (dispatch_value unit (evalN e o) (is_some dflt))
                              (dispatch_value unit (evalN e o') (is_some dflt))).
      { unfold dispatch_value. apply Fr_catch.
        - apply Fr_bind; [exact E1|intros; apply Fr_refl].
        - intros; apply Fr_refl. }
      repeat split.
      + unf eval_ESwitch. apply Fr_wrap. apply Fr_bind; [exact Hdisp|]. intros dv.
        destruct dv as [k|].
        * destruct (negb (hashable k)); [apply Fr_refl|]. apply Fr_pick.
          -- intros b Hb. apply (HT b Hb o o' Hw Hw' Hnp Hnp' Hsw).
          -- destruct dflt as [d|]; [apply (HD o o' Hw Hw' Hnp Hnp' Hsw)|apply Fr_refl].
        * destruct dflt as [d|]; [apply (HD o o' Hw Hw' Hnp Hnp' Hsw)|apply Fr_refl].
      + unf validate_ESwitch. apply Fr_bind; [exact Hdisp|]. intros dv.
        destruct dv as [k|].
        * destruct (negb (hashable k)); [apply Fr_refl|]. apply Fr_pick.
          -- intros b Hb. apply (HT b Hb o o' Hw Hw' Hnp Hnp' Hsw).
          -- destruct dflt as [d|]; [apply (HD o o' Hw Hw' Hnp Hnp' Hsw)|apply Fr_refl].
        * destruct dflt as [d|]; [apply (HD o o' Hw Hw' Hnp Hnp' Hsw)|apply Fr_refl].
      + unf keys_ESwitch. apply Fr_bind; [exact Hdisp|]. intros dv.
        destruct dv as [k|].
        * destruct (negb (hashable k)); [apply Fr_refl|].
          apply Fr_bind.
          -- apply Fr_pick.
             ++ intros b Hb. apply (HT b Hb o o' Hw Hw' Hnp Hnp' Hsw).
             ++ destruct dflt as [d|]; [apply (HD o o' Hw Hw' Hnp Hnp' Hsw)|apply Fr_refl].
          -- intros a. apply Fr_bind; [exact K1|intros; apply Fr_refl].
        * destruct dflt as [d|]; [apply (HD o o' Hw Hw' Hnp Hnp' Hsw)|apply Fr_refl].
    - (* ECase *)
      apply andb_prop in Hf as [Hf Hdf]. apply andb_prop in Hf as [Hs Ht].
      destruct (IHe Hs o o' Hw Hw' Hnp Hnp' Hsw) as (E1 & V1 & K1).
      assert (HD : FrOpt dflt) by (destruct dflt; [apply H0; exact Hdf|exact I]).
      repeat split.
      + unf eval_ECase. apply Fr_wrap. apply Fr_bind; [exact E1|]. intros x.
        clear IHe E1 V1 K1 Hs. induction H as [|[c r] cases [Hc Hr] Hrest IH].
        * destruct dflt as [d|]; [apply (HD o o' Hw Hw' Hnp Hnp' Hsw)|apply Fr_refl].
        * cbn [fst snd] in *. apply andb_prop in Ht as [Ht1 Ht]. apply andb_prop in Ht1 as [Fc Frr].
          cbv beta iota. apply Fr_bind; [apply (Hc Fc o o' Hw Hw' Hnp Hnp' Hsw)|]. intros p.
          apply Fr_bind; [apply Fr_refl|]. intros b.
          destruct (truthy b); [apply (Hr Frr o o' Hw Hw' Hnp Hnp' Hsw)|apply IH; exact Ht].
      + unf validate_ECase. apply Fr_bind; [exact V1|]. intros _.
        apply Fr_bind; [exact E1|]. intros x.
        clear IHe E1 V1 K1 Hs. induction H as [|[c r] cases [Hc Hr] Hrest IH].
        * destruct dflt as [d|]; [apply (HD o o' Hw Hw' Hnp Hnp' Hsw)|apply Fr_refl].
        * cbn [fst snd] in *. apply andb_prop in Ht as [Ht1 Ht]. apply andb_prop in Ht1 as [Fc Frr].
          cbv beta iota. apply Fr_bind; [apply (Hc Fc o o' Hw Hw' Hnp Hnp' Hsw)|]. intros p.
          apply Fr_bind; [apply Fr_refl|]. intros b.
          destruct (truthy b); [apply (Hr Frr o o' Hw Hw' Hnp Hnp' Hsw)|apply IH; exact Ht].
      + unf keys_ECase. apply Fr_bind; [exact K1|]. intros a.
        apply Fr_bind; [exact E1|]. intros x.
        apply Fr_bind; [|intros; apply Fr_refl].
        clear IHe E1 V1 K1 Hs. induction H as [|[c r] cases [Hc Hr] Hrest IH].
        * destruct dflt as [d|]; [apply (HD o o' Hw Hw' Hnp Hnp' Hsw)|apply Fr_refl].
        * cbn [fst snd] in *. apply andb_prop in Ht as [Ht1 Ht]. apply andb_prop in Ht1 as [Fc Frr].
          cbv beta iota. apply Fr_bind; [apply (Hc Fc o o' Hw Hw' Hnp Hnp' Hsw)|]. intros p.
          apply Fr_bind; [apply Fr_refl|]. intros b.
          destruct (truthy b); [apply (Hr Frr o o' Hw Hw' Hnp Hnp' Hsw)|apply IH; exact Ht].
    - (* ECoalesce *)
      repeat split.
      + unf eval_ECoalesce. apply Fr_wrap. generalize (@None (cause * bool)).
        induction H as [|m ms Hm Hrest IH]; intros last.
        * apply Fr_refl.
        * apply andb_prop in Hf as [Fm Fms]. destruct (Hm Fm o o' Hw Hw' Hnp Hnp' Hsw) as (E1 & V1 & K1).
          cbv beta iota. apply Fr_catch.
          -- apply Fr_bind; [exact V1|intros; exact E1].
          -- intros c ee. destruct ee; [apply IH; exact Fms|apply Fr_refl].
      + unf validate_ECoalesce. generalize (@None (cause * bool)).
        induction H as [|m ms Hm Hrest IH]; intros last.
        * apply Fr_refl.
        * apply andb_prop in Hf as [Fm Fms]. destruct (Hm Fm o o' Hw Hw' Hnp Hnp' Hsw) as (E1 & V1 & K1).
          cbv beta iota. apply Fr_catch.
          -- apply Fr_bind; [exact V1|intros; exact V1].
          -- intros c ee. destruct ee; [apply IH; exact Fms|apply Fr_refl].
      + unf keys_ECoalesce. generalize (@None (cause * bool)).
        induction H as [|m ms Hm Hrest IH]; intros last.
        * apply Fr_refl.
        * apply andb_prop in Hf as [Fm Fms]. destruct (Hm Fm o o' Hw Hw' Hnp Hnp' Hsw) as (E1 & V1 & K1).
          cbv beta iota. apply Fr_catch.
          -- apply Fr_bind; [exact V1|intros; exact K1].
          -- intros c ee. destruct ee; [apply IH; exact Fms|apply Fr_refl].
    - (* EIter *)
      assert (HA : forall x, In x es -> FrAll x).
      { intros x Hx. rewrite Forall_forall in H. apply (H x Hx). apply (frag_all_In es Hf x Hx). }
      repeat split.
      + unf eval_EIter. apply Fr_wrap. apply Fr_bind; [|intros; apply Fr_refl].
        clear H Hf. induction es as [|x es IH]; [apply Fr_refl|].
        cbv beta iota. apply Fr_catch; [|intros; apply Fr_refl].
        apply Fr_bind; [apply (HA x (or_introl eq_refl) o o' Hw Hw' Hnp Hnp' Hsw)|]. intros v.
        destruct (is_some (deep_err v)); [apply Fr_refl|].
        apply Fr_bind; [|intros; apply Fr_refl]. apply IH. intros y Hy. apply HA. now right.
      + unf validate_EIter. apply Fr_iterM. intros x Hx. apply (HA x Hx o o' Hw Hw' Hnp Hnp' Hsw).
      + unf keys_EIter. apply Fr_unionM. intros x Hx. apply (HA x Hx o o' Hw Hw' Hnp Hnp' Hsw).
    - (* EWith *)
      destruct p; [|discriminate].
      destruct (IHe Hf o o' Hw Hw' Hnp Hnp' Hsw) as (E1 & V1 & K1).
      repeat split.
      + unf eval_EWith. rewrite !with_opts_nil by assumption. apply Fr_wrap. exact E1.
      + unf validate_EWith. rewrite !with_opts_nil by assumption. exact V1.
      + unf keys_EWith. cbv zeta. rewrite !with_opts_nil by assumption.
        apply Fr_bind; [exact K1|]. intros ks. rewrite !filter_preset_nil. apply Fr_refl.
    - (* ECached *)
      destruct (IHe Hf o o' Hw Hw' Hnp Hnp' Hsw) as (E1 & V1 & K1).
      repeat split.
      + unf eval_ECached. apply Fr_wrap. destruct c; [|exact E1].
        cbn [cfg_nc cache_ctx_off orb]. exact E1.
      + unf validate_ECached. destruct c; [|exact V1].
        cbn [cfg_nc cache_ctx_off orb]. exact V1.
      + unf keys_ECached. exact K1.
    - (* ECall *)
      apply andb_prop in Hf as [Hf Hkw]. apply andb_prop in Hf as [Hfn Har].
      destruct (IHe Hfn o o' Hw Hw' Hnp Hnp' Hsw) as (E1 & V1 & K1).
      assert (HA : forall x, In x args -> FrAll x).
      { intros x Hx. rewrite Forall_forall in H. apply (H x Hx). apply (frag_all_In args Har x Hx). }
      assert (HK : forall x, In x kwargs -> FrAll x).
      { intros x Hx. rewrite Forall_forall in H0. apply (H0 x Hx). apply (frag_all_In kwargs Hkw x Hx). }
      repeat split.
      + unf eval_ECall. apply Fr_wrap. apply Fr_bind; [exact E1|]. intros fv.
        apply Fr_bind; [apply Fr_mapM; intros x Hx; apply (HA x Hx o o' Hw Hw' Hnp Hnp' Hsw)|]. intros av.
        apply Fr_bind; [apply Fr_mapM; intros x Hx; apply (HK x Hx o o' Hw Hw' Hnp Hnp' Hsw)|]. intros kv.
        apply Fr_refl.
      + unf validate_ECall. apply Fr_bind; [exact V1|]. intros _.
        apply Fr_bind; [apply Fr_iterM; intros x Hx; apply (HA x Hx o o' Hw Hw' Hnp Hnp' Hsw)|]. intros _.
        apply Fr_iterM; intros x Hx; apply (HK x Hx o o' Hw Hw' Hnp Hnp' Hsw).
      + unf keys_ECall. apply Fr_bind; [exact K1|]. intros a.
        apply Fr_bind; [apply Fr_unionM; intros x Hx; apply (HA x Hx o o' Hw Hw' Hnp Hnp' Hsw)|]. intros b.
        apply Fr_bind; [apply Fr_unionM; intros x Hx; apply (HK x Hx o o' Hw Hw' Hnp Hnp' Hsw)|]. intros c.
        apply Fr_refl.
    - (* ETemplate *)
      assert (HA : forall pe, In pe ps -> FrAll (snd pe)).
      { intros pe Hpe. rewrite Forall_forall in H. apply (H pe Hpe). apply (frag_ps_In ps Hf pe Hpe). }
      repeat split.
      + unf eval_ETemplate. apply Fr_wrap.
        apply (Fr_template_eval o o' s ps Hnp Hnp').
        intros pe Hpe. apply (HA pe Hpe o o' Hw Hw' Hnp Hnp' Hsw).
      + unf validate_ETemplate. apply Fr_bind.
        * apply Fr_iterM. intros pe Hpe. apply (HA pe Hpe o o' Hw Hw' Hnp Hnp' Hsw).
        * intros _. apply Fr_iterM. intros k _. apply Fr_ref_validate.
      + unf keys_ETemplate. apply Fr_bind.
        * apply Fr_unionM. intros pe Hpe. apply (HA pe Hpe o o' Hw Hw' Hnp Hnp' Hsw).
        * intros a. apply Fr_bind; [|intros; apply Fr_refl].
          apply Fr_unionM. intros; apply Fr_ref_keys.
    - (* EComp *)
      apply andb_prop in Hf as [Hfe Heff].
      destruct (IHe Hfe o o' Hw Hw' Hnp Hnp' Hsw) as (E1 & V1 & K1).
      assert (HA : forall x, In x effects -> FrAll x).
      { intros x Hx. rewrite Forall_forall in H. apply (H x Hx). apply (frag_all_In effects Heff x Hx). }
      repeat split.
      + unf eval_EComp. apply Fr_wrap. apply Fr_bind; [exact E1|]. intros v.
        apply Fr_bind; [|intros; apply Fr_refl].
        assert (HI : Fr o o' (iterM unit (fun eff => bind unit (evalN eff o) (fun f => bind unit (call_value unit u f v) (fun _ => ret unit tt))) effects)
                             (iterM unit (fun eff => bind unit (evalN eff o') (fun f => bind unit (call_value unit u f v) (fun _ => ret unit tt))) effects)).
        { apply Fr_iterM. intros x Hx. apply Fr_bind; [apply (HA x Hx o o' Hw Hw' Hnp Hnp' Hsw)|]. intros; apply Fr_refl. }
        rewrite Hsw. destruct (effects_opt_off o); [apply Fr_refl|exact HI].
      + unf validate_EComp. apply Fr_bind; [exact V1|]. intros _.
        assert (HI : Fr o o' (iterM unit (fun x => validateN x o) effects) (iterM unit (fun x => validateN x o') effects)).
        { apply Fr_iterM. intros x Hx. apply (HA x Hx o o' Hw Hw' Hnp Hnp' Hsw). }
        rewrite Hsw. destruct (effects_opt_off o); [apply Fr_refl|exact HI].
      + unf keys_EComp. exact K1.
    - (* ELogged *)
      destruct (IHe Hf o o' Hw Hw' Hnp Hnp' Hsw) as (E1 & V1 & K1).
      repeat split.
      + unf eval_ELogged. apply Fr_wrap. apply Fr_bind; [apply Fr_refl|]. intros _.
        apply Fr_bind; [|intros; exact E1].
        apply Fr_pure_unit.
        * destruct (log_ctx_off cfg_nc || logging_opt_off o); eexists; split; reflexivity.
        * destruct (log_ctx_off cfg_nc || logging_opt_off o'); eexists; split; reflexivity.
      + unf validate_ELogged. exact V1.
      + unf keys_ELogged. exact K1.
    - (* EPipe *)
      assert (HA : forall x, In x steps -> FrAll x).
      { intros x Hx. rewrite Forall_forall in H. apply (H x Hx). apply (frag_all_In steps Hf x Hx). }
      repeat split.
      + unf eval_EPipe. apply Fr_wrap. apply Fr_bind; [|intros; apply Fr_refl].
        apply Fr_mapM; intros x Hx; apply (HA x Hx o o' Hw Hw' Hnp Hnp' Hsw).
      + unf validate_EPipe. apply Fr_iterM; intros x Hx; apply (HA x Hx o o' Hw Hw' Hnp Hnp' Hsw).
      + unf keys_EPipe. apply Fr_unionM; intros x Hx; apply (HA x Hx o o' Hw Hw' Hnp Hnp' Hsw).
  Qed.
End FrameTheorem.
