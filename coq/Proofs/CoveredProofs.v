(** Soundness of the boolean hypothesis checker (CoveredDefs.v): an operation it marks as covered
    satisfies the hypotheses of C01_history_transparent. *)
From Coq Require Import List NArith ZArith Bool Lia.
Import ListNotations.
From LV Require Import Model.Base Model.Template Model.Eval Model.Derived Model.EvalRun Proofs.BaseProofs Proofs.EvalProofs Proofs.EvalInd.
From LV Require Import Proofs.FrameProofs Proofs.TemplateFrame Proofs.FrameTheorem Proofs.CacheSim.
From LV Require Import Proofs.CoveredDefs.

Lemma cause_eqb_true a b : cause_eqb a b = true -> a = b.
Proof.
  destruct a, b; cbn [cause_eqb]; try discriminate; try reflexivity.
  - intros H. apply key_eqb_eq in H. now subst.
  - intros H. apply N.eqb_eq in H. now subst.
Qed.

Section Sound.
  Variable u : N -> list value -> cres.
  Variable fuel : nat.
  Variable sites : N -> option expr.
  Variable esw : bool.
  Variable sl : list (N * expr).
  Hypothesis sites_listed : forall c b, sites c = Some b -> In (c, b) sl.

  Lemma agree_atb_sound b o : agree_atb u fuel b o = true -> agree_at u fuel b o.
  Proof.
    unfold agree_atb, agree_at, resN. fold (rawK u fuel b o) (rawE u fuel b o) (rawV u fuel b o).
    intros H. apply andb_prop in H as [H1 H2].
    destruct (rawK u fuel b o) as [ks|ck eek].
    - split; [intros; discriminate|]. split; [intros; discriminate|].
      intros v Hv. rewrite Hv in H2. destruct (rawV u fuel b o) as [[]|cw eew]; [reflexivity|discriminate].
    - apply andb_prop in H1 as [Ha Hb].
      destruct (rawE u fuel b o) as [v|cv eev]; [discriminate|]. destruct eev; [|discriminate].
      destruct (rawV u fuel b o) as [[]|cw eew]; [discriminate|].
      apply andb_prop in Hb as [Hb Hc].
      apply cause_eqb_true in Ha. apply cause_eqb_true in Hb. apply Bool.eqb_prop in Hc. subst.
      split; [|split]; intros; try discriminate.
      + match goal with E : Err _ _ = Err _ _ |- _ => inversion E; subst end. reflexivity.
      + match goal with E : Err _ _ = Err _ _ |- _ => inversion E; subst end. reflexivity.
  Qed.

  Lemma site_cleanb_sound b o : site_cleanb u fuel b o = true -> site_clean u fuel b o.
  Proof.
    unfold site_cleanb, site_clean. intros H. apply andb_prop in H as [H H4]. apply andb_prop in H as [H H3].
    apply andb_prop in H as [H1 H2].
    split; [exact H1|]. split; [now apply agree_atb_sound|]. split.
    - intros v Hv. unfold rawE, resN in *. rewrite Hv in H3. now apply negb_true_iff in H3.
    - intros K HK. unfold rawK in H4. rewrite HK in H4. now apply Bool.eqb_prop in H4.
  Qed.

  Lemma okdb_sound o : okdb u fuel esw sl o = true -> okd u fuel sites esw o.
  Proof.
    unfold okdb, okd. intros H. apply andb_prop in H as [H Hs]. apply andb_prop in H as [H He].
    apply andb_prop in H as [Hw Hnp].
    split; [exact Hw|]. split; [exact Hnp|]. split; [now apply Bool.eqb_prop in He|].
    intros c b Hcb. rewrite forallb_forall in Hs. apply site_cleanb_sound.
    apply (Hs (c, b)). now apply sites_listed.
  Qed.

  Definition cohP (e : expr) : Prop := forall cb, In cb (sites_of e) -> sites (fst cb) = Some (snd cb).

  Lemma in_sites_list (l : list expr) x cb :
    In x l -> In cb (sites_of x) ->
    In cb ((fix go (l : list expr) := match l with [] => [] | x :: l' => sites_of x ++ go l' end) l).
  Proof.
    induction l as [|a l IH]; intros Hx Hc; [destruct Hx|].
    apply in_or_app. destruct Hx as [<-|Hx]; [now left|right; now apply IH].
  Qed.
  Lemma in_sites_tbl (l : list (value * expr)) x cb :
    In x (map snd l) -> In cb (sites_of x) ->
    In cb ((fix go (l : list (value * expr)) := match l with [] => [] | (_, x) :: l' => sites_of x ++ go l' end) l).
  Proof.
    induction l as [|[v a] l IH]; intros Hx Hc; [destruct Hx|].
    apply in_or_app. destruct Hx as [<-|Hx]; [now left|right; now apply IH].
  Qed.

  Definition SC (e : expr) : Prop :=
    forall o (D : dict -> Prop), (forall o', D o' -> o' = o) ->
      scohb u fuel esw sl e o = true -> cohP e -> scoh u fuel sites esw e D.
  Definition SCopt (x : option expr) : Prop := match x with Some e => SC e | None => True end.

  Lemma scohb_list_In (l : list expr) o :
    (fix go (l : list expr) : bool := match l with [] => true | x :: l' => scohb u fuel esw sl x o && go l' end) l = true ->
    forall x, In x l -> scohb u fuel esw sl x o = true.
  Proof.
    induction l as [|a l IH]; intros H x Hx; [destruct Hx|].
    apply andb_prop in H as [Ha Hl]. destruct Hx as [<-|Hx]; auto.
  Qed.

  Lemma scoh_list (l : list expr) D :
    (forall x, In x l -> scoh u fuel sites esw x D) ->
    (fix go (l : list expr) : Prop := match l with [] => True | x :: l' => scoh u fuel sites esw x D /\ go l' end) l.
  Proof.
    induction l as [|a l IH]; intros H; [exact I|]. split; [apply H; now left|apply IH; intros; apply H; now right].
  Qed.

  Theorem scohb_sound e : SC e.
  Proof.
    induction e using expr_ind'; intros o D HD Hb Hc; cbn [scohb] in Hb; try discriminate; cbn [scoh].
    - exact I.
    - (* EOption *)
      apply andb_prop in Hb as [Hd Hm]. split.
      + destruct dflt as [d|]; [|exact I]. apply (H o D HD Hd). intros cb Hin. apply Hc. cbn [sites_of]. apply in_or_app. now left.
      + destruct dom as [d|]; [|exact I]. apply (H0 o D HD Hm). intros cb Hin. apply Hc. cbn [sites_of]. apply in_or_app. now right.
    - (* EApply *)
      apply andb_prop in Hb as [Ha Hb]. split.
      + apply (IHe1 o D HD Ha). intros cb Hin. apply Hc. cbn [sites_of]. apply in_or_app. now left.
      + apply (IHe2 o D HD Hb). intros cb Hin. apply Hc. cbn [sites_of]. apply in_or_app. now right.
    - (* EBind *)
      apply andb_prop in Hb as [Hb Hd]. apply andb_prop in Hb as [Hs Ht]. split; [|split].
      + apply (IHe o D HD Hs). intros cb Hin. apply Hc. cbn [sites_of]. apply in_or_app. now left.
      + assert (G : forall b, In b (map snd tbl) -> scoh u fuel sites esw b D).
        { intros b Hin. apply (Forall_tbl_In SC _ H b Hin o D HD).
          - clear -Ht Hin. induction tbl as [|[v x] tbl IH]; [destruct Hin|].
            apply andb_prop in Ht as [Hx Ht]. destruct Hin as [<-|Hin]; auto.
          - intros cb Hcb. apply Hc. cbn [sites_of]. apply in_or_app. right. apply in_or_app. left.
            now apply (in_sites_tbl tbl b cb Hin). }
        clear -G. induction tbl as [|[v x] tbl IH]; [exact I|]. split; [apply G; now left|apply IH; intros; apply G; now right].
      + destruct dflt as [d|]; [|exact I]. apply (H0 o D HD Hd). intros cb Hin. apply Hc. cbn [sites_of].
        apply in_or_app. right. apply in_or_app. now right.
    - (* ESwitch *)
      apply andb_prop in Hb as [Hb Hd]. apply andb_prop in Hb as [Hs Ht]. split; [|split].
      + apply (IHe o D HD Hs). intros cb Hin. apply Hc. cbn [sites_of]. apply in_or_app. now left.
      + assert (G : forall b, In b (map snd tbl) -> scoh u fuel sites esw b D).
        { intros b Hin. apply (Forall_tbl_In SC _ H b Hin o D HD).
          - clear -Ht Hin. induction tbl as [|[v x] tbl IH]; [destruct Hin|].
            apply andb_prop in Ht as [Hx Ht]. destruct Hin as [<-|Hin]; auto.
          - intros cb Hcb. apply Hc. cbn [sites_of]. apply in_or_app. right. apply in_or_app. left.
            now apply (in_sites_tbl tbl b cb Hin). }
        clear -G. induction tbl as [|[v x] tbl IH]; [exact I|]. split; [apply G; now left|apply IH; intros; apply G; now right].
      + destruct dflt as [d|]; [|exact I]. apply (H0 o D HD Hd). intros cb Hin. apply Hc. cbn [sites_of].
        apply in_or_app. right. apply in_or_app. now right.
    - (* ECase *)
      apply andb_prop in Hb as [Hb Hd]. apply andb_prop in Hb as [Hs Ht]. split; [|split].
      + apply (IHe o D HD Hs). intros cb Hin. apply Hc. cbn [sites_of]. apply in_or_app. now left.
      + assert (Hc' : forall cb, In cb ((fix go (l : list (expr * expr)) := match l with [] => [] | (c, r) :: l' => sites_of c ++ sites_of r ++ go l' end) cases) -> sites (fst cb) = Some (snd cb)).
        { intros cb Hin. apply Hc. cbn [sites_of]. apply in_or_app. right. apply in_or_app. now left. }
        clear Hc IHe Hs Hd H0. induction H as [|[c r] cases [Hcc Hr] Hrest IH]; [exact I|].
        cbn [fst snd] in *. apply andb_prop in Ht as [Ht1 Ht]. apply andb_prop in Ht1 as [Fc Fr].
        split; [split|].
        * apply (Hcc o D HD Fc). intros cb Hin. apply Hc'. apply in_or_app. now left.
        * apply (Hr o D HD Fr). intros cb Hin. apply Hc'. apply in_or_app. right. apply in_or_app. now left.
        * apply IH; [exact Ht|]. intros cb Hin. apply Hc'. apply in_or_app. right. apply in_or_app. now right.
      + destruct dflt as [d|]; [|exact I]. apply (H0 o D HD Hd). intros cb Hin. apply Hc. cbn [sites_of].
        apply in_or_app. right. apply in_or_app. now right.
    - (* ECoalesce *)
      apply scoh_list. intros x Hx. rewrite Forall_forall in H. apply (H x Hx o D HD).
      + now apply (scohb_list_In ms o Hb).
      + intros cb Hin. apply Hc. cbn [sites_of]. now apply (in_sites_list ms x cb Hx).
    - (* EIter *)
      apply scoh_list. intros x Hx. rewrite Forall_forall in H. apply (H x Hx o D HD).
      + now apply (scohb_list_In es o Hb).
      + intros cb Hin. apply Hc. cbn [sites_of]. now apply (in_sites_list es x cb Hx).
    - (* EWith *)
      apply (IHe (with_opts force p o) _); [|exact Hb|exact Hc].
      intros o' (o0 & Ho0 & ->). now rewrite (HD o0 Ho0).
    - (* ECached *)
      apply andb_prop in Hb as [Hb Hs]. apply andb_prop in Hb as [Hf Hok].
      split; [exact Hf|]. split; [|split].
      + intros o' Ho'. rewrite (HD o' Ho'). now apply okdb_sound.
      + apply (IHe o D HD Hs). intros cb Hin. apply Hc. cbn [sites_of]. apply in_or_app. now right.
      + destruct c as [cid|]; [|exact I]. apply (Hc (cid, e)). cbn [sites_of]. now left.
    - (* ECall *)
      apply andb_prop in Hb as [Hb Hk]. apply andb_prop in Hb as [Hf Ha]. split; [|split].
      + apply (IHe o D HD Hf). intros cb Hin. apply Hc. cbn [sites_of]. apply in_or_app. now left.
      + apply scoh_list. intros x Hx. rewrite Forall_forall in H. apply (H x Hx o D HD).
        * now apply (scohb_list_In args o Ha).
        * intros cb Hin. apply Hc. cbn [sites_of]. apply in_or_app. right. apply in_or_app. left.
          now apply (in_sites_list args x cb Hx).
      + apply scoh_list. intros x Hx. rewrite Forall_forall in H0. apply (H0 x Hx o D HD).
        * now apply (scohb_list_In kwargs o Hk).
        * intros cb Hin. apply Hc. cbn [sites_of]. apply in_or_app. right. apply in_or_app. right.
          now apply (in_sites_list kwargs x cb Hx).
    - (* ETemplate *)
      assert (G : forall (l : list (N * expr)), Forall (fun pe => SC (snd pe)) l ->
        (fix go (l : list (N * expr)) : bool :=
           match l with [] => true | (_, x) :: l' => scohb u fuel esw sl x o && go l' end) l = true ->
        (forall cb, In cb ((fix go (l : list (N * expr)) := match l with [] => [] | (_, x) :: l' => sites_of x ++ go l' end) l) ->
                    sites (fst cb) = Some (snd cb)) ->
        (fix go (l : list (N * expr)) : Prop :=
           match l with [] => True | (_, x) :: l' => scoh u fuel sites esw x D /\ go l' end) l).
      { induction l as [|[p x] l IHl]; intros HF Hbl Hcl; [exact I|].
        inversion HF as [|? ? Hx HF']; subst. apply andb_prop in Hbl as [Hbx Hbl]. split.
        - apply (Hx o D HD Hbx). intros cb Hin. apply Hcl. apply in_or_app. now left.
        - apply IHl; [exact HF'|exact Hbl|]. intros cb Hin. apply Hcl. apply in_or_app. now right. }
      apply (G ps H Hb). intros cb Hin. apply Hc. exact Hin.
    - (* EComp *)
      apply andb_prop in Hb as [Hbe Hbf]. split.
      + apply (IHe o D HD Hbe). intros cb Hin. apply Hc. cbn [sites_of]. apply in_or_app. now left.
      + apply scoh_list. intros x Hx. rewrite Forall_forall in H. apply (H x Hx o D HD).
        * now apply (scohb_list_In effects o Hbf).
        * intros cb Hin. apply Hc. cbn [sites_of]. apply in_or_app. right. now apply (in_sites_list effects x cb Hx).
    - (* ELogged *)
      apply (IHe o D HD Hb). exact Hc.
    - (* EPipe *)
      apply scoh_list. intros x Hx. rewrite Forall_forall in H. apply (H x Hx o D HD).
      + now apply (scohb_list_In steps o Hb).
      + intros cb Hin. apply Hc. cbn [sites_of]. now apply (in_sites_list steps x cb Hx).
  Qed.
End Sound.

(** ** a history all of whose operations the checker marks as covered satisfies [hist_ok], hence is
    transparent; [sites] is any function that agrees with the cache sites occurring in the
    expressions (it exists as soon as each cache id occurs with one cached expression, which the
    harness guarantees by construction: cache ids are dataset / cached-node identities) *)
Theorem covered_hist_ok u fuel sites esw (es : list expr) (h : list hop) :
  (forall c b, sites c = Some b -> In (c, b) (flat_map sites_of es)) ->
  (forall cb, In cb (flat_map sites_of es) -> sites (fst cb) = Some (snd cb)) ->
  (forall p, In p h -> In (hop_expr p) es /\
                       scohb u fuel esw (flat_map sites_of es) (hop_expr p) (hop_opts p) = true) ->
  hist_ok u fuel sites esw h.
Proof.
  intros H1 H2 Hh p Hp. destruct (Hh p Hp) as [Hin Hb].
  apply (scohb_sound u fuel sites esw (flat_map sites_of es) H1 (hop_expr p) (hop_opts p) (eq (hop_opts p))).
  - intros o' Ho'. now symmetry.
  - exact Hb.
  - intros cb Hcb. apply H2. apply in_flat_map. exists (hop_expr p). split; assumption.
Qed.

Corollary covered_history_transparent u fuel cfg site_ok sites esw (es : list expr) (h : list hop) :
  (forall c b, sites c = Some b -> In (c, b) (flat_map sites_of es)) ->
  (forall cb, In cb (flat_map sites_of es) -> sites (fst cb) = Some (snd cb)) ->
  (forall p, In p h -> In (hop_expr p) es /\
                       scohb u fuel esw (flat_map sites_of es) (hop_expr p) (hop_opts p) = true) ->
  run_hist u fuel cfg site_ok h [] = map (ref_op u fuel) h.
Proof.
  intros H1 H2 Hh. apply history_transparent_from_empty with (sites := sites) (esw := esw).
  now apply (covered_hist_ok u fuel sites esw es h).
Qed.
